(* cosmossdk.io/math LegacyDec (18 decimals) as an integer scaled by 10^18 — the operations used by
   fx-core's gov code, transcribed from math@v1.3.0/dec.go:
     Mul     = chopPrecisionAndRound(a*b)             (banker's rounding)
     MulInt  = a*n                                    (exact)
     Quo     = chopPrecisionAndRound((a*10^36) quo b) (big.Int.Quo truncates towards zero)
     RoundInt / TruncateInt
   No proofs about overflow: LegacyDec panics above 2^315, far outside every amount in the models. *)
From Coq Require Import ZArith Lia Bool.
Open Scope Z_scope.

Definition prec : Z := 1000000000000000000.
Definition half_prec : Z := 500000000000000000.

Definition dec_of_int (n : Z) : Z := n * prec.

Definition chop_round_pos (x : Z) : Z :=
  let q := x / prec in
  let r := x mod prec in
  if r =? 0 then q
  else match r ?= half_prec with
       | Lt => q
       | Gt => q + 1
       | Eq => if Z.even q then q else q + 1
       end.

Definition chop_round (x : Z) : Z :=
  if x <? 0 then - chop_round_pos (- x) else chop_round_pos x.

Definition dec_mul (a b : Z) : Z := chop_round (a * b).
Definition dec_mul_int (a n : Z) : Z := a * n.
Definition dec_quo (a b : Z) : Z := chop_round (Z.quot (a * (prec * prec)) b).
Definition dec_round_int (a : Z) : Z := chop_round a.
Definition dec_trunc_int (a : Z) : Z := Z.quot a prec.

(* ---- basic facts ---- *)
Lemma prec_pos : 0 < prec. Proof. reflexivity. Qed.
Lemma half_twice : 2 * half_prec = prec. Proof. reflexivity. Qed.

Lemma chop_round_pos_bounds : forall x, 0 <= x ->
  x - half_prec <= chop_round_pos x * prec <= x + half_prec.
Proof.
  intros x Hx. unfold chop_round_pos.
  pose proof (Z.div_mod x prec ltac:(discriminate)) as E.
  pose proof (Z.mod_pos_bound x prec prec_pos) as B.
  pose proof half_twice as HT.
  set (q := x / prec) in *. set (r := x mod prec) in *.
  destruct (r =? 0) eqn:R0.
  - apply Z.eqb_eq in R0. lia.
  - destruct (r ?= half_prec) eqn:C.
    + apply Z.compare_eq in C. destruct (Z.even q); lia.
    + rewrite Z.compare_lt_iff in C. lia.
    + rewrite Z.compare_gt_iff in C. lia.
Qed.

Lemma chop_round_pos_nonneg : forall x, 0 <= x -> 0 <= chop_round_pos x.
Proof.
  intros x Hx. unfold chop_round_pos.
  assert (0 <= x / prec) by (apply Z.div_pos; [lia | reflexivity]).
  destruct (x mod prec =? 0); [lia|].
  destruct (x mod prec ?= half_prec); [destruct (Z.even (x / prec))| |]; lia.
Qed.

Lemma chop_round_nonneg : forall x, 0 <= x -> 0 <= chop_round x.
Proof.
  intros x Hx. unfold chop_round.
  destruct (x <? 0) eqn:L; [apply Z.ltb_lt in L; lia|]. now apply chop_round_pos_nonneg.
Qed.

Lemma chop_round_exact : forall n, 0 <= n -> chop_round (n * prec) = n.
Proof.
  intros n Hn. unfold chop_round.
  assert (0 <= n * prec) by (pose proof prec_pos; nia).
  destruct (n * prec <? 0) eqn:L; [apply Z.ltb_lt in L; lia|].
  unfold chop_round_pos. rewrite Z.mod_mul by discriminate. cbn [Z.eqb].
  apply Z.div_mul. discriminate.
Qed.

Lemma dec_round_of_int : forall n, 0 <= n -> dec_round_int (dec_of_int n) = n.
Proof. intros. now apply chop_round_exact. Qed.

Lemma dec_mul_nonneg : forall a b, 0 <= a -> 0 <= b -> 0 <= dec_mul a b.
Proof. intros. apply chop_round_nonneg. nia. Qed.

(* rounding of (whole amount) * ratio: within half a unit of the exact product *)
Lemma round_share_bounds : forall n r, 0 <= n -> 0 <= r ->
  n * r - half_prec <= dec_round_int (dec_mul (dec_of_int n) r) * prec.
Proof.
  intros n r Hn Hr. unfold dec_round_int, dec_mul, dec_of_int.
  replace (n * prec * r) with ((n * r) * prec) by ring.
  rewrite chop_round_exact by nia.
  assert (0 <= n * r) by nia.
  unfold chop_round. destruct (n * r <? 0) eqn:L; [apply Z.ltb_lt in L; lia|].
  pose proof (chop_round_pos_bounds (n * r) H). lia.
Qed.
