(* Solidity contract ABI encoding (the `abi.encode(...)` of a tuple), written from the
   ABI specification ("Formal Specification of the Encoding"), for the types the three
   fx-core checkpoints use:

     uint256, address, bytes32          static, one 32-byte word
     uint256[], address[], bytes32[]    dynamic: word(len) ++ elements
     bytes (and string)                 dynamic: word(len) ++ data right-padded to 32k

   enc(X1..Xk) = head(X1) .. head(Xk) tail(X1) .. tail(Xk)
     static  Ti: head = enc(Xi),                       tail = empty
     dynamic Ti: head = word(offset of tail(Xi) from the start of enc), tail = enc(Xi)

   Bytes are Z in [0,256).  Numbers are Z with explicit ranges (wt).  A word is the
   big-endian 32-byte image of z mod 2^256 (two's complement for negative z: this is
   go-ethereum's math.U256Bytes and the EVM's view of a negative big.Int).
   No proofs in this file. *)
From Coq Require Import ZArith List Bool.
Import ListNotations.
Open Scope Z_scope.

Definition two256 : Z := 2 ^ 256.
Definition two160 : Z := 2 ^ 160.

(* the n low-order bytes of z, most significant first.
   Z.land z 255 = z mod 256 and Z.shiftr z 8 = z / 256 for every z (P_Abi.be_bytes_S); the bit
   operations are used because vm_compute evaluates them in constant time per byte *)
Fixpoint be_bytes (n : nat) (z : Z) : list Z :=
  match n with
  | O => []
  | S k => be_bytes k (Z.shiftr z 8) ++ [Z.land z 255]
  end.

(* big-endian value of a byte string *)
Definition be_val (bs : list Z) : Z := fold_left (fun a b => a * 256 + b) bs 0.

Definition word (z : Z) : list Z := be_bytes 32 z.

Definition zlen {A} (l : list A) : Z := Z.of_nat (length l).

(* right-pad to a multiple of 32 bytes *)
Definition pad_len (n : Z) : Z := (32 - n mod 32) mod 32.
Definition pad32 (bs : list Z) : list Z := bs ++ repeat 0 (Z.to_nat (pad_len (zlen bs))).

Inductive sty := SUint256 | SAddress | SBytes32.
Inductive ty := TS (s : sty) | TArr (s : sty) | TBytes.

Inductive value :=
| VW (z : Z)            (* one static word: uint256 / address (uint160) / bytes32 (big-endian number) *)
| VA (ws : list Z)      (* array of static words *)
| VB (bs : list Z).     (* byte string *)

Definition sbound (s : sty) : Z := match s with SAddress => two160 | _ => two256 end.
Definition is_dyn (t : ty) : bool := match t with TS _ => false | _ => true end.

Definition sty_eqb (a b : sty) : bool :=
  match a, b with SUint256, SUint256 | SAddress, SAddress | SBytes32, SBytes32 => true | _, _ => false end.
Definition ty_eqb (a b : ty) : bool :=
  match a, b with
  | TS x, TS y | TArr x, TArr y => sty_eqb x y
  | TBytes, TBytes => true
  | _, _ => false
  end.

(* well-typed values: the ranges the ABI types denote; lengths fit a word *)
Definition in_range (b z : Z) : Prop := 0 <= z < b.
Definition wt (t : ty) (v : value) : Prop :=
  match t, v with
  | TS s, VW z => in_range (sbound s) z
  | TArr s, VA ws => Forall (in_range (sbound s)) ws /\ zlen ws < two256
  | TBytes, VB bs => Forall (in_range 256) bs /\ zlen bs < two256
  | _, _ => False
  end.

Definition in_rangeb (b z : Z) : bool := (0 <=? z) && (z <? b).
Definition wtb (t : ty) (v : value) : bool :=
  match t, v with
  | TS s, VW z => in_rangeb (sbound s) z
  | TArr s, VA ws => forallb (in_rangeb (sbound s)) ws && (zlen ws <? two256)
  | TBytes, VB bs => forallb (in_rangeb 256) bs && (zlen bs <? two256)
  | _, _ => false
  end.

(* enc of one value of a static type / of a dynamic type *)
Definition enc_static (v : value) : list Z :=
  match v with VW z => word z | _ => word 0 end.
Definition enc_dyn (v : value) : list Z :=
  match v with
  | VA ws => word (zlen ws) ++ flat_map word ws
  | VB bs => word (zlen bs) ++ pad32 bs
  | VW z => word z
  end.

Definition targ := (ty * value)%type.

(* heads, given the offset at which the next tail will start *)
Fixpoint enc_heads (a : list targ) (off : Z) : list Z :=
  match a with
  | [] => []
  | (t, v) :: r =>
      if is_dyn t then word off ++ enc_heads r (off + zlen (enc_dyn v))
      else enc_static v ++ enc_heads r off
  end.
Fixpoint enc_tails (a : list targ) : list Z :=
  match a with
  | [] => []
  | (t, v) :: r => if is_dyn t then enc_dyn v ++ enc_tails r else enc_tails r
  end.

(* abi.encode(x1, ..., xk) *)
Definition encode (a : list targ) : list Z := enc_heads a (32 * zlen a) ++ enc_tails a.

Definition sig_of (a : list targ) : list ty := map fst a.
Definition wt_args (a : list targ) : Prop := Forall (fun p => wt (fst p) (snd p)) a.
Definition wt_argsb (a : list targ) : bool := forallb (fun p => wtb (fst p) (snd p)) a.

(* byte-string equality, used by the correspondence glue *)
Fixpoint zlist_eqb (a b : list Z) : bool :=
  match a, b with
  | [], [] => true
  | x :: a', y :: b' => (x =? y) && zlist_eqb a' b'
  | _, _ => false
  end.

(* bytes32 image of a (<= 32 byte) string, as Go's fxtypes.StrToByte32: copied left, zero filled *)
Definition b32_of_bytes (s : list Z) : Z := be_val (firstn 32 (s ++ repeat 0 32)).
