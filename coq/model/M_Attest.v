(* M_Attest: executable model of bridge attestation voting of one crosschain module (eth, tron, ...).

   Transcribed statement by statement from /repo/x/crosschain/keeper:
     msg_server.go   Claim, checkBridgerIsOracle, claimLogicCheck, BondedOracle, AddDelegate,
                     EditBridger, UnbondedOracle, UpdateChainOracles
     attestation.go  Attest, TryAttestation, processAttestation, GetLastEventNonceByOracle
     attestation_handler.go  AttestationHandler (only "is the claim parked"), ExecuteClaim
     observed.go, pending_execute_claim.go
     oracle.go       SetLastTotalPower, SlashOracle;  proposal.go UpdateProposalOracles,
                     UnbondedOracleFromProposal;  abci.go pruneAttestations, EndBlocker (slashing phase imported
                     from model/M_EndBlock.v, then createOracleSetRequest), confirm.go / batch.go / bridge_call_out.go
                     as far as they create and confirm the objects the slashing phase looks at
     types/types.go  Oracle.GetPower, Oracle.GetSlashAmount;  types/params.go constants

   Abstractions (projection the properties C01/C02 need):
     - oracle / bridger / external addresses are integer ids; a claim is (event nonce, hash class,
       parked?, member external ids) where "hash class" identifies ClaimHash() among the claims of a history;
     - sdkmath.Int is Z, uint64 nonces are Z (no wrap; nonces stay far below 2^63);
     - the staking module is reduced to two flags per oracle: "a delegation exists" and "an unbonding
       entry exists" (what GetOracleDelegateToken / GetUnbondingDelegation can see); the operation Mature
       stands for time passing beyond the unbonding period;
     - bank errors (insufficient funds) are outside the model;
     - the handler result of a deferred execution is an input of the Exec operation.
   The model keeps the code's behaviour as it is, including what UnbondedOracle deletes.
   This file contains definitions only. *)
From Coq Require Import ZArith List Bool.
From FxV Require model.M_EndBlock.      (* qualified use only: the end blocker's slashing phase, tied to the source by gen_c07 *)
Import ListNotations.
Open Scope Z_scope.
Module EB := FxV.model.M_EndBlock.

(* ---------- association lists (the KV store, order irrelevant) ---------- *)
Section Assoc.
  Context {K V : Type} (eqb : K -> K -> bool).
  Fixpoint aget (k : K) (l : list (K * V)) : option V :=
    match l with
    | [] => None
    | (k', v) :: r => if eqb k k' then Some v else aget k r
    end.
  Definition adel (k : K) (l : list (K * V)) : list (K * V) :=
    filter (fun p => negb (eqb k (fst p))) l.
  Definition aset (k : K) (v : V) (l : list (K * V)) : list (K * V) := (k, v) :: adel k l.
End Assoc.

Definition keq (a b : Z * Z) : bool := (fst a =? fst b) && (snd a =? snd b).
Definition zmem (x : Z) (l : list Z) : bool := existsb (Z.eqb x) l.

(* ---------- constants (types/params.go, types/constant.go) ---------- *)
Definition vote_threshold : Z := 66.        (* AttestationVotesPowerThreshold *)
Definition change_threshold : Z := 30.      (* AttestationProposalOracleChangePowerThreshold *)
Definition max_keep : Z := 100.             (* MaxKeepEventSize *)
Definition max_oracles : Z := 100.          (* MaxOracleSize *)
Definition power_reduction : Z := 100000000000000000000. (* sdk.DefaultPowerReduction = 10^20 *)
Definition dec_one : Z := 1000000000000000000.           (* LegacyDec precision 10^18 *)

(* module parameters read by the code at run time *)
Record cfg := { c_threshold : Z;   (* DelegateThreshold.Amount *)
                c_multiple : Z;    (* DelegateMultiple *)
                c_slashfrac : Z;   (* SlashFraction * 10^18 *)
                (* two facts of the code under test, probed on the real keeper by the harness on every run
                   (finding C01-1 and its repair):
                   - does UnbondedOracle delete the oracle's last-event-nonce cursor (DelLastEventNonceByOracle)?
                   - does GetLastEventNonceByOracle lift a stored cursor that is older than lastObserved-1? *)
                c_unbond_del : bool;
                c_cursor_clamp : bool }.

(* ---------- state ---------- *)
Record oracle := { o_stake : Z;      (* DelegateAmount *)
                   o_online : bool;
                   o_bridger : Z;
                   o_ext : Z;
                   o_slash : Z;      (* SlashTimes *)
                   o_start : Z;      (* StartHeight *)
                   o_deleg : bool;   (* staking: delegation delegateAddr -> validator exists *)
                   o_unb : bool      (* staking: an unbonding entry exists *) }.

Record att := { a_obs : bool; a_votes : list Z }.

(* what the end blocker's slashing phase reads besides the oracle records: the objects oracles must confirm
   (key, creation height, external-address ids that confirmed), the three cursors, the signed window, the height
   of the block being built *)
Record ebst := {
  e_osets : list EB.obj;   e_last_oset : Z;      (* OracleSetRequest 0x15 / confirms 0x16 / LastSlashedOracleSetNonce 0x28 *)
  e_batches : list EB.obj; e_last_batch : Z;     (* OutgoingTxBatch by block 0x21 / confirms 0x22 / LastSlashedBatchBlock 0x30 *)
  e_bcalls : list EB.obj;  e_last_bcall : Z;     (* OutgoingBridgeCall 0x48 / confirms 0x45 / LastSlashedBridgeCallNonce 0x46 *)
  e_next_bcall : Z;                              (* next bridge call nonce *)
  e_slash_h : Z;                                 (* LastOracleSlashBlockHeight 0x37 *)
  e_window : Z;                                  (* Params.SignedWindow *)
  e_height : Z                                   (* ctx.BlockHeight() of the block being built *)
}.

Definition eb_init : ebst :=
  {| e_osets := []; e_last_oset := 0; e_batches := []; e_last_batch := 0; e_bcalls := []; e_last_bcall := 0;
     e_next_bcall := 1; e_slash_h := 0; e_window := 30000; e_height := 1 |}.

Record st := {
  proposal : list Z;                 (* ProposalOracle.Oracles                  (0x38) *)
  oracles : list (Z * oracle);       (* Oracle records                          (0x12) *)
  by_bridger : list (Z * Z);         (* bridger -> oracle                       (0x14) *)
  by_ext : list (Z * Z);             (* external address -> oracle              (0x13) *)
  last_total : Z;                    (* LastTotalPower                          (0x39) *)
  last_obs : Z;                      (* LastObservedEventNonce                  (0x24) *)
  last_by : list (Z * Z);            (* LastEventNonceByOracle                  (0x23) *)
  atts : list ((Z * Z) * att);       (* Attestation by (nonce, hash class)      (0x17) *)
  pending : list (Z * Z);            (* PendingExecuteClaim nonce -> class      (0x54) *)
  (* ghost logs, not in the store *)
  applied : list (Z * Z);            (* (nonce, class) in the order the events took effect *)
  effects : list Z;                  (* nonces whose deferred handler ran to completion *)
  vlog : list (Z * Z);               (* (oracle, nonce) of every accepted vote *)
  eb : ebst                          (* end-blocker inputs (see ebst) *)
}.

Definition init : st :=
  {| proposal := []; oracles := []; by_bridger := []; by_ext := []; last_total := 0; last_obs := 0;
     last_by := []; atts := []; pending := []; applied := []; effects := []; vlog := []; eb := eb_init |}.

Definition power (o : oracle) : Z := Z.quot (o_stake o) power_reduction.   (* Oracle.GetPower *)

(* Oracle.GetSlashAmount: Dec(stake).Mul(frac).MulInt64(times).TruncateInt(), clamped to [0, stake].
   Dec(stake) * frac is exact (stake is an integer), so the only rounding is the final truncation. *)
Definition slash_amount (c : cfg) (o : oracle) : Z :=
  Z.max (Z.min (Z.quot (o_stake o * c_slashfrac c * o_slash o) dec_one) (o_stake o)) 0.

Fixpoint online_power (l : list (Z * oracle)) : Z :=
  match l with
  | [] => 0
  | (_, o) :: r => (if o_online o then power o else 0) + online_power r
  end.

(* SetLastTotalPower *)
Definition refresh (s : st) : st :=
  {| proposal := proposal s; oracles := oracles s; by_bridger := by_bridger s; by_ext := by_ext s;
     last_total := online_power (oracles s); last_obs := last_obs s; last_by := last_by s;
     atts := atts s; pending := pending s; applied := applied s; effects := effects s; vlog := vlog s; eb := eb s |}.

Definition with_oracles (s : st) (os : list (Z * oracle)) : st :=
  {| proposal := proposal s; oracles := os; by_bridger := by_bridger s; by_ext := by_ext s;
     last_total := last_total s; last_obs := last_obs s; last_by := last_by s;
     atts := atts s; pending := pending s; applied := applied s; effects := effects s; vlog := vlog s; eb := eb s |}.

(* GetLastEventNonceByOracle: absent entry => lastObserved-1 (0 if nothing observed yet) *)
Definition cur (c : cfg) (lobs : Z) (lb : list (Z * Z)) (o : Z) : Z :=
  match aget Z.eqb o lb with
  | Some n => if c_cursor_clamp c && (1 <=? lobs) && (n <? lobs - 1) then lobs - 1 else n
  | None => if 1 <=? lobs then lobs - 1 else 0
  end.
Definition cursor (c : cfg) (s : st) (o : Z) : Z := cur c (last_obs s) (last_by s) o.

(* result classes *)
Inductive res := Ok | Err (code : Z) | Panic.
Definition E_NoOracle := 1.      (* ErrNoFoundOracle *)
Definition E_Offline := 2.       (* ErrOracleNotOnLine *)
Definition E_NonContig := 3.     (* ErrNonContiguousEventNonce *)
Definition E_Invalid := 4.       (* ErrInvalid *)
Definition E_BelowMin := 5.      (* ErrDelegateAmountBelowMinimum *)
Definition E_AboveMax := 6.      (* ErrDelegateAmountAboveMaximum *)
Definition E_Staking := 7.       (* error returned by the staking module *)
Definition E_NoClaim := 8.       (* ExecuteClaim: claim not found *)
Definition E_Handler := 9.       (* deferred handler failed (everything reverted) *)

(* ---------- TryAttestation ---------- *)
Definition required (s : st) : Z := Z.quot (vote_threshold * last_total s) 100.

(* the loop over att.Votes: Some p = the loop reached `attestationPower >= requiredPower` with
   attestationPower = p (and breaks); None = it ran off the end *)
Fixpoint tally (os : list (Z * oracle)) (req acc : Z) (votes : list Z) : option Z :=
  match votes with
  | [] => None
  | v :: r =>
      match aget Z.eqb v os with
      | None => tally os req acc r                       (* "not found oracle": continue *)
      | Some o => let acc' := acc + power o in
                  if acc' <? req then tally os req acc' r else Some acc'
      end
  end.

(* pruneAttestations, run with the new last observed nonce *)
Definition prune (lobs : Z) (l : list ((Z * Z) * att)) : list ((Z * Z) * att) :=
  if lobs <=? max_keep then l
  else filter (fun p => (lobs - max_keep) <? fst (fst p)) l.

(* ---------- Claim ---------- *)
Definition vote (c : cfg) (s : st) (bridger nonce cls : Z) (park : bool) (members : list Z) : st * res :=
  (* checkBridgerIsOracle *)
  match aget Z.eqb bridger (by_bridger s) with
  | None => (s, Err E_NoOracle)
  | Some o =>
    match aget Z.eqb o (oracles s) with
    | None => (s, Err E_NoOracle)
    | Some rec =>
      if negb (o_online rec) then (s, Err E_Offline)
      (* claimLogicCheck (MsgOracleSetUpdatedClaim members) *)
      else if negb (forallb (fun m => match aget Z.eqb m (by_ext s) with Some _ => true | None => false end) members)
      then (s, Err E_Invalid)
      (* Attest *)
      else if negb (nonce =? cursor c s o + 1) then (s, Err E_NonContig)
      else
        let a0 := match aget keq (nonce, cls) (atts s) with
                  | Some a => a
                  | None => {| a_obs := false; a_votes := [] |}
                  end in
        let a1 := {| a_obs := a_obs a0; a_votes := a_votes a0 ++ [o] |} in
        let atts1 := aset keq (nonce, cls) a1 (atts s) in
        let flip :=
          if negb (a_obs a1) && (nonce =? last_obs s + 1)
          then match tally (oracles s) (required s) 0 (a_votes a1) with Some _ => true | None => false end
          else false in
        let lb := aset Z.eqb o nonce (last_by s) in
        if flip then
          (* SetLastObservedEventNonce; att.Observed = true; SetAttestation; processAttestation;
             pruneAttestations; break *)
          let atts2 := aset keq (nonce, cls) {| a_obs := true; a_votes := a_votes a1 |} atts1 in
          ({| proposal := proposal s; oracles := oracles s; by_bridger := by_bridger s; by_ext := by_ext s;
              last_total := last_total s; last_obs := nonce; last_by := lb;
              atts := prune nonce atts2;
              pending := if park then aset Z.eqb nonce cls (pending s) else pending s;
              applied := applied s ++ [(nonce, cls)]; effects := effects s;
              vlog := vlog s ++ [(o, nonce)]; eb := eb s |}, Ok)
        else
          ({| proposal := proposal s; oracles := oracles s; by_bridger := by_bridger s; by_ext := by_ext s;
              last_total := last_total s; last_obs := last_obs s; last_by := lb;
              atts := atts1; pending := pending s; applied := applied s; effects := effects s;
              vlog := vlog s ++ [(o, nonce)]; eb := eb s |}, Ok)
    end
  end.

(* ---------- ExecuteClaim (through the precompile: a failing handler reverts everything) ---------- *)
Definition exec (s : st) (nonce : Z) (handler_ok : bool) : st * res :=
  match aget Z.eqb nonce (pending s) with
  | None => (s, Err E_NoClaim)
  | Some _ =>
      if handler_ok then
        ({| proposal := proposal s; oracles := oracles s; by_bridger := by_bridger s; by_ext := by_ext s;
            last_total := last_total s; last_obs := last_obs s; last_by := last_by s; atts := atts s;
            pending := adel Z.eqb nonce (pending s); applied := applied s;
            effects := effects s ++ [nonce]; vlog := vlog s; eb := eb s |}, Ok)
      else (s, Err E_Handler)
  end.

(* the state the deferred handler runs on: GetPendingExecuteClaim + DeletePendingExecuteClaim come first, so a
   handler that calls back into executeClaim for the nonce being executed finds nothing *)
Definition exec_begin (s : st) (nonce : Z) : option st :=
  match aget Z.eqb nonce (pending s) with
  | None => None
  | Some _ =>
      Some {| proposal := proposal s; oracles := oracles s; by_bridger := by_bridger s; by_ext := by_ext s;
              last_total := last_total s; last_obs := last_obs s; last_by := last_by s; atts := atts s;
              pending := adel Z.eqb nonce (pending s); applied := applied s;
              effects := effects s; vlog := vlog s; eb := eb s |}
  end.

(* ---------- BondedOracle ---------- *)
Definition bond (c : cfg) (s : st) (o bridger ext stake : Z) : st * res :=
  if negb (zmem o (proposal s)) then (s, Err E_NoOracle)
  else match aget Z.eqb o (oracles s) with Some _ => (s, Err E_Invalid) | None =>
  match aget Z.eqb bridger (by_bridger s) with Some _ => (s, Err E_Invalid) | None =>
  match aget Z.eqb ext (by_ext s) with Some _ => (s, Err E_Invalid) | None =>
  if stake <? c_threshold c then (s, Err E_BelowMin)
  else if c_threshold c * c_multiple c <? stake then (s, Err E_AboveMax)
  else
    let rec := {| o_stake := stake; o_online := true; o_bridger := bridger; o_ext := ext; o_slash := 0;
                  o_start := e_height (eb s); o_deleg := true; o_unb := false |} in
    (refresh
      {| proposal := proposal s; oracles := aset Z.eqb o rec (oracles s);
         by_bridger := aset Z.eqb bridger o (by_bridger s); by_ext := aset Z.eqb ext o (by_ext s);
         last_total := last_total s; last_obs := last_obs s; last_by := last_by s; atts := atts s;
         pending := pending s; applied := applied s; effects := effects s; vlog := vlog s; eb := eb s |}, Ok)
  end end end.

(* ---------- AddDelegate ---------- *)
Definition add_delegate (c : cfg) (s : st) (o amount : Z) : st * res :=
  if negb (zmem o (proposal s)) then (s, Err E_NoOracle)
  else match aget Z.eqb o (oracles s) with None => (s, Err E_NoOracle) | Some rec =>
    let sl := slash_amount c rec in
    if (0 <? sl) && (amount <? sl) then (s, Err E_Invalid)
    else
      let d := amount - sl in
      let stake' := o_stake rec + d in
      if stake' - c_threshold c <? 0 then (s, Err E_BelowMin)
      else if c_threshold c * c_multiple c <? stake' then (s, Err E_AboveMax)
      else
        let rec' := {| o_stake := stake'; o_online := true; o_bridger := o_bridger rec; o_ext := o_ext rec;
                       o_slash := 0; o_start := if o_online rec then o_start rec else e_height (eb s);
                       o_deleg := if 0 <? d then true else o_deleg rec; o_unb := o_unb rec |} in
        (refresh (with_oracles s (aset Z.eqb o rec' (oracles s))), Ok)
  end.

(* ---------- keeper.slashing: SlashOracle on each listed oracle, then SetLastTotalPower if any ---------- *)
Definition slash_one (os : list (Z * oracle)) (o : Z) : option (list (Z * oracle)) :=
  match aget Z.eqb o os with
  | None => None                                             (* panic(ErrNoFoundOracle) *)
  | Some rec =>
      if negb (o_online rec) then Some os
      else Some (aset Z.eqb o {| o_stake := o_stake rec; o_online := false; o_bridger := o_bridger rec;
                                 o_ext := o_ext rec; o_slash := o_slash rec + 1; o_start := o_start rec;
                                 o_deleg := o_deleg rec; o_unb := o_unb rec |} os)
  end.

Fixpoint slash_all (os : list (Z * oracle)) (l : list Z) : option (list (Z * oracle)) :=
  match l with
  | [] => Some os
  | o :: r => match slash_one os o with None => None | Some os' => slash_all os' r end
  end.

Definition slash_pass (s : st) (l : list Z) : st * res :=
  match slash_all (oracles s) l with
  | None => (s, Panic)
  | Some os => match l with
               | [] => (s, Ok)
               | _ => (refresh (with_oracles s os), Ok)
               end
  end.

(* ---------- UpdateChainOracles / UpdateProposalOracles ---------- *)
Definition removed_by (s : st) (new : list Z) (p : Z * oracle) : bool :=
  negb (zmem (fst p) new) && zmem (fst p) (proposal s).

Fixpoint delete_power (s : st) (new : list Z) (l : list (Z * oracle)) : Z :=
  match l with
  | [] => 0
  | p :: r => (if removed_by s new p && o_online (snd p) then power (snd p) else 0) + delete_power s new r
  end.

Definition unbond_from_proposal (o : oracle) : oracle :=
  {| o_stake := o_stake o; o_online := false; o_bridger := o_bridger o; o_ext := o_ext o;
     o_slash := o_slash o; o_start := o_start o; o_deleg := false; o_unb := true |}.

Definition gov_set (s : st) (new : list Z) : st * res :=
  if max_oracles <? Z.of_nat (length new) then (s, Err E_Invalid)
  else
    let total := online_power (oracles s) in
    let del := delete_power s new (oracles s) in
    let maxchange := Z.quot (change_threshold * total) 100 in
    if (0 <? del) && (maxchange <=? del) then (s, Err E_Invalid)
    else if existsb (fun p => removed_by s new p && negb (o_deleg (snd p))) (oracles s)
    then (s, Err E_Staking)                      (* GetOracleDelegateToken / Undelegate fails *)
    else
      let os := map (fun p => if removed_by s new p then (fst p, unbond_from_proposal (snd p)) else p) (oracles s) in
      ({| proposal := new; oracles := os; by_bridger := by_bridger s; by_ext := by_ext s;
          last_total := last_total s; last_obs := last_obs s; last_by := last_by s; atts := atts s;
          pending := pending s; applied := applied s; effects := effects s; vlog := vlog s; eb := eb s |}, Ok).

(* ---------- UnbondedOracle ----------
   (the unbonding of the removed oracle's stake must have completed: refused while an unbonding entry exists;
    the matured stake then sits on the delegate address and covers the slash amount) *)
Definition unbond (c : cfg) (s : st) (o : Z) : st * res :=
  if zmem o (proposal s) then (s, Err E_Invalid)
  else match aget Z.eqb o (oracles s) with None => (s, Err E_NoOracle) | Some rec =>
    if o_online rec then (s, Err E_Invalid)
    else if o_unb rec then (s, Err E_Invalid)                 (* "exist unbonding delegation" *)
    else
      ({| proposal := proposal s; oracles := adel Z.eqb o (oracles s);
          by_bridger := adel Z.eqb (o_bridger rec) (by_bridger s);
          by_ext := adel Z.eqb (o_ext rec) (by_ext s);
          last_total := last_total s; last_obs := last_obs s;
          last_by := if c_unbond_del c then adel Z.eqb o (last_by s) else last_by s;  (* DelLastEventNonceByOracle *)
          atts := atts s; pending := pending s; applied := applied s; effects := effects s;
          vlog := vlog s; eb := eb s |}, Ok)
  end.

(* ---------- time passes beyond the unbonding period: the staking end blocker completes every unbonding ---------- *)
Definition matured (o : oracle) : oracle :=
  {| o_stake := o_stake o; o_online := o_online o; o_bridger := o_bridger o; o_ext := o_ext o;
     o_slash := o_slash o; o_start := o_start o; o_deleg := o_deleg o; o_unb := false |}.
Definition mature (s : st) : st :=
  with_oracles s (map (fun p : Z * oracle => (fst p, matured (snd p))) (oracles s)).

(* ---------- EditBridger ---------- *)
Definition edit_bridger (s : st) (o b : Z) : st * res :=
  match aget Z.eqb o (oracles s) with None => (s, Err E_NoOracle) | Some rec =>
    if negb (o_online rec) then (s, Err E_Offline)
    else if o_bridger rec =? b then (s, Err E_Invalid)
    else match aget Z.eqb b (by_bridger s) with Some _ => (s, Err E_Invalid) | None =>
      let rec' := {| o_stake := o_stake rec; o_online := o_online rec; o_bridger := b; o_ext := o_ext rec;
                     o_slash := o_slash rec; o_start := o_start rec; o_deleg := o_deleg rec; o_unb := o_unb rec |} in
      ({| proposal := proposal s; oracles := aset Z.eqb o rec' (oracles s);
          by_bridger := aset Z.eqb b o (adel Z.eqb (o_bridger rec) (by_bridger s)); by_ext := by_ext s;
          last_total := last_total s; last_obs := last_obs s; last_by := last_by s; atts := atts s;
          pending := pending s; applied := applied s; effects := effects s; vlog := vlog s; eb := eb s |}, Ok)
    end
  end.

(* ---------- the end blocker (abci.go EndBlocker): slashing phase from M_EndBlock, then createOracleSetRequest ----------
   EB.slashing is the transcription of keeper.slashing with its three loops (oracle sets, batches, bridge calls),
   the unslashed-object selection, the signed window and the snapshot of online oracles; here the oracle records and
   the confirm sets of this model are handed to it and its result is written back. *)
Definition with_eb (s : st) (e : ebst) : st :=
  {| proposal := proposal s; oracles := oracles s; by_bridger := by_bridger s; by_ext := by_ext s;
     last_total := last_total s; last_obs := last_obs s; last_by := last_by s; atts := atts s;
     pending := pending s; applied := applied s; effects := effects s; vlog := vlog s; eb := e |}.

Definition set_osets (e : ebst) (l : list EB.obj) : ebst :=
  {| e_osets := l; e_last_oset := e_last_oset e; e_batches := e_batches e; e_last_batch := e_last_batch e;
     e_bcalls := e_bcalls e; e_last_bcall := e_last_bcall e; e_next_bcall := e_next_bcall e;
     e_slash_h := e_slash_h e; e_window := e_window e; e_height := e_height e |}.
Definition set_batches (e : ebst) (l : list EB.obj) : ebst :=
  {| e_osets := e_osets e; e_last_oset := e_last_oset e; e_batches := l; e_last_batch := e_last_batch e;
     e_bcalls := e_bcalls e; e_last_bcall := e_last_bcall e; e_next_bcall := e_next_bcall e;
     e_slash_h := e_slash_h e; e_window := e_window e; e_height := e_height e |}.
Definition set_bcalls (e : ebst) (l : list EB.obj) (next : Z) : ebst :=
  {| e_osets := e_osets e; e_last_oset := e_last_oset e; e_batches := e_batches e; e_last_batch := e_last_batch e;
     e_bcalls := l; e_last_bcall := e_last_bcall e; e_next_bcall := next;
     e_slash_h := e_slash_h e; e_window := e_window e; e_height := e_height e |}.
Definition set_window (e : ebst) (w : Z) : ebst :=
  {| e_osets := e_osets e; e_last_oset := e_last_oset e; e_batches := e_batches e; e_last_batch := e_last_batch e;
     e_bcalls := e_bcalls e; e_last_bcall := e_last_bcall e; e_next_bcall := e_next_bcall e;
     e_slash_h := e_slash_h e; e_window := w; e_height := e_height e |}.

Definition mk_obj (key height : Z) (confirms : list Z) : EB.obj :=
  {| EB.ob_key := key; EB.ob_height := height; EB.ob_confirms := confirms |}.

(* a confirmation (OracleSetConfirm / ConfirmBatch / BridgeCallConfirm handlers): the object must exist, the external
   address must belong to a registered oracle, no second confirmation *)
Fixpoint add_confirm (key ext : Z) (l : list EB.obj) : option (list EB.obj) :=
  match l with
  | [] => None
  | x :: r =>
      if EB.ob_key x =? key then
        if zmem ext (EB.ob_confirms x) then None
        else Some (mk_obj (EB.ob_key x) (EB.ob_height x) (EB.ob_confirms x ++ [ext]) :: r)
      else match add_confirm key ext r with Some r' => Some (x :: r') | None => None end
  end.

Definition confirm (s : st) (kind key ext : Z) : st * res :=
  match aget Z.eqb ext (by_ext s) with
  | None => (s, Err E_NoOracle)
  | Some o =>
    match aget Z.eqb o (oracles s) with
    | None => (s, Err E_NoOracle)
    | Some _ =>
      let e := eb s in
      if kind =? 0 then
        match add_confirm key ext (e_osets e) with
        | None => (s, Err E_Invalid) | Some l => (with_eb s (set_osets e l), Ok) end
      else if kind =? 1 then
        match add_confirm key ext (e_batches e) with
        | None => (s, Err E_Invalid) | Some l => (with_eb s (set_batches e l), Ok) end
      else
        match add_confirm key ext (e_bcalls e) with
        | None => (s, Err E_Invalid) | Some l => (with_eb s (set_bcalls e l (e_next_bcall e)), Ok) end
    end
  end.

(* an outgoing batch created in this block (at most one per block), an outgoing bridge call *)
Definition add_batch (s : st) : st * res :=
  let e := eb s in
  if existsb (fun x => EB.ob_key x =? e_height e) (e_batches e) then (s, Err E_Invalid)
  else (with_eb s (set_batches e (e_batches e ++ [mk_obj (e_height e) (e_height e) []])), Ok).
(* BuildOutgoingBridgeCall refuses while no event has been observed yet ("bridge call timeout height": the timeout is
   derived from the last observed external block height, which SetLastObservedBlockHeight writes in TryAttestation) *)
Definition add_bcall (s : st) : st * res :=
  let e := eb s in
  if last_obs s <? 1 then (s, Err E_Invalid) else
  (with_eb s (set_bcalls e (e_bcalls e ++ [mk_obj (e_next_bcall e) (e_height e) []]) (e_next_bcall e + 1)), Ok).

(* this model's records and confirm sets in the shape M_EndBlock works on *)
Definition to_eb (p : Z * oracle) : EB.oracle :=
  {| EB.o_id := fst p; EB.o_online := o_online (snd p); EB.o_start := o_start (snd p);
     EB.o_slash_times := o_slash (snd p); EB.o_power := power (snd p) |}.
(* confirmations are kept by external address; the loops compare with oracles[i].ExternalAddress *)
Definition conv_obj (os : list (Z * oracle)) (x : EB.obj) : EB.obj :=
  mk_obj (EB.ob_key x) (EB.ob_height x)
         (map fst (filter (fun p : Z * oracle => zmem (o_ext (snd p)) (EB.ob_confirms x)) os)).
Definition xstate_of (s : st) : EB.xstate :=
  let e := eb s in
  {| EB.oracles := map to_eb (oracles s);
     EB.osets := map (conv_obj (oracles s)) (e_osets e); EB.last_slashed_oset := e_last_oset e;
     EB.batches := map (conv_obj (oracles s)) (e_batches e); EB.last_slashed_batch_block := e_last_batch e;
     EB.bcalls := map (conv_obj (oracles s)) (e_bcalls e); EB.last_slashed_bcall := e_last_bcall e;
     EB.last_slash_height := e_slash_h e; EB.window := e_window e |}.
(* what the three loops hand to SlashOracle: the oracle's account address (read from the source by gen_c07 and
   compared with this in proofs/P_AttestGen.v) *)
Definition slash_args0 : EB.slash_args :=
  {| EB.sa_oracle_set := EB.ArgOracleAddress; EB.sa_batch := EB.ArgOracleAddress; EB.sa_bridge_call := EB.ArgOracleAddress |}.

Fixpoint eb_find (id : Z) (l : list EB.oracle) : option EB.oracle :=
  match l with
  | [] => None
  | o :: r => if EB.o_id o =? id then Some o else eb_find id r
  end.
Definition slashed_rec (o : oracle) (r : EB.oracle) : oracle :=
  {| o_stake := o_stake o; o_online := EB.o_online r; o_bridger := o_bridger o; o_ext := o_ext o;
     o_slash := EB.o_slash_times r; o_start := o_start o; o_deleg := o_deleg o; o_unb := o_unb o |}.
Definition apply_slash (res : list EB.oracle) (os : list (Z * oracle)) : list (Z * oracle) :=
  map (fun p : Z * oracle =>
         (fst p, match eb_find (fst p) res with Some r => slashed_rec (snd p) r | None => snd p end)) os.

Definition latest_oset (l : list EB.obj) : Z := fold_left (fun m x => Z.max m (EB.ob_key x)) l 0.

(* newset: createOracleSetRequest stored a new oracle set (no set yet / a slash in this block / power change above
   the configured percentage, and at least one member) — read off the implementation; it refreshes the total *)
Definition end_block (s : st) (newset : bool) : st * res :=
  let e := eb s in
  let h := e_height e in
  match EB.slashing slash_args0 (xstate_of s) h with
  | EB.Panic => (s, Panic)
  | EB.Ok r =>
      let os1 := if EB.r_any r then apply_slash (EB.r_oracles r) (oracles s) else oracles s in
      let total1 := if EB.r_any r then online_power os1 else last_total s in     (* slashing: SetLastTotalPower if any *)
      let osets1 := if newset then e_osets e ++ [mk_obj (latest_oset (e_osets e) + 1) h []] else e_osets e in
      let total2 := if newset then online_power os1 else total1 in               (* AddOracleSetRequest: SetLastTotalPower *)
      ({| proposal := proposal s; oracles := os1; by_bridger := by_bridger s; by_ext := by_ext s;
          last_total := total2; last_obs := last_obs s; last_by := last_by s; atts := atts s;
          pending := pending s; applied := applied s; effects := effects s; vlog := vlog s;
          eb := {| e_osets := osets1; e_last_oset := EB.r_oset_cursor r;
                   e_batches := e_batches e; e_last_batch := EB.r_batch_cursor r;
                   e_bcalls := e_bcalls e; e_last_bcall := EB.r_bcall_cursor r; e_next_bcall := e_next_bcall e;
                   e_slash_h := EB.r_last_slash_height r; e_window := e_window e; e_height := h + 1 |} |}, Ok)
  end.

(* ---------- genesis export + import (genesis.go ExportGenesis / InitGenesis) on the running module ----------
   Exported: params, last observed nonce and block height, every oracle record, the approved list, oracle sets and
   batches with their confirmations, attestations, the two slashing cursors 0x28 / 0x30, bridge tokens.
   NOT exported (as the code is): parked claims 0x54 (C05-2), per-oracle cursors 0x23 (rebuilt from the votes of the
   imported attestations, through GetLastEventNonceByOracle — so only for votes at nonces above lastObserved-1),
   outgoing bridge calls, their confirmations and cursor, the bridge-call counter, LastOracleSlashBlockHeight.
   InitGenesis re-creates the two indexes from the records, recomputes the total AFTER writing the records, and
   keeps a confirmation only if its external address belongs to some imported oracle record (/repo 3bd6d6b). *)
Definition rebuild_votes (c : cfg) (lobs nonce : Z) (votes : list Z) (lb : list (Z * Z)) : list (Z * Z) :=
  fold_left (fun lb v => if cur c lobs lb v <? nonce then aset Z.eqb v nonce lb else lb) votes lb.
Definition rebuild_cursors (c : cfg) (lobs : Z) (ats : list ((Z * Z) * att)) : list (Z * Z) :=
  fold_left (fun lb p => rebuild_votes c lobs (fst (fst p)) (a_votes (snd p)) lb) ats [].

(* a confirmation is filed under the oracle that owns its external address (looked up in the re-created index);
   a confirmation whose external address belongs to no imported record is dropped *)
Definition confirm_kept (s : st) (ext : Z) : bool :=
  existsb (fun p : Z * oracle => o_ext (snd p) =? ext) (oracles s).
Definition import_objs (s : st) (l : list EB.obj) : list EB.obj :=
  map (fun x => mk_obj (EB.ob_key x) (EB.ob_height x) (filter (confirm_kept s) (EB.ob_confirms x))) l.

Definition export_import (c : cfg) (s : st) : st :=
  let e := eb s in
  {| proposal := proposal s; oracles := oracles s;
     by_bridger := map (fun p : Z * oracle => (o_bridger (snd p), fst p)) (oracles s);
     by_ext := map (fun p : Z * oracle => (o_ext (snd p), fst p)) (oracles s);
     last_total := online_power (oracles s); last_obs := last_obs s;
     last_by := rebuild_cursors c (last_obs s) (atts s);
     atts := atts s; pending := []; applied := applied s; effects := effects s; vlog := vlog s;
     eb := {| e_osets := import_objs s (e_osets e); e_last_oset := e_last_oset e;
              e_batches := import_objs s (e_batches e); e_last_batch := e_last_batch e;
              e_bcalls := []; e_last_bcall := 0; e_next_bcall := 1;
              e_slash_h := 0; e_window := e_window e; e_height := e_height e |} |}.

(* ---------- operations ---------- *)
Inductive op :=
| Vote (bridger nonce cls : Z) (park : bool) (members : list Z)
| Exec (nonce : Z) (handler_ok : bool)
| Bond (o bridger ext stake : Z)
| AddDelegate (o amount : Z)
| SlashPass (os : list Z)
| Refresh                                  (* AddOracleSetRequest: SetLastTotalPower *)
| GovSet (os : list Z)
| Unbond (o : Z)
| EditBridger (o b : Z)
| Mature
| Confirm (kind key ext : Z)               (* 0 oracle set, 1 batch, 2 bridge call *)
| AddBatch
| AddBCall
| SetWindow (w : Z)                        (* UpdateParams: SignedWindow *)
| EndBlock (newset : bool)                 (* the real end blocker of the block being built *)
| ExportImport.                            (* ExportGenesis, wipe the module store, InitGenesis *)

Definition step (c : cfg) (s : st) (x : op) : st * res :=
  match x with
  | Vote b n cl park ms => vote c s b n cl park ms
  | Exec n ok => exec s n ok
  | Bond o b e stake => bond c s o b e stake
  | AddDelegate o a => add_delegate c s o a
  | SlashPass l => slash_pass s l
  | Refresh => (refresh s, Ok)
  | GovSet l => gov_set s l
  | Unbond o => unbond c s o
  | EditBridger o b => edit_bridger s o b
  | Mature => (mature s, Ok)
  | Confirm k key ext => confirm s k key ext
  | AddBatch => add_batch s
  | AddBCall => add_bcall s
  | SetWindow w => (with_eb s (set_window (eb s) w), Ok)
  | EndBlock newset => end_block s newset
  | ExportImport => (export_import c s, Ok)
  end.

Definition run (c : cfg) (s : st) (h : list op) : st := fold_left (fun s x => fst (step c s x)) h s.

(* ---------- transaction layer of MsgClaim (types/msgs.go, tx.proto) ----------
   The signing context takes the required signer from the wrapper's bridger_address
   (option (cosmos.msg.v1.signer) = "bridger_address" on MsgClaim); MsgServer.Claim counts
   the vote for claim.GetClaimer(), the bridger_address of the wrapped claim.
   MsgClaim.ValidateBasic: chain name known, claim non-nil, the Any's cached value is an
   ExternalClaim, claim.ValidateBasic() — it does not relate the two addresses.
   Two facts of the code are kept as explicit switches so that the theorems can speak about
   the code with and without them:
     unpacked : the wrapped Any carries its decoded value when ValidateBasic / the handler look at it
                (true for a message built in memory; for a transaction decoded from bytes only if
                MsgClaim implements UnpackInterfaces — it does not in the tree this was written for);
     chk      : ValidateBasic (or the handler) compares wrapper and wrapped bridger (absent in that tree). *)
Record claim_tx := { t_wrapper : Z;       (* MsgClaim.bridger_address *)
                     t_inner : Z;         (* wrapped claim's bridger_address *)
                     t_inner_valid : bool;(* claim.ValidateBasic() *)
                     t_nonce : Z; t_cls : Z; t_park : bool; t_members : list Z }.

Definition required_signer (t : claim_tx) : Z := t_wrapper t.
Definition validate_basic (unpacked chk : bool) (t : claim_tx) : bool :=
  unpacked && t_inner_valid t && (negb chk || (t_wrapper t =? t_inner t)).
Definition E_Unauthorized := 10.

Definition deliver_claim (c : cfg) (unpacked chk : bool) (s : st) (signers : list Z) (t : claim_tx) : st * res :=
  if negb (validate_basic unpacked chk t) then (s, Err E_Invalid)
  else if negb (zmem (required_signer t) signers) then (s, Err E_Unauthorized)
  else vote c s (t_inner t) (t_nonce t) (t_cls t) (t_park t) (t_members t).

(* the code as it is *)
Definition deliver_claim_mem (c : cfg) := deliver_claim c true false.     (* message object with its value present *)
Definition deliver_claim_bytes (c : cfg) := deliver_claim c false false.  (* transaction decoded from bytes *)
