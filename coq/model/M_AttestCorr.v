(* glue for the correspondence files Cases_C01*.v / Cases_C02*.v written by harness/c01:
   a history is a configuration and a list of (operation, what the real keeper's store showed after it);
   the model is run along and compared after every operation. *)
From Coq Require Import ZArith List Bool.
From FxV Require Import model.M_Attest gen.Gen_AttestFacts.
Import ListNotations.
Open Scope Z_scope.

Record obs := {
  ob_acc : Z;                                   (* 0 accepted, 1 rejected (error), 2 panic *)
  ob_lastobs : Z;                               (* key 0x24 *)
  ob_total : Z;                                 (* key 0x39 *)
  ob_lastby : list (Z * Z);                     (* key 0x23, sorted by oracle id *)
  ob_atts : list ((Z * Z) * (bool * list Z));   (* key 0x17: (nonce, class) -> observed, votes in store order; sorted by key *)
  ob_pending : list Z;                          (* key 0x54 nonces, ascending *)
  ob_oracles : list (Z * (Z * bool * Z * Z * Z)); (* key 0x12: id -> stake, online, bridger id, slash times, start height; sorted *)
  (* what the end blocker reads: oracle sets / batches (by block) / bridge calls as (key, height, confirming external ids
     ascending), the three slashing cursors, the signed window *)
  ob_osets : list (Z * Z * list Z); ob_batches : list (Z * Z * list Z); ob_bcalls : list (Z * Z * list Z);
  ob_cursors : Z * Z * Z; ob_window : Z
}.

Definition mk_obs a lo t lb ats pe os osets batches bcalls cur w : obs :=
  {| ob_acc := a; ob_lastobs := lo; ob_total := t; ob_lastby := lb; ob_atts := ats; ob_pending := pe; ob_oracles := os;
     ob_osets := osets; ob_batches := batches; ob_bcalls := bcalls; ob_cursors := cur; ob_window := w |}.

Definition mk_cfg (thr mul frac : Z) (unbond_del cursor_clamp : bool) : cfg :=
  {| c_threshold := thr; c_multiple := mul; c_slashfrac := frac;
     c_unbond_del := unbond_del; c_cursor_clamp := cursor_clamp |}.

(* light observation (long histories print the full projection only every few operations):
   lists left empty and ob_acc + 10 *)
Definition mk_light (a lo t : Z) : obs :=
  {| ob_acc := a + 10; ob_lastobs := lo; ob_total := t; ob_lastby := []; ob_atts := []; ob_pending := []; ob_oracles := [];
     ob_osets := []; ob_batches := []; ob_bcalls := []; ob_cursors := (0, 0, 0); ob_window := 0 |}.

(* no observation: the operation is an internal stage of one real operation (a block boundary = Mature; SlashPass;
   Refresh), only the state after the last stage is visible *)
Definition mk_skip : obs :=
  {| ob_acc := 20; ob_lastobs := 0; ob_total := 0; ob_lastby := []; ob_atts := []; ob_pending := []; ob_oracles := [];
     ob_osets := []; ob_batches := []; ob_bcalls := []; ob_cursors := (0, 0, 0); ob_window := 0 |}.

Record hist := { h_cfg : cfg; h_ops : list (op * obs) }.
Definition mk_hist (c : cfg) (l : list (op * obs)) : hist := {| h_cfg := c; h_ops := l |}.

(* ---- sorting by key ---- *)
Section Sort.
  Context {K V : Type} (leb : K -> K -> bool).
  Fixpoint ins (p : K * V) (l : list (K * V)) : list (K * V) :=
    match l with
    | [] => [p]
    | q :: r => if leb (fst p) (fst q) then p :: l else q :: ins p r
    end.
  Definition sort_by (l : list (K * V)) : list (K * V) := fold_right ins [] l.
End Sort.

Definition kleb (a b : Z * Z) : bool := (fst a <? fst b) || ((fst a =? fst b) && (snd a <=? snd b)).

Fixpoint list_eqb {A} (e : A -> A -> bool) (a b : list A) : bool :=
  match a, b with
  | [], [] => true
  | x :: a', y :: b' => e x y && list_eqb e a' b'
  | _, _ => false
  end.

Definition zz_eqb (a b : Z * Z) : bool := (fst a =? fst b) && (snd a =? snd b).

Definition att_eqb (a b : (Z * Z) * (bool * list Z)) : bool :=
  zz_eqb (fst a) (fst b) && Bool.eqb (fst (snd a)) (fst (snd b)) && list_eqb Z.eqb (snd (snd a)) (snd (snd b)).

Definition orc_eqb (a b : Z * (Z * bool * Z * Z * Z)) : bool :=
  match a, b with
  | (i, (s1, on1, b1, t1, h1)), (j, (s2, on2, b2, t2, h2)) =>
      (i =? j) && (s1 =? s2) && Bool.eqb on1 on2 && (b1 =? b2) && (t1 =? t2) && (h1 =? h2)
  end.

Fixpoint insZ (x : Z) (l : list Z) : list Z :=
  match l with [] => [x] | y :: r => if x <=? y then x :: l else y :: insZ x r end.
Definition sortZ (l : list Z) : list Z := fold_right insZ [] l.
Definition obj_eqb (a b : Z * Z * list Z) : bool :=
  match a, b with (k1, h1, c1), (k2, h2, c2) => (k1 =? k2) && (h1 =? h2) && list_eqb Z.eqb c1 c2 end.
Definition view_objs (l : list EB.obj) : list (Z * Z * list Z) :=
  map (fun x => (EB.ob_key x, EB.ob_height x, sortZ (EB.ob_confirms x))) l.

Definition res_class (r : res) : Z := match r with Ok => 0 | Err _ => 1 | Panic => 2 end.

(* projection of a model state in the shape the harness prints *)
Definition view_lastby (s : st) := sort_by Z.leb (last_by s).
Definition view_atts (s : st) := sort_by kleb (map (fun p => (fst p, (a_obs (snd p), a_votes (snd p)))) (atts s)).
Definition view_pending (s : st) := map fst (sort_by Z.leb (pending s)).
Definition view_oracles (s : st) :=
  sort_by Z.leb (map (fun p => (fst p, (o_stake (snd p), o_online (snd p), o_bridger (snd p), o_slash (snd p), o_start (snd p)))) (oracles s)).

Definition obs_ok (s : st) (r : res) (o : obs) : bool :=
  if 20 <=? ob_acc o then true else
  if 10 <=? ob_acc o then
    (res_class r + 10 =? ob_acc o) && (last_obs s =? ob_lastobs o) && (last_total s =? ob_total o)
  else
  (res_class r =? ob_acc o) && (last_obs s =? ob_lastobs o) && (last_total s =? ob_total o)
  && list_eqb zz_eqb (view_lastby s) (ob_lastby o)
  && list_eqb att_eqb (view_atts s) (ob_atts o)
  && list_eqb Z.eqb (view_pending s) (ob_pending o)
  && list_eqb orc_eqb (view_oracles s) (ob_oracles o)
  && list_eqb obj_eqb (view_objs (e_osets (eb s))) (ob_osets o)
  && list_eqb obj_eqb (view_objs (e_batches (eb s))) (ob_batches o)
  && list_eqb obj_eqb (view_objs (e_bcalls (eb s))) (ob_bcalls o)
  && (match ob_cursors o with (a, b, c) => (e_last_oset (eb s) =? a) && (e_last_batch (eb s) =? b) && (e_last_bcall (eb s) =? c) end)
  && (e_window (eb s) =? ob_window o).

(* index (from 0) of the first operation after which model and implementation differ, or -1 *)
Fixpoint first_bad (c : cfg) (s : st) (i : Z) (l : list (op * obs)) : Z :=
  match l with
  | [] => -1
  | (x, o) :: r => let '(s', rs) := step c s x in
                   if obs_ok s' rs o then first_bad c s' (i + 1) r else i
  end.

(* the configuration the harness probed for this run must be the one the translator `c01 -facts` wrote into
   gen/Gen_AttestFacts.v (both execute the same probes on the same tree); -2 = they differ *)
Definition cfg_is_tree_cfg (c : cfg) : bool :=
  Bool.eqb (c_unbond_del c) gen_unbond_deletes_cursor && Bool.eqb (c_cursor_clamp c) gen_cursor_clamps.
Definition hist_first_bad (h : hist) : Z :=
  if cfg_is_tree_cfg (h_cfg h) then first_bad (h_cfg h) init 0 (h_ops h) else -2.
Definition hist_mismatch (h : hist) : bool := negb (hist_first_bad h =? -1).

(* ---- transaction layer (MsgClaim wrapper): one case = a state reached by a prefix of operations,
        then one signed transaction delivered either as bytes (x_bytes = true) or as a message object
        through the same ante chain and router; observed: accepted?, and the oracle ids recorded as
        voters of the attestation (nonce, class) afterwards.
        The comparison accepts the behaviour of the code as it is AND of the code with the missing
        pieces added (UnpackInterfaces on MsgClaim; wrapper = wrapped bridger check): a repaired tree must
        not be flagged by the correspondence.  Which of them the tree shows is decided by the monitor. ---- *)
Record tx_case := { x_cfg : cfg; x_prefix : list op; x_bytes : bool; x_signers : list Z; x_tx : claim_tx;
                    x_acc : bool; x_votes : list Z }.
Definition mk_tx_case c p isbytes sg w i valid n cl park ms acc votes : tx_case :=
  {| x_cfg := c; x_prefix := p; x_bytes := isbytes; x_signers := sg;
     x_tx := {| t_wrapper := w; t_inner := i; t_inner_valid := valid; t_nonce := n; t_cls := cl;
                t_park := park; t_members := ms |};
     x_acc := acc; x_votes := votes |}.

Definition tx_matches (unpacked chk : bool) (x : tx_case) : bool :=
  let s := run (x_cfg x) init (x_prefix x) in
  let '(s', r) := deliver_claim (x_cfg x) unpacked chk s (x_signers x) (x_tx x) in
  let votes := match aget keq (t_nonce (x_tx x), t_cls (x_tx x)) (atts s') with
               | Some a => a_votes a | None => [] end in
  Bool.eqb (match r with Ok => true | _ => false end) (x_acc x) && list_eqb Z.eqb votes (x_votes x).

Definition tx_mismatch (x : tx_case) : bool :=
  negb (tx_matches true false x || tx_matches true true x || (x_bytes x && tx_matches false false x)).

(* which variant the implementation showed on a case: 0 = as in the tree this was written for *)
Definition tx_as_written (x : tx_case) : bool := tx_matches (negb (x_bytes x)) false x.
