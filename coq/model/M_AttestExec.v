(* M_AttestExec — which claim object is executed when a vote crosses the threshold
   (x/crosschain/keeper/attestation.go, Attest + TryAttestation), reduced to what C03 needs:

     Attest(oracle, claim):
       claim.EventNonce must be GetLastEventNonceByOracle(oracle)+1        (else error; an oracle
                                         without a record starts at max(LastObservedEventNonce-1, 0))
       att := GetAttestation(nonce, claim.ClaimHash())  or a fresh one holding THIS claim
       att.Votes += oracle ; SetAttestation
       if !att.Observed && nonce == LastObservedEventNonce+1 : TryAttestation(att, claim)
     TryAttestation(att, claim): sum the voters' powers in vote order; at the first prefix
       reaching the required power: mark observed, processAttestation(claim)   <- the CURRENT
       voter's claim object, not att.Claim (the first voter's)

   The attestation key is (nonce, ClaimHash); the hash is modelled by its pre-image [key]
   (SHA-256 collision resistance is outside the statement).  [a_votes] additionally remembers,
   as ghost data, the claim object each voter submitted.  Oracle powers are a fixed function
   (the C03 statements do not depend on how powers evolve). *)
From Coq Require Import ZArith Bool List.
From FxV Require Import model.M_ClaimHash.
Import ListNotations.
Open Scope Z_scope.

Section Attest.
  Variable C : Type.                 (* claim objects *)
  Variable nonce : C -> Z.
  Variable key : C -> bytes.         (* pre-image of ClaimHash *)
  Variable power : Z -> Z.           (* oracle -> power *)
  Variable required : Z.             (* 66 * totalPower / 100 *)

  Record att := mkAtt {
    a_nonce : Z; a_key : bytes;
    a_claim : C;                     (* att.Claim: the first voter's object *)
    a_votes : list (Z * C);          (* oracle, and (ghost) the object it submitted *)
    a_observed : bool }.

  Record state := mkSt { atts : list att; last_observed : Z; last_by : list (Z * Z) }.

  Definition init : state := mkSt [] 0 [].

  Inductive outcome := Rejected | Voted | Executed (c : C).

  Definition same (n : Z) (k : bytes) (a : att) : bool := (a_nonce a =? n) && bytes_eqb (a_key a) k.

  Fixpoint lastof (o : Z) (l : list (Z * Z)) : option Z :=
    match l with [] => None | (p, n) :: r => if p =? o then Some n else lastof o r end.

  (* GetLastEventNonceByOracle: an oracle that never voted starts just below the last observed nonce *)
  Definition last_nonce (st : state) (o : Z) : Z :=
    match lastof o (last_by st) with
    | Some n => n
    | None => if 1 <=? last_observed st then last_observed st - 1 else 0
    end.

  (* the loop of TryAttestation: true iff some prefix of the votes reaches the required power *)
  Fixpoint tally (acc : Z) (vs : list (Z * C)) : bool :=
    match vs with
    | [] => false
    | (o, _) :: r => let acc' := acc + power o in if acc' <? required then tally acc' r else true
    end.

  Fixpoint put (a : att) (l : list att) : list att :=
    match l with
    | [] => [a]
    | b :: r => if same (a_nonce a) (a_key a) b then a :: r else b :: put a r
    end.

  Definition vote (st : state) (o : Z) (c : C) : state * outcome :=
    if negb (nonce c =? last_nonce st o + 1) then (st, Rejected) else
    let a0 := match find (same (nonce c) (key c)) (atts st) with
              | Some a => a
              | None => mkAtt (nonce c) (key c) c [] false
              end in
    let vs := a_votes a0 ++ [(o, c)] in
    let fire := negb (a_observed a0) && (nonce c =? last_observed st + 1) && tally 0 vs in
    let a2 := mkAtt (a_nonce a0) (a_key a0) (a_claim a0) vs (a_observed a0 || fire) in
    (mkSt (put a2 (atts st)) (if fire then nonce c else last_observed st) ((o, nonce c) :: last_by st),
     if fire then Executed c else Voted).

  Fixpoint run (st : state) (ops : list (Z * C)) : state * list outcome :=
    match ops with
    | [] => (st, [])
    | (o, c) :: r => let '(st1, out) := vote st o c in
                     let '(st2, outs) := run st1 r in (st2, out :: outs)
    end.
End Attest.

Arguments Rejected {C}.
Arguments Voted {C}.
Arguments Executed {C} c.

(* ---------- glue for the correspondence file Cases_C03_quorum.v ---------- *)
(* a claim variant as the harness sees it: (variant id, event nonce, id of its real ClaimHash) *)
Definition qclaim := (Z * Z * Z)%type.
Definition q_nonce (c : qclaim) : Z := snd (fst c).
Definition q_key (c : qclaim) : bytes := [snd c].
Definition q_id (c : qclaim) : Z := fst (fst c).

(* observed per vote: 0 rejected, 1 voted, 2+v executed with variant v's object *)
Definition q_code (o : outcome qclaim) : Z :=
  match o with Rejected => 0 | Voted => 1 | Executed c => 2 + q_id c end.

Record quorum_case := mk_quorum_case {
  qc_powers : list (Z * Z);          (* oracle -> power *)
  qc_required : Z;
  qc_votes : list (Z * qclaim);
  qc_observed : list Z }.

Fixpoint assoc (o : Z) (l : list (Z * Z)) : Z :=
  match l with [] => 0 | (p, v) :: r => if p =? o then v else assoc o r end.

Definition quorum_mismatch (q : quorum_case) : bool :=
  let '(_, outs) := run qclaim q_nonce q_key (fun o => assoc o (qc_powers q)) (qc_required q)
                        (init qclaim) (qc_votes q) in
  negb (list_eqb Z.eqb (map q_code outs) (qc_observed q)).
