(* M_AttestExecDyn — M_AttestExec with oracle powers and the total power CHANGING between votes.

   TryAttestation (x/crosschain/keeper/attestation.go) reads, at the moment of each vote,
     totalPower    := GetLastTotalPower(ctx)                 (a stored value: rewritten by BondedOracle, AddDelegate,
                                                               the slashing pass and the oracle-set end blocker)
     requiredPower := AttestationVotesPowerThreshold(66) * totalPower / 100
     for every recorded voter: GetOracle(voter).GetPower()   (= DelegateAmount / 10^18 as of NOW:
                                                               AddDelegate / ReDelegate / unbond change it at once)
   so votes recorded earlier are re-weighted with the powers of the moment a later vote arrives, against the total
   stored at that moment.  The model keeps the two independent (DPower / DTotal), which covers every way the code
   may update them (on the current tree every delegation change rewrites the total at once).  History operations:
     DVote o c   — MsgClaim of oracle o with claim object c: exactly M_AttestExec.vote, run with the CURRENT power
                   table and required power
     DPower o p  — oracle o's power becomes p (any cause: add-delegate, re-delegate, removal = 0)
     DTotal t    — LastTotalPower becomes t
   A voter whose oracle record is gone is skipped by the real loop ([continue]); here it weighs 0, which gives the
   same fire/no-fire decision because the current voter (last in the list) always has a record. *)
From Coq Require Import ZArith Bool List.
From FxV Require Import model.M_ClaimHash model.M_AttestExec.
Import ListNotations.
Open Scope Z_scope.

Section Dyn.
  Variable C : Type.
  Variable nonce : C -> Z.
  Variable key : C -> bytes.

  Inductive dop := DVote (o : Z) (c : C) | DPower (o p : Z) | DTotal (t : Z).

  Record dstate := mkD { d_core : state C; d_pow : list (Z * Z); d_total : Z }.

  Definition dinit : dstate := mkD (init C) [] 0.

  Definition dpower (d : dstate) : Z -> Z := fun o => assoc o (d_pow d).
  (* types.AttestationVotesPowerThreshold.Mul(totalPower).Quo(100) *)
  Definition drequired (d : dstate) : Z := 66 * d_total d / 100.

  Definition dstep (d : dstate) (op : dop) : dstate * option (outcome C) :=
    match op with
    | DVote o c => let '(s, out) := vote C nonce key (dpower d) (drequired d) (d_core d) o c in
                   (mkD s (d_pow d) (d_total d), Some out)
    | DPower o p => (mkD (d_core d) ((o, p) :: d_pow d) (d_total d), None)
    | DTotal t => (mkD (d_core d) (d_pow d) t, None)
    end.

  Fixpoint drun (d : dstate) (ops : list dop) : dstate * list (outcome C) :=
    match ops with
    | [] => (d, [])
    | op :: r => let '(d1, out) := dstep d op in
                 let '(d2, outs) := drun d1 r in
                 (d2, match out with Some x => x :: outs | None => outs end)
    end.
End Dyn.

Arguments DVote {C} o c.
Arguments DPower {C} o p.
Arguments DTotal {C} t.

(* ---------- glue for the correspondence file Cases_C03_dyn.v ---------- *)
(* the harness prints, before every vote, the real GetOracle(..).GetPower() of every oracle whose power changed and
   the real GetLastTotalPower when it changed; observed codes as in quorum_case *)
Record dyn_case := mk_dyn_case {
  dc_ops : list (@dop qclaim);
  dc_observed : list Z }.

Definition dyn_mismatch (q : dyn_case) : bool :=
  let '(_, outs) := drun qclaim q_nonce q_key (dinit qclaim) (dc_ops q) in
  negb (list_eqb Z.eqb (map q_code outs) (dc_observed q)).
