(* C16, nested delivery: a privileged message wrapped in authz MsgExec (possibly several levels deep, possibly
   inside a governance proposal whose signer is the gov account).
   Transcribed from cosmos-sdk (fork pinned in /repo/go.mod) x/authz/keeper:
     msg_server.go  Exec:            grantee decodable, len(msgs) != 0, validateMsgs (ValidateBasic of each inner
                                     message), DispatchActions
     keeper.go      DispatchActions: for each inner message, in order:
                                       signers := GetMsgV1Signers(msg)   (error => return)
                                       granter := signers[0]
                                       if granter != grantee { grant lookup / expiry / authorization.Accept /
                                                               update-or-delete of the grant; any failure => return }
                                       handler := k.router.Handler(msg)   (the MsgServiceRouter wrapper: ValidateBasic
                                                               first, then the module's server method)
                                       handler(ctx, msg)                  (error => return; earlier writes stay on ctx)
   The inner message is handed to the handler UNCHANGED: its authority field is what the module's guard compares.
   No proofs in this file. *)
From Coq Require Import ZArith List Bool String.
From FxV Require Import model.M_AuthorityTypes model.M_Authority.
Import ListNotations.
Open Scope Z_scope.

Section Nested.
  Variable St : Type.
  Variable Msg : Type.                          (* the privileged (leaf) messages                                  *)
  Variable authority_of : Msg -> str.           (* the authority string the leaf carries                           *)
  Variable signer_of : Msg -> option bytes.     (* GetMsgV1Signers: decoded bytes of that string; None = error     *)
  Variable kind_of_msg : Msg -> cmp_kind.       (* comparison kind of the leaf's handler (generated table (2))     *)
  Variable vb : Msg -> bool.                    (* the leaf's ValidateBasic                                        *)
  Variable gov : str.

  Inductive nmsg :=
  | NLeaf (m : Msg)
  | NExec (grantee : option bytes) (inner : list nmsg).  (* authz MsgExec; None = grantee string not decodable *)

  Definition nsigner (m : nmsg) : option bytes :=
    match m with NLeaf x => signer_of x | NExec g _ => g end.

  (* getGrant / expiry / Accept / update|delete: abstract, may write (grant bookkeeping) and may fail *)
  Variable accept : bytes -> bytes -> nmsg -> St -> outcome * St.   (* granter, grantee *)

  Fixpoint dispatch (h : nmsg -> St -> outcome * St) (grantee : bytes) (ms : list nmsg) (st : St) : outcome * St :=
    match ms with
    | [] => (Ok, st)
    | m :: r =>
        match nsigner m with
        | None => (Err, st)
        | Some g =>
            match (if bytes_eqb g grantee then (Ok, st) else accept g grantee m st) with
            | (Ok, st1) =>
                match h m st1 with
                | (Ok, st2) => dispatch h grantee r st2
                | (o, st2) => (o, st2)
                end
            | (o, st1) => (o, st1)
            end
        end
    end.

  (* ValidateBasic as validateMsgs sees it: a leaf's own; MsgExec has none in this SDK version (its checks are in Exec) *)
  Definition nvb (m : nmsg) : bool := match m with NLeaf x => vb x | NExec _ _ => true end.

  (* the MsgServiceRouter handler of a (possibly nested) message; [n] bounds the nesting depth that is followed *)
  Fixpoint nh (leaf : Msg -> St -> outcome * St) (n : nat) (m : nmsg) (st : St) : outcome * St :=
    match m with
    | NLeaf x => routed St Msg vb leaf x st
    | NExec g ms =>
        match n with
        | O => (Err, st)
        | S n' =>
            match g with
            | None => (Err, st)
            | Some gb =>
                match ms with
                | [] => (Err, st)
                | _ => if forallb nvb ms then dispatch (nh leaf n') gb ms st else (Err, st)
                end
            end
        end
    end.

  (* the leaf handler the property's mechanism prescribes, with the per-type comparison kind *)
  Definition leaf_handler (body : Msg -> St -> outcome * St) (x : Msg) (st : St) : outcome * St :=
    handle St Msg authority_of (kind_of_msg x) gov body x st.

  (* some leaf that the followed nesting reaches carries an authority its guard refuses *)
  Fixpoint bad (n : nat) (m : nmsg) : bool :=
    match m with
    | NLeaf x => negb (guard_pass (kind_of_msg x) gov (authority_of x))
    | NExec _ ms => match n with O => false | S n' => existsb (bad n') ms end
    end.
End Nested.

Arguments NLeaf {Msg} m.
Arguments NExec {Msg} grantee inner.

(* ------------------------------------------------------------------ *)
(* instance used by the correspondence file Cases_C16nest.v *)

Record nleaf := mk_nleaf {
  nl_url : string;
  nl_vb : bool;             (* ValidateBasic of the leaf, evaluated by the harness *)
  nl_auth : str;            (* authority string as code points                     *)
  nl_signer : option bytes  (* its bech32 decoding, None when it has none          *)
}.

Definition grant_row := (bytes * bytes * string)%type.   (* granter, grantee, type URL (GenericAuthorization, no expiry) *)

Definition url_of (exec_url : string) (m : nmsg nleaf) : string :=
  match m with NLeaf x => nl_url x | NExec _ _ => exec_url end.

Definition accept_table (exec_url : string) (grants : list grant_row) (g gr : bytes) (m : nmsg nleaf) (st : unit) : outcome * unit :=
  if existsb (fun r => bytes_eqb (fst (fst r)) g && bytes_eqb (snd (fst r)) gr && String.eqb (snd r) (url_of exec_url m)) grants
  then (Ok, st) else (Err, st).
