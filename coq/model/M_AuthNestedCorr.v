(* glue for the correspondence file Cases_C16nest.v written by harness/c16 (nested.go) *)
From Coq Require Import ZArith List Bool.
From Coq Require Export String.
From FxV Require Import model.M_AuthorityTypes gen.Gen_Authority model.M_Authority model.M_AuthorityCorr model.M_AuthNested.
Import ListNotations.
Open Scope Z_scope.

Definition exec_url : string := "/cosmos.authz.v1beta1.MsgExec".

Record nest_case := mk_nest_case {
  nc_grants : list grant_row;   (* GenericAuthorization grants (granter, grantee, type URL) saved before the delivery *)
  nc_msg : nmsg nleaf;          (* the delivered message tree                                                     *)
  nc_obs : bool                 (* the real MsgServiceRouter handler returned no error                             *)
}.

(* the model run: state-less (unit), bodies succeed (the plain payload is one the governance authority gets
   accepted — positive control of the harness), the comparison kind of each leaf from the generated table (2) *)
Definition nest_model (gov : str) (c : nest_case) : bool :=
  match fst (nh unit nleaf nl_signer nl_vb (accept_table exec_url (nc_grants c))
               (leaf_handler unit nleaf nl_auth (fun x => kind_of gen_handlers (nl_url x)) gov (fun _ s => (Ok, s)))
               8 (nc_msg c) tt) with
  | Ok => true
  | _ => false
  end.

Definition nest_mismatch (gov : str) (c : nest_case) : bool :=
  negb (Bool.eqb (nest_model gov c) (nc_obs c)).
