(* C16 — privileged messages need the governance authority.

   Executable model of
     * the authority comparison of fx-core's privileged handlers (x/crosschain, x/erc20, x/evm,
       x/gov msg servers): `if keeper != req.Authority { return nil, err }` resp.
       `if !strings.EqualFold(keeper, req.Authority) { return nil, err }` as FIRST statement,
     * a handler as a statement list (pure statements, the guard, effectful statements), so that
       "the guard is the first effectful statement" has a meaning,
     * the crosschain router that forwards to the per-chain server after a pure lookup,
     * the SDK router wrapper (ValidateBasic before the handler) and the tx-level cache,
     * x/gov MsgUpdateStore: compare-and-set over a list of entries, transcribed statement by
       statement from x/gov/keeper/msg_server.go:UpdateStore (including where it panics),
     * the finite checks over the two generated tables.
   No proofs here (proofs/P_Authority.v). *)
From Coq Require Import ZArith List Bool String Ascii.
From FxV Require Import model.M_AuthorityTypes gen.Gen_Authority gen.Gen_AuthorityMsgs.
Import ListNotations.
Open Scope Z_scope.

(* ------------------------------------------------------------------ *)
(* strings as lists of Unicode code points (what Go's range/EqualFold see) *)

Definition str := list Z.

Fixpoint str_eqb (a b : str) : bool :=
  match a, b with
  | [], [] => true
  | x :: a', y :: b' => (x =? y) && str_eqb a' b'
  | _, _ => false
  end.

(* Go's strings.EqualFold compares under Unicode simple case folding.  One side is always the
   keeper's authority, an ASCII bech32 string, so only the folding orbits that contain an ASCII
   letter matter: {A..Z <-> a..z}, and the two non-ASCII members U+212A KELVIN SIGN (orbit of k)
   and U+017F LATIN SMALL LETTER LONG S (orbit of s).  fold_cp maps a code point to the lower-case
   ASCII representative of its orbit when it has one. *)
Definition fold_cp (c : Z) : Z :=
  if (65 <=? c) && (c <=? 90) then c + 32
  else if c =? 8490 then 107
  else if c =? 383 then 115
  else c.

Definition fold (s : str) : str := map fold_cp s.

Inductive outcome := Ok | Err | Panic.

Definition outcome_eqb (a b : outcome) : bool :=
  match a, b with Ok, Ok | Err, Err | Panic, Panic => true | _, _ => false end.

(* the guard: true = the handler goes on to its body *)
Definition guard_pass (k : cmp_kind) (gov a : str) : bool :=
  match k with
  | CmpNeq => str_eqb gov a
  | CmpEqualFold => str_eqb (fold gov) (fold a)
  | CmpGuardNotFirst => true (* the comparison may be skipped: nothing is promised *)
  | CmpOther => true      (* unrecognised comparison: nothing is promised *)
  | CmpNone => true       (* no comparison at all: every authority passes  *)
  end.

(* ------------------------------------------------------------------ *)
(* a handler body as a list of statements over an abstract state *)

Section Handler.
  Variable St : Type.
  Variable Msg : Type.
  Variable authority_of : Msg -> str.

  Inductive stmt :=
  | SPure                                        (* ctx := sdk.UnwrapSDKContext(c), getters: no store access *)
  | SGuard (k : cmp_kind)                        (* if keeper-authority <cmp> req.Authority { return nil, err } *)
  | SEffect (f : Msg -> St -> outcome * St).     (* anything that may touch a store and may fail *)

  Fixpoint run (gov : str) (body : list stmt) (m : Msg) (st : St) : outcome * St :=
    match body with
    | [] => (Ok, st)
    | SPure :: r => run gov r m st
    | SGuard k :: r => if guard_pass k gov (authority_of m) then run gov r m st else (Err, st)
    | SEffect f :: r =>
        match f m st with
        | (Ok, st') => run gov r m st'
        | (o, st') => (o, st')               (* Go: return nil, err — writes made so far stay on ctx *)
        end
    end.

  (* the shape the property's mechanism prescribes: handle m st = if guard m then body m st else (Err, st) *)
  Definition handle (k : cmp_kind) (gov : str) (body : Msg -> St -> outcome * St) (m : Msg) (st : St) : outcome * St :=
    if guard_pass k gov (authority_of m) then body m st else (Err, st).

  (* the statement list a generated row describes: [guard_idx] pure statements (when the translator
     saw no call before the guard), the guard, then the rest as one opaque effect.  When the
     translator saw a call before the guard, that prefix is an opaque effect [pre]. *)
  Definition stmts_of (guard_idx : Z) (kind : cmp_kind) (pre_effect : bool)
             (pre body : Msg -> St -> outcome * St) : list stmt :=
    if guard_idx <? 0 then [SEffect body]
    else (if pre_effect then [SEffect pre] else repeat SPure (Z.to_nat guard_idx))
         ++ [SGuard kind; SEffect body].

  (* crosschain router: pure lookup of the per-chain server, then forward *)
  Definition route (chain_of : Msg -> Z) (servers : list (Z * (Msg -> St -> outcome * St)))
             (m : Msg) (st : St) : outcome * St :=
    match find (fun p => fst p =? chain_of m) servers with
    | None => (Err, st)
    | Some p => snd p m st
    end.

  (* baseapp MsgServiceRouter wrapper: ValidateBasic, then the handler *)
  Definition routed (validate_basic : Msg -> bool) (h : Msg -> St -> outcome * St) (m : Msg) (st : St) : outcome * St :=
    if validate_basic m then h m st else (Err, st).

  (* tx level (runMsgs on a cache branch; a panic is recovered by runTx): writes kept only on success *)
  Definition tx (h : Msg -> St -> outcome * St) (m : Msg) (st : St) : St :=
    match h m st with (Ok, st') => st' | (_, _) => st end.
End Handler.

Arguments SPure {St Msg}.
Arguments SGuard {St Msg} k.
Arguments SEffect {St Msg} f.

(* ------------------------------------------------------------------ *)
(* x/gov MsgUpdateStore *)

Definition bytes := list Z.
Definition bytes_eqb := str_eqb.

Record entry := mk_entry {
  e_space : Z;               (* index of the store name; not among the known ones = unknown space   *)
  e_key : option bytes;      (* None: Key is not valid hex (KeyToBytes panics)                      *)
  e_old : option bytes;      (* None: OldValue is non-empty invalid hex (OldValueToBytes panics)    *)
  e_new : option bytes       (* None: Value is non-empty invalid hex (ValueToBytes panics)          *)
}.

(* the multistore restricted to (space, key) pairs: only present keys are listed *)
Definition skey := (Z * bytes)%type.
Definition kvs := list (skey * bytes).

Definition skey_eqb (a b : skey) : bool := (fst a =? fst b) && bytes_eqb (snd a) (snd b).

Fixpoint get (st : kvs) (k : skey) : option bytes :=
  match st with
  | [] => None
  | (k', v) :: r => if skey_eqb k' k then Some v else get r k
  end.

Definition set (st : kvs) (k : skey) (v : bytes) : kvs := (k, v) :: st.

(* kvStore.Get returns nil for an absent key and bytes.Equal(nil, []byte{}) is true *)
Definition cur (st : kvs) (k : skey) : bytes := match get st k with Some v => v | None => [] end.

Definition mem_space (s : Z) (known : list Z) : bool := existsb (Z.eqb s) known.

(*  for _, updateStore := range req.UpdateStores {
      key, ok := k.Keeper.storeKeys[updateStore.Space];  if !ok { return nil, ErrInvalidRequest }
      kvStore := ctx.KVStore(key)
      keyBt := updateStore.KeyToBytes()                    // panics on invalid hex
      storeValue := kvStore.Get(keyBt)                     // panics on an empty key
      if !bytes.Equal(storeValue, updateStore.OldValueToBytes()) { return nil, ErrInvalidRequest }   // panics on invalid hex
      kvStore.Set(keyBt, updateStore.ValueToBytes())       // panics on invalid hex, before Set
    }                                                                                              *)
Fixpoint update_store (known : list Z) (es : list entry) (st : kvs) : outcome * kvs :=
  match es with
  | [] => (Ok, st)
  | e :: r =>
      if negb (mem_space (e_space e) known) then (Err, st) else
      match e_key e with
      | None => (Panic, st)
      | Some [] => (Panic, st)
      | Some k =>
          match e_old e with
          | None => (Panic, st)
          | Some o =>
              if negb (bytes_eqb (cur st (e_space e, k)) o) then (Err, st) else
              match e_new e with
              | None => (Panic, st)
              | Some v => update_store known r (set st (e_space e, k) v)
              end
          end
      end
  end.

(* the full handler: guard first, then the loop *)
Definition update_store_msg (known : list Z) (gov : str) (m : str * list entry) (st : kvs) : outcome * kvs :=
  handle kvs (str * list entry) fst CmpNeq gov (fun m st => update_store known (snd m) st) m st.

(* ------------------------------------------------------------------ *)
(* finite checks over the generated tables *)

Open Scope string_scope.

Fixpoint has_suffix (suf s : string) : bool :=
  if String.eqb suf s then true
  else match s with EmptyString => false | String _ r => has_suffix suf r end.

(* the keeper-side operand must be the keeper's stored authority *)
Definition against_ok (s : string) : bool :=
  has_suffix ".authority" s || has_suffix ".GetAuthority().String()" s || has_suffix ".GetAuthority()" s ||
  has_suffix ".authority.String()" s.

Definition kind_ok (k : cmp_kind) : bool :=
  match k with CmpNeq | CmpEqualFold => true | _ => false end.

(* a handler that checks for itself: the guard exists, is of a recognised kind, compares with the
   keeper's authority, and no call precedes it *)
Definition guards_first (r : handler_row) : bool :=
  (0 <=? h_guard_idx r)%Z && kind_ok (h_kind r) && against_ok (h_against r) && negb (h_pre_effect r).

Definition is_delegate (r : handler_row) : bool := negb (String.eqb (h_delegate r) "").

(* split "a,b,c" *)
Fixpoint split_commas (s : string) (acc : string) : list string :=
  match s with
  | EmptyString => [acc]
  | String c r => if Ascii.eqb c ","%char then acc :: split_commas r "" else split_commas r (acc ++ String c "")
  end.

(* lookups used by delegating handlers may only read the route table and build an error *)
Definition pure_lookup_calls : list string := ["Router"; "HasRoute"; "GetRoute"; "Wrapf"; "Wrap"].
Definition lookup_pure (l : lookup_row) : bool :=
  forallb (fun c => existsb (String.eqb c) pure_lookup_calls) (split_commas (l_calls l) "").

Definition lookup_ok (lookups : list lookup_row) (file name : string) : bool :=
  existsb (fun l => String.eqb (l_file l) file && String.eqb (l_name l) name && lookup_pure l) lookups.

(* a delegating row is fine when its lookup is pure and some OTHER row for the same URL with the
   forwarded-to name guards first *)
Definition delegate_ok (hs : list handler_row) (lookups : list lookup_row) (r : handler_row) : bool :=
  lookup_ok lookups (h_file r) (h_delegate_via r) &&
  existsb (fun t => String.eqb (h_url t) (h_url r) && String.eqb (h_name t) (h_delegate r) &&
                    negb (is_delegate t) && guards_first t) hs.

(* committed exceptions: handlers whose guard is NOT the first effectful statement.
   cosmos-sdk x/gov ExecLegacyContent first calls k.GetGovernanceAccount(ctx) — which returns the gov module
   account and would create it if it did not exist — and compares the authority with THAT account's address
   (not with k.authority).  The account exists since genesis, so the call is a read; the differential run
   checks byte-identical stores for this message like for every other.  An exception row must still have a
   recognised `!=` guard, and must compare with exactly the expression recorded here. *)
Definition guard_exceptions : list (string * string) :=
  [("/cosmos.gov.v1.MsgExecLegacyContent", "k.GetGovernanceAccount(ctx).GetAddress().String()")].

Definition exception_ok (r : handler_row) : bool :=
  existsb (fun e => String.eqb (fst e) (h_url r) && String.eqb (snd e) (h_against r)) guard_exceptions &&
  (0 <=? h_guard_idx r)%Z && match h_kind r with CmpNeq => true | _ => false end.

Definition row_ok (hs : list handler_row) (lookups : list lookup_row) (r : handler_row) : bool :=
  if is_delegate r then delegate_ok hs lookups r else guards_first r || exception_ok r.

Definition rows_for (hs : list handler_row) (url : string) : list handler_row :=
  filter (fun r => String.eqb (h_url r) url) hs.

(* table (1) x table (2): EVERY authority message routable in the running app — fx-core's, cosmos-sdk's,
   ibc-go's, ethermint's — has at least one handler row, and every row for it is fine *)
Definition msg_guarded (hs : list handler_row) (lookups : list lookup_row) (m : authmsg_row) : bool :=
  match rows_for hs (am_url m) with [] => false | rs => forallb (row_ok hs lookups) rs end.

Definition all_guarded (ms : list authmsg_row) (hs : list handler_row) (lookups : list lookup_row) : bool :=
  forallb (msg_guarded hs lookups) ms && forallb (row_ok hs lookups) hs.

Definition authaddr_expected : string := "authtypes.NewModuleAddress(govtypes.ModuleName).String()".

(* comparison kind the source uses for a type URL: that of its self-checking row *)
Definition kind_of (hs : list handler_row) (url : string) : cmp_kind :=
  match filter (fun r => negb (is_delegate r)) (rows_for hs url) with
  | r :: _ => if guards_first r || exception_ok r then h_kind r else CmpNone
  | [] => CmpNone
  end.

(* the dependency sources table (2) was read from, pinned by sha256: a dependency bump (the module version
   is part of the path) or a changed file breaks the tie loudly and the handlers have to be re-read *)
Definition dep_files_expected : list (string * string) :=
 [("cosmossdk.io/x/upgrade@v0.1.4/keeper/msg_server.go", "4017b76b848c316a2354e80ce98d6832031430bf51bf386d9355a4d6cf146a25");
  ("github.com/cosmos/ibc-go/v8@v8.5.1/modules/apps/transfer/keeper/msg_server.go", "30cbd140d324c0c7c8179b5abdc0b5d0bfa30583025b67044c4a2b45b05cd170");
  ("github.com/cosmos/ibc-go/v8@v8.5.1/modules/core/keeper/msg_server.go", "5fdd185d8fc79e572030ef479b436e117bdbb75bf4d939766bc52589560ec473");
  ("github.com/crypto-org-chain/cosmos-sdk@v0.50.6-0.20240902025731-535413db1bf4/baseapp/msg_service_router.go", "e2d0cbd8f74153177de8f95a2ee09374f8f0e3d1e6519bebf45c3ac45f539886");
  ("github.com/crypto-org-chain/cosmos-sdk@v0.50.6-0.20240902025731-535413db1bf4/x/auth/keeper/msg_server.go", "abaa45209973b372abf93df21c7ac41ff72b69eed2c5dbfaaf5c09634202ef9c");
  ("github.com/crypto-org-chain/cosmos-sdk@v0.50.6-0.20240902025731-535413db1bf4/x/bank/keeper/msg_server.go", "436f8a288ca753e6e4981b3cc7fe96ba487e6bcfc878705bcdb0a928916d21ff");
  ("github.com/crypto-org-chain/cosmos-sdk@v0.50.6-0.20240902025731-535413db1bf4/x/consensus/keeper/keeper.go", "87dd590cff55047dec946e5b594457cfcd2c964656c874685abf9b3ea36eb474");
  ("github.com/crypto-org-chain/cosmos-sdk@v0.50.6-0.20240902025731-535413db1bf4/x/crisis/keeper/msg_server.go", "5bacd62f2dfd283e63634f8f5ab03c2926b4ff9b3ce5791fac531bcc57e7b1e6");
  ("github.com/crypto-org-chain/cosmos-sdk@v0.50.6-0.20240902025731-535413db1bf4/x/distribution/keeper/msg_server.go", "f7503372d592806a5fb71dcfa0c965a079d1c3102ad335ce457cd03937409ea9");
  ("github.com/crypto-org-chain/cosmos-sdk@v0.50.6-0.20240902025731-535413db1bf4/x/gov/keeper/msg_server.go", "c04729467dfb2f0144f3fe7002851bc426aa447894b17a401441cbf13753e6b4");
  ("github.com/crypto-org-chain/cosmos-sdk@v0.50.6-0.20240902025731-535413db1bf4/x/mint/keeper/msg_server.go", "2ecb87e27573d8663395a1445c8dd1758e10e0d1acdb0337b13d2a03ffea765e");
  ("github.com/crypto-org-chain/cosmos-sdk@v0.50.6-0.20240902025731-535413db1bf4/x/slashing/keeper/msg_server.go", "f16ea11a43f8c9681b84e89ce617f1d067d4ca11512b3c92b5dc8859cd4357e8");
  ("github.com/crypto-org-chain/cosmos-sdk@v0.50.6-0.20240902025731-535413db1bf4/x/staking/keeper/msg_server.go", "4eb393b9676afc1d178f8c439a1886b5f030acfb7690af63866b724e42ba45c1");
  ("github.com/functionx/ethermint@v0.6.1-0.20240914063604-28a75474779c/x/evm/keeper/msg_server.go", "32b42a8c4c4910e3886072a614378bb11f2287ef788b7b022ed306d0babac2c4");
  ("github.com/functionx/ethermint@v0.6.1-0.20240914063604-28a75474779c/x/feemarket/keeper/msg_server.go", "8044ef20fbd5ec05a86b25b7abcf9d089ef78c18b3174f50dbda5699a08d4b63")].

Fixpoint str_pairs_eqb (a b : list (string * string)) : bool :=
  match a, b with
  | [], [] => true
  | (x1, y1) :: a', (x2, y2) :: b' => String.eqb x1 x2 && String.eqb y1 y2 && str_pairs_eqb a' b'
  | _, _ => false
  end.

(* how a message reaches a privileged fx-core handler: only through baseapp's MsgServiceRouter (transactions,
   authz MsgExec and gov proposal execution all obtain their handler from it), whose wrapper runs ValidateBasic
   first — so a string that is not a decodable address never arrives at a handler.  Checked: the only calls of
   a privileged handler by name in non-test code are the crosschain router's forwards (which sit behind the SDK
   router themselves), and the pinned baseapp source calls ValidateBasic before the service method. *)
Definition direct_callers_ok (l : list (string * string * string)) : bool :=
  forallb (fun c => match c with (f, _, _) => String.eqb f "x/crosschain/keeper/msg_server_router.go" end) l.

(* the handlers whose guard folds case (strings.EqualFold): informational, computed from the generated table *)
Definition folding_handlers (hs : list handler_row) : list (string * string) :=
  map (fun r => (h_url r, h_name r)) (filter (fun r => match h_kind r with CmpEqualFold => true | _ => false end) hs).

(* app/keepers/keepers.go, per keeper: every constructor call that receives an authority-like argument (the variable
   authAddr or a NewModuleAddress(..) expression) must receive the GOVERNANCE module address — the variable authAddr
   (whose binding is pinned by authaddr_expected) or the expression itself — and every keeper known to take an
   authority must still be in the list (a constructor that no longer gets one is a missing row). *)
Definition authority_arg_ok (a : string) : bool :=
  String.eqb a "authAddr" || String.eqb a "authtypes.NewModuleAddress(govtypes.ModuleName)" ||
  String.eqb a "authtypes.NewModuleAddress(govtypes.ModuleName).String()".

Definition keeper_ctor_expected : list (string * string) :=
 [("appKeepers.ConsensusParamsKeeper", "consensusparamkeeper.NewKeeper");
  ("appKeepers.AccountKeeper", "authkeeper.NewAccountKeeper");
  ("appKeepers.BankKeeper", "bankkeeper.NewBaseKeeper");
  ("appKeepers.StakingKeeper", "stakingkeeper.NewKeeper");
  ("appKeepers.MintKeeper", "mintkeeper.NewKeeper");
  ("appKeepers.DistrKeeper", "distrkeeper.NewKeeper");
  ("appKeepers.SlashingKeeper", "slashingkeeper.NewKeeper");
  ("appKeepers.CrisisKeeper", "crisiskeeper.NewKeeper");
  ("appKeepers.UpgradeKeeper", "upgradekeeper.NewKeeper");
  ("appKeepers.IBCKeeper", "ibckeeper.NewKeeper");
  ("appKeepers.IBCTransferKeeper", "ibctransferkeeper.NewKeeper");
  ("appKeepers.FeeMarketKeeper", "feemarketkeeper.NewKeeper");
  ("evmKeeper", "evmkeeper.NewKeeper");
  ("appKeepers.Erc20Keeper", "erc20keeper.NewKeeper");
  ("appKeepers.BscKeeper", "crosschainkeeper.NewKeeper");
  ("appKeepers.PolygonKeeper", "crosschainkeeper.NewKeeper");
  ("appKeepers.AvalancheKeeper", "crosschainkeeper.NewKeeper");
  ("appKeepers.EthKeeper", "crosschainkeeper.NewKeeper");
  ("appKeepers.ArbitrumKeeper", "crosschainkeeper.NewKeeper");
  ("appKeepers.OptimismKeeper", "crosschainkeeper.NewKeeper");
  ("appKeepers.Layer2Keeper", "crosschainkeeper.NewKeeper");
  ("appKeepers.TronKeeper", "crosschainkeeper.NewKeeper");
  ("_govKeeper", "govkeeper.NewKeeper");
  ("appKeepers.GovKeeper", "fxgovkeeper.NewKeeper")].

Definition keeper_authorities_ok (l : list (string * string * string)) : bool :=
  forallb (fun r => match r with (_, _, a) => authority_arg_ok a end) l &&
  forallb (fun e => existsb (fun r => match r with (k, c, _) => String.eqb k (fst e) && String.eqb c (snd e) end) l) keeper_ctor_expected.
