(* glue for the correspondence files Cases_C16.v / Cases_C16cas.v written by harness/c16 *)
From Coq Require Import ZArith List Bool.
From Coq Require Export String.
From FxV Require Import model.M_AuthorityTypes gen.Gen_Authority model.M_Authority.
Import ListNotations.
Open Scope Z_scope.

(* one delivery of a payload that the governance authority gets accepted *)
Inductive level := LvRouter (* MsgServiceRouter handler: ValidateBasic, then the server method *)
                 | LvDirect (* the server method itself *).

(* authority strings in the case file: printable ASCII as a literal, anything else as code points *)
Fixpoint A (s : string) : str :=
  match s with EmptyString => [] | String c r => Z.of_N (Ascii.N_of_ascii c) :: A r end.
Definition U (l : list Z) : str := l.

Record auth_case := mk_auth_case {
  ac_url : string;     (* message type URL                                        *)
  ac_level : level;
  ac_vb : bool;        (* what msg.ValidateBasic() said (evaluated by the harness) *)
  ac_auth : str;       (* the authority string, as code points                     *)
  ac_obs : bool        (* the real handler returned no error                       *)
}.

(* model: the comparison kind comes from the row the translator generated for this URL *)
Definition auth_model (gov : str) (c : auth_case) : bool :=
  let g := guard_pass (kind_of gen_handlers (ac_url c)) gov (ac_auth c) in
  match ac_level c with LvRouter => ac_vb c && g | LvDirect => g end.

Definition auth_mismatch (gov : str) (c : auth_case) : bool :=
  negb (Bool.eqb (auth_model gov c) (ac_obs c)).

(* raw store update, handler level *)
Record cas_case := mk_cas_case {
  cc_known : list Z;
  cc_init : kvs;
  cc_entries : list entry;
  cc_obs : outcome;
  cc_final : list (skey * option bytes)
}.

Definition opt_bytes_eqb (a b : option bytes) : bool :=
  match a, b with
  | None, None => true
  | Some x, Some y => bytes_eqb x y
  | _, _ => false
  end.

Definition cas_mismatch (c : cas_case) : bool :=
  let '(o, st') := update_store (cc_known c) (cc_entries c) (cc_init c) in
  negb (outcome_eqb o (cc_obs c) &&
        forallb (fun p => opt_bytes_eqb (get st' (fst p)) (snd p)) (cc_final c)).
