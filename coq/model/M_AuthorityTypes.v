(* C16: row types of the two generated tables (coq/gen/Gen_AuthorityMsgs.v, written by the
   harness from the RUNNING app, and coq/gen/Gen_Authority.v, written by harness/gen_c16 from
   fx-core's sources with go/ast).  Only data types here, so that generated files can import it. *)
From Coq Require Import String ZArith List.
Import ListNotations.

(* how a handler compares the message's authority with the keeper's *)
Inductive cmp_kind :=
| CmpNeq        (* if keeper != req.Authority { return nil, err }              *)
| CmpEqualFold  (* if !strings.EqualFold(keeper, req.Authority) { return err } *)
| CmpGuardNotFirst (* the authority is handed to a helper whose comparison is not its first statement: the helper
                       can return — an error or nil — before it compares (state-dependent guard)            *)
| CmpOther      (* mentions the authority in some other condition              *)
| CmpNone.      (* no statement of the body compares the authority             *)

(* table (1): one row per message type URL registered on the app's MsgServiceRouter whose
   signer is an authority (see harness/c16: signer option names `authority`, or the message is a
   parameter update / ibc gov-only message whose signer field is called `signer`) *)
Record authmsg_row := mk_authmsg {
  am_url : string;         (* "/fx.erc20.v1.MsgUpdateParams"                          *)
  am_gopkg : string;       (* Go package path of the registered message type          *)
  am_field : string;       (* name of the signer field: "authority" or "signer"       *)
  am_in_fx : bool;         (* the Go type lives in fx-core's module                   *)
  am_per_chain : bool      (* has a chain_name field: delivered once per bridge chain *)
}.

(* table (2): one row per fx-core msg-server method taking a request pkg.MsgX
   whose request carries an Authority *)
Record handler_row := mk_handler {
  h_url : string;
  h_file : string;
  h_recv : string;
  h_name : string;
  h_req : string;
  h_guard_idx : Z;         (* index in the body of the first statement comparing the authority; -1 = none *)
  h_kind : cmp_kind;
  h_against : string;      (* expression the authority is compared with *)
  h_pre_effect : bool;     (* some call other than the allow-listed pure ones precedes the guard *)
  h_delegate : string;     (* router shape: forwards to <server>.<h_delegate>(ctx, req); "" otherwise *)
  h_delegate_via : string; (* lookup helper called before forwarding *)
  h_nstmts : Z
}.

Record lookup_row := mk_lookup {
  l_file : string;
  l_name : string;
  l_calls : string         (* comma separated selector names of the calls in its body *)
}.
