(* C18 — tolerated failures: executable model of the four places where fx-core deliberately
   continues after a failed sub-step.  Faithful to the code as it is.

   The point of the model is the POSITION of the cache branch relative to the writes:

     x/crosschain/keeper/attestation.go   TryAttestation / processAttestation
     x/crosschain/keeper/bridge_call_in.go BridgeCallHandler / BridgeCallEvm / BridgeCallFailedRefund
                                           (+ attestation_handler.go ExecuteClaim, many_to_one.go, bridge_call_out.go)
     x/gov/abci.go                         EndBlocker, case "passes"
     ibc-go v8.5.1 modules/core/keeper/msg_server.go RecvPacket (cache rule) around
     x/ibc/middleware/ibc_middleware.go    IBCMiddleware.OnRecvPacket

   A callee that fails returns  Err s  where s is the state it has ALREADY written into the
   context it was given: partial effects exist in the model exactly as they do in Go, and only a
   discarded cache branch removes them.  No proofs in this file. *)
From Coq Require Import ZArith List Bool.
Import ListNotations.
Open Scope Z_scope.

(* ------------------------------------------------------------------------------------------ *)
(** * Results and the cache-context discipline *)

Inductive result (S : Type) : Type :=
| Ok  (s : S)      (* returned nil; s = context after the call *)
| Err (s : S).     (* returned an error (or panicked under a recover); s = what it had written so far *)
Arguments Ok {S} s.
Arguments Err {S} s.

Definition is_ok {S} (r : result S) : bool := match r with Ok _ => true | Err _ => false end.
Definition written {S} (r : result S) : S := match r with Ok s | Err s => s end.

Definition bind {S} (r : result S) (f : S -> result S) : result S :=
  match r with Ok s => f s | Err s => Err s end.

(* a Go loop / sequence of calls that returns at the first error, keeping what was written *)
Fixpoint run_steps {S} (fs : list (S -> result S)) (s : S) : result S :=
  match fs with
  | [] => Ok s
  | f :: r => bind (f s) (run_steps r)
  end.

(* sdk.Context.CacheContext(): the branch reads through to the outer state and buffers writes *)
Definition branch  {S} (outer : S) : S := outer.
Definition commit  {S} (outer cache : S) : S := cache.   (* writeCache() *)
Definition discard {S} (outer cache : S) : S := outer.   (* writeCache never called *)

(* what a transaction / ExecuteNativeAction does with an erroring message *)
Definition tx {S} (f : S -> result S) (s : S) : S * bool :=
  match f (branch s) with
  | Ok c => (commit s c, true)
  | Err c => (discard s c, false)
  end.

(* ------------------------------------------------------------------------------------------ *)
(** * Boundary 1: an observed event whose handler fails (attestation.go) *)

Section Attestation.
  Variable S : Type.
  (* AttestationHandler(xCtx, claim) for the claim at hand — ANY behaviour, including writes before the error *)
  Variable handler : S -> result S.
  (* TryAttestation, on ctx, before processAttestation:
       SetLastObservedEventNonce; SetLastObservedBlockHeight; att.Observed = true; SetAttestation *)
  Variable mark_observed : S -> S.
  (* TryAttestation, on ctx, after it: cleanupTimedOutBatches; cleanupTimeOutBridgeCall; pruneAttestations *)
  Variable cleanup : S -> S.

  (*  xCtx, commit := ctx.CacheContext()
      if err := k.AttestationHandler(xCtx, claim); err != nil { ...log...; return err }
      commit(); return nil                                                              *)
  Definition process_attestation (ctx : S) : S * bool :=
    let xctx := branch ctx in
    match handler xctx with
    | Err x' => (discard ctx x', false)
    | Ok x'  => (commit ctx x', true)
    end.

  (* the vote that crosses the threshold *)
  Definition try_attestation (ctx : S) : S * bool :=
    let ctx1 := mark_observed ctx in
    let (ctx2, ok) := process_attestation ctx1 in
    (cleanup ctx2, ok).

  (* designated outcome of a failed handler: the event is marked observed (and the usual clean-ups
     ran); the error itself goes into an event attribute, which is not state *)
  Definition att_designated (pre : S) : S := cleanup (mark_observed pre).

  (* The whole MsgClaim transaction of the vote that crosses the threshold (msg_server.go Claim -> Attest).
     A handler may also PANIC (OutgoingTxBatchExecuted on an unknown batch, UpdateOracleSetExecuted on a member mismatch):
     nothing in the keeper recovers, the panic unwinds through processAttestation, TryAttestation and Attest into
     baseapp.runTx, which fails the transaction and keeps none of its writes — not the vote either. *)
  Variable handler_p : S -> option (result S).        (* None = panic *)
  Variable record_vote : S -> S.    (* Attest, before: att.Votes = append(…); SetAttestation *)
  Variable finish_vote : S -> S.    (* Attest, after: SetLastEventNonceByOracle; SetLastEventBlockHeightByOracle *)
  (* result class: 0 = handler succeeded, 1 = handler error tolerated, 2 = transaction failed *)
  Definition claim_tx (pre : S) : S * Z :=
    let s1 := mark_observed (record_vote pre) in
    match handler_p s1 with
    | None => (pre, 2)
    | Some (Ok x) => (finish_vote (cleanup (commit s1 x)), 0)
    | Some (Err x) => (finish_vote (cleanup (discard s1 x)), 1)
    end.
End Attestation.

(* ------------------------------------------------------------------------------------------ *)
(** * Boundary 3: a passed proposal whose message fails (x/gov/abci.go) *)

Section Gov.
  Variable S : Type.
  (* safeExecuteHandler(cacheCtx, msg, handler) per message: error or recovered panic = Err *)
  Variable msgs : list (S -> result S).
  (* on ctx before: Tally; Refund/BurnDeposits; ActiveProposalsQueue.Remove *)
  Variable pre_exec : S -> S.
  (* on ctx after: proposal.Status / FailedReason / FinalTallyResult; SetProposal; hook in its own cache *)
  Variable set_status : bool -> S -> S.

  Definition gov_execute (ctx : S) : S * bool :=
    let ctx1 := pre_exec ctx in
    let cache := branch ctx1 in
    match run_steps msgs cache with
    | Ok c'  => (set_status true  (commit ctx1 c'), true)
    | Err c' => (set_status false (discard ctx1 c'), false)
    end.

  Definition gov_designated (pre : S) : S := set_status false (pre_exec pre).
End Gov.

(* ------------------------------------------------------------------------------------------ *)
(** * Boundary 4: an IBC packet whose follow-up fails (ibc-go core RecvPacket + IBCMiddleware) *)

Section IbcRecv.
  Variable S : Type.
  Variable parse_ok : bool.                 (* packet data unmarshals and the receiver parses *)
  Variable transfer_recv : S -> result S.   (* ibc-go transfer IBCModule.OnRecvPacket on the rewritten packet *)
  Variable hook : S -> result S.            (* middleware Keeper.OnRecvPacket: IBCCoinToEvm, HandlerIbcCall *)
  Variable tao : S -> S.                    (* ChannelKeeper.RecvPacket writes (receipt / nextSequenceRecv), own cache, committed *)
  Variable write_ack : bool -> S -> S.      (* ChannelKeeper.WriteAcknowledgement(ctx, …, ack) on the outer ctx *)

  (* IBCMiddleware.OnRecvPacket: (what it wrote into the ctx it was given, ack.Success()) *)
  Definition mw_on_recv (ctx : S) : S * bool :=
    if negb parse_ok then (ctx, false) else
    match transfer_recv ctx with
    | Err c1 => (c1, false)                         (* error ack of the transfer module is returned as is *)
    | Ok c1 =>
        match hook c1 with
        | Err c2 => (c2, false)                     (* channeltypes.NewErrorAcknowledgement(err) *)
        | Ok c2  => (c2, true)
        end
    end.

  (* ibc-go v8.5.1 core keeper RecvPacket:
       cacheCtx, writeFn = ctx.CacheContext()
       ack := cbs.OnRecvPacket(cacheCtx, msg.Packet, relayer)
       if ack == nil || ack.Success() { writeFn() } else { …events only… }
       if ack != nil { WriteAcknowledgement(ctx, …) }                                   *)
  Definition core_recv (ctx : S) : S * bool :=
    let ctx1 := tao ctx in
    let cache := branch ctx1 in
    let (c', ok) := mw_on_recv cache in
    let ctx2 := if ok then commit ctx1 c' else discard ctx1 c' in
    (write_ack ok ctx2, ok).

  Definition recv_designated (pre : S) : S := write_ack false (tao pre).

  (* the MsgRecvPacket transaction.  A panic below the application callback is not an acknowledgement: nothing on the way
     recovers from it (M_CacheShape.ok_no_recover — in particular IBCMiddleware.OnRecvPacket does not), the transaction
     fails and keeps nothing, not even the core's own writes.  `panics` = the callback panics on this packet.
     class: 1 = success acknowledgement, 2 = error acknowledgement, 3 = transaction failed *)
  Definition recv_tx (panics : bool) (pre : S) : S * Z :=
    if panics then (pre, 3) else let (s, ok) := core_recv pre in (s, if ok then 1 else 2).
End IbcRecv.

(* ------------------------------------------------------------------------------------------ *)
(** * A small ledger: (holder, asset kind, token) -> amount *)

Definition key := (Z * Z * Z)%type.
Definition key_eqb (a b : key) : bool :=
  let '(a1, a2, a3) := a in let '(b1, b2, b3) := b in
  (a1 =? b1) && (a2 =? b2) && (a3 =? b3).
Definition ledger := key -> Z.
Definition ladd (l : ledger) (k : key) (d : Z) : ledger :=
  fun k' => if key_eqb k k' then l k' + d else l k'.

(* holders: users are >= 0; module accounts and the supply counter are negative *)
Definition ModX     : Z := -1.   (* the crosschain module account (eth, bsc, …) *)
Definition ModErc20 : Z := -2.   (* the erc20 module account *)
Definition Supply   : Z := -3.   (* bank supply / ERC-20 totalSupply *)
Definition ModWFX   : Z := -5.   (* the WFX contract's own account: holds the FX behind wrapped FX *)
(* asset kinds *)
Definition Base   : Z := 0.      (* base coin of a bridged token *)
Definition Bridge : Z := 1.      (* its bridge denom in this crosschain module *)
Definition Erc    : Z := 2.      (* its ERC-20 *)

(* ------------------------------------------------------------------------------------------ *)
(** * Boundary 2: an inbound bridge call whose contract call fails (bridge_call_in.go) *)

Record outcall := { oc_id : Z; oc_sender : Z; oc_refund : Z; oc_tokens : list (Z * Z); oc_event : Z }.

Record bst := {
  bal        : ledger;
  registered : Z -> bool;      (* bridge token known to the module (GetBridgeDenomByContract) *)
  enabled    : Z -> bool;      (* ERC-20 token pair exists and is enabled (MintingEnabled) *)
  pendingc   : Z -> bool;      (* pending execute claims by event nonce *)
  outcalls   : list outcall;   (* outgoing bridge calls *)
  next_id    : Z;              (* KeyLastBridgeCallID counter (value that the next call gets) *)
  timeout_ok : bool;           (* CalExternalTimeoutHeight > 0: an external block height has been observed *)
  evmst      : Z;              (* contract storage of the call target — written by the callee *)
  tkind      : Z -> Z          (* token kind: 0 = pair owned by the module (coin is the origin), 1 = pair owned externally
                                  (ERC-20 is the origin), otherwise the native coin FX *)
}.

Definition set_bal (s : bst) (l : ledger) : bst :=
  {| bal := l; registered := registered s; enabled := enabled s; pendingc := pendingc s;
     outcalls := outcalls s; next_id := next_id s; timeout_ok := timeout_ok s; evmst := evmst s; tkind := tkind s |}.
Definition set_evmst (s : bst) (v : Z) : bst :=
  {| bal := bal s; registered := registered s; enabled := enabled s; pendingc := pendingc s;
     outcalls := outcalls s; next_id := next_id s; timeout_ok := timeout_ok s; evmst := v; tkind := tkind s |}.
Definition del_pending (s : bst) (n : Z) : bst :=
  {| bal := bal s; registered := registered s; enabled := enabled s;
     pendingc := (fun m => if m =? n then false else pendingc s m);
     outcalls := outcalls s; next_id := next_id s; timeout_ok := timeout_ok s; evmst := evmst s; tkind := tkind s |}.
Definition add_outcall (s : bst) (o : outcall) : bst :=
  {| bal := bal s; registered := registered s; enabled := enabled s; pendingc := pendingc s;
     outcalls := outcalls s ++ [o]; next_id := next_id s + 1; timeout_ok := timeout_ok s; evmst := evmst s; tkind := tkind s |}.

Record bcmsg := {
  m_nonce : Z; m_sender : Z; m_refund : Z; m_to : Z;
  m_to_is_contract : bool;       (* evmKeeper.IsContract(ctx, to) *)
  m_sendcallto : bool;           (* IsMemoSendCallTo *)
  m_tokens : list (Z * Z)        (* (token, amount) as listed in the claim *)
}.

Definition receiver (m : bcmsg) : Z := if m_sendcallto m then m_sender m else m_to m.

(* BridgeTokenToBaseCoin(ctx, token, amount, holder) = DepositBridgeToken + ManyToOne + ConversionCoin (many_to_one.go):
   kind 0  mint the bridge denom into the module, send it to the holder; take it back, mint the base coin, send it
   kind 1  send module-held bridge tokens to the holder (the module must hold them); take them back, burn them, mint the base coin
   FX      send module-held FX to the holder (the module must hold it); no conversion *)
Definition deposit_one (holder : Z) (ta : Z * Z) (s : bst) : result bst :=
  let (t, a) := ta in
  if negb (registered s t) then Err s else
  if tkind s t =? 0 then
    Ok (set_bal s (ladd (ladd (ladd (ladd (bal s)
          (holder, Base, t) a) (ModX, Bridge, t) a) (Supply, Bridge, t) a) (Supply, Base, t) a))
  else if tkind s t =? 1 then
    if bal s (ModX, Bridge, t) <? a then Err s else
    Ok (set_bal s (ladd (ladd (ladd (ladd (bal s)
          (holder, Base, t) a) (ModX, Bridge, t) (- a)) (Supply, Bridge, t) (- a)) (Supply, Base, t) a))
  else
    if bal s (ModX, Base, t) <? a then Err s else
    Ok (set_bal s (ladd (ladd (bal s) (holder, Base, t) a) (ModX, Base, t) (- a))).

(* sdk.Coins.Add: one coin per denom, sorted by denom, zero coins dropped.
   Token ids order like their base denoms (harness guarantees). *)
Fixpoint coins_add (cs : list (Z * Z)) (t a : Z) : list (Z * Z) :=
  match cs with
  | [] => [(t, a)]
  | (t', a') :: r =>
      if t =? t' then (t', a' + a) :: r
      else if t <? t' then (t, a) :: (t', a') :: r
      else (t', a') :: coins_add r t a
  end.
Definition drop_zero (cs : list (Z * Z)) : list (Z * Z) := filter (fun ta => negb (snd ta =? 0)) cs.
Definition base_coins (tokens : list (Z * Z)) : list (Z * Z) :=
  fold_left (fun cs ta => drop_zero (coins_add cs (fst ta) (snd ta))) tokens [].

(* BaseCoinToEvm(ctx, coin, holder) = erc20 ConvertCoin (x/erc20/keeper/msg_server.go):
   kind 0  escrow the coin in the erc20 module, mint ERC-20
   kind 1  escrow the coin, transfer module-held ERC-20 to the holder (the module must hold it), burn the coin
   FX      escrow, mint WFX, move the FX on to the WFX contract's account *)
Definition to_evm_one (holder : Z) (ta : Z * Z) (s : bst) : result bst :=
  let (t, a) := ta in
  if negb (enabled s t) then Err s else
  if bal s (holder, Base, t) <? a then Err s else
  if tkind s t =? 0 then
    Ok (set_bal s (ladd (ladd (ladd (ladd (bal s)
          (holder, Base, t) (- a)) (ModErc20, Base, t) a) (holder, Erc, t) a) (Supply, Erc, t) a))
  else if tkind s t =? 1 then
    if bal s (ModErc20, Erc, t) <? a then Err s else
    Ok (set_bal s (ladd (ladd (ladd (ladd (bal s)
          (holder, Base, t) (- a)) (Supply, Base, t) (- a)) (ModErc20, Erc, t) (- a)) (holder, Erc, t) a))
  else
    Ok (set_bal s (ladd (ladd (ladd (ladd (bal s)
          (holder, Base, t) (- a)) (ModWFX, Base, t) a) (holder, Erc, t) a) (Supply, Erc, t) a)).

(* BaseCoinToBridgeToken(ctx, coin, holder): ConversionCoin base -> bridge, then WithdrawBridgeToken — the exact inverse
   of the deposit, taken from `holder` *)
Definition withdraw_one (holder : Z) (ta : Z * Z) (s : bst) : result bst :=
  let (t, a) := ta in
  if bal s (holder, Base, t) <? a then Err s else
  if tkind s t =? 0 then
    Ok (set_bal s (ladd (ladd (ladd (ladd (bal s)
          (holder, Base, t) (- a)) (ModX, Bridge, t) (- a)) (Supply, Bridge, t) (- a)) (Supply, Base, t) (- a)))
  else if tkind s t =? 1 then
    Ok (set_bal s (ladd (ladd (ladd (ladd (bal s)
          (holder, Base, t) (- a)) (ModX, Bridge, t) a) (Supply, Bridge, t) a) (Supply, Base, t) (- a)))
  else
    Ok (set_bal s (ladd (ladd (bal s) (holder, Base, t) (- a)) (ModX, Base, t) a)).

(* bank SendCoins(from, to, coin) of one base coin (hand-over of the deposit to the refund address) *)
Definition move_one (from to : Z) (ta : Z * Z) (s : bst) : result bst :=
  let (t, a) := ta in
  if bal s (from, Base, t) <? a then Err s else
  Ok (set_bal s (ladd (ladd (bal s) (from, Base, t) (- a)) (to, Base, t) a)).

Section BridgeCall.
  (* the EVM call into the target contract: ANY behaviour, including writes before the failure *)
  Variable call : bst -> result bst.

  (* BridgeCallEvm(cacheCtx, …) *)
  Definition bridge_call_evm (m : bcmsg) (coins : list (Z * Z)) (c : bst) : result bst :=
    bind (run_steps (map (to_evm_one (receiver m)) coins) c)
         (fun c1 => if m_to_is_contract m then call c1 else Ok c1).

  (* BridgeCallFailedRefund(ctx, refundAddr, baseCoins, eventNonce) = AddOutgoingBridgeCall(ctx, refund, refund, …) *)
  Definition failed_refund (m : bcmsg) (coins : list (Z * Z)) (s : bst) : result bst :=
    bind (run_steps (map (withdraw_one (m_refund m)) coins) s)
         (fun s1 => if timeout_ok s1
                    then Ok (add_outcall s1 {| oc_id := next_id s1; oc_sender := m_refund m; oc_refund := m_refund m;
                                              oc_tokens := coins; oc_event := m_nonce m |})
                    else Err s1).

  (* on ctx, after the failed inner step:
       if refundAddr := msg.GetRefundAddr(); !bytes.Equal(receiverAddr, refundAddr) && !baseCoins.IsZero() {
           if err = k.bankKeeper.SendCoins(ctx, receiverAddr, refundAddr, baseCoins); err != nil { return err } }   *)
  Definition hand_over (m : bcmsg) (coins : list (Z * Z)) (s : bst) : result bst :=
    if (receiver m =? m_refund m) || match coins with [] => true | _ => false end then Ok s
    else run_steps (map (move_one (receiver m) (m_refund m)) coins) s.

  (* BridgeCallHandler(ctx, msg) *)
  Definition bridge_call_handler (m : bcmsg) (s : bst) : result bst :=
    (* on ctx: the deposits, one by one in claim order *)
    match run_steps (map (deposit_one (receiver m)) (m_tokens m)) s with
    | Err s' => Err s'
    | Ok s1 =>
        let coins := base_coins (m_tokens m) in
        (* cacheCtx, commit := ctx.CacheContext() *)
        let cache := branch s1 in
        match bridge_call_evm m coins cache with
        | Ok c'  => Ok (commit s1 c')
        | Err c' => bind (hand_over m coins (discard s1 c')) (failed_refund m coins)
        end
    end.

  (* the handler as it was before the fix "a failed inbound bridge call refunds the coins that were actually
     deposited" (snapshot 6774338): no hand-over, the refund is withdrawn from the refund address' own balance *)
  Definition bridge_call_handler_prefix (m : bcmsg) (s : bst) : result bst :=
    match run_steps (map (deposit_one (receiver m)) (m_tokens m)) s with
    | Err s' => Err s'
    | Ok s1 =>
        let coins := base_coins (m_tokens m) in
        match bridge_call_evm m coins (branch s1) with
        | Ok c'  => Ok (commit s1 c')
        | Err c' => failed_refund m coins (discard s1 c')
        end
    end.

  (* ExecuteClaim(ctx, eventNonce) for a pending bridge-call claim *)
  Definition execute_claim (m : bcmsg) (s : bst) : result bst :=
    if pendingc s (m_nonce m) then bridge_call_handler m (del_pending s (m_nonce m)) else Err s.

  (* as run by the executeClaim precompile inside ExecuteNativeAction / a transaction *)
  Definition execute_claim_tx (m : bcmsg) (s : bst) : bst * bool := tx (execute_claim m) s.
End BridgeCall.

(* ------------------------------------------------------------------------------------------ *)
(** * Not a boundary: a SendToFx claim forwarded over IBC (send_to_fx.go SendToFxExecuted / transferIBCHandler) *)

Section SendToFxIbc.
  Variable S : Type.
  Variable consume : S -> S.            (* ExecuteClaim: DeletePendingExecuteClaim *)
  Variable deposit : S -> result S.     (* BridgeTokenToBaseCoin to the receiver *)
  Variable to_voucher : S -> result S.  (* BaseCoinToIBCCoin: burn the base coin, hand out the voucher of the target channel *)
  Variable transfer : S -> result S.    (* ibc transfer keeper Transfer: burn / escrow, SendPacket *)
  (* all on the one context, every error returned *)
  Definition send_to_fx_ibc (s : S) : result S :=
    bind (deposit (consume s)) (fun s1 => bind (to_voucher s1) transfer).
  Definition send_to_fx_ibc_tx (s : S) : S * bool := tx send_to_fx_ibc s.
End SendToFxIbc.

(* ------------------------------------------------------------------------------------------ *)
(** * Outgoing bridge calls coming back: result claims and time-outs (bridge_call_out.go BridgeCallResultHandler,
      bridge_call_refund.go HandleOutgoingBridgeCallRefund, abci.go cleanupTimeOutBridgeCall) *)

Section OutgoingCalls.
  Variable S : Type.
  (* HandleOutgoingBridgeCallRefund(ctx, call): mint / unlock the bridge tokens to the refund address, convert them to the base
     coin and (for a call made from the EVM) into ERC-20.  It has NO error return: every failure inside — refund address
     blocked by the bank, token pair or erc20 module switched off, module short of coins — is a panic (None) *)
  Variable refund : Z -> S -> option S.
  Variable delete_record : Z -> S -> S.     (* DeleteOutgoingBridgeCallRecord *)
  Variable consume : S -> S.                (* ExecuteClaim: DeletePendingExecuteClaim, CreateBridgeAccount *)

  (* BridgeCallResultHandler(ctx, claim): unknown nonce panics; success: delete; failure: refund, delete.  No branch, no error *)
  Definition result_handler (id : Z) (found success : bool) (s : S) : option S :=
    if negb found then None
    else if success then Some (delete_record id s)
    else match refund id s with None => None | Some s1 => Some (delete_record id s1) end.

  (* ExecuteClaim for a BridgeCallResult claim as a transaction: a panic fails it and nothing stays (claim still pending) *)
  Definition result_tx (id : Z) (found success : bool) (s : S) : S * bool :=
    match result_handler id found success (consume s) with Some s' => (s', true) | None => (s, false) end.

  (* cleanupTimeOutBridgeCall(ctx): every call whose timeout lies below the external height, in store order: refund, delete.
     One refund that panics aborts the whole clean-up — and with it whatever called it *)
  Fixpoint cleanup_calls (ids : list Z) (s : S) : option S :=
    match ids with
    | [] => Some s
    | i :: r => match refund i s with None => None | Some s1 => cleanup_calls r (delete_record i s1) end
    end.

  (* the vote transaction again (claim_tx), now with the clean-up as it is: able to panic.  timed_out = the calls that
     the external height reported by THIS claim has overtaken *)
  Variable mark_observed : S -> S.
  Variable handler_p : S -> option (result S).
  Variable record_vote finish_vote : S -> S.
  Variable timed_out : S -> list Z.
  Definition claim_tx_p (pre : S) : S * Z :=
    let s1 := mark_observed (record_vote pre) in
    match handler_p s1 with
    | None => (pre, 2)
    | Some r =>
        let (s2, cls) := match r with Ok x => (commit s1 x, 0) | Err x => (discard s1 x, 1) end in
        match cleanup_calls (timed_out s2) s2 with
        | None => (pre, 2)                      (* the panic unwinds the whole transaction *)
        | Some s3 => (finish_vote s3, cls)
        end
    end.
End OutgoingCalls.

(* ------------------------------------------------------------------------------------------ *)
(** * Histories of boundary crossings *)

(* one crossing of a tolerated-failure boundary, over a common state type, with the sub-steps it was made with *)
Inductive crossing (S : Type) : Type :=
| XAttestation (handler : S -> result S) (mark cleanup : S -> S)
| XGov (msgs : list (S -> result S)) (pre_exec : S -> S) (set_status : bool -> S -> S)
| XIbcRecv (parse_ok : bool) (transfer_recv hook : S -> result S) (tao : S -> S) (write_ack : bool -> S -> S)
| XTx (f : S -> result S).                 (* a plain transaction: an error is not tolerated, nothing stays *)
Arguments XAttestation {S}. Arguments XGov {S}. Arguments XIbcRecv {S}. Arguments XTx {S}.

(* what the code does *)
Definition cross {S} (x : crossing S) (s : S) : S :=
  match x with
  | XAttestation h m c => fst (try_attestation S h m c s)
  | XGov ms p st => fst (gov_execute S ms p st s)
  | XIbcRecv po tr hk tao wa => fst (core_recv S po tr hk tao wa s)
  | XTx f => fst (tx f s)
  end.

(* what the property designates: the outcome of the sub-step if it succeeded, the designated outcome of its failure if not —
   written without any cache branch, from the pre-state only *)
Definition designated {S} (x : crossing S) (s : S) : S :=
  match x with
  | XAttestation h m c => match h (m s) with Ok x' => c x' | Err _ => att_designated S m c s end
  | XGov ms p st => match run_steps ms (p s) with Ok x' => st true x' | Err _ => gov_designated S p st s end
  | XIbcRecv po tr hk tao wa =>
      if negb po then recv_designated S tao wa s else
      match tr (tao s) with
      | Err _ => recv_designated S tao wa s
      | Ok c1 => match hk c1 with Ok c2 => wa true c2 | Err _ => recv_designated S tao wa s end
      end
  | XTx f => match f s with Ok x' => x' | Err _ => s end
  end.

(* designated outcome of a failed contract call: the claim is consumed and a refund bridge call for the
   deposited amounts exists; nobody's balance has changed (the deposit went out again as the refund) *)
Definition bc_designated (m : bcmsg) (pre : bst) : bst :=
  let s := del_pending pre (m_nonce m) in
  add_outcall s {| oc_id := next_id s; oc_sender := m_refund m; oc_refund := m_refund m;
                   oc_tokens := base_coins (m_tokens m); oc_event := m_nonce m |}.

(* observational equality of bridge-call states (no functional extensionality needed) *)
Definition bst_eq (a b : bst) : Prop :=
  (forall k, bal a k = bal b k) /\ (forall n, pendingc a n = pendingc b n) /\
  outcalls a = outcalls b /\ next_id a = next_id b /\ evmst a = evmst b /\
  (forall t, registered a t = registered b t) /\ (forall t, enabled a t = enabled b t) /\
  timeout_ok a = timeout_ok b /\ (forall t, tkind a t = tkind b t).

(* total amount of token t listed in a claim *)
Fixpoint total (tokens : list (Z * Z)) (t : Z) : Z :=
  match tokens with
  | [] => 0
  | (t', a) :: r => (if t' =? t then a else 0) + total r t
  end.
