(* glue for the correspondence files Cases_C18*.v written by harness/c18: executable instances of the
   four boundaries of M_Cache.v and the comparison with what the real app did *)
From Coq Require Import ZArith List Bool.
From FxV Require Import model.M_Cache.
Import ListNotations.
Open Scope Z_scope.

Fixpoint lookup (l : list (key * Z)) (k : key) : Z :=
  match l with [] => 0 | (k', v) :: r => if key_eqb k' k then v else lookup r k end.
Definition memZ (x : Z) (l : list Z) : bool := existsb (Z.eqb x) l.
Fixpoint lookup2k (l : list (Z * Z)) (t : Z) : Z :=
  match l with [] => 0 | (t', v) :: r => if t' =? t then v else lookup2k r t end.

Fixpoint list_eqb {A} (eqb : A -> A -> bool) (a b : list A) : bool :=
  match a, b with
  | [], [] => true
  | x :: r, y :: s => eqb x y && list_eqb eqb r s
  | _, _ => false
  end.
Definition pair_eqb (a b : Z * Z) : bool := (fst a =? fst b) && (snd a =? snd b).

(* ---------------- boundary 2: inbound bridge call ---------------- *)

Record bc_case := {
  bc_pre : list (key * Z);          (* balances on the watched keys before (all other keys 0) *)
  bc_registered : list Z; bc_enabled : list Z;
  bc_timeout_ok : bool;
  bc_msg : bcmsg;
  bc_kinds : list (Z * Z);                      (* token id -> kind (default 0) *)
  bc_value : Z; bc_value_from : Z;              (* msg.Value and who pays it: the callback sender, or the claim's sender for send-call-to *)
  bc_call_fails : bool; bc_call_writes : Z;     (* behaviour of the target contract, known by construction *)
  bc_evm0 : Z;
  (* observed on the real app after ExecuteClaim run as a transaction *)
  bc_obs_ok : bool;
  bc_obs_bal : list (key * Z);
  bc_obs_newcalls : list (Z * list (Z * Z));    (* (refund holder, tokens) of the outgoing bridge calls created *)
  bc_obs_pending : bool;
  bc_obs_evm : Z }.

Definition mk_bc_case pre reg en kinds tmo nonce sender refund to is_contract sendcallto tokens value value_from call_fails call_writes evm0
           obs_ok obs_bal obs_newcalls obs_pending obs_evm : bc_case :=
  {| bc_pre := pre; bc_registered := reg; bc_enabled := en; bc_kinds := kinds; bc_value := value; bc_value_from := value_from;
     bc_timeout_ok := tmo;
     bc_msg := {| m_nonce := nonce; m_sender := sender; m_refund := refund; m_to := to;
                  m_to_is_contract := is_contract; m_sendcallto := sendcallto; m_tokens := tokens |};
     bc_call_fails := call_fails; bc_call_writes := call_writes; bc_evm0 := evm0;
     bc_obs_ok := obs_ok; bc_obs_bal := obs_bal; bc_obs_newcalls := obs_newcalls;
     bc_obs_pending := obs_pending; bc_obs_evm := obs_evm |}.

Definition bc_init (c : bc_case) : bst :=
  {| bal := lookup (bc_pre c);
     registered := fun t => memZ t (bc_registered c);
     enabled := fun t => memZ t (bc_enabled c);
     pendingc := fun n => n =? m_nonce (bc_msg c);
     outcalls := []; next_id := 1; timeout_ok := bc_timeout_ok c; evmst := bc_evm0 c;
     tkind := fun t => lookup2k (bc_kinds c) t |}.

Definition FxTok : Z := -1.   (* the FX bridge token; its "base coin" is the native coin *)

(* CallEVM(ctx, from, to, value, …): the EVM moves msg.Value from the caller to the callee first (insufficient balance: the
   call is refused), then runs the callee; a failing callee reverts everything the call did *)
Definition bc_call (c : bc_case) : bst -> result bst :=
  fun s =>
    let v := bc_value c in
    if bal s (bc_value_from c, Base, FxTok) <? v then Err s else
    let s1 := set_bal s (ladd (ladd (bal s) (bc_value_from c, Base, FxTok) (- v)) (m_to (bc_msg c), Base, FxTok) v) in
    if bc_call_fails c then Err (set_evmst s1 (bc_call_writes c)) else Ok (set_evmst s1 (bc_call_writes c)).

Definition bc_mismatch (c : bc_case) : bool :=
  let (post, ok) := execute_claim_tx (bc_call c) (bc_msg c) (bc_init c) in
  negb (Bool.eqb ok (bc_obs_ok c)
        && forallb (fun kv => bal post (fst kv) =? snd kv) (bc_obs_bal c)
        && list_eqb (fun (a b : Z * list (Z * Z)) => (fst a =? fst b) && list_eqb pair_eqb (snd a) (snd b))
                    (map (fun o => (oc_refund o, oc_tokens o)) (outcalls post)) (bc_obs_newcalls c)
        && Bool.eqb (pendingc post (m_nonce (bc_msg c))) (bc_obs_pending c)
        && (evmst post =? bc_obs_evm c)).

(* ---------------- boundary 1: attestation ---------------- *)

Record ast := { a_tokens : list Z; a_nonce : Z; a_pending : list Z; a_osets : list Z; a_lastoset : Z }.

(* AttestationHandler for the claim kinds (attestation_handler.go):
   0 t = MsgBridgeTokenClaim for token t        (AddBridgeTokenExecuted: error if it exists)
   1 n = MsgOracleSetUpdatedClaim with nonce n  (UpdateOracleSetExecuted: error if n<>0 and unknown)
   2 n = MsgSendToFxClaim / MsgBridgeCallClaim with event nonce n (SavePendingExecuteClaim) *)
Definition a_handler (kind arg : Z) (s : ast) : result ast :=
  if kind =? 0 then
    if memZ arg (a_tokens s) then Err s
    else Ok {| a_tokens := arg :: a_tokens s; a_nonce := a_nonce s; a_pending := a_pending s; a_osets := a_osets s; a_lastoset := a_lastoset s |}
  else if kind =? 1 then
    if negb (arg =? 0) && negb (memZ arg (a_osets s)) then Err s
    else Ok {| a_tokens := a_tokens s; a_nonce := a_nonce s; a_pending := a_pending s; a_osets := a_osets s; a_lastoset := arg |}
  else if kind =? 3 then Err s     (* MsgBridgeTokenClaim with symbol FX and the wrong decimals: refused *)
  else if kind =? 4 then Err s     (* placeholder: kind 4 panics, see a_handler_p *)
  else Ok {| a_tokens := a_tokens s; a_nonce := a_nonce s; a_pending := arg :: a_pending s; a_osets := a_osets s; a_lastoset := a_lastoset s |}.

Definition a_mark (n : Z) (s : ast) : ast :=
  {| a_tokens := a_tokens s; a_nonce := n; a_pending := a_pending s; a_osets := a_osets s; a_lastoset := a_lastoset s |}.

Record att_case := {
  ac_stale : Z; ac_obs_stale : Z;   (* outgoing bridge calls whose timeout lies below the external height the claim reports: before / after *)
  ac_tokens : list Z; ac_osets : list Z; ac_lastoset : Z; ac_nonce : Z;  (* pre; the claim's event nonce is ac_nonce+1 *)
  ac_kind : Z; ac_arg : Z;
  ac_obs_class : Z; ac_obs_nonce : Z; ac_obs_token : bool; ac_obs_pending : bool; ac_obs_lastoset : Z }.
Definition mk_att_case stale ostale tokens osets lastoset nonce kind arg ok onon otok opend olast : att_case :=
  {| ac_stale := stale; ac_obs_stale := ostale; ac_tokens := tokens; ac_osets := osets; ac_lastoset := lastoset; ac_nonce := nonce; ac_kind := kind; ac_arg := arg;
     ac_obs_class := ok; ac_obs_nonce := onon; ac_obs_token := otok; ac_obs_pending := opend; ac_obs_lastoset := olast |}.

(* kind 4 = MsgSendToExternalClaim for a batch the module does not know: OutgoingTxBatchExecuted panics *)
Definition a_handler_p (kind arg : Z) (s : ast) : option (result ast) :=
  if kind =? 4 then None else Some (a_handler kind arg s).

Definition att_mismatch (c : att_case) : bool :=
  let pre := {| a_tokens := ac_tokens c; a_nonce := ac_nonce c; a_pending := []; a_osets := ac_osets c; a_lastoset := ac_lastoset c |} in
  (* state = (handler-visible state, number of timed-out outgoing bridge calls); the clean-ups of TryAttestation remove those *)
  let lift (h : ast -> option (result ast)) (x : ast * Z) : option (result (ast * Z)) :=
    match h (fst x) with
    | None => None
    | Some (Ok s') => Some (Ok (s', snd x))
    | Some (Err s') => Some (Err (s', snd x))
    end in
  let (postn, cls) := claim_tx (ast * Z) (fun x => (a_mark (ac_nonce c + 1) (fst x), snd x)) (fun x => (fst x, 0))
                               (lift (a_handler_p (ac_kind c) (ac_arg c))) (fun x => x) (fun x => x) (pre, ac_stale c) in
  let post := fst postn in
  negb ((cls =? ac_obs_class c) && (snd postn =? ac_obs_stale c)
        && (a_nonce post =? ac_obs_nonce c)
        && Bool.eqb (if ac_kind c =? 0 then memZ (ac_arg c) (a_tokens post) else false) (ac_obs_token c)
        && Bool.eqb (memZ (ac_nonce c + 1) (a_pending post)) (ac_obs_pending c)
        && (a_lastoset post =? ac_obs_lastoset c)).

(* ---------------- boundary 3: gov ---------------- *)

(* state: balances of accounts 0..n-1 (account 0 = the gov module account, signer of the messages) and a
   parameter value; messages: (0, to, amt) bank send from gov; (1, v, _) params update to v; (2, _, _) a
   message that always fails *)
Record gst := { g_bal : list Z; g_param : Z; g_status : Z }.
Fixpoint upd (l : list Z) (i : nat) (d : Z) : list Z :=
  match l, i with
  | [], _ => []
  | x :: r, O => (x + d) :: r
  | x :: r, S j => x :: upd r j d
  end.
Definition g_msg (m : Z * Z * Z) (s : gst) : result gst :=
  let '(kind, a, b) := m in
  if kind =? 0 then
    if nth 0 (g_bal s) 0 <? b then Err s
    else Ok {| g_bal := upd (upd (g_bal s) 0 (- b)) (Z.to_nat a) b; g_param := g_param s; g_status := g_status s |}
  else if kind =? 1 then Ok {| g_bal := g_bal s; g_param := a; g_status := g_status s |}
  else Err s.
Definition g_set_status (ok : bool) (s : gst) : gst :=
  {| g_bal := g_bal s; g_param := g_param s; g_status := if ok then 3 else 5 |}.  (* PASSED = 3, FAILED = 5 *)

Record gov_case := { gc_bal : list Z; gc_param : Z; gc_msgs : list (Z * Z * Z);
                     gc_obs_ok : bool; gc_obs_bal : list Z; gc_obs_param : Z; gc_obs_status : Z }.
Definition mk_gov_case b p ms ok ob op os : gov_case :=
  {| gc_bal := b; gc_param := p; gc_msgs := ms; gc_obs_ok := ok; gc_obs_bal := ob; gc_obs_param := op; gc_obs_status := os |}.
Definition gov_mismatch (c : gov_case) : bool :=
  let pre := {| g_bal := gc_bal c; g_param := gc_param c; g_status := 2 |} in
  let (post, ok) := gov_execute gst (map g_msg (gc_msgs c)) (fun s => s) g_set_status pre in
  negb (Bool.eqb ok (gc_obs_ok c) && list_eqb Z.eqb (g_bal post) (gc_obs_bal c)
        && (g_param post =? gc_obs_param c) && (g_status post =? gc_obs_status c)).

(* ---------------- boundary 4: IBC receive ---------------- *)

(* state = number of application writes; each stage that runs writes once *)
Record recv_case := { rc_parse_ok : bool; rc_transfer_ok : bool; rc_hook_ok : bool;
                      rc_panics : bool;      (* the follow-up panics on this packet (after the transfer module credited) *)
                      rc_obs_class : Z;      (* 1 = success acknowledgement, 2 = error acknowledgement, 3 = the transaction failed *)
                      rc_obs_changed : bool }.
Definition mk_recv_case p t h (a : bool) ch : recv_case :=
  {| rc_parse_ok := p; rc_transfer_ok := t; rc_hook_ok := h; rc_panics := false; rc_obs_class := if a then 1 else 2; rc_obs_changed := ch |}.
Definition mk_recv_case_panic p t h cls ch : recv_case :=
  {| rc_parse_ok := p; rc_transfer_ok := t; rc_hook_ok := h; rc_panics := true; rc_obs_class := cls; rc_obs_changed := ch |}.
Definition recv_mismatch (c : recv_case) : bool :=
  let stage (ok : bool) (s : Z) : result Z := if ok then Ok (s + 1) else Err (s + 1) in
  let (post, cls) := recv_tx Z (rc_parse_ok c) (stage (rc_transfer_ok c)) (stage (rc_hook_ok c)) (fun s => s) (fun _ s => s) (rc_panics c) 0 in
  negb ((cls =? rc_obs_class c) && Bool.eqb (negb (post =? 0)) (rc_obs_changed c)).

(* ---------------- SendToFx claim forwarded over IBC (no tolerated failure) ---------------- *)

(* state = number of application writes; stage that fails: 0 none, 1 deposit, 2 conversion to the voucher, 3 the ICS-20 transfer *)
Record stf_case := { sc_fail_at : Z; sc_obs_ok : bool; sc_obs_changed : bool }.
Definition mk_stf_case f ok ch : stf_case := {| sc_fail_at := f; sc_obs_ok := ok; sc_obs_changed := ch |}.
Definition stf_mismatch (c : stf_case) : bool :=
  let stage (n : Z) (s : Z) : result Z := if sc_fail_at c =? n then Err (s + 1) else Ok (s + 1) in
  let (post, ok) := send_to_fx_ibc_tx Z (fun s => s + 1) (stage 1) (stage 2) (stage 3) 0 in
  negb (Bool.eqb ok (sc_obs_ok c) && Bool.eqb (negb (post =? 0)) (sc_obs_changed c)).

(* ---------------- outgoing bridge calls coming back ---------------- *)

(* state = (number of outgoing call records, number of refunds paid).
   kind 0 = BridgeCallResult success, 1 = BridgeCallResult failure, 2 = the call has timed out at an observed event whose handler
   succeeds, 3 = … whose handler fails (tolerated).  payable = the refund can be paid; found = the result's nonce exists *)
Record oc_case := { oc_kind : Z; oc_payable : bool; oc_found : bool;
                    oc_obs_class : Z;      (* 0 = went through, 1 = handler error tolerated, 2 = transaction failed *)
                    oc_obs_calls : Z; oc_obs_refunds : Z }.
Definition mk_oc_case k p f cls calls refunds : oc_case :=
  {| oc_kind := k; oc_payable := p; oc_found := f; oc_obs_class := cls; oc_obs_calls := calls; oc_obs_refunds := refunds |}.
Definition oc_mismatch (c : oc_case) : bool :=
  let refund (_ : Z) (s : Z * Z) : option (Z * Z) := if oc_payable c then Some (fst s, snd s + 1) else None in
  let del (_ : Z) (s : Z * Z) : Z * Z := (fst s - 1, snd s) in
  let pre : Z * Z := (1, 0) in
  let (post, cls) :=
    if oc_kind c <? 2 then
      let (p, ok) := result_tx (Z * Z) refund del (fun s => s) 1 (oc_found c) (oc_kind c =? 0) pre in (p, if ok then 0 else 2)
    else
      claim_tx_p (Z * Z) refund del (fun s => s)
                 (fun s => Some (if oc_kind c =? 2 then Ok s else Err s)) (fun s => s) (fun s => s)
                 (fun s => if 0 <? fst s then [1] else []) pre in
  negb ((cls =? oc_obs_class c) && (fst post =? oc_obs_calls c) && (snd post =? oc_obs_refunds c)).
