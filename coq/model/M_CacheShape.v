(* C18/C19 — the source facts the hand-written models M_Cache.v / M_Ibc.v were transcribed from, stated over the
   token lists that harness/gen_c18 regenerates from the CURRENT sources on every run (coq/gen/Gen_C18.v).
   A token list records, in source order: "branch" (ctx.CacheContext()), "call:cache:F" / "call:outer:F" (a call
   that is handed the cache / the outer context), "commit" / "defer-commit" (the branch's write function),
   "if(err){" "if(ok){" "if(<cond with a call>){" "else{" "loop{" "case(..){" "func{" "}", and the returns.
   No proofs in this file. *)
From Coq Require Import String List Bool Arith.
From FxV Require Import gen.Gen_C18.
Import ListNotations.
Open Scope string_scope.

Fixpoint prefix_of (p l : list string) : bool :=
  match p, l with
  | [], _ => true
  | x :: p', y :: l' => String.eqb x y && prefix_of p' l'
  | _ :: _, [] => false
  end.
(* p occurs as a contiguous block *)
Fixpoint block_in (p l : list string) : bool :=
  prefix_of p l || match l with [] => false | _ :: l' => block_in p l' end.
Definition ntok (t : string) (l : list string) : nat := length (filter (String.eqb t) l).
Fixpoint index_of (t : string) (l : list string) : nat :=
  match l with [] => 0 | x :: r => if String.eqb t x then 0 else S (index_of t r) end.
Definition before (a b : string) (l : list string) : bool :=
  Nat.ltb (index_of a l) (index_of b l) && Nat.ltb (index_of b l) (length l).
Definition list_eqb (a b : list string) : bool := Nat.eqb (length a) (length b) && prefix_of a b.

(* processAttestation: branch; handler on the branch; error => return without writing; else write *)
Definition ok_processAttestation : bool :=
  list_eqb shape_processAttestation
    ["branch"; "call:cache:AttestationHandler"; "if(err){"; "return-err"; "}"; "commit"; "return"].

(* TryAttestation: observed-marking on ctx BEFORE processAttestation, clean-ups AFTER, all on ctx *)
Definition ok_TryAttestation : bool :=
  block_in ["call:outer:SetLastObservedEventNonce"; "call:outer:SetLastObservedBlockHeight"; "call:outer:SetAttestation";
            "call:outer:processAttestation"] shape_TryAttestation
  && before "call:outer:processAttestation" "call:outer:cleanupTimedOutBatches" shape_TryAttestation
  && before "call:outer:processAttestation" "call:outer:pruneAttestations" shape_TryAttestation
  && Nat.eqb (ntok "branch" shape_TryAttestation) 0.

(* BridgeCallHandler: deposits on ctx in a loop BEFORE the branch; BridgeCallEvm on the branch, written only on success;
   then on ctx: the deposits handed from the receiver to the refund address (when they differ), the refund; exactly one
   branch and one write *)
Definition ok_BridgeCallHandler : bool :=
  block_in ["loop{"; "call:outer:BridgeTokenToBaseCoin"; "if(err){"; "return-err"; "}"; "}";
            "branch"; "call:cache:BridgeCallEvm"; "if(ok){"; "commit"; "return"; "}"] shape_BridgeCallHandler
  && block_in ["if(!bytes.Equal(receiverAddr.Bytes(),refundAddr.Bytes()) && !baseCoins.IsZero()){";
               "call:outer:SendCoins"; "if(err){"; "return-err"; "}"; "}"; "call:outer:BridgeCallFailedRefund"; "return"] shape_BridgeCallHandler
  && before "commit" "call:outer:SendCoins" shape_BridgeCallHandler
  && Nat.eqb (ntok "branch" shape_BridgeCallHandler) 1 && Nat.eqb (ntok "commit" shape_BridgeCallHandler) 1
  && Nat.eqb (ntok "defer-commit" shape_BridgeCallHandler) 0
  && Nat.eqb (ntok "call:outer:BridgeCallEvm" shape_BridgeCallHandler) 0.

(* BridgeCallEvm: conversions in a loop on the context it is given, then (only for a contract) the EVM call; no branch of its own *)
Definition ok_BridgeCallEvm : bool :=
  prefix_of ["loop{"; "call:outer:BaseCoinToEvm"; "if(err){"; "return-err"; "}"; "}"; "if(!k.evmKeeper.IsContract(ctx,to)){"] shape_BridgeCallEvm
  && before "call:outer:BaseCoinToEvm" "call:outer:CallEVM" shape_BridgeCallEvm
  && Nat.eqb (ntok "branch" shape_BridgeCallEvm) 0.

(* the failure refund = AddOutgoingBridgeCall, which withdraws coin by coin (BaseCoinToBridgeToken) and then records the call *)
Definition ok_refund : bool :=
  list_eqb shape_BridgeCallFailedRefund ["call:outer:AddOutgoingBridgeCall"; "if(err){"; "return-err"; "}"; "return"]
  && list_eqb shape_AddOutgoingBridgeCall
       ["loop{"; "call:outer:BaseCoinToBridgeToken"; "if(err){"; "return-err"; "}"; "}";
        "call:outer:BuildOutgoingBridgeCall"; "if(err){"; "return-err"; "}"; "call:outer:AddOutgoingBridgeCallWithoutBuild"; "return"].

Definition ok_ExecuteClaim : bool :=
  before "call:outer:DeletePendingExecuteClaim" "call:outer:BridgeCallHandler" shape_ExecuteClaim
  && Nat.eqb (ntok "branch" shape_ExecuteClaim) 0.

(* gov EndBlocker, case passes: one branch for all messages, each message on the branch, stop at the first error, write
   only if none failed; the proposal is stored on ctx afterwards; three branches in the function (two hooks), never deferred *)
Definition ok_gov : bool :=
  block_in ["case(passes){"; "branch"; "if(err){"; "break"; "}"; "loop{"; "call:cache:safeExecuteHandler"; "if(err){"; "break"; "}"; "}";
            "if(ok){"; "commit"; "}"] shape_govEndBlocker
  && before "call:cache:safeExecuteHandler" "call:outer:SetProposal" shape_govEndBlocker
  && before "call:outer:Tally" "call:cache:safeExecuteHandler" shape_govEndBlocker
  && Nat.eqb (ntok "branch" shape_govEndBlocker) 3 && Nat.eqb (ntok "commit" shape_govEndBlocker) 3
  && Nat.eqb (ntok "defer-commit" shape_govEndBlocker) 0.

(* IBCMiddleware.OnRecvPacket: two parse exits with an error ack; transfer module; its error ack is returned as is;
   then the keeper hook, whose error becomes an error ack; no branch of its own (the core's) *)
Definition ok_mwOnRecv : bool :=
  list_eqb shape_mwOnRecvPacket
    ["if(err){"; "return-errack"; "}"; "if(err){"; "return-errack"; "}";
     "call:outer:OnRecvPacket"; "call:outer:Success"; "if(!ack.Success()){"; "return-ack"; "}";
     "call:outer:OnRecvPacket"; "if(err){"; "return-errack"; "}"; "return-ack"]
  || list_eqb shape_mwOnRecvPacket
    ["if(err){"; "return-errack"; "}"; "if(err){"; "return-errack"; "}";
     "call:outer:OnRecvPacket"; "if(!ack.Success()){"; "return-ack"; "}";
     "call:outer:OnRecvPacket"; "if(err){"; "return-errack"; "}"; "return-ack"].

(* keeper hook: conversion (hex receivers only) before the memo call, every error returned *)
Definition ok_relayOnRecv : bool :=
  block_in ["call:outer:IBCCoinToEvm"; "if(err){"; "return-err"; "}"] shape_relayOnRecvPacket
  && block_in ["call:outer:HandlerIbcCall"; "if(err){"; "return-err"; "}"] shape_relayOnRecvPacket
  && before "call:outer:IBCCoinToEvm" "call:outer:HandlerIbcCall" shape_relayOnRecvPacket.

(* ack / timeout: the transfer module first, then the keeper hook; error ack => refund hook, otherwise AfterIBCAckSuccess,
   which deletes the IBC relation; IbcRefund consumes the IBC relation before converting *)
Definition ok_ack_timeout : bool :=
  before "call:outer:OnAcknowledgementPacket" "return" shape_mwOnAcknowledgementPacket
  && Nat.eqb (ntok "call:outer:OnAcknowledgementPacket" shape_mwOnAcknowledgementPacket) 2
  && Nat.eqb (ntok "call:outer:OnTimeoutPacket" shape_mwOnTimeoutPacket) 2
  && list_eqb shape_relayOnAcknowledgementPacket
       ["case(*channeltypes.Acknowledgement_Error){"; "call:outer:refundPacketTokenHook"; "return"; "}";
        "case(default){"; "call:outer:AfterIBCAckSuccess"; "return"; "}"]
  && list_eqb shape_AfterIBCAckSuccess ["call:outer:DeleteIBCTransferRelation"]
  && list_eqb shape_IbcRefund
       ["call:outer:DeleteIBCTransferRelation"; "if(!k.DeleteIBCTransferRelation(ctx,channel,sequence)){"; "return"; "}";
        "call:outer:ConvertCoin"; "return-err"].

(* ibc-go core RecvPacket: the application callback runs on a branch that is written iff the ack is nil or successful;
   the acknowledgement is written on ctx afterwards *)
Definition ok_coreRecv : bool :=
  block_in ["branch"; "call:cache:OnRecvPacket"; "if(ack == nil || ack.Success()){"; "commit"; "}"; "else{"] shape_coreRecvPacket
  && before "call:cache:OnRecvPacket" "call:outer:WriteAcknowledgement" shape_coreRecvPacket
  && Nat.eqb (ntok "call:outer:OnRecvPacket" shape_coreRecvPacket) 0
  && Nat.eqb (ntok "defer-commit" shape_coreRecvPacket) 0.

(* the tokens after the first occurrence of t *)
Fixpoint after_first (t : string) (l : list string) : list string :=
  match l with [] => [] | x :: r => if String.eqb t x then r else after_first t r end.
Definition no_error_exit (l : list string) : bool :=
  Nat.eqb (ntok "return-newerr" l) 0 && Nat.eqb (ntok "return-err" l) 0.

(* attestation handlers (attestation_handler.go): in every handler each error return PRECEDES the first store write, so a
   handler that fails has written nothing (the discarded branch is empty on this code); OutgoingTxBatchExecuted and
   SavePendingExecuteClaim have no error return at all — they can only panic, and so can UpdateOracleSetExecuted before
   its write; a panic is not a tolerated failure (M_Cache.claim_tx) *)
Definition ok_handlers : bool :=
  list_eqb shape_AttestationHandler
    ["case(*types.MsgSendToFxClaim){"; "call:outer:SavePendingExecuteClaim"; "}";
     "case(*types.MsgSendToExternalClaim){"; "call:outer:OutgoingTxBatchExecuted"; "}";
     "case(*types.MsgBridgeTokenClaim){"; "call:outer:AddBridgeTokenExecuted"; "return"; "}";
     "case(*types.MsgOracleSetUpdatedClaim){"; "call:outer:UpdateOracleSetExecuted"; "return"; "}";
     "case(default){"; "return-newerr"; "}"; "return"]
  && Nat.ltb 0 (ntok "call:outer:AddBridgeToken" shape_AddBridgeTokenExecuted)
  && no_error_exit (after_first "call:outer:AddBridgeToken" shape_AddBridgeTokenExecuted)
  && Nat.eqb (ntok "panic" shape_AddBridgeTokenExecuted) 0
  && Nat.ltb 0 (ntok "call:outer:SetLastObservedOracleSet" shape_UpdateOracleSetExecuted)
  && no_error_exit (after_first "call:outer:SetLastObservedOracleSet" shape_UpdateOracleSetExecuted)
  && Nat.eqb (ntok "panic" (after_first "call:outer:SetLastObservedOracleSet" shape_UpdateOracleSetExecuted)) 0
  && no_error_exit shape_OutgoingTxBatchExecuted && Nat.ltb 0 (ntok "panic" shape_OutgoingTxBatchExecuted)
  && no_error_exit shape_SavePendingExecuteClaim.

(* SendToFx with an IBC target (send_to_fx.go): deposit, conversion base coin -> voucher and the ICS-20 transfer all run on the
   context ExecuteClaim was given, NO branch anywhere, every error is returned: a failed forward is not a tolerated failure —
   the executeClaim transaction keeps nothing and the claim stays pending *)
Definition ok_sendtofx : bool :=
  block_in ["call:outer:BridgeTokenToBaseCoin"; "if(err){"; "return-err"; "}"; "if(fxTarget.IsIBC()){";
            "call:outer:transferIBCHandler"; "return"; "}"] shape_SendToFxExecuted
  && Nat.eqb (ntok "branch" shape_SendToFxExecuted) 0
  && list_eqb shape_transferIBCHandler
       ["call:outer:BaseCoinToIBCCoin"; "if(err){"; "return-err"; "}"; "if(err){"; "return-err"; "}";
        "call:outer:Transfer"; "if(err){"; "return-err"; "}"; "return-err"].

(* the refund of an outgoing bridge call that failed or timed out (bridge_call_refund.go, called by BridgeCallResultHandler and by
   cleanupTimeOutBridgeCall): NO error of it is tolerated — the coin transfer and the "refund to evm" conversion both panic on
   error (M_Cache.result_handler / cleanup_calls: an unpayable refund fails the whole transaction, finding C18-2).  The
   conversion (bridgeCallTransferTokens) is a loop over the coins on the caller's context with no branch, returning at the
   first error: tolerating its error without a branch around the loop would keep the conversions of the coins before the
   failing one *)
Definition ok_outgoing_refund : bool :=
  list_eqb shape_HandleOutgoingBridgeCallRefund
    ["call:outer:bridgeCallTransferCoins"; "if(err){"; "panic"; "}";
     "if(k.HasBridgeCallFromMsg(ctx,data.Nonce)){"; "return"; "}";
     "call:outer:bridgeCallTransferTokens"; "if(err){"; "panic"; "}"; "return"]
  && block_in ["call:outer:ConvertCoin"; "if(err){"; "return-err"; "}"] shape_bridgeCallTransferTokens
  && Nat.eqb (ntok "branch" shape_bridgeCallTransferTokens) 0
  && block_in ["call:outer:HandleOutgoingBridgeCallRefund"; "call:outer:DeleteOutgoingBridgeCallRecord"] shape_cleanupTimeOutBridgeCall
  && Nat.eqb (ntok "branch" shape_cleanupTimeOutBridgeCall) 0
  && list_eqb shape_BridgeCallResultHandler
       ["call:outer:CreateBridgeAccount"; "if(_){"; "panic"; "}"; "if(_){"; "call:outer:HandleOutgoingBridgeCallRefund"; "}";
        "call:outer:DeleteOutgoingBridgeCallRecord"].

(* none of the boundary functions recovers from a panic: a panic anywhere below them fails the whole transaction (nothing is
   written) — the model has no "panic turned into a normal return" case.  In particular IBCMiddleware.OnRecvPacket: a panicking
   follow-up never comes back as an acknowledgement *)
Definition no_recover (l : list string) : bool := Nat.eqb (ntok "defer-recover" l) 0.
Definition ok_no_recover : bool :=
  forallb no_recover
    [shape_processAttestation; shape_TryAttestation; shape_AttestationHandler; shape_ExecuteClaim;
     shape_BridgeCallHandler; shape_BridgeCallEvm; shape_BridgeCallFailedRefund; shape_SendToFxExecuted; shape_transferIBCHandler;
     shape_HandleOutgoingBridgeCallRefund; shape_bridgeCallTransferTokens; shape_cleanupTimeOutBridgeCall; shape_BridgeCallResultHandler;
     shape_mwOnRecvPacket; shape_mwOnAcknowledgementPacket; shape_mwOnTimeoutPacket;
     shape_relayOnRecvPacket; shape_relayOnAcknowledgementPacket; shape_IbcRefund; shape_coreRecvPacket].

Definition source_shapes_ok : bool :=
  ok_handlers && ok_sendtofx &&
  ok_processAttestation && ok_TryAttestation && ok_BridgeCallHandler && ok_BridgeCallEvm && ok_refund && ok_ExecuteClaim
  && ok_gov && ok_mwOnRecv && ok_relayOnRecv && ok_ack_timeout && ok_coreRecv
  && ok_outgoing_refund && ok_no_recover.
