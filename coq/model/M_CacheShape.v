(* C18/C19 — the source facts the hand-written models M_Cache.v / M_CacheWrites.v / M_Ibc.v were transcribed from, stated over
   the token lists that harness/gen_c18 regenerates from the CURRENT sources on every run (coq/gen/Gen_C18.v).
   A token list records, in source order: "branch" (ctx.CacheContext()), "call:cache:<recv>.F" / "call:outer:<recv>.F" (a call that
   is handed the cache / the outer context; the callee WITH its receiver chain: k.bankKeeper.SendCoins, im.Keeper.OnRecvPacket),
   "commit" / "defer-commit" (the branch's write function), "defer-recover", "kv-set:<class>" / "kv-delete:<class>" (a direct store
   write through ctx.KVStore), "event" (EmitEvent…), "set:<field>" (assignment to a field), "if(err){" "if(ok){"
   "if(<cond with a call>){" "else{" "loop{" "case(..){" "func{" "}", and the returns.
   The facts about the boundary functions are EQUALITIES with the list the model was transcribed from (any change of order,
   context, condition, callee or receiver breaks them); the callees two levels below (deep_shapes) are checked by generic facts;
   calls that carry a context into another module (deep_unresolved) are pinned as a list.
   No proofs in this file. *)
From Coq Require Import String List Bool Arith.
From FxV Require Import gen.Gen_C18.
Import ListNotations.
Open Scope string_scope.

Fixpoint prefix_of (p l : list string) : bool :=
  match p, l with
  | [], _ => true
  | x :: p', y :: l' => String.eqb x y && prefix_of p' l'
  | _ :: _, [] => false
  end.
(* p occurs as a contiguous block *)
Fixpoint block_in (p l : list string) : bool :=
  prefix_of p l || match l with [] => false | _ :: l' => block_in p l' end.
Definition ntok (t : string) (l : list string) : nat := length (filter (String.eqb t) l).
Fixpoint index_of (t : string) (l : list string) : nat :=
  match l with [] => 0 | x :: r => if String.eqb t x then 0 else S (index_of t r) end.
Definition before (a b : string) (l : list string) : bool :=
  Nat.ltb (index_of a l) (index_of b l) && Nat.ltb (index_of b l) (length l).
Definition list_eqb (a b : list string) : bool := Nat.eqb (length a) (length b) && prefix_of a b.


(* processAttestation: branch; handler on the branch; error => return without writing; else write *)
Definition ok_processAttestation : bool :=
  list_eqb shape_processAttestation
    ["branch"; "call:cache:k.AttestationHandler"; "if(err){"; "return-err"; "}"; "commit"; "return"].

(* TryAttestation: observed-marking on ctx (nonce, height, att.Observed, SetAttestation) BEFORE processAttestation, whose error is
   dropped (empty if(err) block: the tolerated failure); event; clean-ups AFTER, all on ctx; no branch of its own *)
Definition ok_TryAttestation : bool :=
  list_eqb shape_TryAttestation
    ["loop{"; "if(_){"; "continue"; "}"; "if(attestationPower.LT(requiredPower)){"; "continue"; "}";
     "call:outer:k.SetLastObservedEventNonce"; "call:outer:k.SetLastObservedBlockHeight"; "set:att.Observed";
     "call:outer:k.SetAttestation"; "call:outer:k.processAttestation"; "if(err){"; "}"; "event";
     "call:outer:k.cleanupTimedOutBatches"; "call:outer:k.cleanupTimeOutBridgeCall";
     "call:outer:k.pruneAttestations"; "break"; "}"].

(* BridgeCallHandler: deposits on ctx in a loop BEFORE the branch; BridgeCallEvm on the branch, written only on success;
   then on ctx: the deposits handed from the receiver to the refund address (when they differ), the refund; exactly one
   branch and one write *)
Definition ok_BridgeCallHandler : bool :=
  list_eqb shape_BridgeCallHandler
    ["call:outer:k.CreateBridgeAccount"; "if(_){"; "if(_){"; "return-newerr"; "}"; "}"; "if(_){"; "}"; "loop{";
     "call:outer:k.BridgeTokenToBaseCoin"; "if(err){"; "return-err"; "}"; "}"; "branch";
     "call:cache:k.BridgeCallEvm"; "if(ok){"; "commit"; "return"; "}"; "event"; "if(!ctx.IsCheckTx()){"; "}";
     "if(!bytes.Equal(receiverAddr.Bytes(),refundAddr.Bytes()) && !baseCoins.IsZero()){";
     "call:outer:k.bankKeeper.SendCoins"; "if(err){"; "return-err"; "}"; "}"; "call:outer:k.BridgeCallFailedRefund";
     "return"].

(* BridgeCallEvm: conversions in a loop on the context it is given, then (only for a contract) the EVM call; no branch of its own *)
Definition ok_BridgeCallEvm : bool :=
  list_eqb shape_BridgeCallEvm
    ["loop{"; "call:outer:k.BaseCoinToEvm"; "if(err){"; "return-err"; "}"; "}";
     "if(!k.evmKeeper.IsContract(ctx,to)){"; "return"; "}"; "if(_){"; "}"; "else{"; "if(err){"; "return-err"; "}";
     "}"; "call:outer:k.evmKeeper.CallEVM"; "if(err){"; "return-err"; "}"; "if(txResp.Failed()){"; "return-newerr";
     "}"; "return"].

(* the failure refund = AddOutgoingBridgeCall, which withdraws coin by coin (BaseCoinToBridgeToken) and then records the call *)
Definition ok_refund : bool :=
  list_eqb shape_BridgeCallFailedRefund
    ["call:outer:k.AddOutgoingBridgeCall"; "if(err){"; "return-err"; "}"; "event"; "return"]
  && list_eqb shape_AddOutgoingBridgeCall
    ["loop{"; "call:outer:k.BaseCoinToBridgeToken"; "if(err){"; "return-err"; "}"; "}";
     "call:outer:k.BuildOutgoingBridgeCall"; "if(err){"; "return-err"; "}";
     "call:outer:k.AddOutgoingBridgeCallWithoutBuild"; "return"].

(* ExecuteClaim: the pending claim is consumed on ctx first; each kind's handler on ctx; no branch *)
Definition ok_ExecuteClaim : bool :=
  list_eqb shape_ExecuteClaim
    ["if(_){"; "return-newerr"; "}"; "call:outer:k.DeletePendingExecuteClaim"; "case(*types.MsgSendToFxClaim){";
     "call:outer:k.SendToFxExecuted"; "return"; "}"; "case(*types.MsgBridgeCallClaim){";
     "call:outer:k.BridgeCallHandler"; "return"; "}"; "case(*types.MsgBridgeCallResultClaim){";
     "call:outer:k.BridgeCallResultHandler"; "}"; "case(default){"; "return-newerr"; "}"; "return"].

(* gov EndBlocker, case passes: one branch for all messages, each message on the branch, stop at the first error, write
   only if none failed (Status / FailedReason set accordingly); the proposal is stored on ctx afterwards; three branches in the
   function (two hooks), never deferred *)
Definition ok_gov : bool :=
  block_in
    ["case(passes){"; "branch"; "if(err){"; "set:proposal.Status"; "set:proposal.FailedReason"; "break"; "}";
     "loop{"; "call:cache:safeExecuteHandler"; "if(err){"; "break"; "}"; "}"; "if(ok){"; "set:proposal.Status";
     "commit"; "event"; "}"; "else{"; "set:proposal.Status"; "set:proposal.FailedReason"; "}"; "}"] shape_govEndBlocker
  && before "call:cache:safeExecuteHandler" "call:outer:keeper.SetProposal" shape_govEndBlocker
  && before "call:outer:keeper.Tally" "call:cache:safeExecuteHandler" shape_govEndBlocker
  && before "call:outer:keeper.ActiveProposalsQueue.Remove" "call:cache:safeExecuteHandler" shape_govEndBlocker
  && Nat.eqb (ntok "branch" shape_govEndBlocker) 3 && Nat.eqb (ntok "commit" shape_govEndBlocker) 3
  && Nat.eqb (ntok "call:cache:safeExecuteHandler" shape_govEndBlocker) 1
  && Nat.eqb (ntok "call:outer:safeExecuteHandler" shape_govEndBlocker) 0
  && Nat.eqb (ntok "defer-commit" shape_govEndBlocker) 0.

(* IBCMiddleware.OnRecvPacket: two parse exits with an error ack; the TRANSFER MODULE (im.IBCModule); its error ack is returned
   as is; then the KEEPER hook (im.Keeper), whose error becomes an error ack; no branch of its own (the core's), no recover *)
Definition ok_mwOnRecv : bool :=
  list_eqb shape_mwOnRecvPacket
    ["if(err){"; "return-errack"; "}"; "if(err){"; "return-errack"; "}"; "set:newPacketData.Receiver";
     "set:newPacket.Data"; "call:outer:im.IBCModule.OnRecvPacket"; "if(!ack.Success()){"; "return-ack"; "}";
     "call:outer:im.Keeper.OnRecvPacket"; "if(err){"; "return-errack"; "}"; "return-ack"].

(* keeper hook: conversion (hex receivers only) before the memo call, every error returned *)
Definition ok_relayOnRecv : bool :=
  list_eqb shape_relayOnRecvPacket
    ["if(err){"; "return-err"; "}"; "if(_){"; "return-newerr"; "}"; "event";
     "if(receiveCoin.GetDenom() != fxtypes.DefaultDenom){"; "if(_){"; "return-newerr"; "}";
     "call:outer:k.crossChainKeeper.IBCCoinToEvm"; "if(err){"; "return-err"; "}"; "}"; "if(len(data.Memo) > 0){";
     "call:outer:k.HandlerIbcCall"; "if(err){"; "return-err"; "}"; "}"; "return"].

(* ack / timeout: the transfer module first, then the keeper hook; error ack => refund hook, otherwise AfterIBCAckSuccess,
   which deletes the IBC relation (through the erc20 keeper); IbcRefund consumes the IBC relation before converting *)
Definition ok_ack_timeout : bool :=
  list_eqb shape_mwOnAcknowledgementPacket
    ["call:outer:im.IBCModule.OnAcknowledgementPacket"; "if(err){"; "return-err"; "}"; "if(err){"; "return-newerr";
     "}"; "if(err){"; "return-newerr"; "}"; "call:outer:im.Keeper.OnAcknowledgementPacket"; "if(err){"; "return-err";
     "}"; "return"]
  && list_eqb shape_mwOnTimeoutPacket
    ["call:outer:im.IBCModule.OnTimeoutPacket"; "if(err){"; "return-err"; "}"; "if(err){"; "return-newerr"; "}";
     "call:outer:im.Keeper.OnTimeoutPacket"; "if(err){"; "return-err"; "}"; "return"]
  && list_eqb shape_relayOnAcknowledgementPacket
    ["case(*channeltypes.Acknowledgement_Error){"; "call:outer:k.refundPacketTokenHook"; "return"; "}";
     "case(default){"; "call:outer:k.crossChainKeeper.AfterIBCAckSuccess"; "return"; "}"]
  && list_eqb shape_AfterIBCAckSuccess
    ["call:outer:k.erc20Keeper.DeleteIBCTransferRelation"]
  && list_eqb shape_IbcRefund
    ["call:outer:k.DeleteIBCTransferRelation"; "if(!k.DeleteIBCTransferRelation(ctx,channel,sequence)){"; "return";
     "}"; "call:outer:k.ConvertCoin"; "return-err"].

(* ibc-go core RecvPacket: the channel keeper's own writes in a branch of their own, written on success; the application
   callback runs on a second branch that is written iff the ack is nil or successful; the acknowledgement is written on ctx
   afterwards *)
Definition ok_coreRecv : bool :=
  list_eqb shape_coreRecvPacket
    ["if(err){"; "return-newerr"; "}"; "call:outer:k.ChannelKeeper.LookupModuleByChannel"; "if(err){";
     "return-newerr"; "}"; "if(_){"; "return-newerr"; "}"; "branch"; "call:cache:k.ChannelKeeper.RecvPacket";
     "case(nil){"; "commit"; "}"; "case(channeltypes.ErrNoOpMsg){"; "return"; "}"; "case(default){"; "return-newerr";
     "}"; "branch"; "call:cache:cbs.OnRecvPacket"; "if(ack == nil || ack.Success()){"; "commit"; "}"; "else{";
     "event"; "call:cache:EmitEvents"; "}"; "if(_){"; "call:outer:k.ChannelKeeper.WriteAcknowledgement"; "if(err){";
     "return-err"; "}"; "}"; "return"].

(* the tokens after the first occurrence of t *)
Fixpoint after_first (t : string) (l : list string) : list string :=
  match l with [] => [] | x :: r => if String.eqb t x then r else after_first t r end.
Definition no_error_exit (l : list string) : bool :=
  Nat.eqb (ntok "return-newerr" l) 0 && Nat.eqb (ntok "return-err" l) 0.

(* attestation handlers (attestation_handler.go): in every handler each error return PRECEDES the first store write, so a
   handler that fails has written nothing (the discarded branch is empty on this code — C18_branch_unobservable_when_nothing_written);
   OutgoingTxBatchExecuted and SavePendingExecuteClaim have no error return at all — they can only panic, and so can
   UpdateOracleSetExecuted before its write; a panic is not a tolerated failure (M_Cache.claim_tx) *)
Definition ok_handlers : bool :=
  list_eqb shape_AttestationHandler
    ["case(*types.MsgSendToFxClaim){"; "call:outer:k.SavePendingExecuteClaim"; "}";
     "case(*types.MsgSendToExternalClaim){"; "call:outer:k.OutgoingTxBatchExecuted"; "}";
     "case(*types.MsgBridgeTokenClaim){"; "call:outer:k.AddBridgeTokenExecuted"; "return"; "}";
     "case(*types.MsgOracleSetUpdatedClaim){"; "call:outer:k.UpdateOracleSetExecuted"; "return"; "}";
     "case(default){"; "return-newerr"; "}"; "return"]
  && list_eqb shape_AddBridgeTokenExecuted
    ["if(_){"; "return-newerr"; "}"; "if(_){"; "if(uint64(fxtypes.DenomUnit) != claim.Decimals){"; "return-newerr";
     "}"; "call:outer:k.AddBridgeToken"; "}"; "call:outer:k.AddBridgeToken"; "return"]
  && no_error_exit (after_first "call:outer:k.AddBridgeToken" shape_AddBridgeTokenExecuted)
  && list_eqb shape_UpdateOracleSetExecuted
    ["if(_){"; "if(_){"; "return-newerr"; "}"; "set:observedOracleSet.Height"; "if(err){"; "panic"; "}"; "}";
     "call:outer:k.SetLastObservedOracleSet"; "return"]
  && no_error_exit (after_first "call:outer:k.SetLastObservedOracleSet" shape_UpdateOracleSetExecuted)
  && Nat.eqb (ntok "panic" (after_first "call:outer:k.SetLastObservedOracleSet" shape_UpdateOracleSetExecuted)) 0
  && list_eqb shape_OutgoingTxBatchExecuted
    ["if(_){"; "panic"; "}"; "func{"; "if(_){"; "call:outer:k.CancelOutgoingTxBatch"; "if(err){"; "panic"; "}"; "}";
     "return"; "}"; "call:outer:k.DeleteBatch"; "call:outer:k.DeleteBatchConfirm"; "loop{";
     "if(k.erc20Keeper.HasOutgoingTransferRelation(ctx,k.moduleName,tx.Id)){";
     "call:outer:k.erc20Keeper.DeleteOutgoingTransferRelation"; "}"; "}"]
  && no_error_exit shape_OutgoingTxBatchExecuted
  && list_eqb shape_SavePendingExecuteClaim
    ["if(err){"; "panic"; "}"; "kv-set:outer"].

(* SendToFx with an IBC target (send_to_fx.go): deposit, conversion base coin -> voucher and the ICS-20 transfer all run on the
   context ExecuteClaim was given, NO branch anywhere, every error is returned: a failed forward is not a tolerated failure —
   the executeClaim transaction keeps nothing and the claim stays pending *)
Definition ok_sendtofx : bool :=
  list_eqb shape_SendToFxExecuted
    ["if(!ctx.IsCheckTx()){"; "}"; "if(err){"; "return-newerr"; "}"; "call:outer:k.BridgeTokenToBaseCoin";
     "if(err){"; "return-err"; "}"; "if(fxTarget.IsIBC()){"; "call:outer:k.transferIBCHandler"; "return"; "}";
     "if(fxTarget.GetTarget() == fxtypes.ERC20Target){"; "call:outer:k.BaseCoinToEvm"; "if(err){"; "return-err"; "}";
     "event"; "}"; "return"]
  && list_eqb shape_transferIBCHandler
    ["call:outer:k.BaseCoinToIBCCoin"; "if(err){"; "return-err"; "}"; "if(err){"; "return-err"; "}";
     "call:outer:k.ibcTransferKeeper.Transfer"; "if(err){"; "return-err"; "}"; "event"; "return-err"].

(* the refund of an outgoing bridge call that failed or timed out (bridge_call_refund.go, called by BridgeCallResultHandler and by
   cleanupTimeOutBridgeCall): NO error of it is tolerated — the coin transfer and the "refund to evm" conversion both panic on
   error (M_Cache.result_handler / cleanup_calls: an unpayable refund fails the whole transaction, finding C18-2).  The
   conversion (bridgeCallTransferTokens) is a loop over the coins on the caller's context with no branch, returning at the
   first error: tolerating its error without a branch around the loop would keep the conversions of the coins before the
   failing one *)
Definition ok_outgoing_refund : bool :=
  list_eqb shape_HandleOutgoingBridgeCallRefund
    ["call:outer:k.bridgeCallTransferCoins"; "if(err){"; "panic"; "}"; "event";
     "if(k.HasBridgeCallFromMsg(ctx,data.Nonce)){"; "return"; "}"; "call:outer:k.bridgeCallTransferTokens";
     "if(err){"; "panic"; "}"; "return"]
  && list_eqb shape_bridgeCallTransferTokens
    ["loop{"; "if(_){"; "if(bytes.Equal(sender,receiver)){"; "continue"; "}"; "call:outer:k.bankKeeper.SendCoins";
     "if(err){"; "return-err"; "}"; "continue"; "}"; "call:outer:k.erc20Keeper.ConvertCoin"; "if(err){";
     "return-err"; "}"; "}"; "return"]
  && list_eqb shape_cleanupTimeOutBridgeCall
    ["func{"; "if(_){"; "return"; "}"; "call:outer:k.HandleOutgoingBridgeCallRefund";
     "call:outer:k.DeleteOutgoingBridgeCallRecord"; "return"; "}"]
  && list_eqb shape_BridgeCallResultHandler
    ["call:outer:k.CreateBridgeAccount"; "if(_){"; "panic"; "}"; "if(_){";
     "call:outer:k.HandleOutgoingBridgeCallRefund"; "}"; "call:outer:k.DeleteOutgoingBridgeCallRecord"; "event"].

(* none of the boundary functions recovers from a panic: a panic anywhere below them fails the whole transaction (nothing is
   written) — the model has no "panic turned into a normal return" case.  In particular IBCMiddleware.OnRecvPacket: a panicking
   follow-up never comes back as an acknowledgement *)
Definition no_recover (l : list string) : bool := Nat.eqb (ntok "defer-recover" l) 0.
Definition ok_no_recover : bool :=
  forallb no_recover
    [shape_processAttestation; shape_TryAttestation; shape_AttestationHandler; shape_ExecuteClaim;
     shape_BridgeCallHandler; shape_BridgeCallEvm; shape_BridgeCallFailedRefund; shape_SendToFxExecuted; shape_transferIBCHandler;
     shape_HandleOutgoingBridgeCallRefund; shape_bridgeCallTransferTokens; shape_cleanupTimeOutBridgeCall; shape_BridgeCallResultHandler;
     shape_mwOnRecvPacket; shape_mwOnAcknowledgementPacket; shape_mwOnTimeoutPacket;
     shape_relayOnRecvPacket; shape_relayOnAcknowledgementPacket; shape_IbcRefund; shape_coreRecvPacket].

(* ---- two levels below the boundary functions (same package, resolved by receiver type and name) ---- *)
(* no hidden cache branch, no recover, and every error is passed on: each `if(err){` is followed at once by a return of an
   error or a panic.  The two exceptions are part of the models:
     x/gov safeExecuteHandler        recovers a panicking proposal message into an error (gov boundary: a message "fails")
     HandlerIbcCall                  a memo that is not an ibc-call JSON is ignored (`if(err){ return nil`): M_Ibc MemoText *)
Definition is_exit (t : string) : bool :=
  existsb (String.eqb t) ["return-err"; "return-newerr"; "return-errack"; "panic"].
Fixpoint errs_exit (l : list string) : bool :=
  match l with
  | a :: r => (if String.eqb a "if(err){" then match r with b :: _ => is_exit b | [] => false end else true) && errs_exit r
  | [] => true
  end.
Definition plain (l : list string) : bool :=
  Nat.eqb (ntok "branch" l) 0 && Nat.eqb (ntok "commit" l) 0 && Nat.eqb (ntok "defer-commit" l) 0 && no_recover l.
Definition deep_ok_one (p : string * list string) : bool :=
  if String.eqb (fst p) "x/gov:.safeExecuteHandler" then list_eqb (snd p) ["defer-recover"; "call:outer:handler"; "return"]
  else if String.eqb (fst p) "x/ibc/middleware/keeper:Keeper.HandlerIbcCall" then
    list_eqb (snd p) ["if(err){"; "return"; "}"; "if(err){"; "return-err"; "}"; "case(*types.IbcCallEvmPacket){";
                      "call:outer:k.HandlerIbcCallEvm"; "return"; "}"; "case(default){"; "return-newerr"; "}"]
  else plain (snd p) && errs_exit (snd p).
Definition ok_deep : bool := forallb deep_ok_one deep_shapes && Nat.ltb 30 (length deep_shapes).

(* the calls that hand a context to ANOTHER module (keeper interfaces, the IBC application stack, gov hooks): not followed by
   the translator — their behaviour is read from their sources (x/bank SendCoins / Mint / Burn, erc20 ConvertCoin is followed from
   IbcRefund, x/evm CallEVM, ibc-go transfer) and exercised by the correspondence runs.  Pinned: a new one shows up here *)
Definition ok_unresolved : bool :=
  list_eqb deep_unresolved
    ["AfterProposalFailedMinDeposit"; "AfterProposalVotingPeriodEnded"; "EmitEvents"; "handler";
     "im.IBCModule.OnAcknowledgementPacket"; "im.IBCModule.OnRecvPacket"; "im.IBCModule.OnTimeoutPacket";
     "im.Keeper.OnAcknowledgementPacket"; "im.Keeper.OnRecvPacket"; "im.Keeper.OnTimeoutPacket";
     "k.ChannelKeeper.LookupModuleByChannel"; "k.ChannelKeeper.RecvPacket"; "k.ChannelKeeper.WriteAcknowledgement";
     "k.bankKeeper.BurnCoins"; "k.bankKeeper.MintCoins"; "k.bankKeeper.SendCoins";
     "k.bankKeeper.SendCoinsFromAccountToModule"; "k.bankKeeper.SendCoinsFromModuleToAccount";
     "k.crossChainKeeper.AfterIBCAckSuccess"; "k.crossChainKeeper.IBCCoinRefund"; "k.crossChainKeeper.IBCCoinToEvm";
     "k.erc20Keeper.ConvertCoin"; "k.erc20Keeper.ConvertDenomToTarget"; "k.erc20Keeper.DeleteIBCTransferRelation";
     "k.erc20Keeper.DeleteOutgoingTransferRelation"; "k.evmKeeper.CallEVM"; "k.ibcTransferKeeper.Transfer";
     "keeper.ActiveProposalsQueue.Remove"; "keeper.ActiveProposalsQueue.Set"; "keeper.ActiveProposalsQueue.Walk";
     "keeper.InactiveProposalsQueue.Remove"; "keeper.InactiveProposalsQueue.Walk"].

Definition source_shapes_ok : bool :=
  ok_handlers && ok_sendtofx &&
  ok_processAttestation && ok_TryAttestation && ok_BridgeCallHandler && ok_BridgeCallEvm && ok_refund && ok_ExecuteClaim
  && ok_gov && ok_mwOnRecv && ok_relayOnRecv && ok_ack_timeout && ok_coreRecv
  && ok_outgoing_refund && ok_no_recover && ok_deep && ok_unresolved.
