(* C18 — the tolerated-failure boundaries at the level of single store WRITES.

   M_Cache.v abstracts a context as a value and `discard outer cache := outer`; this file does not.  A context is a stack of
   write buffers over the committed store (sdk.Context.CacheContext / cachekv.Store), every sub-step is a LIST of writes in
   source order — each write's key and value may depend on everything its context can read at that moment —, and a failure
   point is a position in that list (error returned, or panic, after any number of writes).  A boundary crossing is the
   program the translator facts (M_CacheShape) describe: which writes run on the transaction's own context before the branch,
   which on the branch, what happens to the branch on error, which writes follow on the outer context.

     boundary                                   x_pre                        x_sub (on the branch iff x_branch)      after a tolerated error / always
     ---------------------------------------------------------------------------------------------------------------------------------------------
     observed event (attestation.go)            vote, observed marker,       AttestationHandler                      - / clean-ups of timed-out batches
       = claim vote transaction                 last event nonce / height                                                and bridge calls (x_post, may
                                                                                                                         PANIC: finding C18-2), oracle's
                                                                                                                         last-event bookkeeping
     claim execution: inbound bridge call       delete pending claim,        BridgeCallEvm (conversions, EVM call)   hand-over, refund record / -
       (ExecuteClaim, bridge_call_in.go)        bridge account, deposits
     claim execution: BridgeCallResult          delete pending claim,        refund + delete record: NO branch,      (error / panic fails the tx)
                                                bridge account               never tolerated
     claim execution: SendToFx -> IBC           delete pending claim         deposit, conversion to the voucher,     (error fails the tx)
                                                                             ICS-20 transfer: NO branch, not tolerated
     passed proposal (gov abci.go)              tally, deposits, queue       the messages, one after the other       status FAILED + reason / -
                                                                             (a panic of a message is recovered into an error)
     IBC receive (ibc-go RecvPacket +           receipt (core's own writes)  transfer module + middleware follow-up  - / acknowledgement
       IBCMiddleware.OnRecvPacket)

   No proofs in this file. *)
From Coq Require Import ZArith List Bool.
Import ListNotations.
Open Scope Z_scope.

Definition kv := (Z * Z)%type.
(* a store, and a write buffer, as the list of the writes made to it, newest first; a read returns the newest write of the key *)
Notation wlog := (list kv).
Fixpoint lookup (l : wlog) (k : Z) : option Z :=
  match l with [] => None | (k', v) :: r => if k' =? k then Some v else lookup r k end.

(* one store write: the key and the value may depend on everything the context can read *)
Definition wfun := wlog -> kv.

(* a context: a stack of write buffers (innermost first) over the committed store *)
Record ctxs := { layers : list wlog; root : wlog }.
Notation mk := Build_ctxs.
(* what the innermost context reads: its own buffer first, then each enclosing one, then the store *)
Definition view (c : ctxs) : wlog := concat (layers c) ++ root c.

Definition write (f : wfun) (c : ctxs) : ctxs :=
  match layers c with
  | [] => mk [] (f (view c) :: root c)
  | top :: rest => mk ((f (view c) :: top) :: rest) (root c)
  end.
Fixpoint writes (fs : list wfun) (c : ctxs) : ctxs :=
  match fs with [] => c | f :: r => writes r (write f c) end.

Definition push (c : ctxs) : ctxs := mk ([] :: layers c) (root c).              (* ctx.CacheContext() *)
Definition pop_commit (c : ctxs) : ctxs :=                                      (* the write function *)
  match layers c with
  | [] => c
  | [top] => mk [] (top ++ root c)
  | top :: nxt :: rest => mk ((top ++ nxt) :: rest) (root c)
  end.
Definition pop_discard (c : ctxs) : ctxs :=                                     (* the branch is dropped *)
  match layers c with [] => c | _ :: rest => mk rest (root c) end.

(* the same writes applied directly to a flat store — the reference the designated outcomes are written with *)
Fixpoint run_ws (fs : list wfun) (l : wlog) : wlog :=
  match fs with [] => l | f :: r => run_ws r (f l :: l) end.

(* where a list of writes stops *)
Inductive fail := NoFail | ErrAfter (n : nat) | PanicAfter (n : nat).
Definition done_writes (fs : list wfun) (fl : fail) : list wfun :=
  match fl with NoFail => fs | ErrAfter n | PanicAfter n => firstn n fs end.

Record crossing := {
  x_pre : list wfun;         (* the transaction's writes on its own context before the sub-step *)
  x_branch : bool;           (* the sub-step runs on a cache branch whose error is TOLERATED (false: on the transaction's own context, error returned) *)
  x_sub : list wfun;         (* the sub-step's writes, in source order *)
  x_fail : fail;             (* where the sub-step stops *)
  x_residue : list wfun;     (* on the outer context after a tolerated error: refund record, FAILED status, … *)
  x_success : list wfun;     (* on the outer context after the committed sub-step *)
  x_post : list wfun;        (* on the outer context in either case: clean-ups, bookkeeping, acknowledgement *)
  x_post_fail : fail }.      (* the clean-up can only PANIC (time-out refund): PanicAfter n; ErrAfter is read as a panic too *)

(* outcome class: 0 = went through, 1 = sub-step error tolerated, 2 = transaction failed *)
Definition run_post (x : crossing) (c : ctxs) (pre : wlog) (cls : Z) : wlog * Z :=
  match x_post_fail x with
  | NoFail => (root (pop_commit (writes (x_post x) c)), cls)
  | _ => (pre, 2)          (* the panic unwinds through everything: the transaction's buffer is dropped *)
  end.

Definition run_crossing (x : crossing) (pre : wlog) : wlog * Z :=
  let c0 := push (mk [] pre) in                       (* the transaction's own context (runTx: msCache) *)
  let c1 := writes (x_pre x) c0 in
  if x_branch x then
    let b := writes (done_writes (x_sub x) (x_fail x)) (push c1) in
    match x_fail x with
    | NoFail => run_post x (writes (x_success x) (pop_commit b)) pre 0
    | ErrAfter _ => run_post x (writes (x_residue x) (pop_discard b)) pre 1
    | PanicAfter _ => (pre, 2)
    end
  else
    let b := writes (done_writes (x_sub x) (x_fail x)) c1 in
    match x_fail x with
    | NoFail => run_post x (writes (x_success x) b) pre 0
    | _ => (pre, 2)                                   (* the error is returned: the transaction fails *)
    end.

(* the designated outcome, written from the pre-state only: a failed crossing contributes its residue and the common
   clean-ups — computed on a view that has NONE of the sub-step's writes — or nothing at all *)
Definition post_ok (x : crossing) : bool := match x_post_fail x with NoFail => true | _ => false end.
Definition designated (x : crossing) (pre : wlog) : wlog * Z :=
  if negb (post_ok x) then (pre, 2) else
  match x_fail x with
  | NoFail => (run_ws (x_pre x ++ x_sub x ++ x_success x ++ x_post x) pre, 0)
  | ErrAfter _ => if x_branch x then (run_ws (x_pre x ++ x_residue x ++ x_post x) pre, 1) else (pre, 2)
  | PanicAfter _ => (pre, 2)
  end.

Definition run_history (xs : list crossing) (s : wlog) : wlog := fold_left (fun s x => fst (run_crossing x s)) xs s.
Definition designated_history (xs : list crossing) (s : wlog) : wlog := fold_left (fun s x => fst (designated x s)) xs s.

(* ---- variants that are NOT the code: what the branch is there for ---- *)
(* "branch removed": the tolerated sub-step runs on the transaction's own context (e.g. AttestationHandler(ctx, …)) *)
Definition run_crossing_nobranch (x : crossing) (pre : wlog) : wlog * Z :=
  let c1 := writes (x_pre x) (push (mk [] pre)) in
  let b := writes (done_writes (x_sub x) (x_fail x)) c1 in
  match x_fail x with
  | NoFail => run_post x (writes (x_success x) b) pre 0
  | ErrAfter _ => run_post x (writes (x_residue x) b) pre 1
  | PanicAfter _ => (pre, 2)
  end.
(* "written before the error test": the branch is committed whatever the sub-step returned *)
Definition run_crossing_commit_always (x : crossing) (pre : wlog) : wlog * Z :=
  let c1 := writes (x_pre x) (push (mk [] pre)) in
  let b := pop_commit (writes (done_writes (x_sub x) (x_fail x)) (push c1)) in
  match x_fail x with
  | NoFail => run_post x (writes (x_success x) b) pre 0
  | ErrAfter _ => run_post x (writes (x_residue x) b) pre 1
  | PanicAfter _ => (pre, 2)
  end.

(* ---- the boundaries of fx-core as crossings (which writes sit where: facts of M_CacheShape) ---- *)
Definition x_attestation vote mark handler fl cleanups cfl finish : crossing :=
  {| x_pre := vote ++ mark; x_branch := true; x_sub := handler; x_fail := fl; x_residue := []; x_success := [];
     x_post := cleanups ++ finish; x_post_fail := cfl |}.
Definition x_bridge_call consume deposits evm fl handover refund : crossing :=
  {| x_pre := consume ++ deposits; x_branch := true; x_sub := evm; x_fail := fl; x_residue := handover ++ refund;
     x_success := []; x_post := []; x_post_fail := NoFail |}.
Definition x_bridge_call_result consume refund_and_delete fl : crossing :=
  {| x_pre := consume; x_branch := false; x_sub := refund_and_delete; x_fail := fl; x_residue := []; x_success := [];
     x_post := []; x_post_fail := NoFail |}.
Definition x_send_to_fx_ibc consume deposit_convert_transfer fl : crossing :=
  {| x_pre := consume; x_branch := false; x_sub := deposit_convert_transfer; x_fail := fl; x_residue := []; x_success := [];
     x_post := []; x_post_fail := NoFail |}.
Definition x_gov pre_exec msgs fl failed passed : crossing :=
  {| x_pre := pre_exec; x_branch := true; x_sub := msgs; x_fail := fl; x_residue := failed; x_success := passed;
     x_post := []; x_post_fail := NoFail |}.
Definition x_ibc_recv receipt app fl err_ack ok_ack : crossing :=
  {| x_pre := receipt; x_branch := true; x_sub := app; x_fail := fl; x_residue := err_ack; x_success := ok_ack;
     x_post := []; x_post_fail := NoFail |}.
