(* Descriptor language of the tables that harness/gen_c12 generates into gen/Gen_Checkpoint.v:
   what each argument of the Go `Pack(...)` / tron `[]abi.Param{...}` / Solidity `abi.encode(...)`
   calls is, syntactically.  No proofs in this file. *)
From Coq Require Import ZArith List String.
Import ListNotations.

(* ABI type as written in the ABI JSON / the Solidity declaration *)
Inductive abity :=
| A_uint (bits : Z) | A_int (bits : Z) | A_address | A_bool
| A_fixbytes (n : Z) | A_bytes | A_string
| A_arr (e : abity)
| A_other (s : string).

(* how a Go expression turns a field of the stored object into an ABI argument *)
Inductive conv :=
| CI64      (* big.NewInt(int64(x))            x : uint64 *)
| CU64      (* new(big.Int).SetUint64(x)       x : uint64 (not used by the current tree) *)
| CBig      (* x.BigInt()                      x : sdkmath.Int *)
| CAddr     (* gethcommon.HexToAddress(x)      x : string *)
| CStr      (* x passed as is, ABI type address (gotron converts the base58 string) *)
| CHex.     (* hex.DecodeString(x)             x : string *)

Inductive gexpr :=
| GGravity                                  (* fxtypes.StrToByte32(<the gravity id parameter>) *)
| GConst (s : string)                       (* fxtypes.StrToByte32("literal") *)
| GField (c : conv) (path : string)         (* conv(receiver.path) *)
| GMap (c : conv) (coll path : string).     (* [conv(e.path) for e in receiver.coll] *)

Inductive sexpr :=
| SVar (name : string)                      (* parameter / state variable / struct member / array element, as written *)
| SLit (z : Z).                             (* 32-byte hex literal (directly or through a local constant) *)

Inductive ckind := KOracleSet | KBatch | KCall.

(* what a signature helper does to byte 64 (the recovery id V) before go-ethereum's recovery *)
Inductive vnorm :=
| VSubIf (vals : list Z) (d : Z)    (* if sig[64] == v1 || sig[64] == v2 ... { sig[64] -= d } *)
| VMod (m : Z)                      (* sig[64] %= m *)
| VNone.

Definition garg := (gexpr * abity)%type.
Definition sarg := (sexpr * abity)%type.
