(* M_ClaimHash — executable model of the pre-image of ExternalClaim.ClaimHash()
   (x/crosschain/types/msgs.go): each of the six claim types hashes
   fmt.Sprintf(<format>, fields...) with SHA-256 (tmhash.Sum).  The formats, the struct
   fields and what ValidateBasic guarantees about their characters are NOT written here:
   they are regenerated from the source into gen/Gen_ClaimHash.v as values of [spec].

   This file defines
     - claims as finite maps field name -> typed value,
     - [render]: what fmt produces for the verbs/types the six formats use
         %d uint64 -> decimal          %s/%v string -> the string itself
         %t bool -> true|false         sdkmath.Int.String() -> decimal, "<nil>" for the nil Int
         %s []string -> "[a b c]"      %v []sdkmath.Int -> "[1 2 3]"
         %v []BridgeValidator -> "[{power addr} {power addr}]"
         %x string -> lowercase hex of the bytes (not used by the current formats; the proposed repair of
                      MsgBridgeTokenClaim uses it)
     - [wfb]: the character-level consequences of ValidateBasic (per generated class),
     - [check_fmt]: a syntactic criterion on a format under which equal pre-images force
       equal execution-relevant fields (soundness: proofs/P_ClaimHash.v),
     - [cex]: a search for a colliding pair when the criterion fails.
   Bytes are Z.  SHA-256 itself is outside the model: all statements are on pre-images. *)
From Coq Require Import ZArith List Bool String DecimalZ.
Import ListNotations.
Open Scope Z_scope.

Definition bytes := list Z.

(* ---------- generated vocabulary ---------- *)

(* what ValidateBasic guarantees about a string (or about each element of a list) *)
Inductive scls :=
| CFree       (* nothing *)
| CNonEmpty   (* len > 0, any characters *)
| CHex        (* hex.DecodeString succeeds (possibly empty) *)
| CBech32     (* sdk.AccAddressFromBech32 succeeds *)
| CAddr.      (* ValidateExternalAddr succeeds: 0x + 40 hex digits (EVM chains) or 34 base58 characters (tron) *)

Inductive icls := INonNeg (* !IsNil && !IsNegative *) | IAny.

Inductive fty :=
| TU64 | TStr (c : scls) | TInt (c : icls) | TBool
| TStrList (c : scls) | TIntList | TMembers (c : scls).

Inductive tok :=
| Lit (s : bytes)
| U64 (f : string) | Str (f : string) | IntDec (f : string) | Bool (f : string)
| StrList (f : string) | IntList (f : string) | Members (f : string)
| HexStr (f : string)    (* %x of a string: two lowercase hex digits per byte *)
| HexStrList (f : string). (* %x of a []string: "[6162 63]", each element in hex *)

Record spec := {
  s_name : string;
  s_fields : list (string * fty);       (* the proto struct, in declaration order *)
  s_fmt : list tok;                     (* the Sprintf format of ClaimHash *)
  s_irrelevant : list string;           (* fields that never influence execution *)
  s_read : list string                  (* fields the execution handlers read (from the keeper sources) *)
}.

(* ---------- claims ---------- *)

Inductive fval :=
| VU64 (n : Z) | VStr (s : bytes) | VInt (z : option Z) (* None = the nil sdkmath.Int *)
| VBool (b : bool) | VStrList (l : list bytes) | VIntList (l : list (option Z))
| VMembers (l : list (Z * bytes)) | VNone.

Definition claim := list (string * fval).

Fixpoint get (f : string) (c : claim) : fval :=
  match c with
  | [] => VNone
  | (g, v) :: r => if String.eqb f g then v else get f r
  end.

Fixpoint lookup {A} (f : string) (l : list (string * A)) : option A :=
  match l with
  | [] => None
  | (g, v) :: r => if String.eqb f g then Some v else lookup f r
  end.

Fixpoint mem (f : string) (l : list string) : bool :=
  match l with [] => false | g :: r => String.eqb f g || mem f r end.

Definition relevant_fields (sp : spec) : list string :=
  filter (fun f => negb (mem f (s_irrelevant sp))) (map fst (s_fields sp)).

Definition relevant (sp : spec) (c : claim) : list fval :=
  map (fun f => get f c) (relevant_fields sp).

(* ---------- rendering (what fmt prints) ---------- *)

Fixpoint r_uint (d : Decimal.uint) : bytes :=
  match d with
  | Decimal.Nil => []
  | Decimal.D0 u => 48 :: r_uint u | Decimal.D1 u => 49 :: r_uint u
  | Decimal.D2 u => 50 :: r_uint u | Decimal.D3 u => 51 :: r_uint u
  | Decimal.D4 u => 52 :: r_uint u | Decimal.D5 u => 53 :: r_uint u
  | Decimal.D6 u => 54 :: r_uint u | Decimal.D7 u => 55 :: r_uint u
  | Decimal.D8 u => 56 :: r_uint u | Decimal.D9 u => 57 :: r_uint u
  end.

Definition r_int (i : Decimal.int) : bytes :=
  match i with Decimal.Pos d => r_uint d | Decimal.Neg d => 45 :: r_uint d end.

Definition r_dec (z : Z) : bytes := r_int (Z.to_int z).

Definition nil_str : bytes := [60; 110; 105; 108; 62].   (* "<nil>" *)

Definition r_oint (o : option Z) : bytes :=
  match o with None => nil_str | Some z => r_dec z end.

Definition r_bool (b : bool) : bytes :=
  if b then [116; 114; 117; 101] else [102; 97; 108; 115; 101].

(* "[" e1 " " e2 ... "]" *)
Fixpoint r_tail (l : list bytes) : bytes :=
  match l with [] => [93] | x :: r => 32 :: x ++ r_tail r end.

Definition r_list (l : list bytes) : bytes :=
  91 :: match l with [] => [93] | x :: r => x ++ r_tail r end.

Definition r_member (m : Z * bytes) : bytes :=
  123 :: r_dec (fst m) ++ 32 :: snd m ++ [125].

Definition hexd (n : Z) : Z := if n <? 10 then 48 + n else 87 + n.
Fixpoint r_hex (s : bytes) : bytes :=
  match s with [] => [] | b :: r => hexd (b / 16) :: hexd (b mod 16) :: r_hex r end.

Definition render_tok (c : claim) (t : tok) : bytes :=
  match t with
  | Lit s => s
  | U64 f => match get f c with VU64 n => r_dec n | _ => [] end
  | Str f => match get f c with VStr s => s | _ => [] end
  | IntDec f => match get f c with VInt o => r_oint o | _ => [] end
  | Bool f => match get f c with VBool b => r_bool b | _ => [] end
  | StrList f => match get f c with VStrList l => r_list l | _ => [] end
  | IntList f => match get f c with VIntList l => r_list (map r_oint l) | _ => [] end
  | Members f => match get f c with VMembers l => r_list (map r_member l) | _ => [] end
  | HexStr f => match get f c with VStr s => r_hex s | _ => [] end
  | HexStrList f => match get f c with VStrList l => r_list (map r_hex l) | _ => [] end
  end.

Fixpoint render (fm : list tok) (c : claim) : bytes :=
  match fm with [] => [] | t :: r => render_tok c t ++ render r c end.

Definition preimage (sp : spec) (c : claim) : bytes := render (s_fmt sp) c.

(* ---------- well-formedness: the character-level part of ValidateBasic ---------- *)

Definition is_digit (b : Z) : bool := (48 <=? b) && (b <=? 57).
Definition is_alnum (b : Z) : bool :=
  is_digit b || ((65 <=? b) && (b <=? 90)) || ((97 <=? b) && (b <=? 122)).
Definition is_hex (b : Z) : bool :=
  is_digit b || ((65 <=? b) && (b <=? 70)) || ((97 <=? b) && (b <=? 102)).
(* characters of a rendered sdkmath.Int: digits, '-', and "<nil>" *)
Definition is_intch (b : Z) : bool :=
  is_digit b || (b =? 45) || (b =? 60) || (b =? 62) || (b =? 110) || (b =? 105) || (b =? 108).

Definition is_byte (b : Z) : bool := (0 <=? b) && (b <? 256).

Definition len (s : bytes) : Z := Z.of_nat (List.length s).

(* address shape: 42 characters with an 'x' in second position (EVM), or 34 characters (tron) *)
Definition addr_ok (s : bytes) : bool :=
  forallb is_alnum s && (((len s =? 42) && (nth 1 s 0 =? 120)) || (len s =? 34)).

Definition str_ok (cl : scls) (s : bytes) : bool :=
  match cl with
  | CFree => true
  | CNonEmpty => match s with [] => false | _ => true end
  | CHex => forallb is_hex s
  | CBech32 => forallb is_alnum s
  | CAddr => addr_ok s
  end.

Definition val_ok (ty : fty) (v : fval) : bool :=
  match ty, v with
  | TU64, VU64 n => 0 <=? n
  | TStr cl, VStr s => forallb is_byte s && str_ok cl s
  | TInt INonNeg, VInt (Some z) => 0 <=? z
  | TInt IAny, VInt _ => true
  | TBool, VBool _ => true
  | TStrList cl, VStrList l => forallb (fun x => forallb is_byte x && str_ok cl x) l
  | TIntList, VIntList _ => true
  | TMembers cl, VMembers l => forallb (fun m => (0 <=? fst m) && str_ok cl (snd m)) l
  | _, _ => false
  end.

Definition wfb (sp : spec) (c : claim) : bool :=
  forallb (fun ft => val_ok (snd ft) (get (fst ft) c)) (s_fields sp).

Definition wf (sp : spec) (c : claim) : Prop := wfb sp c = true.

(* ---------- the criterion ---------- *)

(* over-approximation of the characters a wf string of the class can contain *)
Definition calpha (cl : scls) : Z -> bool :=
  match cl with
  | CFree | CNonEmpty => fun _ => true
  | CHex => is_hex
  | CBech32 | CAddr => is_alnum
  end.

Definition cls_nonempty (cl : scls) : bool :=
  match cl with CAddr | CNonEmpty => true | _ => false end.

Definition is_listch (b : Z) : bool := (b =? 91) || (b =? 93) || (b =? 32).
Definition is_membch (b : Z) : bool := is_listch b || (b =? 123) || (b =? 125).

Definition fty_of (sp : spec) (f : string) : option fty := lookup f (s_fields sp).

(* characters the rendering of a token can contain (given wf) *)
Definition talpha (sp : spec) (t : tok) : Z -> bool :=
  match t with
  | Lit _ => fun _ => true
  | U64 _ => is_digit
  | Str f => match fty_of sp f with Some (TStr cl) => calpha cl | _ => fun _ => true end
  | IntDec _ => is_intch
  | Bool _ => is_alnum
  | StrList f => match fty_of sp f with
                 | Some (TStrList cl) => fun b => calpha cl b || is_listch b
                 | _ => fun _ => true end
  | IntList _ => fun b => is_intch b || is_listch b
  | Members f => match fty_of sp f with
                 | Some (TMembers cl) => fun b => is_digit b || calpha cl b || is_membch b
                 | _ => fun _ => true end
  | HexStr _ => is_hex
  | HexStrList _ => fun b => is_hex b || is_listch b
  end.

(* the token is applied to a field of the matching type, and list renderings are unambiguous *)
Definition tok_ok (sp : spec) (t : tok) : bool :=
  match t with
  | Lit _ => false
  | U64 f => match fty_of sp f with Some TU64 => true | _ => false end
  | Str f => match fty_of sp f with Some (TStr _) => true | _ => false end
  | IntDec f => match fty_of sp f with Some (TInt _) => true | _ => false end
  | Bool f => match fty_of sp f with Some TBool => true | _ => false end
  | StrList f => match fty_of sp f with
                 | Some (TStrList cl) => cls_nonempty cl && negb (calpha cl 32) && negb (calpha cl 93)
                 | _ => false end
  | IntList f => match fty_of sp f with Some TIntList => true | _ => false end
  | Members f => match fty_of sp f with
                 | Some (TMembers cl) => negb (calpha cl 125)
                 | _ => false end
  | HexStr f => match fty_of sp f with Some (TStr _) => true | _ => false end
  | HexStrList f => match fty_of sp f with Some (TStrList cl) => cls_nonempty cl | _ => false end
  end.

(* the token is the last one, or is followed by a literal whose first byte cannot occur in it *)
Definition follow_ok (a : Z -> bool) (rest : list tok) : bool :=
  match rest with
  | [] => true
  | Lit (b :: _) :: _ => negb (a b)
  | _ => false
  end.

Definition is_addr_field (sp : spec) (g : string) : bool :=
  match fty_of sp g with Some (TStr CAddr) => true | _ => false end.

(* "%d%s": a decimal directly followed by an address (fixed length / 'x' in 2nd place) *)
Definition special (sp : spec) (t : tok) (r : list tok) : bool :=
  match t, r with
  | U64 _, Str g :: r' => tok_ok sp t && is_addr_field sp g && follow_ok is_alnum r'
  | _, _ => false
  end.

Fixpoint chk (sp : spec) (fm : list tok) : bool :=
  match fm with
  | [] => true
  | t :: r =>
      match t with
      | Lit _ => chk sp r
      | _ => ((tok_ok sp t && follow_ok (talpha sp t) r) || special sp t r) && chk sp r
      end
  end.

Definition tok_field (t : tok) : option string :=
  match t with
  | Lit _ => None
  | U64 f | Str f | IntDec f | Bool f | StrList f | IntList f | Members f | HexStr f | HexStrList f => Some f
  end.

Fixpoint fmt_fields (fm : list tok) : list string :=
  match fm with
  | [] => []
  | t :: r => match tok_field t with Some f => f :: fmt_fields r | None => fmt_fields r end
  end.

Definition covers (sp : spec) : bool :=
  forallb (fun f => mem f (fmt_fields (s_fmt sp))) (relevant_fields sp).

Definition check_fmt (sp : spec) : bool := chk sp (s_fmt sp) && covers sp.

(* every field a handler reads is execution-relevant or is the chain name *)
Definition reads_covered (sp : spec) : bool :=
  forallb (fun f => mem f (relevant_fields sp) || String.eqb f "ChainName") (s_read sp).

(* ---------- different claim types never share a pre-image ---------- *)
(* The attestation key is (nonce, hash) whatever the claim type.  Criterion for two formats: every literal is a
   single '/', no field rendering can contain '/', so the pre-image splits uniquely into '/'-separated groups of
   tokens; the two formats have a different number of groups, or at some position one format's group can only
   contain bytes of an alphabet A while the other's group always starts with a byte outside A. *)

Fixpoint split47 (l : bytes) : list bytes :=
  match l with
  | [] => [[]]
  | b :: r => if b =? 47 then [] :: split47 r
              else match split47 r with s :: ss => (b :: s) :: ss | [] => [[b]] end
  end.

Definition is_slash (t : tok) : bool :=
  match t with Lit [b] => b =? 47 | _ => false end.

Fixpoint groups (fm : list tok) : list (list tok) :=
  match fm with
  | [] => [[]]
  | t :: r => if is_slash t then [] :: groups r
              else match groups r with g :: gs => (t :: g) :: gs | [] => [[t]] end
  end.

(* every token is a '/' literal or a well-typed field token that cannot print '/' *)
Definition slash_ok (sp : spec) : bool :=
  forallb (fun t => is_slash t || (tok_ok sp t && negb (talpha sp t 47))) (s_fmt sp).

Definition digits10 : list Z := [48; 49; 50; 51; 52; 53; 54; 55; 56; 57].

(* the possible first bytes of a token whose rendering is never empty ([] = no guarantee) *)
Definition tfirst (sp : spec) (t : tok) : list Z :=
  match t with
  | U64 _ => digits10
  | IntDec f => match fty_of sp f with
                | Some (TInt INonNeg) => digits10
                | _ => digits10 ++ [45; 60]
                end
  | Bool _ => [116; 102]
  | StrList _ | IntList _ | Members _ | HexStrList _ => [91]
  | _ => []
  end.

Definition galpha (sp : spec) (g : list tok) (b : Z) : bool := existsb (fun t => talpha sp t b) g.

Definition grp_disj (spX : spec) (gX : list tok) (spY : spec) (gY : list tok) : bool :=
  match gY with
  | tY :: _ => match tfirst spY tY with
               | [] => false
               | F => forallb (fun b => negb (galpha spX gX b)) F
               end
  | [] => false
  end.

Fixpoint zip_disj (spA : spec) (gA : list (list tok)) (spB : spec) (gB : list (list tok)) : bool :=
  match gA, gB with
  | a :: ra, b :: rb => grp_disj spA a spB b || grp_disj spB b spA a || zip_disj spA ra spB rb
  | _, _ => false
  end.

Definition xdisjoint (spA spB : spec) : bool :=
  slash_ok spA && slash_ok spB &&
  (negb (Nat.eqb (List.length (groups (s_fmt spA))) (List.length (groups (s_fmt spB))))
   || zip_disj spA (groups (s_fmt spA)) spB (groups (s_fmt spB))).

Definition all_xdisjoint (l : list spec) : bool :=
  forallb (fun a => forallb (fun b => String.eqb (s_name a) (s_name b) || xdisjoint a b) l) l.

(* ---------- the property for one claim type, and its negation ---------- *)

Definition injective (sp : spec) : Prop :=
  forall c1 c2, wf sp c1 -> wf sp c2 ->
    preimage sp c1 = preimage sp c2 -> relevant sp c1 = relevant sp c2.

(* two valid claims FOR THE SAME EVENT NONCE (the attestation key is nonce || hash) that differ in a relevant
   field and have the same pre-image *)
Definition refuted (sp : spec) : Prop :=
  exists c1 c2, wf sp c1 /\ wf sp c2 /\ get "EventNonce" c1 = get "EventNonce" c2 /\
                relevant sp c1 <> relevant sp c2 /\ preimage sp c1 = preimage sp c2.

(* decided from the generated format: holds, or is refuted by a concrete pair *)
Definition verdict (sp : spec) : Prop :=
  if check_fmt sp then injective sp else refuted sp.

(* ---------- searching a colliding pair ---------- *)

Fixpoint list_eqb {A} (e : A -> A -> bool) (l1 l2 : list A) : bool :=
  match l1, l2 with
  | [], [] => true
  | x :: r, y :: s => e x y && list_eqb e r s
  | _, _ => false
  end.

Definition bytes_eqb : bytes -> bytes -> bool := list_eqb Z.eqb.

Definition oz_eqb (a b : option Z) : bool :=
  match a, b with None, None => true | Some x, Some y => x =? y | _, _ => false end.

Definition fval_eqb (a b : fval) : bool :=
  match a, b with
  | VU64 x, VU64 y => x =? y
  | VStr x, VStr y => bytes_eqb x y
  | VInt x, VInt y => oz_eqb x y
  | VBool x, VBool y => Bool.eqb x y
  | VStrList x, VStrList y => list_eqb bytes_eqb x y
  | VIntList x, VIntList y => list_eqb oz_eqb x y
  | VMembers x, VMembers y => list_eqb (fun p q => (fst p =? fst q) && bytes_eqb (snd p) (snd q)) x y
  | VNone, VNone => true
  | _, _ => false
  end.

Definition nonce_eqb (c1 c2 : claim) : bool :=
  match get "EventNonce" c1, get "EventNonce" c2 with VU64 a, VU64 b => a =? b | _, _ => false end.

Definition collide_b (sp : spec) (c1 c2 : claim) : bool :=
  wfb sp c1 && wfb sp c2 && nonce_eqb c1 c2 && negb (list_eqb fval_eqb (relevant sp c1) (relevant sp c2))
  && bytes_eqb (preimage sp c1) (preimage sp c2).

Definition addr0 : bytes := 48 :: 120 :: repeat 48 40.                       (* 0x000...0 *)
Definition addr1 : bytes := 48 :: 120 :: repeat 48 39 ++ [49].               (* 0x000...1 *)

Definition dflt_str (cl : scls) : bytes :=
  match cl with CFree | CNonEmpty => [97] | CHex | CBech32 => [] | CAddr => addr0 end.
Definition alt_str (cl : scls) : bytes :=
  match cl with CFree | CNonEmpty => [98] | CHex => [48; 48] | CBech32 => [97] | CAddr => addr1 end.

Definition dflt_val (ty : fty) : fval :=
  match ty with
  | TU64 => VU64 1 | TStr cl => VStr (dflt_str cl) | TInt _ => VInt (Some 1) | TBool => VBool false
  | TStrList _ => VStrList [] | TIntList => VIntList [] | TMembers cl => VMembers [(1, dflt_str cl)]
  end.
Definition alt_val (ty : fty) : fval :=
  match ty with
  | TU64 => VU64 2 | TStr cl => VStr (alt_str cl) | TInt _ => VInt (Some 2) | TBool => VBool true
  | TStrList cl => VStrList [alt_str cl] | TIntList => VIntList [Some 1] | TMembers cl => VMembers [(2, dflt_str cl)]
  end.

Definition dflt_claim (sp : spec) : claim := map (fun ft => (fst ft, dflt_val (snd ft))) (s_fields sp).

Definition set (f : string) (v : fval) (c : claim) : claim := (f, v) :: c.

(* (a) a relevant field that does not occur in the format: change it *)
Definition cand_missing (sp : spec) : list (claim * claim) :=
  let base := dflt_claim sp in
  flat_map (fun ft =>
    if mem (fst ft) (relevant_fields sp) && negb (mem (fst ft) (fmt_fields (s_fmt sp)))
    then [(base, set (fst ft) (alt_val (snd ft)) base)] else [])
   (s_fields sp).

(* (b) two strings around a literal that may occur inside them: move the boundary
       f = "a" ++ sep ++ "b", g = "c"   vs   f = "a", g = "b" ++ sep ++ "c" *)
Fixpoint cand_split (sp : spec) (fm : list tok) : list (claim * claim) :=
  match fm with
  | Str f :: ((Lit s :: Str g :: _) as r) =>
      let base := dflt_claim sp in
      (set f (VStr ([97] ++ s ++ [98])) (set g (VStr [99]) base),
       set f (VStr [97]) (set g (VStr ([98] ++ s ++ [99])) base)) :: cand_split sp r
  | _ :: r => cand_split sp r
  | [] => []
  end.

(* (c) two decimals printed back to back: 1|23 vs 12|3 *)
Fixpoint cand_shift (sp : spec) (fm : list tok) : list (claim * claim) :=
  match fm with
  | U64 f :: ((U64 g :: _) as r) =>
      let base := dflt_claim sp in
      (set f (VU64 1) (set g (VU64 23) base), set f (VU64 12) (set g (VU64 3) base)) :: cand_shift sp r
  | _ :: r => cand_shift sp r
  | [] => []
  end.

Definition cex (sp : spec) : option (claim * claim) :=
  find (fun p => collide_b sp (fst p) (snd p))
       (cand_missing sp ++ cand_split sp (s_fmt sp) ++ cand_shift sp (s_fmt sp)).

Definition cex_found (sp : spec) : bool :=
  match cex sp with Some _ => true | None => false end.

Definition decided_b (sp : spec) : bool := if check_fmt sp then true else cex_found sp.

(* the names of relevant fields missing from the format (reported, not used in proofs) *)
Definition missing_fields (sp : spec) : list string :=
  filter (fun f => negb (mem f (fmt_fields (s_fmt sp)))) (relevant_fields sp).
