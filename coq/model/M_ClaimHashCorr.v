(* glue for the correspondence files written by harness/c03:
   Cases_C03.v       one claim per case: the model's pre-image must equal the bytes whose SHA-256 the
                     harness checked against the REAL ClaimHash(); and whenever the real ValidateBasic
                     accepted the claim the model's wf must hold (wf is implied by validity)
   Cases_C03_pairs.v two claims per case: the model's pre-images are equal iff the real hashes are *)
From Coq Require Import ZArith List Bool String.
From FxV Require Import model.M_ClaimHash.
Import ListNotations.
Open Scope Z_scope.

(* the harness writes a claim as the list of its field values in struct order *)
Definition zipc (sp : spec) (vals : list fval) : claim := combine (map fst (s_fields sp)) vals.

Record ch_case := mk_ch_case {
  cc_spec : spec; cc_claim : claim;
  cc_valid : bool;      (* the real ValidateBasic returned nil *)
  cc_bytes : bytes }.   (* pre-image, sha256(cc_bytes) = real ClaimHash() checked in Go *)

Definition ch_mismatch (c : ch_case) : bool :=
  negb (bytes_eqb (preimage (cc_spec c) (cc_claim c)) (cc_bytes c))
  || (cc_valid c && negb (wfb (cc_spec c) (cc_claim c))).

Record pair_case := mk_pair_case {
  pc_spec : spec; pc_c1 : claim; pc_c2 : claim;
  pc_same_hash : bool;        (* real ClaimHash() of the two are equal *)
  pc_same_relevant : bool }.  (* the two agree on every execution-relevant field (Go comparison) *)

Definition pair_mismatch (p : pair_case) : bool :=
  negb (Bool.eqb (bytes_eqb (preimage (pc_spec p) (pc_c1 p)) (preimage (pc_spec p) (pc_c2 p))) (pc_same_hash p))
  || negb (Bool.eqb (list_eqb fval_eqb (relevant (pc_spec p) (pc_c1 p)) (relevant (pc_spec p) (pc_c2 p)))
                    (pc_same_relevant p)).
