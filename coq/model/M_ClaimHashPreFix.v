(* The three ClaimHash formats as they were BEFORE the repairs 08b97b8 / cd44e4e / b17dd44 of findings
   C03-1/2/3, written down as explicit constants (copied from the Gen_ClaimHash.v generated from that tree).
   They are history, not a model of the current code: the statements about them in Prop_C03.v say what was
   wrong with exactly these formats and are independent of the checked tree. *)
From Coq Require Import ZArith List String.
From FxV Require Import model.M_ClaimHash.
Import ListNotations.
Open Scope Z_scope.
Open Scope string_scope.

(* fmt.Sprintf("%d/%d/%s/%s/%s/%s/%v/%v/%s", BlockHeight, EventNonce, Sender, Refund, To, TokenContracts, Amounts, Data, Value) *)
Definition PreFix_BridgeCall : spec := {|
  s_name := "MsgBridgeCallClaim (before 08b97b8)";
  s_fields :=
   [("ChainName", TStr CFree); ("BridgerAddress", TStr CBech32); ("EventNonce", TU64); ("BlockHeight", TU64);
    ("Sender", TStr CAddr); ("Refund", TStr CAddr); ("TokenContracts", TStrList CAddr); ("Amounts", TIntList);
    ("To", TStr CAddr); ("Data", TStr CHex); ("Value", TInt INonNeg); ("Memo", TStr CHex); ("TxOrigin", TStr CAddr)];
  s_fmt :=
   [U64 "BlockHeight"; Lit [47]; U64 "EventNonce"; Lit [47]; Str "Sender"; Lit [47]; Str "Refund"; Lit [47];
    Str "To"; Lit [47]; StrList "TokenContracts"; Lit [47]; IntList "Amounts"; Lit [47]; Str "Data"; Lit [47];
    IntDec "Value"];
  s_irrelevant := ["BridgerAddress"; "ChainName"];
  s_read := ["Amounts"; "BlockHeight"; "ChainName"; "Data"; "EventNonce"; "Memo"; "Refund"; "Sender"; "To";
             "TokenContracts"; "TxOrigin"; "Value"] |}.

(* fmt.Sprintf("%d/%d/%d/%t/%s", BlockHeight, EventNonce, Nonce, Success, Cause) *)
Definition PreFix_BridgeCallResult : spec := {|
  s_name := "MsgBridgeCallResultClaim (before cd44e4e)";
  s_fields :=
   [("ChainName", TStr CFree); ("BridgerAddress", TStr CBech32); ("EventNonce", TU64); ("BlockHeight", TU64);
    ("Nonce", TU64); ("TxOrigin", TStr CAddr); ("Success", TBool); ("Cause", TStr CHex)];
  s_fmt :=
   [U64 "BlockHeight"; Lit [47]; U64 "EventNonce"; Lit [47]; U64 "Nonce"; Lit [47]; Bool "Success"; Lit [47];
    Str "Cause"];
  s_irrelevant := ["BridgerAddress"; "ChainName"];
  s_read := ["BlockHeight"; "Cause"; "EventNonce"; "Nonce"; "Success"; "TxOrigin"] |}.

(* fmt.Sprintf("%d/%d%s/%s/%s/%d/%s/", BlockHeight, EventNonce, TokenContract, Name, Symbol, Decimals, ChannelIbc) *)
Definition PreFix_BridgeToken : spec := {|
  s_name := "MsgBridgeTokenClaim (before b17dd44)";
  s_fields :=
   [("EventNonce", TU64); ("BlockHeight", TU64); ("TokenContract", TStr CAddr); ("Name", TStr CNonEmpty);
    ("Symbol", TStr CNonEmpty); ("Decimals", TU64); ("BridgerAddress", TStr CBech32); ("ChannelIbc", TStr CHex);
    ("ChainName", TStr CFree)];
  s_fmt :=
   [U64 "BlockHeight"; Lit [47]; U64 "EventNonce"; Str "TokenContract"; Lit [47]; Str "Name"; Lit [47];
    Str "Symbol"; Lit [47]; U64 "Decimals"; Lit [47]; Str "ChannelIbc"; Lit [47]];
  s_irrelevant := ["BridgerAddress"; "ChainName"];
  s_read := ["BlockHeight"; "ChannelIbc"; "Decimals"; "EventNonce"; "Symbol"; "TokenContract"] |}.
