(* Model of
     x/crosschain/types/types.go   OracleSet.GetCheckpoint, OutgoingTxBatch.GetCheckpoint,
                                   OutgoingBridgeCall.GetCheckpoint
     x/tron/types/checkpoint.go    GetCheckpointOracleSet / ConfirmBatch / BridgeCall
     solidity/contracts/bridge/FxBridgeLogic.sol  makeCheckpoint / submitBatch / bridgeCallSigHash
     x/crosschain/keeper/confirm.go  ConfirmHandler, the three *ConfirmHandler, ValidateConfirmSign
     x/crosschain/types/eth_signer.go, x/tron/types/signer.go  (length check, v normalisation)
   as the code is.  keccak and ECDSA are not modelled: everything is stated on pre-images and
   `recover` is a Section variable.  No proofs in this file. *)
From Coq Require Import ZArith List Bool String Ascii.
From FxV Require Import model.M_Abi model.M_CkDesc gen.Gen_Checkpoint.
Import ListNotations.
Open Scope Z_scope.

Definition two63 : Z := 2 ^ 63.
Definition two64 : Z := 2 ^ 64.

(* ---------- the stored objects: exactly the fields that enter the checkpoint ----------
   addresses: the 20 address bytes as a number (HexToAddress of a validated address string;
   for tron the 20 bytes after the 0x41 prefix);  uint64 fields: [0,2^64);  amounts
   (sdkmath.Int .BigInt()): [0,2^256);  data/memo: the bytes hex.DecodeString returns.
   Not in the checkpoint (so not here): OracleSet.Height, OutgoingTxBatch.Block,
   per-transfer Id/Sender/token contract, OutgoingBridgeCall.BlockHeight. *)
Record oracle_set := { os_nonce : Z; os_members : list (Z * Z) (* external address, power *) }.
Record transfer := { tx_amount : Z; tx_dest : Z; tx_fee : Z }.
Record batch := { b_nonce : Z; b_timeout : Z; b_txs : list transfer; b_token : Z; b_feerecv : Z }.
Record bcall := { c_sender : Z; c_refund : Z; c_tokens : list (Z * Z) (* contract, amount *);
                  c_to : Z; c_data : list Z; c_memo : list Z;
                  c_nonce : Z; c_timeout : Z; c_event_nonce : Z }.
Inductive obj := OSet (s : oracle_set) | OBatch (b : batch) | OCall (c : bcall).

Definition kind_of (o : obj) : ckind :=
  match o with OSet _ => KOracleSet | OBatch _ => KBatch | OCall _ => KCall end.

(* ---------- integer conversions ---------- *)

(* int64(x) for x : uint64 *)
Definition cast_i64 (x : Z) : Z := if x <? two63 then x else x - two64.
(* big.NewInt(int64(x)) as packNum sees it: math.U256 = two's complement in 256 bits *)
Definition go_u64 (x : Z) : Z := cast_i64 x mod two256.
Definition u64v (cast : bool) (x : Z) : Z := if cast then go_u64 x else x.

Definition bytes_of_string (s : string) : list Z :=
  map (fun a => Z.of_N (N_of_ascii a)) (list_ascii_of_string s).

Definition tag_string (k : ckind) : string :=
  match k with KOracleSet => "checkpoint" | KBatch => "transactionBatch" | KCall => "bridgeCall" end.
Definition tag_of (k : ckind) : Z := b32_of_bytes (bytes_of_string (tag_string k)).

(* ---------- the argument tuples ---------- *)

Definition w32 (z : Z) : targ := (TS SBytes32, VW z).
Definition wu (z : Z) : targ := (TS SUint256, VW z).
Definition wa (z : Z) : targ := (TS SAddress, VW z).
Definition au (l : list Z) : targ := (TArr SUint256, VA l).
Definition aa (l : list Z) : targ := (TArr SAddress, VA l).
Definition bb (l : list Z) : targ := (TBytes, VB l).

(* Which uint64 fields go through big.NewInt(int64(.)) is read off the generated tables (so the
   model follows the tree: today every one of the seven does, in both the eth-like and the tron
   functions).  A row `GField CI64 p` / `GMap CI64 coll p` is such a cast. *)
Record casts := {
  k_set_nonce : bool; k_set_power : bool;
  k_b_nonce : bool; k_b_timeout : bool;
  k_c_nonce : bool; k_c_timeout : bool; k_c_evn : bool
}.
Definition all_casts (b : bool) : casts :=
  {| k_set_nonce := b; k_set_power := b; k_b_nonce := b; k_b_timeout := b; k_c_nonce := b; k_c_timeout := b; k_c_evn := b |}.
Definition nocast : casts := all_casts false.

Definition row_casts (name : string) (g : garg) : bool :=
  match fst g with
  | GField CI64 p => String.eqb p name
  | GMap CI64 c p => String.eqb (c ++ "." ++ p) name
  | _ => false
  end.
Definition casts_of_table (t : ckind -> list garg) : casts :=
  let c k n := existsb (row_casts n) (t k) in
  {| k_set_nonce := c KOracleSet "Nonce"; k_set_power := c KOracleSet "Members.Power";
     k_b_nonce := c KBatch "BatchNonce"; k_b_timeout := c KBatch "BatchTimeout";
     k_c_nonce := c KCall "Nonce"; k_c_timeout := c KCall "Timeout"; k_c_evn := c KCall "EventNonce" |}%string.
Definition go_casts (tron : bool) : casts := casts_of_table (if tron then tron_table else go_table).

(* cs = go_casts tron: what the Go code passes to Pack / GetPaddedParam
   cs = nocast       : what the contract abi.encode()s when it is handed the object's values *)
Definition ck_args (cs : casts) (gid : list Z) (o : obj) : list targ :=
  match o with
  | OSet s =>
      [ w32 (b32_of_bytes gid); w32 (tag_of KOracleSet);
        wu (u64v (k_set_nonce cs) (os_nonce s));
        aa (map fst (os_members s));
        au (map (fun m => u64v (k_set_power cs) (snd m)) (os_members s)) ]
  | OBatch b =>
      [ w32 (b32_of_bytes gid); w32 (tag_of KBatch);
        au (map tx_amount (b_txs b)); aa (map tx_dest (b_txs b)); au (map tx_fee (b_txs b));
        wu (u64v (k_b_nonce cs) (b_nonce b)); wa (b_token b); wu (u64v (k_b_timeout cs) (b_timeout b)); wa (b_feerecv b) ]
  | OCall c =>
      [ w32 (b32_of_bytes gid); w32 (tag_of KCall);
        wa (c_sender c); wa (c_refund c);
        aa (map fst (c_tokens c)); au (map snd (c_tokens c));
        wa (c_to c); bb (c_data c); bb (c_memo c);
        wu (u64v (k_c_nonce cs) (c_nonce c)); wu (u64v (k_c_timeout cs) (c_timeout c));
        wu (u64v (k_c_evn cs) (c_event_nonce c)) ]
  end.

Definition go_checkpoint_args (tron : bool) := ck_args (go_casts tron).
Definition sol_checkpoint_args := ck_args nocast.

(* the bytes that are hashed: Pack(...)[4:] / GetPaddedParam(...) on the Go side, abi.encode(...) in the contract *)
Definition go_preimage (tron : bool) (gid : list Z) (o : obj) : list Z := encode (go_checkpoint_args tron gid o).
Definition sol_preimage (gid : list Z) (o : obj) : list Z := encode (sol_checkpoint_args gid o).

(* GetCheckpoint fails when the gravity id does not fit bytes32 (StrToByte32) *)
Definition go_checkpoint (tron : bool) (gid : list Z) (o : obj) : option (list Z) :=
  if zlen gid <=? 32 then Some (go_preimage tron gid o) else None.

(* ---------- well-formed objects ---------- *)

Definition is_u64 (x : Z) : Prop := 0 <= x < two64.
Definition is_addr (x : Z) : Prop := 0 <= x < two160.
Definition is_amt (x : Z) : Prop := 0 <= x < two256.
Definition is_byte (x : Z) : Prop := 0 <= x < 256.

Definition wf_obj (o : obj) : Prop :=
  match o with
  | OSet s => is_u64 (os_nonce s) /\ Forall (fun m => is_addr (fst m) /\ is_u64 (snd m)) (os_members s)
              /\ zlen (os_members s) < two256
  | OBatch b => is_u64 (b_nonce b) /\ is_u64 (b_timeout b) /\ is_addr (b_token b) /\ is_addr (b_feerecv b)
              /\ Forall (fun t => is_amt (tx_amount t) /\ is_addr (tx_dest t) /\ is_amt (tx_fee t)) (b_txs b)
              /\ zlen (b_txs b) < two256
  | OCall c => is_addr (c_sender c) /\ is_addr (c_refund c) /\ is_addr (c_to c)
              /\ Forall (fun t => is_addr (fst t) /\ is_amt (snd t)) (c_tokens c) /\ zlen (c_tokens c) < two256
              /\ Forall is_byte (c_data c) /\ zlen (c_data c) < two256
              /\ Forall is_byte (c_memo c) /\ zlen (c_memo c) < two256
              /\ is_u64 (c_nonce c) /\ is_u64 (c_timeout c) /\ is_u64 (c_event_nonce c)
  end.

Definition wf_gid (gid : list Z) : Prop := Forall is_byte gid /\ zlen gid <= 32.

(* every uint64 field that goes through int64(.) under cs is below 2^63 *)
Definition u64_small_cs (cs : casts) (o : obj) : Prop :=
  match o with
  | OSet s => ((k_set_nonce cs = true) -> (os_nonce s < two63)) /\
              ((k_set_power cs = true) -> Forall (fun m => snd m < two63) (os_members s))
  | OBatch b => ((k_b_nonce cs = true) -> (b_nonce b < two63)) /\ ((k_b_timeout cs = true) -> (b_timeout b < two63))
  | OCall c => ((k_c_nonce cs = true) -> (c_nonce c < two63)) /\ ((k_c_timeout cs = true) -> (c_timeout c < two63)) /\
               ((k_c_evn cs = true) -> (c_event_nonce c < two63))
  end.

(* every uint64 field of the checkpoint is below 2^63 *)
Definition u64_small (o : obj) : Prop :=
  match o with
  | OSet s => os_nonce s < two63 /\ Forall (fun m => snd m < two63) (os_members s)
  | OBatch b => b_nonce b < two63 /\ b_timeout b < two63
  | OCall c => c_nonce c < two63 /\ c_timeout c < two63 /\ c_event_nonce c < two63
  end.

(* ---------- normal form of a generated table row and its interpretation ---------- *)

Inductive nsrc :=
| NGravity
| NConst (z : Z)
| NField (cast : bool) (name : string)
| NMap (cast : bool) (coll path : string).
Definition narg := (nsrc * ty)%type.

Definition to_ty (a : abity) : option ty :=
  match a with
  | A_uint 256 => Some (TS SUint256)
  | A_address => Some (TS SAddress)
  | A_fixbytes 32 => Some (TS SBytes32)
  | A_bytes => Some TBytes
  | A_arr (A_uint 256) => Some (TArr SUint256)
  | A_arr A_address => Some (TArr SAddress)
  | A_arr (A_fixbytes 32) => Some (TArr SBytes32)
  | _ => None
  end.

(* Go side: the conversion must fit the ABI type it is packed as *)
Definition norm_go (g : garg) : option narg :=
  match g with
  | (GGravity, A_fixbytes 32) => Some (NGravity, TS SBytes32)
  | (GConst s, A_fixbytes 32) => Some (NConst (b32_of_bytes (bytes_of_string s)), TS SBytes32)
  | (GField CI64 p, A_uint 256) => Some (NField true p, TS SUint256)
  | (GField CU64 p, A_uint 256) => Some (NField false p, TS SUint256)
  | (GMap CU64 c p, A_arr (A_uint 256)) => Some (NMap false c p, TArr SUint256)
  | (GField CAddr p, A_address) => Some (NField false p, TS SAddress)
  | (GField CStr p, A_address) => Some (NField false p, TS SAddress)
  | (GField CHex p, A_bytes) => Some (NField false p, TBytes)
  | (GMap CI64 c p, A_arr (A_uint 256)) => Some (NMap true c p, TArr SUint256)
  | (GMap CBig c p, A_arr (A_uint 256)) => Some (NMap false c p, TArr SUint256)
  | (GMap CAddr c p, A_arr A_address) => Some (NMap false c p, TArr SAddress)
  | (GMap CStr c p, A_arr A_address) => Some (NMap false c p, TArr SAddress)
  | _ => None
  end.

Fixpoint all_some {A} (l : list (option A)) : option (list A) :=
  match l with
  | [] => Some []
  | Some x :: r => match all_some r with Some r' => Some (x :: r') | None => None end
  | None :: _ => None
  end.

Definition norm_go_table (t : list garg) : option (list narg) := all_some (map norm_go t).

(* Solidity side.  Which stored field the relayer submits for which contract parameter is a
   semantic fact about the bridge protocol; it is written down here (trusted, see docs/C12.md),
   the positions and types come from the generated table. *)
Definition sol_binding (k : ckind) : list (string * nsrc) :=
  match k with
  | KOracleSet =>
      [ ("_fxBridgeId", NGravity); ("_oracleSetNonce", NField false "Nonce");
        ("_oracles", NMap false "Members" "ExternalAddress"); ("_powers", NMap false "Members" "Power") ]
  | KBatch =>
      [ ("state_fxBridgeId", NGravity);
        ("_amounts", NMap false "Transactions" "Token.Amount");
        ("_destinations", NMap false "Transactions" "DestAddress");
        ("_fees", NMap false "Transactions" "Fee.Amount");
        ("_nonceArray[1]", NField false "BatchNonce"); ("_tokenContract", NField false "TokenContract");
        ("_batchTimeout", NField false "BatchTimeout"); ("_feeReceive", NField false "FeeReceive") ]
  | KCall =>
      [ ("state_fxBridgeId", NGravity);
        ("input.sender", NField false "Sender"); ("input.refund", NField false "Refund");
        ("input.tokens", NMap false "Tokens" "Contract"); ("input.amounts", NMap false "Tokens" "Amount");
        ("input.to", NField false "To"); ("input.data", NField false "Data"); ("input.memo", NField false "Memo");
        ("nonce", NField false "Nonce"); ("input.timeout", NField false "Timeout");
        ("input.eventNonce", NField false "EventNonce") ]
  end%string.

Fixpoint sassoc {V} (k : string) (l : list (string * V)) : option V :=
  match l with
  | [] => None
  | (k', v) :: r => if String.eqb k k' then Some v else sassoc k r
  end.

Definition norm_sol (k : ckind) (s : sarg) : option narg :=
  match s with
  | (SLit z, A_uint 256) | (SLit z, A_fixbytes 32) => Some (NConst z, TS SBytes32)
  | (SVar n, a) =>
      match sassoc n (sol_binding k), to_ty a with
      | Some src, Some t => Some (src, t)
      | _, _ => None
      end
  | _ => None
  end.
Definition norm_sol_table (k : ckind) (t : list sarg) : option (list narg) := all_some (map (norm_sol k) t).

Definition strip_cast (n : narg) : narg :=
  match n with
  | (NField _ p, t) => (NField false p, t)
  | (NMap _ c p, t) => (NMap false c p, t)
  | x => x
  end.

(* a gravity-id / constant is a bytes32 word either way; a 32-byte hex literal in Solidity
   encodes to the same word as the bytes32 it spells *)

Definition seqb := String.eqb.

(* value of a normal-form source in an object; the type the field has by nature *)
Definition interp (gid : list Z) (o : obj) (s : nsrc) : option targ :=
  match s with
  | NGravity => Some (w32 (b32_of_bytes gid))
  | NConst z => Some (w32 z)
  | NField c p =>
      match o with
      | OSet x => if seqb p "Nonce" then Some (wu (u64v c (os_nonce x))) else None
      | OBatch x =>
          if seqb p "BatchNonce" then Some (wu (u64v c (b_nonce x)))
          else if seqb p "BatchTimeout" then Some (wu (u64v c (b_timeout x)))
          else if seqb p "TokenContract" then (if c then None else Some (wa (b_token x)))
          else if seqb p "FeeReceive" then (if c then None else Some (wa (b_feerecv x)))
          else None
      | OCall x =>
          if seqb p "Nonce" then Some (wu (u64v c (c_nonce x)))
          else if seqb p "Timeout" then Some (wu (u64v c (c_timeout x)))
          else if seqb p "EventNonce" then Some (wu (u64v c (c_event_nonce x)))
          else if c then None
          else if seqb p "Sender" then Some (wa (c_sender x))
          else if seqb p "Refund" then Some (wa (c_refund x))
          else if seqb p "To" then Some (wa (c_to x))
          else if seqb p "Data" then Some (bb (c_data x))
          else if seqb p "Memo" then Some (bb (c_memo x))
          else None
      end
  | NMap c coll p =>
      match o with
      | OSet x =>
          if negb (seqb coll "Members") then None
          else if seqb p "ExternalAddress" then (if c then None else Some (aa (map fst (os_members x))))
          else if seqb p "Power" then Some (au (map (fun m => u64v c (snd m)) (os_members x)))
          else None
      | OBatch x =>
          if negb (seqb coll "Transactions") || c then None
          else if seqb p "Token.Amount" then Some (au (map tx_amount (b_txs x)))
          else if seqb p "DestAddress" then Some (aa (map tx_dest (b_txs x)))
          else if seqb p "Fee.Amount" then Some (au (map tx_fee (b_txs x)))
          else None
      | OCall x =>
          if negb (seqb coll "Tokens") || c then None
          else if seqb p "Contract" then Some (aa (map fst (c_tokens x)))
          else if seqb p "Amount" then Some (au (map snd (c_tokens x)))
          else None
      end
  end%string.

(* the table row must be packed with the type the field has *)
Definition interp_row (gid : list Z) (o : obj) (n : narg) : option targ :=
  match interp gid o (fst n) with
  | Some (t, v) => if ty_eqb t (snd n) then Some (t, v) else None
  | None => None
  end.
Definition args_of_table (gid : list Z) (o : obj) (t : list narg) : option (list targ) :=
  all_some (map (interp_row gid o) t).

(* ---------- confirm handling ---------- *)

(* identities in this part are interned strings (the code compares strings): oracle / bridger
   bech32 addresses, external address strings (EIP-55 hex or tron base58), token contract strings *)
Record oracle := { o_bridger : Z; o_external : Z }.

Record cmsg := {
  m_kind : ckind;
  m_token : Z;                 (* MsgConfirmBatch.TokenContract; 0 for the other two kinds *)
  m_nonce : Z;
  m_bridger : Z;
  m_external : Z;
  m_sig : option (list Z)      (* hex.DecodeString(Signature); None = not hex *)
}.

Definition okey := (ckind * Z * Z)%type.          (* kind, token, nonce : names a stored object *)
Definition ckey := (okey * Z)%type.                (* ... and the oracle address: names a confirm *)

Definition kind_eqb (a b : ckind) : bool :=
  match a, b with KOracleSet, KOracleSet | KBatch, KBatch | KCall, KCall => true | _, _ => false end.
Definition okey_eqb (a b : okey) : bool :=
  let '(k, t, n) := a in let '(k', t', n') := b in kind_eqb k k' && (t =? t') && (n =? n').
Definition ckey_eqb (a b : ckey) : bool := okey_eqb (fst a) (fst b) && (snd a =? snd b).

Fixpoint assoc {K V} (eqb : K -> K -> bool) (k : K) (l : list (K * V)) : option V :=
  match l with
  | [] => None
  | (k', v) :: r => if eqb k k' then Some v else assoc eqb k r
  end.
Definition kv_set {K V} (eqb : K -> K -> bool) (k : K) (v : V) (l : list (K * V)) : list (K * V) :=
  (k, v) :: filter (fun p => negb (eqb k (fst p))) l.

Record cstate := {
  st_tron : bool;                       (* k.moduleName == "tron" *)
  st_gid : list Z;                      (* Params.GravityId *)
  st_ext_index : list (Z * Z);          (* 0x13: external address string -> oracle address *)
  st_oracles : list (Z * oracle);       (* 0x12: oracle address -> record *)
  st_objs : list (okey * obj);          (* 0x15 / 0x20 / 0x48: stored oracle sets, batches, bridge calls *)
  st_conf : list (ckey * cmsg)          (* 0x16 / 0x22 / 0x45: stored confirms *)
}.

Definition msg_okey (m : cmsg) : okey := (m_kind m, m_token m, m_nonce m).

Inductive cerr := ENoObject | ECheckpoint | ESigDecode | ENoOracle | EExternal | EBridger | ESignature | EDuplicate
                 | EAnte | ENoInner | EWrapper.
Inductive cres := Accepted (k : ckey) | Rejected (e : cerr).

(* EthAddressFromSignature / TronAddressFromSignature: what is done to byte 64 (V) before go-ethereum's recovery is
   read from the sources by the translator (Gen_Checkpoint.eth_vnorm / tron_vnorm; today both: V = 27|28 -> 0|1),
   and so is the minimum length *)
Definition apply_vnorm (n : vnorm) (v : Z) : Z :=
  match n with
  | VSubIf vals d => if existsb (Z.eqb v) vals then v - d else v
  | VMod m => v mod m
  | VNone => v
  end.
Definition norm_v (n : vnorm) (sig : list Z) : list Z :=
  match nth_error sig 64 with
  | Some v => firstn 64 sig ++ [apply_vnorm n v] ++ skipn 65 sig
  | None => sig
  end.
Definition chain_vnorm (tron : bool) : vnorm := if tron then tron_vnorm else eth_vnorm.
Definition chain_minlen (tron : bool) : Z := if tron then tron_sig_minlen else eth_sig_minlen.

(* the external contract's ecrecover takes v in {27, 28}; relayers pass a stored 65-byte signature on with the
   documented normalisation 0|1 -> 27|28.  A V outside {0,1,27,28} is not a signature the contract can verify. *)
Definition contract_v (v : Z) : option Z :=
  if (v =? 0) || (v =? 1) then Some (v + 27) else if (v =? 27) || (v =? 28) then Some v else None.
(* a normalisation is strict when it maps no other byte value onto the two go-ethereum recovers with *)
Definition vnorm_strict (n : vnorm) : bool :=
  forallb (fun v => let w := apply_vnorm n v in
                    implb ((w =? 0) || (w =? 1)) (match contract_v v with Some _ => true | None => false end))
          (map Z.of_nat (seq 0 256)).

Section Confirm.
  (* recover tron pre sig: the address string (interned) go-ethereum derives from the public key it
     recovers for digest keccak(prefix_tron ‖ keccak(pre)) and signature sig; None when it fails
     (it fails for len(sig) <> 65, v > 3, r/s out of range, point not on curve) *)
  Variable recover : bool -> list Z -> list Z -> option Z.

  Definition sig_signer (tron : bool) (pre sig : list Z) : option Z :=
    if zlen sig <? chain_minlen tron then None else recover tron pre (norm_v (chain_vnorm tron) sig).

  Definition handle (st : cstate) (m : cmsg) : cres :=
    match assoc okey_eqb (msg_okey m) (st_objs st) with
    | None => Rejected ENoObject
    | Some o =>
    match go_checkpoint (st_tron st) (st_gid st) o with
    | None => Rejected ECheckpoint
    | Some pre =>
    match m_sig m with
    | None => Rejected ESigDecode
    | Some sig =>
    match assoc Z.eqb (m_external m) (st_ext_index st) with
    | None => Rejected ENoOracle
    | Some oa =>
    match assoc Z.eqb oa (st_oracles st) with
    | None => Rejected ENoOracle
    | Some orc =>
      if negb (o_external orc =? m_external m) then Rejected EExternal
      else if negb (o_bridger orc =? m_bridger m) then Rejected EBridger
      else match sig_signer (st_tron st) pre sig with
           | None => Rejected ESignature
           | Some a =>
             if negb (a =? o_external orc) then Rejected ESignature
             else match assoc ckey_eqb (msg_okey m, oa) (st_conf st) with
                  | Some _ => Rejected EDuplicate
                  | None => Accepted (msg_okey m, oa)
                  end
           end
    end end end end end.

  Definition with_conf (st : cstate) (c : list (ckey * cmsg)) : cstate :=
    {| st_tron := st_tron st; st_gid := st_gid st; st_ext_index := st_ext_index st;
       st_oracles := st_oracles st; st_objs := st_objs st; st_conf := c |}.

  Definition confirm_step (st : cstate) (m : cmsg) : cstate * cres :=
    match handle st m with
    | Accepted k => (with_conf st (kv_set ckey_eqb k m (st_conf st)), Accepted k)
    | Rejected e => (st, Rejected e)
    end.

  (* everything else that happens on the chain, over-approximated: any change of the registry,
     the stored objects and the gravity id; confirms are only ever deleted by other code *)
  Inductive op :=
  | OConfirm (m : cmsg)
  | OEnv (tron : bool) (gid : list Z) (idx : list (Z * Z)) (orcs : list (Z * oracle)) (objs : list (okey * obj))
  | OPrune (keep : ckey -> bool).

  Definition step (st : cstate) (p : op) : cstate :=
    match p with
    | OConfirm m => fst (confirm_step st m)
    | OEnv tr g i os ob =>
        {| st_tron := tr; st_gid := g; st_ext_index := i; st_oracles := os; st_objs := ob; st_conf := st_conf st |}
    | OPrune keep => with_conf st (filter (fun p => keep (fst p)) (st_conf st))
    end.

  Definition run (ops : list op) (st : cstate) : cstate := fold_left step ops st.

  (* the states in which each confirm of an op list was handled *)
  Fixpoint trace (ops : list op) (st : cstate) : list (cstate * cmsg) :=
    match ops with
    | [] => []
    | OConfirm m :: r => (st, m) :: trace r (step st (OConfirm m))
    | p :: r => trace r (step st p)
    end.

  (* ---- genesis export + import of the module (x/crosschain/keeper/genesis.go) ----
     ExportGenesis lists the confirms of every exported oracle set and batch (outgoing bridge calls are not
     exported, so bridge-call confirms vanish with them); InitGenesis stores each listed confirm again under
     every oracle RECORD whose BridgerAddress equals the confirm's BridgerAddress, with the key built from the
     confirm's own token/nonce.  A confirm whose bridger matches no record (its oracle ran MsgEditBridger
     afterwards) is dropped; a confirm whose bridger account has meanwhile been bound by ANOTHER oracle is
     filed under that oracle (finding C12-1). *)
  Definition resolve (orcs : list (Z * oracle)) (b : Z) : list Z :=
    map fst (filter (fun p => o_bridger (snd p) =? b) orcs).
  (* the repaired variant: GetOracleAddrByExternalAddr on the index InitGenesis has just rebuilt from the
     records (one entry per external address; the record written last wins) *)
  Definition resolve_ext (orcs : list (Z * oracle)) (e : Z) : list Z :=
    match rev (filter (fun p => o_external (snd p) =? e) orcs) with
    | p :: _ => [fst p]
    | [] => []
    end.
  Definition owners (by_ext : bool) (st : cstate) (m : cmsg) : list Z :=
    if by_ext then resolve_ext (st_oracles st) (m_external m) else resolve (st_oracles st) (m_bridger m).
  Definition exported (st : cstate) : list (ckey * cmsg) :=
    filter (fun e => negb (kind_eqb (fst (fst (fst (fst e)))) KCall) &&
                     match assoc okey_eqb (fst (fst e)) (st_objs st) with Some _ => true | None => false end)
           (st_conf st).
  (* by_ext = Gen_Checkpoint.genesis_confirm_owner_by_external: which of the two the tree does *)
  Definition import_conf (by_ext : bool) (st : cstate) : list (ckey * cmsg) :=
    fold_left (fun acc e =>
                 fold_left (fun acc oa => kv_set ckey_eqb (msg_okey (snd e), oa) (snd e) acc)
                           (owners by_ext st (snd e)) acc)
              (exported st) [].

  (* the acceptance rule, as a proposition *)
  Definition accept_rule (st : cstate) (m : cmsg) (k : ckey) : Prop :=
    exists o pre sig orc,
      assoc okey_eqb (msg_okey m) (st_objs st) = Some o /\
      go_checkpoint (st_tron st) (st_gid st) o = Some pre /\
      m_sig m = Some sig /\
      assoc Z.eqb (m_external m) (st_ext_index st) = Some (snd k) /\
      assoc Z.eqb (snd k) (st_oracles st) = Some orc /\
      o_external orc = m_external m /\
      o_bridger orc = m_bridger m /\
      sig_signer (st_tron st) pre sig = Some (o_external orc) /\
      assoc ckey_eqb k (st_conf st) = None /\
      k = (msg_okey m, snd k).
End Confirm.

(* ---------- the transaction level: who has to sign ---------- *)

(* MsgConfirmBatch / MsgOracleSetConfirm / MsgBridgeCallConfirm sent directly: the protobuf signer
   option names bridger_address, the field ConfirmHandler compares with the oracle record.
   MsgConfirm{bridger_address, confirm: Any}: the signer option names the WRAPPER's bridger_address;
   MsgServer.Confirm hands the wrapped message to ConfirmHandler unchanged.  Two facts about the tree
   decide what that means; both are read from the sources by the translator (Gen_Checkpoint):
     msgconfirm_unpacks               MsgConfirm implements UnpackInterfaces.  Without it a MsgConfirm decoded
                                      from transaction bytes carries no wrapped message (GetCachedValue() = nil)
                                      and MsgServer.Confirm refuses it ("invalid claim").
     msgconfirm_vb_compares_bridger   MsgConfirm has a ValidateBasic that compares its bridger_address with the
                                      wrapped confirm's. *)
Inductive txmsg := TxDirect (m : cmsg) | TxWrapped (wrapper_bridger : Z) (m : cmsg).
Definition tx_signer (t : txmsg) : Z := match t with TxDirect m => m_bridger m | TxWrapped w _ => w end.
Definition tx_inner (t : txmsg) : cmsg := match t with TxDirect m => m | TxWrapped _ m => m end.

Section Tx.
  Variable recover : bool -> list Z -> list Z -> option Z.
  (* unpacks: the wrapped message is available to the handler (true for a message object built in memory;
     msgconfirm_unpacks for a transaction decoded from bytes);  checks: the ValidateBasic comparison exists *)
  Definition tx_deliver (unpacks checks : bool) (st : cstate) (signed_by : Z) (t : txmsg) : cres :=
    if negb (signed_by =? tx_signer t) then Rejected EAnte       (* signature verification against GetMsgV1Signers *)
    else match t with
         | TxDirect m => handle recover st m
         | TxWrapped w m =>
             if negb unpacks then Rejected ENoInner
             else if checks && negb (w =? m_bridger m) then Rejected EWrapper
             else handle recover st m
         end.
End Tx.
