(* glue for the correspondence files Cases_C12_enc.v / Cases_C12_conf.v written by harness/c12 *)
From Coq Require Import ZArith List Bool.
From Coq Require Export Uint63.
From FxV Require Import model.M_Abi model.M_CkDesc model.M_Confirm gen.Gen_Checkpoint.
Import ListNotations.
Open Scope Z_scope.

(* Transport of large data.  Type-checking a 256-bit numeral costs milliseconds, so the harness
   prints big numbers as little-endian lists of 52-bit primitive-integer limbs and byte strings as
   big-endian 7-byte limbs plus the true length; they are unpacked here inside vm_compute.
   Primitive integers occur only in this glue and in the generated Cases files. *)
Fixpoint zl (l : list Uint63.int) : Z :=
  match l with
  | [] => 0
  | x :: r => Uint63.to_Z x + 4503599627370496 * zl r   (* 2^52 *)
  end.
Definition bl (len : Z) (l : list Uint63.int) : list Z :=
  firstn (Z.to_nat len) (flat_map (fun i => be_bytes 7 (Uint63.to_Z i)) l).

Definition mk_set (nonce : Z) (members : list (Z * Z)) : obj :=
  OSet {| os_nonce := nonce; os_members := members |}.
Definition mk_batch (nonce timeout : Z) (txs : list (Z * Z * Z)) (token feerecv : Z) : obj :=
  OBatch {| b_nonce := nonce; b_timeout := timeout;
            b_txs := map (fun t => {| tx_amount := fst (fst t); tx_dest := snd (fst t); tx_fee := snd t |}) txs;
            b_token := token; b_feerecv := feerecv |}.
Definition mk_call (sender refund : Z) (tokens : list (Z * Z)) (to : Z)
           (data memo : list Z) (nonce timeout evn : Z) : obj :=
  OCall {| c_sender := sender; c_refund := refund; c_tokens := tokens; c_to := to;
           c_data := data; c_memo := memo;
           c_nonce := nonce; c_timeout := timeout; c_event_nonce := evn |}.

(* ---- encoder cases: the model's pre-image against the bytes whose keccak is the real checkpoint ---- *)

Record enc_case := { ec_tron : bool; ec_gid : list Z; ec_obj : obj; ec_hash_ok : bool; ec_real : list Z }.
(* hash_ok: the harness checked keccak(real bytes) = the value GetCheckpoint returned *)
Definition mk_enc_case (tron : bool) (gid : list Z) (o : obj) (hash_ok : bool) (real : list Z) : enc_case :=
  {| ec_tron := tron; ec_gid := gid; ec_obj := o; ec_hash_ok := hash_ok; ec_real := real |}.

Definition enc_mismatch (c : enc_case) : bool :=
  negb (ec_hash_ok c) ||
  negb (zlist_eqb (go_preimage (ec_tron c) (ec_gid c) (ec_obj c)) (ec_real c)).

(* ---- confirm cases ---- *)

Definition mk_msg (k : ckind) (token nonce bridger external : Z) (sig : option (list Z)) : cmsg :=
  {| m_kind := k; m_token := token; m_nonce := nonce; m_bridger := bridger; m_external := external; m_sig := sig |}.
Definition mk_oracle (bridger external : Z) : oracle := {| o_bridger := bridger; o_external := external |}.
Definition mk_st (tron : bool) (gid : list Z) (idx : list (Z * Z)) (orcs : list (Z * oracle))
           (objs : list (okey * obj)) (conf : list (ckey * cmsg)) : cstate :=
  {| st_tron := tron; st_gid := gid; st_ext_index := idx; st_oracles := orcs; st_objs := objs; st_conf := conf |}.

(* what go-ethereum's recover returned: (pre-image bytes, signature after v normalisation, address string id) *)
Definition rec_entry := (list Z * list Z * option Z)%type.

Record conf_case := {
  cc_st : cstate; cc_msg : cmsg; cc_recs : list rec_entry;
  cc_ok : bool;                       (* the real handler returned nil *)
  cc_after : list (ckey * cmsg)       (* the real confirm stores afterwards *)
}.
Definition mk_conf_case st m recs ok after : conf_case :=
  {| cc_st := st; cc_msg := m; cc_recs := recs; cc_ok := ok; cc_after := after |}.

Fixpoint rec_lookup (recs : list rec_entry) (pre sig : list Z) : option (option Z) :=
  match recs with
  | [] => None
  | (pw, s, r) :: rest =>
      if zlist_eqb pw pre && zlist_eqb s sig then Some r else rec_lookup rest pre sig
  end.

(* unknown (pre-image, signature): nobody *)
Definition case_recover (recs : list rec_entry) (tron : bool) (pre sig : list Z) : option Z :=
  match rec_lookup recs pre sig with Some r => r | None => Some (-1) end.

(* the model needs a recover result the harness did not observe: its pre-image or its v normalisation
   differs from the implementation's *)
Definition rec_missing (c : conf_case) : bool :=
  match assoc okey_eqb (msg_okey (cc_msg c)) (st_objs (cc_st c)), m_sig (cc_msg c) with
  | Some o, Some sig =>
      match go_checkpoint (st_tron (cc_st c)) (st_gid (cc_st c)) o with
      | Some pre =>
          if zlen sig <? chain_minlen (st_tron (cc_st c)) then false
          else match rec_lookup (cc_recs c) pre (norm_v (chain_vnorm (st_tron (cc_st c))) sig) with Some _ => false | None => true end
      | None => false
      end
  | _, _ => false
  end.

Definition osig_eqb (a b : option (list Z)) : bool :=
  match a, b with
  | Some x, Some y => zlist_eqb x y
  | None, None => true
  | _, _ => false
  end.
Definition msg_eqb (a b : cmsg) : bool :=
  kind_eqb (m_kind a) (m_kind b) && (m_token a =? m_token b) && (m_nonce a =? m_nonce b) &&
  (m_bridger a =? m_bridger b) && (m_external a =? m_external b) && osig_eqb (m_sig a) (m_sig b).
Definition entry_eqb (a b : ckey * cmsg) : bool := ckey_eqb (fst a) (fst b) && msg_eqb (snd a) (snd b).
Definition subset (a b : list (ckey * cmsg)) : bool := forallb (fun x => existsb (entry_eqb x) b) a.
Definition conf_set_eqb (a b : list (ckey * cmsg)) : bool :=
  subset a b && subset b a && (Nat.eqb (length a) (length b)).

Definition is_accepted (r : cres) : bool := match r with Accepted _ => true | Rejected _ => false end.

Definition conf_mismatch (c : conf_case) : bool :=
  let '(st', r) := confirm_step (case_recover (cc_recs c)) (cc_st c) (cc_msg c) in
  negb (Bool.eqb (is_accepted r) (cc_ok c))
  || negb (conf_set_eqb (st_conf st') (cc_after c))
  || rec_missing c.

(* ---- transaction cases ---- *)

Record tx_case := {
  tc_st : cstate; tc_tx : txmsg; tc_signed_by : Z; tc_bytes : bool; tc_recs : list rec_entry;
  tc_ok : bool; tc_after : list (ckey * cmsg)
}.
Definition mk_tx_case st (wrapped : bool) (wrapper : Z) m signed_by bytes recs ok after : tx_case :=
  {| tc_st := st; tc_tx := if wrapped then TxWrapped wrapper m else TxDirect m; tc_signed_by := signed_by;
     tc_bytes := bytes; tc_recs := recs; tc_ok := ok; tc_after := after |}.

(* bytes = delivered inside a real block: the wrapped message is there only if MsgConfirm unpacks it;
   otherwise the message object itself went through ValidateBasic / ante handler / router *)
Definition tx_mismatch (c : tx_case) : bool :=
  let unpacks := if tc_bytes c then msgconfirm_unpacks else true in
  let r := tx_deliver (case_recover (tc_recs c)) unpacks msgconfirm_vb_compares_bridger (tc_st c) (tc_signed_by c) (tc_tx c) in
  let conf' := match r with
               | Accepted k => kv_set ckey_eqb k (tx_inner (tc_tx c)) (st_conf (tc_st c))
               | Rejected _ => st_conf (tc_st c)
               end in
  negb (Bool.eqb (is_accepted r) (tc_ok c)) || negb (conf_set_eqb conf' (tc_after c)).

(* ---- genesis export/import cases: the confirm stores after the real ExportGenesis -> wipe -> InitGenesis ---- *)
Record imp_case := { ic_st : cstate; ic_after : list (ckey * cmsg) }.
Definition mk_imp_case st after : imp_case := {| ic_st := st; ic_after := after |}.
Definition imp_mismatch (c : imp_case) : bool :=
  negb (conf_set_eqb (import_conf genesis_confirm_owner_by_external (ic_st c)) (ic_after c)).

(* ---- V sweep cases: one genuine signature r‖s, the 65th byte swept over 0..255, each judged by the real handler on
   the same state (nothing committed).  vs_table: what go-ethereum's recovery returns for r‖s‖b, for the bytes b on which
   it succeeds (independent of any normalisation); vs_accepted: the V values the real handler accepted. ---- *)
Record vs_case := {
  vs_st : cstate; vs_msg : cmsg; vs_sig64 : list Z; vs_pre : list Z; vs_table : list (Z * Z); vs_accepted : list Z
}.
Definition mk_vs_case st m sig64 pre table accepted : vs_case :=
  {| vs_st := st; vs_msg := m; vs_sig64 := sig64; vs_pre := pre; vs_table := table; vs_accepted := accepted |}.

Definition vs_recover (c : vs_case) (tron : bool) (pre sig : list Z) : option Z :=
  if zlist_eqb pre (vs_pre c) && (zlen sig =? 65) && zlist_eqb (firstn 64 sig) (vs_sig64 c)
  then match nth_error sig 64 with Some b => assoc Z.eqb b (vs_table c) | None => None end
  else None.

Definition with_sig (m : cmsg) (sig : list Z) : cmsg :=
  {| m_kind := m_kind m; m_token := m_token m; m_nonce := m_nonce m; m_bridger := m_bridger m;
     m_external := m_external m; m_sig := Some sig |}.

Definition vs_model_accepted (c : vs_case) : list Z :=
  filter (fun v => is_accepted (handle (vs_recover c) (vs_st c) (with_sig (vs_msg c) (vs_sig64 c ++ [v]))))
         (map Z.of_nat (seq 0 256)).

Definition vs_mismatch (c : vs_case) : bool := negb (zlist_eqb (vs_model_accepted c) (vs_accepted c)).
