(* M_EndBlock.v — executable model of the crosschain EndBlocker's slashing phase
   (/repo/x/crosschain/keeper/abci.go: slashing, oracleSetSlashing, batchSlashing,
   bridgeCallSlashing; oracle.go: SlashOracle; oracle_set.go: GetUnSlashedOracleSets,
   GetCurrentOracleSet; batch_confirm.go: GetUnSlashedBatches; bridge_call_confirm.go:
   GetUnSlashedBridgeCalls) with every Go panic site as an explicit [Panic] outcome.

   What the three loops pass to SlashOracle is NOT written here: it is read from the source
   on every run by the translator harness/gen_c07 (coq/gen/Gen_EndBlock.v) as an [arg_kind].
   Oracles are identified by an integer id (their position among the chain's oracle keys);
   confirmations are the ids of the oracles whose external address confirmed. *)
From Coq Require Import ZArith List Bool.
Import ListNotations.
Open Scope Z_scope.

(* what expression a loop hands to SlashOracle(ctx, <expr>) *)
Inductive arg_kind :=
| ArgOracleAddress      (* oracles[i].OracleAddress : a bech32 account address *)
| ArgProtoString        (* oracles[i].String()      : the rendered protobuf record *)
| ArgOther.             (* anything the translator does not recognise *)

Record slash_args := { sa_oracle_set : arg_kind; sa_batch : arg_kind; sa_bridge_call : arg_kind }.

Record oracle := { o_id : Z; o_online : bool; o_start : Z; o_slash_times : Z; o_power : Z }.

(* an object an oracle must confirm: (key, creation height, ids that confirmed) *)
Record obj := { ob_key : Z; ob_height : Z; ob_confirms : list Z }.

Record xstate := {
  oracles : list oracle;            (* store iteration order *)
  osets : list obj;                 (* ascending nonce *)
  last_slashed_oset : Z;
  batches : list obj;               (* ascending creation block (one batch per block); key = block *)
  last_slashed_batch_block : Z;
  bcalls : list obj;                (* ascending nonce *)
  last_slashed_bcall : Z;
  last_slash_height : Z;            (* LastOracleSlashBlockHeight *)
  window : Z                        (* SignedWindow *)
}.

Inductive outcome (A : Type) := Ok (a : A) | Panic.
Arguments Ok {A} _.
Arguments Panic {A}.

Definition memZ (x : Z) (l : list Z) : bool := existsb (Z.eqb x) l.

(* SlashOracle(ctx, addrStr) on the oracle list, at block h.
   MustAccAddressFromBech32 panics on anything that is not a bech32 address; a rendered
   protobuf record never is (it contains spaces, quotes and colons).  A missing record panics. *)
Fixpoint slash_in (id h : Z) (l : list oracle) : option (list oracle * bool) :=
  match l with
  | [] => None
  | o :: r =>
      if o_id o =? id then
        if o_online o
        then Some ({| o_id := o_id o; o_online := false; o_start := o_start o;
                      o_slash_times := o_slash_times o + 1; o_power := o_power o |} :: r, true)
        else Some (l, false)
      else match slash_in id h r with
           | Some (r', b) => Some (o :: r', b)
           | None => None
           end
  end.

Definition slash_oracle (k : arg_kind) (id h : Z) (s : list oracle * Z) : outcome (list oracle * Z) :=
  match k with
  | ArgOracleAddress =>
      match slash_in id h (fst s) with
      | None => Panic                                   (* panic(types.ErrNoFoundOracle) *)
      | Some (l', true) => Ok (l', h)                   (* SetLastOracleSlashBlockHeight *)
      | Some (l', false) => Ok (l', snd s)
      end
  | _ => Panic                                          (* bech32 decoding of a non-address *)
  end.

(* inner loop: for i over the SNAPSHOT of online oracles taken before the three phases *)
Fixpoint slash_missing (k : arg_kind) (h : Z) (x : obj) (snapshot : list oracle)
         (s : list oracle * Z) (slashed : bool) : outcome (list oracle * Z * bool) :=
  match snapshot with
  | [] => Ok (s, slashed)
  | o :: r =>
      if ob_height x <? o_start o then slash_missing k h x r s slashed
      else if memZ (o_id o) (ob_confirms x) then slash_missing k h x r s slashed
      else match slash_oracle k (o_id o) h s with
           | Panic => Panic
           | Ok s' => slash_missing k h x r s' true
           end
  end.

(* outer loop over the selected objects, moving the cursor after each *)
Fixpoint slash_objs (k : arg_kind) (h : Z) (xs : list obj) (snapshot : list oracle)
         (s : list oracle * Z) (cursor : Z) (slashed : bool)
  : outcome (list oracle * Z * Z * bool) :=
  match xs with
  | [] => Ok (s, cursor, slashed)
  | x :: r =>
      match slash_missing k h x snapshot s slashed with
      | Panic => Panic
      | Ok (s', sl') => slash_objs k h r snapshot s' (ob_key x) sl'
      end
  end.

(* take elements from the first with key >= from while p holds (iterator + early break) *)
Fixpoint take_from_while (from : Z) (p : obj -> bool) (l : list obj) : list obj :=
  match l with
  | [] => []
  | x :: r => if ob_key x <? from then take_from_while from p r
              else if p x then x :: take_from_while from p r else []
  end.

(* GetUnSlashedOracleSets: nonce >= last+1, while maxHeight > set.Height *)
Definition unslashed_osets (s : xstate) (h : Z) : list obj :=
  take_from_while (last_slashed_oset s + 1) (fun x => ob_height x <? h - window s) (osets s).

(* GetUnSlashedBatches: block keys in [last+1, maxHeight) *)
Definition unslashed_batches (s : xstate) (h : Z) : list obj :=
  filter (fun x => (last_slashed_batch_block s + 1 <=? ob_key x) && (ob_key x <? h - window s)) (batches s).

(* GetUnSlashedBridgeCalls: nonce >= last (inclusive!), while BlockHeight <= maxHeight *)
Definition unslashed_bcalls (s : xstate) (h : Z) : list obj :=
  take_from_while (last_slashed_bcall s) (fun x => ob_height x <=? h - window s) (bcalls s).

Record slash_result := {
  r_oracles : list oracle; r_last_slash_height : Z;
  r_oset_cursor : Z; r_batch_cursor : Z; r_bcall_cursor : Z; r_any : bool }.

(* Keeper.slashing at block h *)
Definition slashing (a : slash_args) (s : xstate) (h : Z) : outcome slash_result :=
  if h <=? window s then
    Ok {| r_oracles := oracles s; r_last_slash_height := last_slash_height s;
          r_oset_cursor := last_slashed_oset s; r_batch_cursor := last_slashed_batch_block s;
          r_bcall_cursor := last_slashed_bcall s; r_any := false |}
  else
    let snapshot := filter o_online (oracles s) in
    match slash_objs (sa_oracle_set a) h (unslashed_osets s h) snapshot
                     (oracles s, last_slash_height s) (last_slashed_oset s) false with
    | Panic => Panic
    | Ok (s1, c1, b1) =>
      match slash_objs (sa_batch a) h (unslashed_batches s h) snapshot s1 (last_slashed_batch_block s) false with
      | Panic => Panic
      | Ok (s2, c2, b2) =>
        match slash_objs (sa_bridge_call a) h (unslashed_bcalls s h) snapshot s2 (last_slashed_bcall s) false with
        | Panic => Panic
        | Ok (s3, c3, b3) =>
            Ok {| r_oracles := fst s3; r_last_slash_height := snd s3;
                  r_oset_cursor := c1; r_batch_cursor := c2; r_bcall_cursor := c3;
                  r_any := b1 || b2 || b3 |}
        end
      end
    end.

(* GetCurrentOracleSet's normalisation: power * MaxUint32 / totalPower over members with
   power > 0.  sdkmath.Uint.QuoUint64 panics on a zero divisor; Int.Uint64() panics above 2^64-1. *)
Definition max_u32 : Z := 4294967295.
Definition two64 : Z := 2 ^ 64.

Definition current_oracle_set (l : list oracle) : outcome (list (Z * Z)) :=
  let members := filter (fun o => o_online o && (0 <? o_power o)) l in
  if existsb (fun o => two64 <=? o_power o) members then Panic
  else
    let total := fold_left (fun acc o => acc + o_power o) members 0 in
    match members with
    | [] => Ok []
    | _ => if total mod two64 =? 0 then Panic      (* uint64 sum wrapped to 0: division by zero *)
           else Ok (map (fun o => (o_id o, (o_power o * max_u32) / (total mod two64))) members)
    end.

(* EndBlocker = slashing ; createOracleSetRequest (needs the current set) ; pruneOracleSet (total) *)
Definition endblock (a : slash_args) (s : xstate) (h : Z) : outcome (slash_result * list (Z * Z)) :=
  match slashing a s h with
  | Panic => Panic
  | Ok r => match current_oracle_set (r_oracles r) with
            | Panic => Panic
            | Ok m => Ok (r, m)
            end
  end.
