(* glue for Cases_C07.v (harness/c07): pre-state read from the real store, block height, and what the
   real FinalizeBlock/Commit did; the model is evaluated with the slash-argument kinds generated from source *)
From Coq Require Import ZArith List Bool.
From FxV Require Import model.M_EndBlock gen.Gen_EndBlock.
Import ListNotations.
Open Scope Z_scope.

Definition mk_o (id : Z) (on : bool) (start times power : Z) : oracle :=
  {| o_id := id; o_online := on; o_start := start; o_slash_times := times; o_power := power |}.
Definition mk_obj (k h : Z) (cs : list Z) : obj := {| ob_key := k; ob_height := h; ob_confirms := cs |}.

Inductive obs :=
| ObsPanic
| ObsOk (online : list bool) (times : list Z) (c1 c2 c3 lsh : Z) (members : list (Z * Z)).

Record eb_case := { eb_state : xstate; eb_h : Z; eb_obs : obs }.

Definition mk_eb_case (os : list oracle) (sets : list obj) (c1 : Z) (bs : list obj) (c2 : Z)
           (cs : list obj) (c3 lsh w h : Z) (o : obs) : eb_case :=
  {| eb_state := {| oracles := os; osets := sets; last_slashed_oset := c1; batches := bs;
                    last_slashed_batch_block := c2; bcalls := cs; last_slashed_bcall := c3;
                    last_slash_height := lsh; window := w |};
     eb_h := h; eb_obs := o |}.

Fixpoint list_eqb {A} (eqb : A -> A -> bool) (a b : list A) : bool :=
  match a, b with
  | [], [] => true
  | x :: r, y :: q => eqb x y && list_eqb eqb r q
  | _, _ => false
  end.

Fixpoint insert_sorted (x : Z * Z) (l : list (Z * Z)) : list (Z * Z) :=
  match l with
  | [] => [x]
  | y :: r => if fst x <=? fst y then x :: l else y :: insert_sorted x r
  end.
Definition sort_members (l : list (Z * Z)) : list (Z * Z) := fold_right insert_sorted [] l.

Definition pair_eqb (a b : Z * Z) : bool := (fst a =? fst b) && (snd a =? snd b).

Definition eb_mismatch (c : eb_case) : bool :=
  match endblock gen_slash_args (eb_state c) (eb_h c), eb_obs c with
  | Panic, ObsPanic => false
  | Ok (r, m), ObsOk on ts c1 c2 c3 lsh mem =>
      negb (list_eqb Bool.eqb (map o_online (r_oracles r)) on
            && list_eqb Z.eqb (map o_slash_times (r_oracles r)) ts
            && (r_oset_cursor r =? c1) && (r_batch_cursor r =? c2) && (r_bcall_cursor r =? c3)
            && (r_last_slash_height r =? lsh)
            && list_eqb pair_eqb (sort_members m) mem)
  | _, _ => true
  end.
