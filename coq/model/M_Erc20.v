(* M_Erc20.v — two more executable models for property C08.  No proofs in this file.

   PART A — the token-pair registry of x/erc20 (token_pairs.go, proposals.go, the pair removal in msg_server.go):
     store 0x01  pair id -> TokenPair            [pairs]      (pair id = hash(contract | denom): the key (contract, denom))
     store 0x02  denom   -> pair id              [by_denom]
     store 0x03  contract-> pair id              [by_erc]
     store 0x05  alias   -> base denom           [alias]
     bank metadata: base denom -> DenomUnits[0].Aliases      [meta]
   with RegisterNativeCoin, RegisterNativeERC20, ToggleTokenConvert, UpdateDenomAliases and RemoveTokenPair (what
   ConvertCoin / ConvertERC20 do when the pair's contract has self-destructed).  Denoms and contracts are integers.

   PART B — an EVM transaction in which a contract C mixes direct calls to a module-owned token with calls to the
   crosschain precompile.  The token's storage is a two-level store as in ethermint's StateDB:
     committed : what the keeper (the context's KV store) holds
     origin    : the outer StateDB's cache of committed values it has read (stateObject.originStorage)
     dirty     : the outer StateDB's pending writes (stateObject.dirtyStorage)
   - token.transfer / approve / balanceOf by C, and the crossChain precompile's transferFrom + burn
     (contract.ERC20Call on the RUNNING evm) read and write through dirty/origin;
   - the bridgeCall precompile converts through EvmToBaseCoin -> erc20Keeper.ConvertERC20 -> evm keeper ApplyContract:
     a NESTED StateDB on the same context: it reads and writes `committed` only;
   - StateDB.Commit writes every dirty slot whose value differs from its cached origin over `committed`.
   A failing instruction reverts the whole transaction (the generated contracts require success of every call). *)
From Coq Require Import ZArith List Bool.
Import ListNotations.
Open Scope Z_scope.

(* ======================================================================================================= *)
(** PART A: pair registry *)

Definition omap (V : Type) := list (Z * option V).
Fixpoint oget {V} (k : Z) (m : omap V) : option V :=
  match m with [] => None | (k', v) :: r => if k =? k' then v else oget k r end.
Definition oset {V} (k : Z) (v : V) (m : omap V) : omap V := (k, Some v) :: m.
Definition odel {V} (k : Z) (m : omap V) : omap V := (k, None) :: m.
Definition ohas {V} (k : Z) (m : omap V) : bool := match oget k m with Some _ => true | None => false end.

Record pair := { pr_erc : Z; pr_denom : Z; pr_enabled : bool; pr_module_owned : bool }.
Definition pid := (Z * Z)%type.   (* (contract, denom) *)
Definition pid_eqb (a b : pid) : bool := (fst a =? fst b) && (snd a =? snd b).
Definition pmap := list (pid * option pair).
Fixpoint pget (k : pid) (m : pmap) : option pair :=
  match m with [] => None | (k', v) :: r => if pid_eqb k k' then v else pget k r end.

Record istate := {
  pairs : pmap;
  by_denom : omap pid;
  by_erc : omap pid;
  alias : omap Z;
  meta : omap (list Z);     (* bank metadata of a base denom: its aliases; None = no metadata *)
  mstyle : omap Z           (* who wrote that metadata: 1 = RegisterCoin (the message's metadata), 2 = RegisterERC20
                               (description naming the contract): EqualMetadata tells them apart *)
}.

Definition inZ (x : Z) (l : list Z) : bool := existsb (Z.eqb x) l.
Definition set_aliases (d : Z) (al : list Z) (m : omap Z) : omap Z := fold_left (fun m a => oset a d m) al m.
Definition del_aliases (al : list Z) (m : omap Z) : omap Z := fold_left (fun m a => odel a m) al m.

Definition add_pair (p : pair) (s : istate) : istate :=
  let id := (pr_erc p, pr_denom p) in
  {| pairs := (id, Some p) :: pairs s; by_denom := oset (pr_denom p) id (by_denom s);
     by_erc := oset (pr_erc p) id (by_erc s); alias := alias s; meta := meta s; mstyle := mstyle s |}.

(* the checks RegisterNativeCoin / RegisterNativeERC20 perform on every alias *)
Definition alias_free (s : istate) (base : Z) (a : Z) : bool :=
  negb (a =? base) && negb (ohas a (by_denom s)) && negb (ohas a (alias s)).

Fixpoint nodupZ (l : list Z) : bool :=
  match l with [] => true | x :: r => negb (inZ x r) && nodupZ r end.

Inductive iop :=
| IRegisterCoin (base : Z) (aliases : list Z) (contract : Z)   (* contract = the address the deployed FIP20 gets *)
| IRegisterERC20 (contract base : Z) (aliases : list Z)        (* base = lower-cased symbol of the contract *)
| IToggle (by_contract : bool) (k : Z)
| IUpdateAlias (denom a : Z)
| IRemove (denom : Z)                                         (* conversion attempted on a pair whose contract is dead *)
| IExportImport (rebuild : bool).
   (* genesis export + InitChain of a new application on the exported file: ExportGenesis writes params and the pairs,
      InitGenesis runs AddTokenPair (pair, denom index, contract index) on each; the bank module carries the metadata
      over.  The alias index is not part of the genesis state:
        rebuild = false   it is simply gone (InitGenesis as it was when finding C08-2 was made);
        rebuild = true    InitGenesis sets, for every imported pair, the aliases listed in the bank metadata of its denom.
      Which of the two the code under check does is probed on the real application by the harness. *)

Definition eq_aliases (a b : list Z) : bool :=
  (Z.of_nat (length a) =? Z.of_nat (length b)) && forallb (fun p => fst p =? snd p) (combine a b).

(* the aliases the bank metadata lists for denom d *)
Definition meta_aliases (s : istate) (d : Z) : list Z := match oget d (meta s) with Some l => l | None => [] end.
(* the alias index rebuilt from the bank metadata of every registered denom (the imported pairs are the live entries of the
   denom index; an alias belongs to one registered denom only as long as the indexes are consistent, so the order of the
   pairs does not matter there) *)
Definition rebuild_from (s : istate) (l : omap pid) : omap Z :=
  fold_right (fun e m => if ohas (fst e) (by_denom s) then set_aliases (fst e) (meta_aliases s (fst e)) m else m) [] l.
Definition rebuild_aliases (s : istate) : omap Z := rebuild_from s (by_denom s).

Definition irun (o : iop) (s : istate) : option istate :=
  match o with
  | IRegisterCoin base al c =>
    if ohas base (by_denom s) || ohas base (alias s) || negb (forallb (alias_free s base) al) || negb (nodupZ al)
       || ohas c (by_erc s)
    then None
    else
      match oget base (meta s) with
      | Some old => if eq_aliases old al && (match oget base (mstyle s) with Some 1 => true | _ => false end)
                    then Some (add_pair {| pr_erc := c; pr_denom := base; pr_enabled := true; pr_module_owned := true |}
                                 {| pairs := pairs s; by_denom := by_denom s; by_erc := by_erc s;
                                    alias := set_aliases base al (alias s); meta := meta s; mstyle := mstyle s |})
                    else None
      | None => Some (add_pair {| pr_erc := c; pr_denom := base; pr_enabled := true; pr_module_owned := true |}
                        {| pairs := pairs s; by_denom := by_denom s; by_erc := by_erc s;
                           alias := set_aliases base al (alias s); meta := oset base al (meta s); mstyle := oset base 1 (mstyle s) |})
      end
  | IRegisterERC20 c base al =>
    if ohas c (by_erc s) || ohas base (by_denom s) || ohas base (alias s) || negb (forallb (alias_free s base) al)
       || negb (nodupZ al) || ohas base (meta s)
    then None
    else Some (add_pair {| pr_erc := c; pr_denom := base; pr_enabled := true; pr_module_owned := false |}
                 {| pairs := pairs s; by_denom := by_denom s; by_erc := by_erc s;
                    alias := set_aliases base al (alias s); meta := oset base al (meta s); mstyle := oset base 2 (mstyle s) |})
  | IToggle byc k =>
    match oget k (if byc then by_erc s else by_denom s) with
    | None => None
    | Some id =>
      match pget id (pairs s) with
      | None => None
      | Some p => Some {| pairs := (id, Some {| pr_erc := pr_erc p; pr_denom := pr_denom p; pr_enabled := negb (pr_enabled p);
                                                 pr_module_owned := pr_module_owned p |}) :: pairs s;
                          by_denom := by_denom s; by_erc := by_erc s; alias := alias s; meta := meta s; mstyle := mstyle s |}
      end
    end
  | IUpdateAlias d a =>
    if negb (ohas d (by_denom s)) || ohas a (by_denom s) then None
    else
      match oget d (meta s) with
      | None => None
      | Some old =>
        match oget a (alias s) with
        | None => Some {| pairs := pairs s; by_denom := by_denom s; by_erc := by_erc s;
                          alias := oset a d (alias s); meta := oset d (old ++ [a]) (meta s); mstyle := mstyle s |}
        | Some d' =>
          if d' =? d
          then Some {| pairs := pairs s; by_denom := by_denom s; by_erc := by_erc s;
                       alias := odel a (alias s); meta := oset d (filter (fun x => negb (x =? a)) old) (meta s); mstyle := mstyle s |}
          else None
        end
      end
  | IRemove d =>
    match oget d (by_denom s) with
    | None => None
    | Some id =>
      match pget id (pairs s) with
      | None => None
      | Some p =>
        if negb (pr_enabled p) then None   (* MintingEnabled refuses a disabled pair before the removal is reached *)
        else
        Some {| pairs := (id, None) :: pairs s; by_denom := odel (pr_denom p) (by_denom s); by_erc := odel (pr_erc p) (by_erc s);
                alias := match oget (pr_denom p) (meta s) with
                         | Some (a :: al) => del_aliases (a :: al) (alias s) | _ => alias s end;
                meta := meta s; mstyle := mstyle s |}
      end
    end
  | IExportImport rebuild =>
    Some {| pairs := pairs s; by_denom := by_denom s; by_erc := by_erc s;
            alias := if rebuild then rebuild_aliases s else []; meta := meta s; mstyle := mstyle s |}
  end.

Definition istep (s : istate) (o : iop) : istate * bool :=
  match irun o s with Some s' => (s', true) | None => (s, false) end.
Definition isteps (s : istate) (l : list iop) : istate := fold_left (fun s o => fst (istep s o)) l s.

(* ======================================================================================================= *)
(** PART B: one EVM transaction of a contract C over a module-owned token *)

Inductive slot := STotal | SBal (a : Z) | SAllow (a b : Z).
Definition slot_eqb (x y : slot) : bool :=
  match x, y with
  | STotal, STotal => true
  | SBal a, SBal b => a =? b
  | SAllow a b, SAllow c d => (a =? c) && (b =? d)
  | _, _ => false
  end.
Definition smap := list (slot * Z).
Fixpoint sget (k : slot) (m : smap) : option Z :=
  match m with [] => None | (k', v) :: r => if slot_eqb k k' then Some v else sget k r end.
Definition sval (k : slot) (m : smap) : Z := match sget k m with Some v => v | None => 0 end.

Record mstate := {
  committed : smap;   (* keeper storage of the token *)
  origin : smap;      (* outer StateDB: cached committed values *)
  dirty : smap;       (* outer StateDB: pending writes *)
  escrow : Z;         (* base coins held by the erc20 module for this pair *)
  out : Z;            (* amount handed to the bridge (outgoing pool / bridge call) *)
  pend : list Z;      (* amounts of the contract's own unbatched crossChain transfers, latest first (ERC-20 relation set) *)
  claim : option Z    (* a pending observed SendToFx claim (erc20 target) crediting C: its amount *)
}.

Definition C : Z := 200.   (* the contract *)
Definition Md : Z := 20.   (* erc20 module *)
Definition Pc : Z := 24.   (* crosschain precompile address *)

(* outer StateDB read: dirty, else cached origin, else committed (and cache it) *)
Definition oread (k : slot) (s : mstate) : Z * mstate :=
  match sget k (dirty s) with
  | Some v => (v, s)
  | None =>
    match sget k (origin s) with
    | Some v => (v, s)
    | None => let v := sval k (committed s) in
              (v, {| committed := committed s; origin := (k, v) :: origin s; dirty := dirty s; escrow := escrow s; out := out s; pend := pend s; claim := claim s |})
    end
  end.
(* outer StateDB write (SetState reads the current value first, which caches the origin) *)
Definition owrite (k : slot) (v : Z) (s : mstate) : mstate :=
  let (cur, s1) := oread k s in
  if cur =? v then s1
  else {| committed := committed s1; origin := origin s1; dirty := (k, v) :: dirty s1; escrow := escrow s1; out := out s1; pend := pend s1; claim := claim s1 |}.
(* nested StateDB (keeper-level EVM call, committed at once): committed storage only *)
Definition cwrite (k : slot) (v : Z) (s : mstate) : mstate :=
  {| committed := (k, v) :: committed s; origin := origin s; dirty := dirty s; escrow := escrow s; out := out s; pend := pend s; claim := claim s |}.
Definition coins (de dout : Z) (s : mstate) : mstate :=
  {| committed := committed s; origin := origin s; dirty := dirty s; escrow := escrow s + de; out := out s + dout; pend := pend s; claim := claim s |}.

Inductive instr :=
| MTransfer (to x : Z)        (* token.transfer(to, x) by C *)
| MApprove (sp x : Z)         (* token.approve(sp, x) by C *)
| MBalanceOf (a : Z)          (* token.balanceOf(a): a read that caches the slot *)
| MCrossChain (x : Z)         (* precompile crossChain(token, amount+fee = x): running EVM *)
| MBridgeCall (x : Z)         (* precompile bridgeCall([token],[x]): nested StateDB (burn) *)
| MCancel                     (* precompile cancelSendToExternal(latest own transfer): the refund is converted back with
                                 erc20Keeper.ConvertCoin -> ERC20Mint on a nested StateDB *)
| MExecClaim.                 (* precompile executeClaim(pending SendToFx, erc20 target, receiver C): BaseCoinToEvm ->
                                 ConvertCoin -> ERC20Mint on a nested StateDB *)

Definition set_pend (l : list Z) (s : mstate) : mstate :=
  {| committed := committed s; origin := origin s; dirty := dirty s; escrow := escrow s; out := out s; pend := l; claim := claim s |}.
Definition set_claim (c : option Z) (s : mstate) : mstate :=
  {| committed := committed s; origin := origin s; dirty := dirty s; escrow := escrow s; out := out s; pend := pend s; claim := c |}.
(* FIP20.mint(C, x) by the module on a nested StateDB: committed storage only *)
Definition nested_mint (x : Z) (s : mstate) : mstate :=
  let s1 := cwrite STotal (sval STotal (committed s) + x) s in
  cwrite (SBal C) (sval (SBal C) (committed s1) + x) s1.

(* FIP20._transfer through the outer StateDB *)
Definition o_transfer (from to x : Z) (s : mstate) : option mstate :=
  let (bf, s1) := oread (SBal from) s in
  if bf <? x then None
  else
    let s2 := owrite (SBal from) (bf - x) s1 in
    let (bt, s3) := oread (SBal to) s2 in
    Some (owrite (SBal to) (bt + x) s3).

Definition mexec (i : instr) (s : mstate) : option mstate :=
  match i with
  | MTransfer to x => if to =? 0 then None else o_transfer C to x s
  | MApprove sp x => Some (owrite (SAllow C sp) x s)
  | MBalanceOf a => Some (snd (oread (SBal a) s))
  | MCrossChain x =>
    (* transferFrom(C, module, x) by the precompile: allowance, _approve, _transfer; then burn(module, x) *)
    let (al, s1) := oread (SAllow C Pc) s in
    if al <? x then None
    else
      let s2 := owrite (SAllow C Pc) (al - x) s1 in
      match o_transfer C Md x s2 with
      | None => None
      | Some s3 =>
        let (bm, s4) := oread (SBal Md) s3 in
        if bm <? x then None
        else
          let s5 := owrite (SBal Md) (bm - x) s4 in
          let (tt, s6) := oread STotal s5 in
          let s7 := owrite STotal (tt - x) s6 in
          if escrow s7 <? x then None else Some (set_pend (x :: pend s7) (coins (- x) x s7))
      end
  | MBridgeCall x =>
    (* ConvertERC20NativeCoin on a nested StateDB: burn(C, x) against committed storage, then unescrow and bridge out *)
    let bc := sval (SBal C) (committed s) in
    if bc <? x then None
    else
      let s1 := cwrite (SBal C) (bc - x) s in
      let s2 := cwrite STotal (sval STotal (committed s1) - x) s1 in
      if escrow s2 <? x then None else Some (coins (- x) x s2)
  | MCancel =>
    match pend s with
    | [] => None
    | x :: r => Some (set_pend r (coins x (- x) (nested_mint x s)))   (* coins back, escrowed again, tokens minted *)
    end
  | MExecClaim =>
    match claim s with
    | None => None
    | Some q => Some (set_claim None (coins q 0 (nested_mint q s)))    (* deposit credited as ERC-20 *)
    end
  end.

Fixpoint mrun (p : list instr) (s : mstate) : option mstate :=
  match p with [] => Some s | i :: r => match mexec i s with Some s' => mrun r s' | None => None end end.

(* StateDB.Commit: dirty slots whose value differs from the cached origin are written; the caches are dropped *)
Fixpoint commit_slots (d : smap) (seen : list slot) (og : smap) (c : smap) : smap :=
  match d with
  | [] => c
  | (k, v) :: r =>
    if existsb (slot_eqb k) seen then commit_slots r seen og c
    else if (match sget k og with Some o => o =? v | None => false end) then commit_slots r (k :: seen) og c
    else commit_slots r (k :: seen) og ((k, v) :: c)
  end.
Definition commit (s : mstate) : mstate :=
  {| committed := commit_slots (dirty s) [] (origin s) (committed s); origin := []; dirty := []; escrow := escrow s; out := out s; pend := pend s; claim := claim s |}.

(* the whole transaction: all-or-nothing *)
Definition mtx (p : list instr) (s : mstate) : mstate * bool :=
  match mrun p s with Some s' => (commit s', true) | None => (s, false) end.

(* the pair-books equations on the committed state, over the holders C, X, module *)
Definition books_ok (holders : list Z) (s : mstate) : bool :=
  (sval STotal (committed s) =? escrow s) &&
  (fold_right (fun a acc => sval (SBal a) (committed s) + acc) 0 holders =? sval STotal (committed s)).

(* ======================================================================================================= *)
(** PART C: conversions of an externally-owned pair whose token is NOT a FIP20: on a failing transfer it reverts
    (FRevert), returns false (FFalse), or is a legacy token that reverts on failure and returns no data at all on
    success (FNothing).  evm keeper ERC20Transfer: the call must not fail, the return data must unpack as a bool
    (empty data does not) and the bool must be true — otherwise the conversion is refused. *)

Inductive flavor := FRevert | FFalse | FNothing.
Record lstate := {
  l_esc : Z;               (* token balance of the erc20 module *)
  l_sup : Z;               (* bank supply of the pair's coin *)
  l_tok : list (Z * Z);    (* user -> token balance *)
  l_coin : list (Z * Z)    (* user -> coin balance *)
}.
Fixpoint lget (k : Z) (m : list (Z * Z)) : Z :=
  match m with [] => 0 | (k', v) :: r => if k =? k' then v else lget k r end.

Inductive lop :=
| LConvertERC20 (a r x : Z)    (* MsgConvertERC20: sender a (hex), receiver r *)
| LConvertCoin (a r x : Z).    (* MsgConvertCoin: sender a, receiver r (hex) *)

(* what ERC20Transfer concludes for a transfer that the token would (ok = true) / would not carry out *)
Definition transfer_accepted (f : flavor) (ok : bool) : bool :=
  match f, ok with
  | FNothing, _ => false       (* success returns no data: "failed to unpack transfer"; failure reverts *)
  | _, true => true
  | FRevert, false => false    (* the call fails *)
  | FFalse, false => false     (* returned false: "failed to execute transfer" *)
  end.

Definition lrun (f : flavor) (o : lop) (s : lstate) : option lstate :=
  match o with
  | LConvertERC20 a r x =>
    if transfer_accepted f (x <=? lget a (l_tok s))
    then Some {| l_esc := l_esc s + x; l_sup := l_sup s + x; l_tok := (a, lget a (l_tok s) - x) :: l_tok s;
                 l_coin := (r, lget r (l_coin s) + x) :: l_coin s |}
    else None
  | LConvertCoin a r x =>
    if (x <=? lget a (l_coin s)) && transfer_accepted f (x <=? l_esc s)
    then let c1 := (a, lget a (l_coin s) - x) :: l_coin s in
         Some {| l_esc := l_esc s - x; l_sup := l_sup s - x; l_tok := (r, lget r (l_tok s) + x) :: l_tok s; l_coin := c1 |}
    else None
  end.
Definition lstep (f : flavor) (s : lstate) (o : lop) : lstate * bool :=
  match lrun f o s with Some s' => (s', true) | None => (s, false) end.
Definition lsteps (f : flavor) (s : lstate) (l : list lop) : lstate := fold_left (fun s o => fst (lstep f s o)) l s.
