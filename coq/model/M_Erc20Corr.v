(* glue for the correspondence files written by harness/c08:
   Cases_C08idx.v — histories of register / toggle / alias / removal on the real erc20 keeper; after every operation the
                    raw erc20 store indexes (0x01 0x02 0x03 0x05) and the bank-metadata aliases, projected on the history's
                    universe of denoms and contracts, are compared with the model's;
   Cases_C08mix.v — one EVM transaction of a hand-assembled contract mixing token calls with crosschain-precompile calls;
                    the token's totalSupply / balances, the escrow and the in-flight amount after the transaction are
                    compared with the two-level-store model. *)
From Coq Require Import ZArith List Bool.
From FxV Require Import model.M_Erc20.
Import ListNotations.
Open Scope Z_scope.

(* ---- index histories ---- *)
Record idump := {
  d_pairs : list (Z * Z * bool * bool);   (* contract, denom, enabled, module-owned; contract-major order *)
  d_bydenom : list (Z * (Z * Z));
  d_byerc : list (Z * (Z * Z));
  d_alias : list (Z * Z);
  d_meta : list (Z * list Z)
}.
Definition mk_idump a b c d e : idump := {| d_pairs := a; d_bydenom := b; d_byerc := c; d_alias := d; d_meta := e |}.

Definition dump_of (D E : list Z) (s : istate) : idump :=
  {| d_pairs := flat_map (fun e => flat_map (fun d => match pget (e, d) (pairs s) with
                                                    | Some p => [(pr_erc p, pr_denom p, pr_enabled p, pr_module_owned p)] | None => [] end) D) E;
     d_bydenom := flat_map (fun d => match oget d (by_denom s) with Some id => [(d, id)] | None => [] end) D;
     d_byerc := flat_map (fun e => match oget e (by_erc s) with Some id => [(e, id)] | None => [] end) E;
     d_alias := flat_map (fun a => match oget a (alias s) with Some d => [(a, d)] | None => [] end) D;
     d_meta := flat_map (fun d => match oget d (meta s) with Some l => [(d, l)] | None => [] end) D |}.

Definition zl_eqb (a b : list Z) : bool :=
  (Z.of_nat (length a) =? Z.of_nat (length b)) && forallb (fun p => fst p =? snd p) (combine a b).
Definition list_eqb {A} (f : A -> A -> bool) (a b : list A) : bool :=
  (Z.of_nat (length a) =? Z.of_nat (length b)) && forallb (fun p => f (fst p) (snd p)) (combine a b).
Definition id_eqb (a b : Z * Z) : bool := (fst a =? fst b) && (snd a =? snd b).
Definition idump_eqb (x y : idump) : bool :=
  list_eqb (fun a b => match a, b with (e, d, en, mo), (e', d', en', mo') =>
                         (e =? e') && (d =? d') && Bool.eqb en en' && Bool.eqb mo mo' end) (d_pairs x) (d_pairs y)
  && list_eqb (fun a b => (fst a =? fst b) && id_eqb (snd a) (snd b)) (d_bydenom x) (d_bydenom y)
  && list_eqb (fun a b => (fst a =? fst b) && id_eqb (snd a) (snd b)) (d_byerc x) (d_byerc y)
  && list_eqb id_eqb (d_alias x) (d_alias y)
  && list_eqb (fun a b => (fst a =? fst b) && zl_eqb (snd a) (snd b)) (d_meta x) (d_meta y).

Record icase := { ic_D : list Z; ic_E : list Z; ic_ops : list (iop * bool * idump) }.
Definition mk_icase d e ops : icase := {| ic_D := d; ic_E := e; ic_ops := ops |}.

Fixpoint ifirst_bad (k : icase) (i : Z) (s : istate) (l : list (iop * bool * idump)) : Z :=
  match l with
  | [] => -1
  | (o, ok, dmp) :: r =>
    let (s', ok') := istep s o in
    if Bool.eqb ok ok' && idump_eqb (dump_of (ic_D k) (ic_E k) s') dmp then ifirst_bad k (i + 1) s' r else i
  end.
Definition i_empty0 : istate := {| pairs := []; by_denom := []; by_erc := []; alias := []; meta := []; mstyle := [] |}.
Definition index_bad (k : icase) : Z := ifirst_bad k 0 i_empty0 (ic_ops k).
Definition index_mismatch (k : icase) : bool := negb (index_bad k =? -1).

(* ---- mixed EVM transactions ---- *)
Record mcase := {
  mc_n : Z;                    (* the contract's initial ERC-20 balance = totalSupply = escrow *)
  mc_p : Z;                    (* amount of the contract's own pending crossChain transfer made before the transaction *)
  mc_q : Z;                    (* amount of the pending SendToFx claim (erc20 target) for the contract *)
  mc_prog : list instr;
  mc_ok : bool;                (* did the real transaction succeed *)
  mc_obs : list Z              (* observed after it: totalSupply, balanceOf C, X, erc20 module, escrow, in-flight *)
}.
Definition mk_mcase n pp q p ok obs : mcase := {| mc_n := n; mc_p := pp; mc_q := q; mc_prog := p; mc_ok := ok; mc_obs := obs |}.
Definition Xa : Z := 300.
Definition m_init (n p q : Z) : mstate :=
  {| committed := [(STotal, n); (SBal C, n)]; origin := []; dirty := []; escrow := n; out := p; pend := [p]; claim := Some q |}.
Definition m_obs (s : mstate) : list Z :=
  [sval STotal (committed s); sval (SBal C) (committed s); sval (SBal Xa) (committed s); sval (SBal Md) (committed s);
   escrow s; out s].
Definition mixed_mismatch (k : mcase) : bool :=
  let (s', ok) := mtx (mc_prog k) (m_init (mc_n k) (mc_p k) (mc_q k)) in
  negb (Bool.eqb ok (mc_ok k) && zl_eqb (m_obs s') (mc_obs k)).

(* ---- legacy (non-FIP20) externally-owned tokens: harness/c08 part C ---- *)
Record gcase := { gc_f : flavor; gc_tok : list (Z * Z); gc_ops : list (lop * bool * list Z) }.
Definition mk_gcase f t ops : gcase := {| gc_f := f; gc_tok := t; gc_ops := ops |}.
Definition g_obs (s : lstate) : list Z :=
  [l_esc s; l_sup s; lget 100 (l_tok s); lget 101 (l_tok s); lget 100 (l_coin s); lget 101 (l_coin s)].
Fixpoint gfirst_bad (f : flavor) (i : Z) (s : lstate) (l : list (lop * bool * list Z)) : Z :=
  match l with
  | [] => -1
  | (o, ok, obs) :: r =>
    let (s', ok') := lstep f s o in
    if Bool.eqb ok ok' && zl_eqb (g_obs s') obs then gfirst_bad f (i + 1) s' r else i
  end.
Definition legacy_mismatch (k : gcase) : bool :=
  negb (gfirst_bad (gc_f k) 0 {| l_esc := 0; l_sup := 0; l_tok := gc_tok k; l_coin := [] |} (gc_ops k) =? -1).
