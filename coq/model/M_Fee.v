(* M_Fee.v — executable model of /repo/ante/fees.go (CheckTxFeees.Check).
   Transcribed statement by statement; no proofs here.

   Abstractions: a message is the integer id of its type URL; a denom is an
   integer id ordered like the denom strings; LegacyDec is its scaled integer
   (10^18).  uint64 arithmetic is written out explicitly (mod 2^64, int64 cast). *)
From Coq Require Import ZArith List Bool.
Import ListNotations.
Open Scope Z_scope.

Definition two64 : Z := 2 ^ 64.
Definition two63 : Z := 2 ^ 63.
Definition dec_one : Z := 10 ^ 18.

Record feecfg := { exempt : list Z; allowance : Z }.
Record feetx := { msgs : list Z; gas : Z; fee : list (Z * Z) }.
Record nodectx := { is_check : bool; min_prices : list (Z * Z) }.

Inductive verdict := Admit | Reject | Panic.

Definition memZ (x : Z) (l : list Z) : bool := existsb (Z.eqb x) l.

(* bypassMinFeeMsgs: false for the empty list, otherwise "every message exempt" *)
Definition bypass_msgs (c : feecfg) (ms : list Z) : bool :=
  match ms with
  | [] => false
  | _ => forallb (fun m => memZ m (exempt c)) ms
  end.

(* isBypassMinFeeMsgGasUsage: uint64(len(msgs)) * max >= gas, product wraps *)
Definition bypass_gas (c : feecfg) (ms : list Z) (g : Z) : bool :=
  g <=? (Z.of_nat (length ms) * allowance c) mod two64.

Definition is_bypass (c : feecfg) (t : feetx) : bool :=
  bypass_msgs c (msgs t) && bypass_gas c (msgs t) (gas t).

(* int64(gas) *)
Definition to_int64 (g : Z) : Z := if g <? two63 then g else g - two64.

(* fee = ceil(minGasPrice * gasLimit) : Dec.Mul by an integer-valued Dec is exact *)
Definition ceil_dec (x : Z) : Z := - ((- x) / dec_one).
Definition required_one (g : Z) (gp : Z) : Z := ceil_dec (gp * to_int64 g).

Fixpoint amount_of (d : Z) (cs : list (Z * Z)) : Z :=
  match cs with
  | [] => 0
  | (d', a) :: r => if d =? d' then a else amount_of d r
  end.

(* Coins.IsAnyGTE *)
Definition is_any_gte (fees req : list (Z * Z)) : bool :=
  match req with
  | [] => false
  | _ => existsb (fun c => let amt := amount_of (fst c) req in
                           (amt <=? snd c) && negb (amt =? 0)) fees
  end.

Definition prices_zero (ps : list (Z * Z)) : bool := forallb (fun p => snd p =? 0) ps.

Definition required (g : Z) (ps : list (Z * Z)) : list (Z * Z) :=
  map (fun p => (fst p, required_one g (snd p))) ps.

(* sdk.NewCoin panics on a negative amount *)
Definition required_panics (g : Z) (ps : list (Z * Z)) : bool :=
  existsb (fun p => snd p <? 0) (required g ps).

(* getTxPriority: fee amount QuoRaw int64(gas) for every fee coin: big.Int division by
   zero panics when the (cast) gas is 0 and there is a fee coin *)
Definition priority (t : feetx) : verdict :=
  match fee t with
  | [] => Admit
  | _ => if to_int64 (gas t) =? 0 then Panic else Admit
  end.

Definition check (c : feecfg) (x : nodectx) (t : feetx) : verdict :=
  if is_check x then
    if is_bypass c t then priority t
    else if prices_zero (min_prices x) then priority t
    else if required_panics (gas t) (min_prices x) then Panic
    else if is_any_gte (fee t) (required (gas t) (min_prices x)) then priority t
    else Reject
  else priority t.
