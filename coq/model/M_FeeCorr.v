(* glue for the correspondence file Cases_C20.v written by harness/c20 *)
From Coq Require Import ZArith List Bool.
From FxV Require Import model.M_Fee.
Import ListNotations.
Open Scope Z_scope.

Record fee_case := { fc_cfg : feecfg; fc_ctx : nodectx; fc_tx : feetx; fc_obs : verdict }.

Definition mk_fee_case (ex : list Z) (allow : Z) (ms : list Z) (g : Z) (f : list (Z * Z))
           (chk : bool) (mp : list (Z * Z)) (v : verdict) : fee_case :=
  {| fc_cfg := {| exempt := ex; allowance := allow |};
     fc_ctx := {| is_check := chk; min_prices := mp |};
     fc_tx := {| msgs := ms; gas := g; fee := f |};
     fc_obs := v |}.

Definition verdict_eqb (a b : verdict) : bool :=
  match a, b with Admit, Admit | Reject, Reject | Panic, Panic => true | _, _ => false end.

Definition fee_mismatch (c : fee_case) : bool :=
  negb (verdict_eqb (check (fc_cfg c) (fc_ctx c) (fc_tx c)) (fc_obs c)).
