(* M_Frames — C09: the journal of the EVM state DB versus "a failed frame has no effect".

   Transcribed from (module cache, digests pinned by harness/gen_c09 in gen/Gen_Precompiles.v):
     ethermint  x/evm/statedb/statedb.go   Snapshot / RevertToSnapshot / ExecuteNativeAction / AddLog / Commit
                x/evm/statedb/native.go    nativeChange{snapshot, events}.Revert
                x/evm/statedb/journal.go   journal.append / journal.Revert (replay backwards), storageChange, addLogChange
                x/evm/statedb/state_object.go  SetState (journals only when the value changes)
     go-ethereum core/vm/evm.go            Call/CallCode/DelegateCall/StaticCall: snapshot := Snapshot(); run;
                                           if err != nil { RevertToSnapshot(snapshot) }
     ethermint  x/evm/keeper/state_transition.go  ApplyMessageWithConfig: evm.Call(...) at the top, then Commit

   A transaction is a tree of what the interpreter does that matters here:

     NStep e        one keeper-level mutation of the native (Cosmos) cache store; it may fail and leave
                    partial writes behind (apply returns the store reached and a success flag)
     Write k v      SSTORE  (k identifies (storage context, slot))
     Log t          StateDB.AddLog (LOG0..4 of contract code, or EmitEvent(evm, ...) of a precompile)
     Action b evs   StateDB.ExecuteNativeAction(closure): b is what the closure does, in order (NSteps,
                    logs, and EVM calls the closure makes through the same EVM, e.g. ERC20 transferFrom);
                    evs are the sdk events its private event manager collected
     Frame b e c    a message call: snapshot, body, end e (Return / Revert / Fail = out of gas, invalid
                    opcode, write protection...), and what the call site does with a failure: c = true
                    "caught" (success flag ignored, caller goes on), c = false (caller reverts itself)

   A precompile call is   Frame [Action [NStep m; Log l] evs] Return c   (plus an Action for the value
   transfer); running out of gas anywhere is a Fail at that position, so it is one of the trees.

   No proofs in this file. *)
From Coq Require Import ZArith List Bool.
Import ListNotations.
Open Scope Z_scope.

Inductive endk := Return | Revert | Fail.

Definition endk_ok (e : endk) : bool := match e with Return => true | _ => false end.

(* how a piece of execution ends: it goes on; it stops its enclosing frame (an error is returned); or Go code
   PANICS. A panic is not an EVM error: nothing on the way recovers it (Gen_Precompiles.*_recovers = false), it
   unwinds through ExecuteNativeAction (no snapshot restored, no journal entry), through the interpreter and out
   of ApplyMessage: the SDK discards the whole transaction branch. *)
Inductive status := Go | Stop | Panic.
Definition status_eqb (a b : status) : bool :=
  match a, b with Go, Go | Stop, Stop | Panic, Panic => true | _, _ => false end.
Definition caught_status (caught : bool) : status := if caught then Go else Stop.

Section Frames.
Variable N : Type.                          (* native cache multistore (all Cosmos module stores) *)
Variable eff : Type.                        (* a keeper call *)
Variable apply : eff -> N -> N * status.    (* store reached (partial writes included) and how the call ended *)

Inductive node :=
| NStep (e : eff)
| Write (k v : Z)
| Log (t : Z)
| Action (body : nodes) (evs : list Z)
| Frame (body : nodes) (en : endk) (caught : bool)
with nodes :=
| nnil
| ncons (t : node) (r : nodes).

(* ---- the state DB ---- *)

Record st := mkst {
  s_nat : N;               (* cacheMS *)
  s_logs : list Z;         (* s.logs, newest first *)
  s_evs : list Z;          (* s.nativeEvents, newest first *)
  s_stor : Z -> Z          (* dirty storage over committed storage *)
}.

Inductive jentry :=
| JNative (snap : N) (nev : nat)    (* nativeChange{snapshot, events} *)
| JLog                              (* addLogChange *)
| JStorage (k prev : Z).            (* storageChange{key, prevalue} *)

Definition upd (f : Z -> Z) (k v : Z) : Z -> Z := fun x => if Z.eqb x k then v else f x.

(* JournalEntry.Revert *)
Definition undo (j : jentry) (s : st) : st :=
  match j with
  | JNative snap n => mkst snap (s_logs s) (skipn n (s_evs s)) (s_stor s)
  | JLog => mkst (s_nat s) (tl (s_logs s)) (s_evs s) (s_stor s)
  | JStorage k prev => mkst (s_nat s) (s_logs s) (s_evs s) (upd (s_stor s) k prev)
  end.

(* journal: newest entry first; Snapshot() = its length *)
Definition sdb := (st * list jentry)%type.

(* journal.Revert(statedb, snapshot): for i := len-1; i >= snapshot; i-- { entries[i].Revert } *)
Fixpoint revert_to (k : nat) (s : st) (jr : list jentry) : sdb :=
  match jr with
  | [] => (s, [])
  | j :: jr' => if Nat.leb (length jr) k then (s, jr) else revert_to k (undo j s) jr'
  end.

(* ---- implementation semantics: result = state DB and how the piece ended ---- *)

Fixpoint exec (t : node) (d : sdb) {struct t} : sdb * status :=
  let '(s, jr) := d in
  match t with
  | NStep e =>
      let '(n', r) := apply e (s_nat s) in
      ((mkst n' (s_logs s) (s_evs s) (s_stor s), jr), r)
  | Write k v =>
      let prev := s_stor s k in
      if Z.eqb prev v then (d, Go)
      else ((mkst (s_nat s) (s_logs s) (s_evs s) (upd (s_stor s) k v), JStorage k prev :: jr), Go)
  | Log t => ((mkst (s_nat s) (t :: s_logs s) (s_evs s) (s_stor s), JLog :: jr), Go)
  | Action body evs =>
      let snap := s_nat s in
      let '((s1, jr1), r) := exec_list body d in
      match r with
      | Go => ((mkst (s_nat s1) (s_logs s1) (rev evs ++ s_evs s1) (s_stor s1), JNative snap (length evs) :: jr1), Go)
      | Stop =>
          (* revertNativeStateToSnapshot(snapshot); return err: the precompile's frame fails *)
          ((mkst snap (s_logs s1) (s_evs s1) (s_stor s1), jr1), Stop)
      | Panic => ((s1, jr1), Panic)      (* unwinds: neither restored nor journalled *)
      end
  | Frame body en caught =>
      let k := length jr in
      let '((s1, jr1), r) := exec_list body d in
      match r with
      | Panic => ((s1, jr1), Panic)
      | Go => if endk_ok en then ((s1, jr1), Go) else (revert_to k s1 jr1, caught_status caught)
      | Stop => (revert_to k s1 jr1, caught_status caught)
      end
  end
with exec_list (l : nodes) (d : sdb) {struct l} : sdb * status :=
  match l with
  | nnil => (d, Go)
  | ncons t r =>
      let '(d1, st) := exec t d in
      match st with Go => exec_list r d1 | _ => (d1, st) end
  end.

(* ---- specification: a failed frame has no effect (no journal, the entry state is kept);
        a panic aborts the transaction ---- *)

Fixpoint spec (t : node) (s : st) {struct t} : st * status :=
  match t with
  | NStep e =>
      let '(n', r) := apply e (s_nat s) in (mkst n' (s_logs s) (s_evs s) (s_stor s), r)
  | Write k v => (mkst (s_nat s) (s_logs s) (s_evs s) (upd (s_stor s) k v), Go)
  | Log t => (mkst (s_nat s) (t :: s_logs s) (s_evs s) (s_stor s), Go)
  | Action body evs =>
      let '(s1, r) := spec_list body s in
      match r with
      | Go => (mkst (s_nat s1) (s_logs s1) (rev evs ++ s_evs s1) (s_stor s1), Go)
      | _ => (s1, r)
      end
  | Frame body en caught =>
      let '(s1, r) := spec_list body s in
      match r with
      | Panic => (s1, Panic)
      | Go => if endk_ok en then (s1, Go) else (s, caught_status caught)
      | Stop => (s, caught_status caught)
      end
  end
with spec_list (l : nodes) (s : st) {struct l} : st * status :=
  match l with
  | nnil => (s, Go)
  | ncons t r =>
      let '(s1, st) := spec t s in
      match st with Go => spec_list r s1 | _ => (s1, st) end
  end.

(* ---- a transaction: ApplyMessage = evm.Call at the top on a fresh journal, then Commit ---- *)

(* what Commit publishes: native store and native events to the parent context, dirty storage to
   the evm keeper; the logs go to the receipt; the flag is !res.Failed() *)
Definition run_impl (body : nodes) (en : endk) (s : st) : st * bool :=
  let '((s1, _), r) := exec (Frame body en false) (s, []) in
  match r with
  | Go => (s1, true)
  | Stop => (s1, false)
  | Panic => (s, false)         (* ApplyMessage never returns: the transaction's branch of the store is dropped *)
  end.

Definition run_spec (body : nodes) (en : endk) (s : st) : st * bool :=
  let '(s1, r) := spec (Frame body en false) s in
  match r with
  | Go => (s1, true)
  | Stop => (s1, false)
  | Panic => (s, false)
  end.

(* ---- well-formedness: what the generated method table (Gen_Precompiles) establishes ---- *)

(* does the subtree contain an ExecuteNativeAction? *)
Fixpoint has_action (t : node) : bool :=
  match t with
  | NStep _ | Write _ _ | Log _ => false
  | Action _ _ => true
  | Frame b _ _ => has_action_list b
  end
with has_action_list (l : nodes) : bool :=
  match l with nnil => false | ncons t r => has_action t || has_action_list r end.

(* wf_f t: t sits in a frame body (contract code):
     W1  no native write outside an ExecuteNativeAction closure;
   wf_a l dirty: l is (the rest of) a closure body, dirty = a native write already happened in it:
     W2  after the first native write the closure makes no EVM call that reaches another native action *)
Fixpoint wf_f (t : node) : bool :=
  match t with
  | NStep _ => false
  | Write _ _ | Log _ => true
  | Action b _ => wf_a b false
  | Frame b _ _ => wf_fl b
  end
with wf_fl (l : nodes) : bool :=
  match l with nnil => true | ncons t r => wf_f t && wf_fl r end
with wf_a (l : nodes) (dirty : bool) : bool :=
  match l with
  | nnil => true
  | ncons t r =>
      match t with
      | NStep _ => wf_a r true
      | Write _ _ | Log _ => wf_a r dirty
      | Action _ _ | Frame _ _ _ => wf_f t && (if dirty then negb (has_action t) else true) && wf_a r dirty
      end
  end.

(* ---- running out of gas: cut the execution short at any position ----
   trunc_at p l: the frame body l stops after p nodes were started (the p-th one possibly cut itself);
   the frame then ends in Fail.  cuts: all trees reachable by cutting any set of frames. *)
Inductive cut : node -> node -> Prop :=
| cut_same t : cut t t
| cut_frame b b' en c : cut_list b b' -> cut (Frame b en c) (Frame b' Fail c)
| cut_inner b b' en c : cut_inner_list b b' -> cut (Frame b en c) (Frame b' en c)
| cut_action b b' evs : cut_inner_list b b' -> cut (Action b evs) (Action b' evs)
with cut_list : nodes -> nodes -> Prop :=          (* a prefix; every node that was started may be cut itself *)
| cutl_stop l : cut_list l nnil
| cutl_cons t t' r r' : cut t t' -> cut_list r r' -> cut_list (ncons t r) (ncons t' r')
with cut_inner_list : nodes -> nodes -> Prop :=    (* same length, nodes cut inside *)
| cuti_nil : cut_inner_list nnil nnil
| cuti_cons t t' r r' : cut t t' -> cut_inner_list r r' -> cut_inner_list (ncons t r) (ncons t' r').

End Frames.

Arguments NStep {eff}.
Arguments Write {eff}.
Arguments Log {eff}.
Arguments Action {eff}.
Arguments Frame {eff}.
Arguments nnil {eff}.
Arguments ncons {eff}.
Arguments mkst {N}.
Arguments s_nat {N}.
Arguments s_logs {N}.
Arguments s_evs {N}.
Arguments s_stor {N}.

(* ---- the instance evaluated by the correspondence: markers ----
   native store = list of marker ids applied (newest first);
   a keeper call = (marker id, succeeds?, writes before failing?) *)
Definition mstore := list Z.
Record meff := mkeff { m_id : Z; m_ok : bool; m_partial : bool; m_panic : bool }.
Definition mapply (e : meff) (n : mstore) : mstore * status :=
  if m_ok e then (m_id e :: n, Go)
  else
    let r := if m_panic e then Panic else Stop in
    if m_partial e then (m_id e :: n, r) else (n, r).

(* no keeper call of the tree panics (the static reading below is about EVM-level failures) *)
Fixpoint no_panic (t : node meff) : bool :=
  match t with
  | NStep e => m_ok e || negb (m_panic e)
  | Write _ _ | Log _ => true
  | Action b _ | Frame b _ _ => no_panic_list b
  end
with no_panic_list (l : nodes meff) : bool :=
  match l with nnil => true | ncons t r => no_panic t && no_panic_list r end.

Definition mnode := node meff.
Definition mnodes := nodes meff.

Definition st0 : st mstore := mkst [] [] [] (fun _ => 0).

Definition m_run_impl (body : mnodes) (en : endk) := run_impl mstore meff mapply body en st0.
Definition m_run_spec (body : mnodes) (en : endk) := run_spec mstore meff mapply body en st0.

(* static reading of the property text for the marker instance:
   fok t = the frame/action/step completes normally (needs no state: success flags are in the tree) *)
Fixpoint fok (t : mnode) : bool :=
  match t with
  | NStep e => m_ok e
  | Write _ _ | Log _ => true
  | Action b _ => fok_list b
  | Frame b en caught => (fok_list b && endk_ok en) || caught
  end
with fok_list (l : mnodes) : bool :=
  match l with nnil => true | ncons t r => fok t && fok_list r end.

(* does the frame itself return normally (so that its effects are kept)? *)
Definition frame_kept (b : mnodes) (en : endk) : bool := fok_list b && endk_ok en.

(* markers that survive: executed (nothing before them in their frame aborted it), own action
   succeeded, and every enclosing frame returned normally. Newest first, like the store. *)
Fixpoint surv (t : mnode) : list Z :=
  match t with
  | NStep e => if m_ok e then [m_id e] else []
  | Write _ _ | Log _ => []
  | Action b _ => if fok_list b then surv_list b else []
  | Frame b en _ => if frame_kept b en then surv_list b else []
  end
with surv_list (l : mnodes) : list Z :=
  match l with
  | nnil => []
  | ncons t r => if fok t then surv_list r ++ surv t else surv t
  end.

(* the same as a relation, in the words of the property: the marker's own action succeeded and every
   enclosing action completed and every enclosing frame returned normally *)
Inductive kept_in (m : Z) : mnode -> Prop :=
| k_step e : m_ok e = true -> m_id e = m -> kept_in m (NStep e)
| k_action b evs : fok_list b = true -> kept_in_list m b -> kept_in m (Action b evs)
| k_frame b en c : frame_kept b en = true -> kept_in_list m b -> kept_in m (Frame b en c)
with kept_in_list (m : Z) : mnodes -> Prop :=
| k_here t r : kept_in m t -> kept_in_list m (ncons t r)
| k_later t r : kept_in_list m r -> kept_in_list m (ncons t r).

(* witnesses for the two well-formedness conditions (see P_Frames) *)
Definition ex_unjournaled : mnodes :=
  ncons (Frame (ncons (NStep (mkeff 1 true false false)) nnil) Revert true) nnil.
Definition ex_write_before_nested : mnodes :=
  ncons (Frame (ncons (Action (ncons (NStep (mkeff 1 true false false))
                               (ncons (Frame (ncons (Action (ncons (NStep (mkeff 2 true false false)) nnil) []) nnil) Return false)
                               (ncons (NStep (mkeff 3 true false false)) nnil))) []) nnil) Revert true) nnil.
(* a transaction in which some effects survive and some do not *)
Definition ex_mixed : mnodes :=
  ncons (Write 1 7)
 (ncons (Frame (ncons (Action (ncons (NStep (mkeff 10 true false false)) (ncons (Log 110) nnil)) [10]) nnil) Return false)
 (ncons (Frame (ncons (Write 1 8)
               (ncons (Frame (ncons (Action (ncons (NStep (mkeff 11 true false false)) (ncons (Log 111) nnil)) [11]) nnil) Return false)
               (ncons (Log 5) nnil))) Revert true)
 (ncons (Frame (ncons (Action (ncons (NStep (mkeff 12 false true false)) nnil) []) nnil) Return true)
 (ncons (Frame (ncons (Action (ncons (NStep (mkeff 13 true false false)) (ncons (Log 113) nnil)) []) nnil) Return false) nnil)))).

(* a keeper call that panics after a partial write, inside frames whose failures are caught *)
Definition ex_panic : mnodes :=
  ncons (Write 1 7)
 (ncons (Frame (ncons (Frame (ncons (Action (ncons (NStep (mkeff 20 false true true)) nnil) []) nnil) Return true) nnil) Return true)
 (ncons (Write 2 9) nnil)).
