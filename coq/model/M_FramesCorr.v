(* glue for the correspondence file Cases_C09.v written by harness/c09:
   a call tree (as designed, or as traced from the real interpreter) and what was observed afterwards *)
From Coq Require Import ZArith List Bool.
From FxV Require Import model.M_Frames model.M_FramesRev.
Import ListNotations.
Open Scope Z_scope.

Record c09_case := {
  cc_body : mnodes;
  cc_end : endk;
  cc_wf : bool;               (* false: the tree contains a native write outside any action (finding C09-1) *)
  cc_ok : bool;               (* receipt status: !res.Failed() *)
  cc_nat : list Z;            (* markers whose native effect is present afterwards (any order) *)
  cc_logs : list Z;           (* receipt logs in emission order *)
  cc_stor : list (Z * Z);     (* storage key -> value for every key the tree may write *)
  cc_evs : list Z             (* markers to which an emitted sdk event is attributable (distinct) *)
}.

Definition mk_c09_case b e wf ok nat logs stor evs : c09_case :=
  {| cc_body := b; cc_end := e; cc_wf := wf; cc_ok := ok; cc_nat := nat; cc_logs := logs; cc_stor := stor; cc_evs := evs |}.

Definition zmem (x : Z) (l : list Z) : bool := existsb (Z.eqb x) l.
Definition subset (a b : list Z) : bool := forallb (fun x => zmem x b) a.
Definition same_set (a b : list Z) : bool := subset a b && subset b a.
Fixpoint zlist_eqb (a b : list Z) : bool :=
  match a, b with
  | [], [] => true
  | x :: a', y :: b' => Z.eqb x y && zlist_eqb a' b'
  | _, _ => false
  end.

Definition agrees (r : st mstore * bool) (c : c09_case) : bool :=
  let '(s, ok) := r in
  Bool.eqb ok (cc_ok c) &&
  same_set (s_nat s) (cc_nat c) && Nat.eqb (length (s_nat s)) (length (cc_nat c)) &&
  zlist_eqb (rev (s_logs s)) (cc_logs c) &&
  forallb (fun kv => Z.eqb (s_stor s (fst kv)) (snd kv)) (cc_stor c) &&
  same_set (s_evs s) (cc_evs c).

(* the machine with the real revision stack (M_FramesRev) *)
Definition m_run_impl_r (body : mnodes) (en : endk) := run_impl_r mstore meff mapply body en st0.

(* true = the model disagrees with the implementation (or the harness printed an ill-formed tree) *)
Definition c09_mismatch (c : c09_case) : bool :=
  if cc_wf c then
    negb (wf_fl meff (cc_body c) &&
          agrees (m_run_impl (cc_body c) (cc_end c)) c &&
          agrees (m_run_impl_r (cc_body c) (cc_end c)) c &&
          agrees (m_run_spec (cc_body c) (cc_end c)) c)
  else
    (* a tree that breaks W1: only the transcription of the journal is expected to reproduce what the
       implementation did (the specification is not) *)
    negb (agrees (m_run_impl (cc_body c) (cc_end c)) c && agrees (m_run_impl_r (cc_body c) (cc_end c)) c).
