(* M_FramesRev — C09: the REAL revision bookkeeping of the ethermint state DB.

   M_Frames.exec identifies a snapshot with the journal length at the time it was taken. The code does not:

     x/evm/statedb/statedb.go
       type revision struct { id int; journalIndex int }
       validRevisions []revision ; nextRevisionID int
       Snapshot():            id := nextRevisionID; nextRevisionID++;
                              validRevisions = append(validRevisions, revision{id, journal.length()}); return id
       RevertToSnapshot(rid): idx := sort.Search(len(validRevisions), func(i) { validRevisions[i].id >= rid })
                              if idx == len(validRevisions) || validRevisions[idx].id != rid { panic(...) }
                              journal.Revert(s, validRevisions[idx].journalIndex)
                              validRevisions = validRevisions[:idx]

   Note what the code does NOT do: a frame that returns normally leaves its revision on the stack (nothing
   pops it); it is removed only when an enclosing frame reverts. So the stack grows along a successful
   transaction, and a reverting frame must find ITS revision below those of its successful children.

   exec_r is M_Frames.exec with this bookkeeping (state = state DB * journal * validRevisions, oldest first,
   * nextRevisionID); a failed lookup is the Go panic of RevertToSnapshot (status Panic).
   sort.Search is a binary search: it returns the first index whose id >= rid PROVIDED the ids are sorted.
   rsearch below is that first index; sortedness of the ids is part of the proved invariant (P_FramesRev.rev_inv).
   No proofs in this file. *)
From Coq Require Import ZArith List Bool Arith.
From FxV Require Import model.M_Frames.
Import ListNotations.
Open Scope nat_scope.

Section FramesRev.
Variable N : Type.
Variable eff : Type.
Variable apply : eff -> N -> N * status.

Definition revision := (nat * nat)%type.              (* id, journalIndex *)
Definition rdb := (st N * list (jentry N) * list revision * nat)%type.

(* Snapshot() *)
Definition snapshot_r (jr : list (jentry N)) (vr : list revision) (nx : nat) : nat * list revision * nat :=
  (nx, vr ++ [(nx, length jr)], S nx).

(* first index i with validRevisions[i].id >= rid *)
Fixpoint rsearch (rid : nat) (vr : list revision) : nat :=
  match vr with
  | [] => 0
  | (i, _) :: r => if Nat.leb rid i then 0 else S (rsearch rid r)
  end.

(* RevertToSnapshot(rid): None = panic("revision id cannot be reverted") *)
Definition revert_r (rid : nat) (s : st N) (jr : list (jentry N)) (vr : list revision)
  : option (st N * list (jentry N) * list revision) :=
  let idx := rsearch rid vr in
  match nth_error vr idx with
  | None => None
  | Some (i, ji) =>
      if Nat.eqb i rid then
        let '(s', jr') := revert_to N ji s jr in Some (s', jr', firstn idx vr)
      else None
  end.

Definition fail_r (rid : nat) (caught : bool) (s : st N) (jr : list (jentry N)) (vr : list revision) (nx : nat)
  : rdb * status :=
  match revert_r rid s jr vr with
  | Some (s', jr', vr') => ((s', jr', vr', nx), caught_status caught)
  | None => ((s, jr, vr, nx), Panic)
  end.

Fixpoint exec_r (t : node eff) (d : rdb) {struct t} : rdb * status :=
  let '(s, jr, vr, nx) := d in
  match t with
  | NStep e =>
      let '(n', r) := apply e (s_nat s) in
      ((mkst n' (s_logs s) (s_evs s) (s_stor s), jr, vr, nx), r)
  | Write k v =>
      let prev := s_stor s k in
      if Z.eqb prev v then (d, Go)
      else ((mkst (s_nat s) (s_logs s) (s_evs s) (upd (s_stor s) k v), JStorage N k prev :: jr, vr, nx), Go)
  | Log t => ((mkst (s_nat s) (t :: s_logs s) (s_evs s) (s_stor s), JLog N :: jr, vr, nx), Go)
  | Action body evs =>
      let snap := s_nat s in
      let '((s1, jr1, vr1, nx1), r) := exec_list_r body d in
      match r with
      | Go => ((mkst (s_nat s1) (s_logs s1) (rev evs ++ s_evs s1) (s_stor s1),
                JNative N snap (length evs) :: jr1, vr1, nx1), Go)
      | Stop => ((mkst snap (s_logs s1) (s_evs s1) (s_stor s1), jr1, vr1, nx1), Stop)
      | Panic => ((s1, jr1, vr1, nx1), Panic)
      end
  | Frame body en caught =>
      let '(rid, vr0, nx0) := snapshot_r jr vr nx in
      let '((s1, jr1, vr1, nx1), r) := exec_list_r body (s, jr, vr0, nx0) in
      match r with
      | Panic => ((s1, jr1, vr1, nx1), Panic)
      | Go => if endk_ok en then ((s1, jr1, vr1, nx1), Go) else fail_r rid caught s1 jr1 vr1 nx1
      | Stop => fail_r rid caught s1 jr1 vr1 nx1
      end
  end
with exec_list_r (l : nodes eff) (d : rdb) {struct l} : rdb * status :=
  match l with
  | nnil => (d, Go)
  | ncons t r =>
      let '(d1, st) := exec_r t d in
      match st with Go => exec_list_r r d1 | _ => (d1, st) end
  end.

(* ApplyMessage on a fresh state DB (statedb.New: no revisions, nextRevisionID = 0), then Commit *)
Definition run_impl_r (body : nodes eff) (en : endk) (s : st N) : st N * bool :=
  let '((s1, _, _, _), r) := exec_r (Frame body en false) (s, [], [], 0%nat) in
  match r with
  | Go => (s1, true)
  | Stop => (s1, false)
  | Panic => (s, false)
  end.

(* the ids of a revision stack are strictly increasing and below nx *)
Fixpoint rsorted (lo : nat) (vr : list revision) (nx : nat) : Prop :=
  match vr with
  | [] => lo <= nx
  | (i, _) :: r => lo <= i /\ rsorted (S i) r nx
  end.

End FramesRev.
