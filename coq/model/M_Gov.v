(* M_Gov.v — executable model of fx-core's governance wrapper, as the code is:
     /repo/x/gov/keeper/{msg_server,deposit,proposal,tally}.go, /repo/x/gov/abci.go
     and the SDK gov keeper pieces they call (SubmitProposal, CancelProposal, ChargeDeposit,
     RefundAndDeleteDeposits, DeleteAndBurnDeposits, AddVote).
   No proofs here.

   Abstractions
   * account = integer id; message type URL = integer id (ty_none = "" for a proposal without
     messages, ty_egf = MsgCommunityPoolSpend, ty_any = "/google.protobuf.Any").
   * deposits are amounts of the single deposit denomination (gov Params.MinDeposit and
     ExpeditedMinDeposit have exactly one coin of the staking denom — assumption, checked by the
     harness); a *requested spend* and the *required minimum* are multi-denomination coin lists
     (denom id fx = 0), with sdk.Coins.{Add,IsAllGTE,IsAllGT,IsAllLT,DenomsSubsetOf} transcribed.
   * LegacyDec = integer scaled by 10^18 (lib/Dec.v).  Time = seconds (Z).
   * a proposal message is its type, its requested spend (EGF only) and what executing it does:
     an effect on the rest of the application (AOk tag), a failure (AFail) or a bank send from the
     governance module account (AGovSend) — the one message kind whose effect is on modelled state.
     Three shapes of "a passed proposal moves coins out of the module account" are modelled:
     AGovSend (bank MsgSend from it; also the crisis constant fee charged to it by a
     MsgVerifyInvariant it sends, when the invariant holds — when the fee charge itself breaks the
     checked invariant the handler panics and the message is an AFail) and AGovDeposit (gov MsgDeposit
     with it as depositor: a deposit record without funds, account id gov_acct = -1).  Because the
     refund loops walk the records in address order and the module account's own record is a transfer
     to itself, ordinary account ids carry in their parity on which side of the module account their
     address sorts.  Other messages acting on the governance module's own state (MsgSubmitProposal /
     MsgVote / MsgCancelProposal signed by the module account) have no action.
   * the inactive / active queues are the sets {status = deposit} / {status = voting} ordered by
     (end time, id); the harness compares them with the stored queues after every step.
   * closed proposals stay in the list as ghosts (status SDropped / SCancelled = deleted from the
     store) and keep their last deposit records in p_deps: the record of what was paid out.
   * `keyfun` isolates the one place where the code's behaviour and its intention differ:
     deposit.go/proposal.go apply sdk.MsgTypeURL to the *Any wrapper* of a stored proposal
     message, which is always "/google.protobuf.Any" (kf_code).  kf_fixed is the evident
     intention (type URL of the wrapped message). *)
From Coq Require Import ZArith List Bool.
From FxV Require Import lib.Dec.
Import ListNotations.
Open Scope Z_scope.

(* ------------------------------------------------------------------ coins *)
Definition coins := list (Z * Z).
Definition fx : Z := 0.

Fixpoint amount_of (d : Z) (c : coins) : Z :=
  match c with
  | [] => 0
  | (d', a) :: r => if d =? d' then a else amount_of d r
  end.

Fixpoint coin_insert (d a : Z) (c : coins) : coins :=
  match c with
  | [] => [(d, a)]
  | (d', a') :: r =>
      if d <? d' then (d, a) :: c
      else if d =? d' then (d', a' + a) :: r
      else (d', a') :: coin_insert d a r
  end.

(* Coins.Add (safeAdd): merge, zero results dropped *)
Definition coins_add (a b : coins) : coins :=
  filter (fun c => negb (snd c =? 0)) (fold_left (fun acc c => coin_insert (fst c) (snd c) acc) b a).

(* sdk.NewCoins(total...) for a single-denomination non-negative amount *)
Definition coins_of_fx (n : Z) : coins := if n =? 0 then [] else [(fx, n)].

Definition is_all_gte (a b : coins) : bool :=
  match b with
  | [] => true
  | _ => match a with
         | [] => false
         | _ => forallb (fun cb => negb (amount_of (fst cb) a <? snd cb)) b
         end
  end.

Definition denoms_subset (a b : coins) : bool :=
  (length a <=? length b)%nat && forallb (fun c => negb (amount_of (fst c) b =? 0)) a.

Definition is_all_gt (a b : coins) : bool :=
  match a with
  | [] => false
  | _ => match b with
         | [] => true
         | _ => denoms_subset b a && forallb (fun cb => snd cb <? amount_of (fst cb) a) b
         end
  end.

Definition is_all_lt (a b : coins) : bool := is_all_gt b a.

(* ------------------------------------------------------------------ parameters *)
Inductive dest := DBurn | DPool | DAcct (a : Z).

Record params := {
  min_deposit : Z; exp_min_deposit : Z;
  max_deposit_period : Z; voting_period : Z; exp_voting_period : Z;
  quorum : Z; threshold : Z; exp_threshold : Z; veto_threshold : Z;
  min_initial_ratio : Z; min_deposit_ratio : Z;
  cancel_ratio : Z; cancel_dest : dest;
  burn_prevote : bool; burn_quorum : bool; burn_veto : bool;
  (* not governance parameters but two facts about the code's shape that ride along with them (they
     are set from gen/Gen_GovShape.v by the correspondence glue): in the end blocker's branches for an
     undecodable proposal record, is the queue entry removed by the key the walk stands on?  As the
     code is: neither (inactive: not removed at all; active: removed by the zero record's nil
     VotingEndTime, a nil dereference) — finding C15-3. *)
  bad_inactive_dequeued : bool; bad_active_dequeued_by_key : bool }.

Record cparams := { c_ratio : Z; c_period : Z; c_quorum : Z }.

Definition ty_none : Z := 0.
Definition ty_egf : Z := 1.
Definition ty_any : Z := 99.

Inductive action :=
| AOk (tag : Z) | AFail
| AGovSend (to amt : Z)        (* bank MsgSend from the module account (also: a fee charged to it) *)
| AGovDeposit (pid amt : Z).   (* gov MsgDeposit with the module account as depositor *)
Record msg := { m_type : Z; m_spend : coins; m_act : action }.

Record keyfun := { kf_key : list msg -> Z; kf_is_egf : msg -> bool }.

(* what the code does: sdk.MsgTypeURL(any) = "/google.protobuf.Any" for every stored message *)
Definition kf_code : keyfun :=
  {| kf_key := fun ms => match ms with [] => ty_none | _ => ty_any end;
     kf_is_egf := fun _ => false |}.

(* what it evidently means to do: the type URL of the wrapped message *)
Definition kf_fixed : keyfun :=
  {| kf_key := fun ms => match ms with [] => ty_none | m :: _ => m_type m end;
     kf_is_egf := fun m => m_type m =? ty_egf |}.

Fixpoint lookup {A} (k : Z) (l : list (Z * A)) : option A :=
  match l with
  | [] => None
  | (k', v) :: r => if k =? k' then Some v else lookup k r
  end.

Fixpoint remove_key {A} (k : Z) (l : list (Z * A)) : list (Z * A) :=
  match l with
  | [] => []
  | (k', v) :: r => if k =? k' then remove_key k r else (k', v) :: remove_key k r
  end.

(* ------------------------------------------------------------------ state *)
Inductive status :=
| SDeposit | SVoting | SPassed | SRejected | SFailed | SDropped | SCancelled
(* the stored record no longer decodes (collections.ErrEncoding) while the proposal sits in the
   inactive / active queue; deposits, votes and queue entries are separate records and unaffected *)
| SBadDeposit | SBadVoting
(* deleted from the store by the ErrEncoding branch of the inactive walk, queue entry left behind *)
| SStale
(* rewritten as a minimal FAILED record by failUnsupportedProposal (active walk, with the entry dequeued) *)
| SFailedBad.

Definition is_open (st : status) : bool :=
  match st with SDeposit | SVoting | SBadDeposit | SBadVoting => true | _ => false end.
Definition is_removed (st : status) : bool :=
  match st with SDropped | SCancelled | SStale => true | _ => false end.
Definition is_bad (st : status) : bool :=
  match st with SBadDeposit | SBadVoting => true | _ => false end.

Record tallyres := { t_yes : Z; t_abstain : Z; t_no : Z; t_veto : Z }.
Definition tally0 : tallyres := {| t_yes := 0; t_abstain := 0; t_no := 0; t_veto := 0 |}.

Record proposal := {
  p_id : Z; p_status : status; p_msgs : list msg; p_proposer : Z; p_expedited : bool;
  p_total : Z; p_deps : list (Z * Z);
  p_submit : Z; p_dep_end : Z; p_vstart : Z; p_vend : Z;
  p_votes : list (Z * list (Z * Z));
  p_tally : tallyres;
  (* ghosts: what the activation and the last tally used *)
  p_act_total : Z; p_act_req : coins; p_act_period : Z; p_quorum_used : Z }.

Record state := {
  props : list proposal; next_id : Z;
  gov_bal : Z; bal : Z -> Z;
  burned : Z; pool_in : Z;
  ext : list Z;
  custom : list (Z * cparams);
  gov_spent : Z (* ghost: sent out of the module account by executed proposal messages *) }.

Definition init (b : Z -> Z) (cust : list (Z * cparams)) : state :=
  {| props := []; next_id := 1; gov_bal := 0; bal := b; burned := 0; pool_in := 0;
     ext := []; custom := cust; gov_spent := 0 |}.

Definition set_props (s : state) (ps : list proposal) : state :=
  {| props := ps; next_id := next_id s; gov_bal := gov_bal s; bal := bal s; burned := burned s;
     pool_in := pool_in s; ext := ext s; custom := custom s; gov_spent := gov_spent s |}.

Definition set_custom (s : state) (c : list (Z * cparams)) : state :=
  {| props := props s; next_id := next_id s; gov_bal := gov_bal s; bal := bal s; burned := burned s;
     pool_in := pool_in s; ext := ext s; custom := c; gov_spent := gov_spent s |}.

Definition bal_add (b : Z -> Z) (a d : Z) : Z -> Z := fun x => if x =? a then b x + d else b x.

Fixpoint find_prop (id : Z) (ps : list proposal) : option proposal :=
  match ps with
  | [] => None
  | p :: r => if p_id p =? id then Some p else find_prop id r
  end.

Fixpoint upd_prop (id : Z) (f : proposal -> proposal) (ps : list proposal) : list proposal :=
  match ps with
  | [] => []
  | p :: r => if p_id p =? id then f p :: r else p :: upd_prop id f r
  end.

Fixpoint sum_deps (l : list (Z * Z)) : Z :=
  match l with [] => 0 | (_, a) :: r => a + sum_deps r end.

Fixpoint add_dep (d a : Z) (l : list (Z * Z)) : list (Z * Z) :=
  match l with
  | [] => [(d, a)]
  | (d', a') :: r => if d' =? d then (d', a' + a) :: r else (d', a') :: add_dep d a r
  end.

(* ------------------------------------------------------------------ results *)
Inductive ecode := ENotFound | EInactive | EDepositSmall | EDenom | EFunds | EMixed | EInvalid
                 | EVote | EProposer | EBadStatus | EVotingEnded | EAuth.
Inductive result := ROk | RErr (e : ecode) | RHalt.

(* one per deposit record, emitted by the step that closes the proposal *)
Inductive event := EvPay (pid depositor refund burn : Z).

(* ------------------------------------------------------------------ deposit.go *)
(* GetMinDepositAmountFromProposalMsgs *)
Definition egf_min (kf : keyfun) (cust : list (Z * cparams)) (dflt : coins) (ms : list msg) : coins :=
  if negb (forallb (kf_is_egf kf) ms) then dflt
  else
    let total := fold_left (fun acc m => coins_add acc (m_spend m)) ms [] in
    match lookup ty_egf cust with
    | None => dflt
    | Some cp =>
        if c_ratio cp =? 0 then dflt
        else
          let mins := map (fun c => (fst c, dec_round_int (dec_mul (dec_of_int (snd c)) (c_ratio cp)))) total in
          if is_all_lt mins dflt then dflt else mins
    end.

Definition min_for (P : params) (p : proposal) : Z :=
  if p_expedited p then exp_min_deposit P else min_deposit P.

(* proposal.go: GetCustomMsgVotingPeriod over ActivateVotingPeriod's default *)
Definition period_for (P : params) (kf : keyfun) (cust : list (Z * cparams)) (p : proposal) : Z :=
  match lookup (kf_key kf (p_msgs p)) cust with
  | Some cp => c_period cp
  | None => if p_expedited p then exp_voting_period P else voting_period P
  end.

Definition quorum_for (P : params) (kf : keyfun) (cust : list (Z * cparams)) (p : proposal) : Z :=
  match lookup (kf_key kf (p_msgs p)) cust with
  | Some cp => c_quorum cp
  | None => quorum P
  end.

Definition deposit_threshold (P : params) (p : proposal) : Z :=
  dec_trunc_int (dec_mul (dec_of_int (min_for P p)) (min_deposit_ratio P)).

(* the proposal record after AddDeposit's updates (total, activation) *)
Definition deposited (P : params) (kf : keyfun) (cust : list (Z * cparams)) (now dep amt : Z)
           (p : proposal) : proposal :=
  let total' := p_total p + amt in
  let req := egf_min kf cust [(fx, min_for P p)] (p_msgs p) in
  let act := match p_status p with SDeposit => is_all_gte (coins_of_fx total') req | _ => false end in
  let per := period_for P kf cust p in
  {| p_id := p_id p; p_status := if act then SVoting else p_status p; p_msgs := p_msgs p;
     p_proposer := p_proposer p; p_expedited := p_expedited p;
     p_total := total'; p_deps := add_dep dep amt (p_deps p);
     p_submit := p_submit p; p_dep_end := p_dep_end p;
     p_vstart := if act then now else p_vstart p; p_vend := if act then now + per else p_vend p;
     p_votes := p_votes p; p_tally := p_tally p;
     p_act_total := if act then total' else p_act_total p;
     p_act_req := if act then req else p_act_req p;
     p_act_period := if act then per else p_act_period p;
     p_quorum_used := p_quorum_used p |}.

(* Keeper.AddDeposit; bad_denom = the deposit carries a denomination Params.MinDeposit does not list *)
Definition add_deposit (P : params) (kf : keyfun) (now : Z) (s : state) (pid dep amt : Z)
           (bad_denom : bool) : result * state :=
  match find_prop pid (props s) with
  | None => (RErr ENotFound, s)
  | Some p =>
      if is_bad (p_status p) then (RErr EInvalid, s) (* Proposals.Get: encoding error *)
      else if is_removed (p_status p) then (RErr ENotFound, s)
      else if negb (is_open (p_status p)) then (RErr EInactive, s)
      else if bad_denom then (RErr EDenom, s)
      else if negb (min_deposit_ratio P =? 0)
              && negb ((0 <? amt) && (deposit_threshold P p <=? amt)) then (RErr EDepositSmall, s)
      else if bal s dep <? amt then (RErr EFunds, s)
      else
        (ROk,
         {| props := upd_prop pid (deposited P kf (custom s) now dep amt) (props s);
            next_id := next_id s; gov_bal := gov_bal s + amt; bal := bal_add (bal s) dep (- amt);
            burned := burned s; pool_in := pool_in s; ext := ext s; custom := custom s;
            gov_spent := gov_spent s |})
  end.

(* ------------------------------------------------------------------ msg_server.go *)
(* checkProposalMsgs, the loop as written (strings.EqualFold on registered type URLs = equality of ids) *)
Fixpoint check_msgs_from (cur : option Z) (ms : list msg) : bool :=
  match ms with
  | [] => true
  | m :: r =>
      match cur with
      | Some t => if negb (t =? m_type m) then false else check_msgs_from (Some (m_type m)) r
      | None => check_msgs_from (Some (m_type m)) r
      end
  end.
Definition check_msgs (ms : list msg) : bool := check_msgs_from None ms.

(* validateInitialDeposit *)
Definition initial_ok (P : params) (expedited : bool) (amt : Z) : bool :=
  if min_initial_ratio P =? 0 then true
  else
    let m := dec_round_int (dec_mul (dec_of_int (if expedited then exp_min_deposit P else min_deposit P))
                                    (min_initial_ratio P)) in
    (0 <? amt) && (m <=? amt).

Definition new_proposal (P : params) (id now proposer : Z) (ms : list msg) (expedited : bool) : proposal :=
  {| p_id := id; p_status := SDeposit; p_msgs := ms; p_proposer := proposer; p_expedited := expedited;
     p_total := 0; p_deps := [];
     p_submit := now; p_dep_end := now + max_deposit_period P; p_vstart := 0; p_vend := 0;
     p_votes := []; p_tally := tally0;
     p_act_total := 0; p_act_req := []; p_act_period := 0; p_quorum_used := 0 |}.

(* valid = everything else SubmitProposal checks holds (title, summary, metadata, every message
   routable and signed by the governance account, legacy content executes) *)
Definition submit (P : params) (kf : keyfun) (now : Z) (s : state) (proposer : Z) (ms : list msg)
           (amt : Z) (expedited valid bad_denom : bool) : result * state :=
  if negb (check_msgs ms) then (RErr EMixed, s)
  else if (amt <? 0) || (proposer <? 0) then (RErr EInvalid, s) (* account ids are non-negative *)
  else if negb (initial_ok P expedited amt) then (RErr EDepositSmall, s)
  else if bad_denom then (RErr EDenom, s)
  else if negb valid then (RErr EInvalid, s)
  else
    let id := next_id s in
    let s1 := {| props := props s ++ [new_proposal P id now proposer ms expedited];
                 next_id := id + 1; gov_bal := gov_bal s; bal := bal s; burned := burned s;
                 pool_in := pool_in s; ext := ext s; custom := custom s; gov_spent := gov_spent s |} in
    match add_deposit P kf now s1 id proposer amt false with
    | (ROk, s2) => (ROk, s2)
    | (r, _) => (r, s)
    end.

(* ------------------------------------------------------------------ votes *)
Definition valid_option (o : Z) : bool := (1 <=? o) && (o <=? 4).
Definition valid_wopt (ow : Z * Z) : bool :=
  valid_option (fst ow) && (0 <? snd ow) && (snd ow <=? prec).

Fixpoint has_dup (l : list Z) : bool :=
  match l with [] => false | x :: r => existsb (Z.eqb x) r || has_dup r end.

Fixpoint set_vote (voter : Z) (o : list (Z * Z)) (l : list (Z * list (Z * Z))) :=
  match l with
  | [] => [(voter, o)]
  | (v, o') :: r => if v =? voter then (v, o) :: r else (v, o') :: set_vote voter o r
  end.

Definition with_votes (p : proposal) (v : list (Z * list (Z * Z))) : proposal :=
  {| p_id := p_id p; p_status := p_status p; p_msgs := p_msgs p; p_proposer := p_proposer p;
     p_expedited := p_expedited p; p_total := p_total p; p_deps := p_deps p;
     p_submit := p_submit p; p_dep_end := p_dep_end p; p_vstart := p_vstart p; p_vend := p_vend p;
     p_votes := v; p_tally := p_tally p;
     p_act_total := p_act_total p; p_act_req := p_act_req p; p_act_period := p_act_period p;
     p_quorum_used := p_quorum_used p |}.

(* MsgVote (weighted = false, one option of weight 1) / MsgVoteWeighted, then Keeper.AddVote *)
Definition vote (s : state) (pid voter : Z) (opts : list (Z * Z)) (weighted : bool) : result * state :=
  let bad :=
    if weighted then
      match opts with
      | [] => Some EInvalid
      | _ => if negb (forallb valid_wopt opts) then Some EVote
             else if has_dup (map fst opts) then Some EVote
             else if negb (fold_right (fun ow acc => snd ow + acc) 0 opts =? prec) then Some EVote
             else None
      end
    else if forallb (fun ow => valid_option (fst ow)) opts then None else Some EVote in
  match bad with
  | Some e => (RErr e, s)
  | None =>
      match find_prop pid (props s) with
      | Some p =>
          match p_status p with
          | SVoting | SBadVoting => (* AddVote only consults VotingPeriodProposals *)
              (ROk, set_props s (upd_prop pid (fun q => with_votes q (set_vote voter opts (p_votes q))) (props s)))
          | _ => (RErr EInactive, s)
          end
      | None => (RErr EInactive, s)
      end
  end.

(* ------------------------------------------------------------------ closing a proposal *)
Definition close_as (p : proposal) (st : status) : proposal :=
  {| p_id := p_id p; p_status := st; p_msgs := p_msgs p; p_proposer := p_proposer p;
     p_expedited := p_expedited p; p_total := p_total p; p_deps := p_deps p;
     p_submit := p_submit p; p_dep_end := p_dep_end p; p_vstart := p_vstart p; p_vend := p_vend p;
     p_votes := []; p_tally := p_tally p;
     p_act_total := p_act_total p; p_act_req := p_act_req p; p_act_period := p_act_period p;
     p_quorum_used := p_quorum_used p |}.

(* The governance module account as a depositor (gov MsgDeposit executed by a passed proposal):
   account id -1.  Ordinary account ids are non-negative and carry in their parity where their
   address sorts relative to the module account's — even: before it, odd: after it — because the
   refund loops walk a proposal's deposit records in address order. *)
Definition gov_acct : Z := -1.
Definition sorts_before_gov (d : Z) : bool := Z.even d.

(* the module account's own records / the records paid before its turn comes *)
Fixpoint gov_part (l : list (Z * Z)) : Z :=
  match l with [] => 0 | (d, a) :: r => (if d =? gov_acct then a else 0) + gov_part r end.
Fixpoint before_part (l : list (Z * Z)) : Z :=
  match l with
  | [] => 0
  | (d, a) :: r => (if negb (d =? gov_acct) && sorts_before_gov d then a else 0) + before_part r
  end.

(* the module account's own record is "refunded" by a transfer to itself *)
Fixpoint refund_all (b : Z -> Z) (l : list (Z * Z)) : Z -> Z :=
  match l with
  | [] => b
  | (d, a) :: r => if d =? gov_acct then refund_all b r else refund_all (bal_add b d a) r
  end.

(* RefundAndDeleteDeposits / DeleteAndBurnDeposits: None = the bank refuses (module account short).
   Burn: one BurnCoins of the sum of all records.  Refund: record by record in address order; every
   transfer needs the balance at that moment, the self-transfer of the module account's own record
   leaves it unchanged: the loop succeeds iff the records before the module account's plus its own
   fit, and all records of other depositors fit.  A record of the module account has no coins behind
   it: refunding it cancels the pledge (gov_spent), burning it burns other proposals' coins. *)
Definition pay_out (s : state) (p : proposal) (burn : bool) : option (state * list event) :=
  let tot := sum_deps (p_deps p) in
  let ag := gov_part (p_deps p) in
  if burn then
    if gov_bal s <? tot then None
    else
      Some ({| props := props s; next_id := next_id s; gov_bal := gov_bal s - tot; bal := bal s;
               burned := burned s + tot; pool_in := pool_in s; ext := ext s; custom := custom s;
               gov_spent := gov_spent s |},
            map (fun da => EvPay (p_id p) (fst da) 0 (snd da)) (p_deps p))
  else
    if (gov_bal s <? before_part (p_deps p) + ag) || (gov_bal s <? tot - ag) then None
    else
      Some ({| props := props s; next_id := next_id s; gov_bal := gov_bal s - (tot - ag);
               bal := refund_all (bal s) (p_deps p);
               burned := burned s; pool_in := pool_in s; ext := ext s; custom := custom s;
               gov_spent := gov_spent s - ag |},
            map (fun da => EvPay (p_id p) (fst da) (snd da) 0) (p_deps p)).

(* ChargeDeposit *)
Definition charge_of (rate a : Z) : Z := dec_trunc_int (dec_mul (dec_of_int a) rate).
Fixpoint refund_rest (rate : Z) (b : Z -> Z) (l : list (Z * Z)) : Z -> Z :=
  match l with
  | [] => b
  | (d, a) :: r =>
      if d =? gov_acct then refund_rest rate b r else refund_rest rate (bal_add b d (a - charge_of rate a)) r
  end.
(* what stays after the charge, per class of record *)
Definition rest_of (rate : Z) (l : list (Z * Z)) : list (Z * Z) :=
  map (fun da => (fst da, snd da - charge_of rate (snd da))) l.
Fixpoint sum_charges (rate : Z) (l : list (Z * Z)) : Z :=
  match l with [] => 0 | (_, a) :: r => charge_of rate a + sum_charges rate r end.

Definition cancel (P : params) (now : Z) (s : state) (pid proposer : Z) : result * state * list event :=
  match find_prop pid (props s) with
  | None => (RErr ENotFound, s, [])
  | Some p =>
      if is_bad (p_status p) then (RErr EInvalid, s, []) (* Proposals.Get: encoding error *)
      else if is_removed (p_status p) then (RErr ENotFound, s, [])
      else if negb (p_proposer p =? proposer) then (RErr EProposer, s, [])
      else if negb (is_open (p_status p)) then (RErr EBadStatus, s, [])
      else if (match p_status p with SVoting => p_vend p <? now | _ => false end) then (RErr EVotingEnded, s, [])
      else if (cancel_ratio P <? 0) || (prec <? cancel_ratio P) then (RErr EInvalid, s, [])
           (* not a valid Params value; ChargeDeposit would panic in NewCoin on a negative amount *)
      else
        let tot := sum_deps (p_deps p) in
        let ch := sum_charges (cancel_ratio P) (p_deps p) in
        let rest := rest_of (cancel_ratio P) (p_deps p) in
        let rg := gov_part rest in                 (* the module account's own uncharged part: a self-transfer *)
        let out := (sum_deps rest - rg) + ch in    (* what really leaves the account *)
        if (gov_bal s <? before_part rest + rg) || (gov_bal s <? out) then (RErr EFunds, s, [])
        else
          let b1 := refund_rest (cancel_ratio P) (bal s) (p_deps p) in
          (ROk,
           {| props := upd_prop pid (fun q => close_as q SCancelled) (props s); next_id := next_id s;
              gov_bal := gov_bal s - out;
              bal := match cancel_dest P with DAcct a => bal_add b1 a ch | _ => b1 end;
              burned := match cancel_dest P with DBurn => burned s + ch | _ => burned s end;
              pool_in := match cancel_dest P with DPool => pool_in s + ch | _ => pool_in s end;
              ext := ext s; custom := custom s; gov_spent := gov_spent s - rg |},
           map (fun da => EvPay pid (fst da) (snd da - charge_of (cancel_ratio P) (snd da))
                                (charge_of (cancel_ratio P) (snd da))) (p_deps p))
  end.

(* ------------------------------------------------------------------ tally.go *)
Record staking := {
  st_vals : list (Z * Z * Z);   (* operator account, bonded tokens, delegator shares (Dec) *)
  st_dels : list (Z * Z * Z);   (* delegator account, validator operator account, shares (Dec) *)
  st_total_bonded : Z;
  st_time : Z  (* the block time, again: proposal messages executed by the end blocker see it *) }.

Record vinfo := { v_op : Z; v_bonded : Z; v_shares : Z; v_deduct : Z; v_vote : list (Z * Z) }.

Record acc4 := { a_yes : Z; a_abstain : Z; a_no : Z; a_veto : Z; a_total : Z }.
Definition acc0 : acc4 := {| a_yes := 0; a_abstain := 0; a_no := 0; a_veto := 0; a_total := 0 |}.

Definition add_opt (a : acc4) (o x : Z) : acc4 :=
  {| a_yes := if o =? 1 then a_yes a + x else a_yes a;
     a_abstain := if o =? 2 then a_abstain a + x else a_abstain a;
     a_no := if o =? 3 then a_no a + x else a_no a;
     a_veto := if o =? 4 then a_veto a + x else a_veto a;
     a_total := a_total a |}.

Definition add_power (a : acc4) (vp : Z) (opts : list (Z * Z)) : acc4 :=
  let a1 := fold_left (fun acc ow => add_opt acc (fst ow) (dec_mul vp (snd ow))) opts a in
  {| a_yes := a_yes a1; a_abstain := a_abstain a1; a_no := a_no a1; a_veto := a_veto a1;
     a_total := a_total a1 + vp |}.

Definition find_val (op : Z) (vs : list vinfo) : option vinfo :=
  find (fun v => v_op v =? op) vs.

Definition map_val (op : Z) (f : vinfo -> vinfo) (vs : list vinfo) : list vinfo :=
  map (fun v => if v_op v =? op then f v else v) vs.

(* first loop body: one stored vote *)
Definition tally_vote (stk : staking) (st : list vinfo * acc4) (vt : Z * list (Z * Z)) : list vinfo * acc4 :=
  let '(vs, a) := st in
  let voter := fst vt in
  let opts := snd vt in
  let vs1 := map_val voter (fun v => {| v_op := v_op v; v_bonded := v_bonded v; v_shares := v_shares v;
                                        v_deduct := v_deduct v; v_vote := opts |}) vs in
  fold_left
    (fun (st : list vinfo * acc4) (d : Z * Z * Z) =>
       let '(del, val, sh) := d in
       if del =? voter then
         match find_val val (fst st) with
         | Some v =>
             let vp := dec_quo (dec_mul_int sh (v_bonded v)) (v_shares v) in
             (map_val val (fun v => {| v_op := v_op v; v_bonded := v_bonded v; v_shares := v_shares v;
                                       v_deduct := v_deduct v + sh; v_vote := v_vote v |}) (fst st),
              add_power (snd st) vp opts)
         | None => st
         end
       else st)
    (st_dels stk) (vs1, a).

Definition tally_vals (vs : list vinfo) (a : acc4) : acc4 :=
  fold_left
    (fun acc v =>
       match v_vote v with
       | [] => acc
       | opts => add_power acc (dec_quo (dec_mul_int (v_shares v - v_deduct v) (v_bonded v)) (v_shares v)) opts
       end) vs a.

Record verdict := { passes : bool; burns : bool; tres : tallyres; q_used : Z }.

(* both loops of Tally: the accumulated option powers and the total voting power *)
Definition tally_acc (stk : staking) (p : proposal) : acc4 :=
  let vs0 := map (fun v => let '(op, b, sh) := v in
                           {| v_op := op; v_bonded := b; v_shares := sh; v_deduct := 0; v_vote := [] |})
                 (st_vals stk) in
  let '(vs, a1) := fold_left (tally_vote stk) (p_votes p) (vs0, acc0) in
  tally_vals vs a1.

(* percentVoting *)
Definition participation (stk : staking) (p : proposal) : Z :=
  dec_quo (a_total (tally_acc stk p)) (dec_of_int (st_total_bonded stk)).

Definition tally (P : params) (kf : keyfun) (cust : list (Z * cparams)) (stk : staking) (p : proposal) : verdict :=
  let a := tally_acc stk p in
  let tr := {| t_yes := dec_trunc_int (a_yes a); t_abstain := dec_trunc_int (a_abstain a);
               t_no := dec_trunc_int (a_no a); t_veto := dec_trunc_int (a_veto a) |} in
  let q := quorum_for P kf cust p in
  if st_total_bonded stk =? 0 then {| passes := false; burns := false; tres := tr; q_used := q |}
  else if participation stk p <? q
  then {| passes := false; burns := burn_quorum P; tres := tr; q_used := q |}
  else if a_total a - a_abstain a =? 0 then {| passes := false; burns := false; tres := tr; q_used := q |}
  else if veto_threshold P <? dec_quo (a_veto a) (a_total a)
  then {| passes := false; burns := burn_veto P; tres := tr; q_used := q |}
  else if (if p_expedited p then exp_threshold P else threshold P)
            <? dec_quo (a_yes a) (a_total a - a_abstain a)
  then {| passes := true; burns := false; tres := tr; q_used := q |}
  else {| passes := false; burns := false; tres := tr; q_used := q |}.

(* ------------------------------------------------------------------ abci.go *)
(* what a proposal message can see of the block it is executed in *)
Record xenv := { x_P : params; x_kf : keyfun; x_now : Z; x_self : Z (* the proposal being executed *) }.

(* gov MsgDeposit{depositor = module account}: Keeper.AddDeposit with a transfer from the account to
   itself — nothing moves, the target's total and records grow.  For the proposal being executed
   itself (still in voting in the store while its messages run) the deposit is accepted as well, but
   the end blocker then overwrites the proposal with its stale local copy and the new record is never
   paid: nothing of it shows in what is modelled (the left-over record is not). *)
Definition gov_deposit (e : xenv) (s : state) (pid amt : Z) : option state :=
  match find_prop pid (props s) with
  | None => None
  | Some p =>
      let P := x_P e in
      if negb ((pid =? x_self e)
               || (negb (is_bad (p_status p)) && negb (is_removed (p_status p)) && is_open (p_status p)))
      then None
      else if negb (0 <? amt) then None
      else if negb (min_deposit_ratio P =? 0) && negb (deposit_threshold P p <=? amt) then None
      else if gov_bal s <? amt then None
      else if pid =? x_self e then Some s
      else
        Some {| props := upd_prop pid (deposited P (x_kf e) (custom s) (x_now e) gov_acct amt) (props s);
                next_id := next_id s; gov_bal := gov_bal s; bal := bal s; burned := burned s;
                pool_in := pool_in s; ext := ext s; custom := custom s; gov_spent := gov_spent s + amt |}
  end.

(* one proposal message on the cache branch *)
Definition exec_one (e : xenv) (s : state) (m : msg) : option state :=
  match m_act m with
  | AOk tag => Some {| props := props s; next_id := next_id s; gov_bal := gov_bal s; bal := bal s;
                       burned := burned s; pool_in := pool_in s; ext := tag :: ext s;
                       custom := custom s; gov_spent := gov_spent s |}
  | AFail => None
  | AGovSend to amt =>
      if (0 <? amt) && (amt <=? gov_bal s) then
        Some {| props := props s; next_id := next_id s; gov_bal := gov_bal s - amt;
                bal := bal_add (bal s) to amt; burned := burned s; pool_in := pool_in s;
                ext := ext s; custom := custom s; gov_spent := gov_spent s + amt |}
      else None
  | AGovDeposit pid amt => gov_deposit e s pid amt
  end.

Fixpoint exec_msgs (e : xenv) (s : state) (ms : list msg) : option state :=
  match ms with
  | [] => Some s
  | m :: r => match exec_one e s m with Some s' => exec_msgs e s' r | None => None end
  end.

Definition tallied (p : proposal) (st : status) (v : verdict) : proposal :=
  {| p_id := p_id p; p_status := st; p_msgs := p_msgs p; p_proposer := p_proposer p;
     p_expedited := p_expedited p; p_total := p_total p; p_deps := p_deps p;
     p_submit := p_submit p; p_dep_end := p_dep_end p; p_vstart := p_vstart p; p_vend := p_vend p;
     p_votes := []; p_tally := tres v;
     p_act_total := p_act_total p; p_act_req := p_act_req p; p_act_period := p_act_period p;
     p_quorum_used := q_used v |}.

(* an expedited proposal that fails its tally becomes a regular one: note params.VotingPeriod,
   not the per-type period *)
Definition converted (P : params) (p : proposal) (v : verdict) : proposal :=
  {| p_id := p_id p; p_status := SVoting; p_msgs := p_msgs p; p_proposer := p_proposer p;
     p_expedited := false; p_total := p_total p; p_deps := p_deps p;
     p_submit := p_submit p; p_dep_end := p_dep_end p; p_vstart := p_vstart p;
     p_vend := p_vstart p + voting_period P;
     p_votes := []; p_tally := tres v;
     p_act_total := p_act_total p; p_act_req := p_act_req p; p_act_period := p_act_period p;
     p_quorum_used := q_used v |}.

(* inactive queue entry: the deposit period ended *)
Definition process_inactive (P : params) (s : state) (id : Z) : option (state * list event) :=
  match find_prop id (props s) with
  | None => Some (s, [])
  | Some p =>
      match p_status p with
      | SDeposit =>
          match pay_out s p (burn_prevote P) with
          | None => None
          | Some (s1, ev) => Some (set_props s1 (upd_prop id (fun q => close_as q SDropped) (props s1)), ev)
          end
      | SBadDeposit =>
          (* failUnsupportedProposal: minimal FAILED record, deposits refunded (never burned);
             DeleteProposal then reads that record — no DepositEndTime — and deletes it: the queue
             entry is gone only if the branch removes it by the walk's key *)
          match pay_out s p false with
          | None => None
          | Some (s1, ev) =>
              Some (set_props s1 (upd_prop id (fun q => close_as q (if bad_inactive_dequeued P then SDropped else SStale))
                                           (props s1)), ev)
          end
      | SStale => None (* the left-over entry: Proposals.Get = ErrNotFound, returned by the walk *)
      | _ => Some (s, [])
      end
  end.

(* active queue entry: the voting period ended *)
Definition process_active (P : params) (kf : keyfun) (stk : staking) (s : state) (id : Z)
  : option (state * list event) :=
  match find_prop id (props s) with
  | None => Some (s, [])
  | Some p =>
      match p_status p with
      | SVoting =>
          let v := tally P kf (custom s) stk p in
          if p_expedited p && negb (passes v) then
            Some (set_props s (upd_prop id (fun q => converted P q v) (props s)), [])
          else
            match pay_out s p (burns v) with
            | None => None
            | Some (s1, ev) =>
                if passes v then
                  (* The code runs the messages first and stores status PASSED / FAILED afterwards.
                     No message reads or changes the stored record of the proposal being executed
                     (gov_deposit treats x_self apart), so storing PASSED first and running the
                     messages on that state is the same function — and keeps every intermediate
                     state well-formed. *)
                  let sP := set_props s1 (upd_prop id (fun q => tallied q SPassed v) (props s1)) in
                  match exec_msgs {| x_P := P; x_kf := kf; x_now := st_time stk; x_self := id |} sP (p_msgs p) with
                  | Some s2 => Some (s2, ev)
                  | None => Some (set_props s1 (upd_prop id (fun q => tallied q SFailed v) (props s1)), ev)
                  end
                else Some (set_props s1 (upd_prop id (fun q => tallied q SRejected v) (props s1)), ev)
            end
      | SBadVoting =>
          (* failUnsupportedProposal, then the queue removal: by *proposal.VotingEndTime of the zero
             record (nil dereference: the end blocker panics) unless it uses the walk's key *)
          if bad_active_dequeued_by_key P then
            match pay_out s p false with
            | None => None
            | Some (s1, ev) => Some (set_props s1 (upd_prop id (fun q => close_as q SFailedBad) (props s1)), ev)
            end
          else None
      | _ => Some (s, [])
      end
  end.

Fixpoint fold_ids (f : state -> Z -> option (state * list event)) (ids : list Z) (s : state)
  : option (state * list event) :=
  match ids with
  | [] => Some (s, [])
  | id :: r =>
      match f s id with
      | None => None
      | Some (s1, e1) =>
          match fold_ids f r s1 with
          | None => None
          | Some (s2, e2) => Some (s2, e1 ++ e2)
          end
      end
  end.

(* queue order: (end time, id) ascending *)
Fixpoint insert_key (k : Z * Z) (l : list (Z * Z)) : list (Z * Z) :=
  match l with
  | [] => [k]
  | k' :: r =>
      if (fst k <? fst k') || ((fst k =? fst k') && (snd k <=? snd k')) then k :: l
      else k' :: insert_key k r
  end.
Definition sort_keys (l : list (Z * Z)) : list (Z * Z) := fold_right insert_key [] l.

Definition inactive_queue (ps : list proposal) : list (Z * Z) :=
  sort_keys (map (fun p => (p_dep_end p, p_id p))
                 (filter (fun p => match p_status p with SDeposit | SBadDeposit | SStale => true | _ => false end) ps)).
Definition active_queue (ps : list proposal) : list (Z * Z) :=
  sort_keys (map (fun p => (p_vend p, p_id p))
                 (filter (fun p => match p_status p with SVoting | SBadVoting => true | _ => false end) ps)).
Definition due (t : Z) (q : list (Z * Z)) : list Z :=
  map snd (filter (fun k => fst k <=? t) q).

(* EndBlocker at block time t; None = it returns an error (the block cannot be finalized) *)
Definition end_block (P : params) (kf : keyfun) (t : Z) (stk : staking) (s : state)
  : option (state * list event) :=
  match fold_ids (process_inactive P) (due t (inactive_queue (props s))) s with
  | None => None
  | Some (s1, e1) =>
      match fold_ids (process_active P kf stk) (due t (active_queue (props s1))) s1 with
      | None => None
      | Some (s2, e2) => Some (s2, e1 ++ e2)
      end
  end.

(* ------------------------------------------------------------------ operations *)
Inductive op :=
| OSubmit (now proposer : Z) (ms : list msg) (amt : Z) (expedited valid bad_denom : bool)
| ODeposit (now pid depositor amt : Z) (bad_denom : bool)
| OVote (pid voter : Z) (opts : list (Z * Z)) (weighted : bool)
| OCancel (now pid proposer : Z)
| OEndBlock (t : Z) (stk : staking)
| OSetCustom (authorized : bool) (key : Z) (cp : cparams)
| ORemoveCustom (authorized : bool) (key : Z)
| OBank (acct delta : Z)
| OCorrupt (pid : Z).        (* the stored record of an open proposal is overwritten with undecodable bytes *)   (* any other credit/debit of an ordinary account (never the module account) *)

Definition with_status (p : proposal) (st : status) : proposal :=
  {| p_id := p_id p; p_status := st; p_msgs := p_msgs p; p_proposer := p_proposer p;
     p_expedited := p_expedited p; p_total := p_total p; p_deps := p_deps p;
     p_submit := p_submit p; p_dep_end := p_dep_end p; p_vstart := p_vstart p; p_vend := p_vend p;
     p_votes := p_votes p; p_tally := p_tally p;
     p_act_total := p_act_total p; p_act_req := p_act_req p; p_act_period := p_act_period p;
     p_quorum_used := p_quorum_used p |}.

(* only open, decodable proposals are corrupted (the harness does nothing else) *)
Definition corrupt (s : state) (pid : Z) : result * state :=
  match find_prop pid (props s) with
  | Some p =>
      match p_status p with
      | SDeposit => (ROk, set_props s (upd_prop pid (fun q => with_status q SBadDeposit) (props s)))
      | SVoting => (ROk, set_props s (upd_prop pid (fun q => with_status q SBadVoting) (props s)))
      | _ => (RErr EInvalid, s)
      end
  | None => (RErr EInvalid, s)
  end.

Definition deposit_msg_invalid (amt : Z) (bad_denom : bool) (dep : Z) : bool :=
  (amt <? 0) || ((amt =? 0) && negb bad_denom) || (dep <? 0) (* account ids are non-negative *).

Definition cparams_valid (cp : cparams) : bool :=
  (0 <? c_period cp) && (0 <=? c_quorum cp) && (c_quorum cp <=? prec)
  && (0 <=? c_ratio cp) && (c_ratio cp <=? prec).

Definition step (P : params) (kf : keyfun) (s : state) (o : op) : result * state * list event :=
  match o with
  | OSubmit now proposer ms amt expedited valid bad_denom =>
      let '(r, s') := submit P kf now s proposer ms amt expedited valid bad_denom in (r, s', [])
  | ODeposit now pid dep amt bad_denom =>
      (* validateDeposit: the coins must be valid and positive; a deposit made only of another
         denomination (amt = 0, bad_denom) passes it and is refused by the denomination check *)
      if deposit_msg_invalid amt bad_denom dep then (RErr EInvalid, s, [])
      else let '(r, s') := add_deposit P kf now s pid dep amt bad_denom in (r, s', [])
  | OVote pid voter opts weighted => let '(r, s') := vote s pid voter opts weighted in (r, s', [])
  | OCancel now pid proposer => cancel P now s pid proposer
  | OEndBlock t stk =>
      match end_block P kf t stk s with
      | None => (RHalt, s, [])
      | Some (s', ev) => (ROk, s', ev)
      end
  | OSetCustom authorized key cp =>
      if negb authorized then (RErr EAuth, s, [])
      else if negb (cparams_valid cp) then (RErr EInvalid, s, [])
      else (ROk, set_custom s ((key, cp) :: remove_key key (custom s)), [])
  | ORemoveCustom authorized key =>
      if negb authorized then (RErr EAuth, s, [])
      else (ROk, set_custom s (remove_key key (custom s)), [])
  | OBank a d =>
      if (bal s a + d <? 0) || (a <? 0) then (RErr EFunds, s, [])
      else (ROk, {| props := props s; next_id := next_id s; gov_bal := gov_bal s;
                    bal := bal_add (bal s) a d; burned := burned s; pool_in := pool_in s;
                    ext := ext s; custom := custom s; gov_spent := gov_spent s |}, [])
  | OCorrupt pid => let '(r, s') := corrupt s pid in (r, s', [])
  end.

(* a history: the final state and the payout events of all steps, in order *)
Fixpoint run (P : params) (kf : keyfun) (s : state) (ops : list op) : state * list event :=
  match ops with
  | [] => (s, [])
  | o :: r =>
      let '(_, s1, e1) := step P kf s o in
      let '(s2, e2) := run P kf s1 r in (s2, e1 ++ e2)
  end.

(* ------------------------------------------------------------------ governance parameters change too *)
(* SDK MsgUpdateParams (authority-guarded, Params.ValidateBasic): the Params record is replaced as a
   whole; nothing stored in a proposal is touched.  Every keeper function reads Params afresh, so
   from the next operation on the new values are in force. *)
Inductive gop :=
| GOp (o : op)
| GSetParams (authorized valid : bool) (P' : params).

Definition gstep (kf : keyfun) (ps : params * state) (g : gop) : result * (params * state) * list event :=
  match g with
  | GOp o => let '(r, s', ev) := step (fst ps) kf (snd ps) o in (r, (fst ps, s'), ev)
  | GSetParams authorized valid P' =>
      if negb authorized then (RErr EAuth, ps, [])
      else if negb valid then (RErr EInvalid, ps, [])
      else (ROk, (P', snd ps), [])
  end.

Fixpoint grun (kf : keyfun) (ps : params * state) (gops : list gop) : (params * state) * list event :=
  match gops with
  | [] => (ps, [])
  | g :: r =>
      let '(_, ps1, e1) := gstep kf ps g in
      let '(ps2, e2) := grun kf ps1 r in (ps2, e1 ++ e2)
  end.
