(* glue for the correspondence files Cases_C15*.v written by harness/c15:
   a case is a whole history on the real application; after every operation the harness records
   what the real stores show; gov_mismatch replays the history on the model and compares. *)
From Coq Require Import ZArith List Bool.
From FxV Require Import lib.Dec model.M_Gov model.M_GovShape gen.Gen_GovShape.
Import ListNotations.
Open Scope Z_scope.

Record pobs := { po_id : Z; po_status : Z; po_exp : bool; po_total : Z; po_deps : list (Z * Z);
                 po_vend : Z; po_tally : list Z }.
(* ob_fx: what executed proposal messages and payouts left outside the governance module, as far as
   the harness can read it back:
   [parity of the erc20 pair's enabled flag; crosschain eth AverageBlockTime;
    total supply of the deposit denomination relative to the start of the history, net of the
    harness's own mints (inflation is switched off in the harness chain);
    community pool balance of the deposit denomination relative to the start] *)
Record obs := { ob_res : Z; ob_props : list pobs; ob_gov : Z; ob_bals : list (Z * Z);
                ob_inactive : list Z; ob_active : list Z; ob_fx : list Z }.

Record gov_case := { gc_fixed : bool; gc_params : params; gc_bals : list (Z * Z);
                     gc_custom : list (Z * cparams); gc_abt0 : Z; gc_steps : list (gop * obs) }.

Definition mk_params (mind expd maxdep vp evp q th eth veto mir mdr cr : Z) (cd : dest)
           (bp bq bv : bool) : params :=
  {| min_deposit := mind; exp_min_deposit := expd; max_deposit_period := maxdep; voting_period := vp;
     exp_voting_period := evp; quorum := q; threshold := th; exp_threshold := eth; veto_threshold := veto;
     min_initial_ratio := mir; min_deposit_ratio := mdr; cancel_ratio := cr; cancel_dest := cd;
     burn_prevote := bp; burn_quorum := bq; burn_veto := bv;
     bad_inactive_dequeued := sh_bad_inactive_dequeued gen_shape;
     bad_active_dequeued_by_key := sh_bad_active_dequeued_by_key gen_shape |}.
Definition mk_cp (r p q : Z) : cparams := {| c_ratio := r; c_period := p; c_quorum := q |}.
Definition mk_msg (t : Z) (sp : coins) (a : action) : msg := {| m_type := t; m_spend := sp; m_act := a |}.
Definition mk_stk (v d : list (Z * Z * Z)) (tb now : Z) : staking :=
  {| st_vals := v; st_dels := d; st_total_bonded := tb; st_time := now |}.
Definition mk_pobs (id st : Z) (e : bool) (tot : Z) (deps : list (Z * Z)) (vend : Z) (t : list Z) : pobs :=
  {| po_id := id; po_status := st; po_exp := e; po_total := tot; po_deps := deps; po_vend := vend; po_tally := t |}.
Definition mk_obs (r : Z) (ps : list pobs) (g : Z) (b : list (Z * Z)) (ia ac fxs : list Z) : obs :=
  {| ob_res := r; ob_props := ps; ob_gov := g; ob_bals := b; ob_inactive := ia; ob_active := ac; ob_fx := fxs |}.
Definition mk_gov_case (fixed : bool) (P : params) (b : list (Z * Z)) (c : list (Z * cparams)) (abt0 : Z)
           (st : list (gop * obs)) : gov_case :=
  {| gc_fixed := fixed; gc_params := P; gc_bals := b; gc_custom := c; gc_abt0 := abt0; gc_steps := st |}.

(* effect tags used by the harness: 400000.. = one ToggleTokenConversion of the registered pair,
   5000..7999 = crosschain MsgUpdateParams setting AverageBlockTime to the tag *)
Definition toggle_parity (e : list Z) : Z :=
  Z.of_nat (length (filter (fun t => (400000 <=? t) && (t <? 500000)) e)) mod 2.
Definition last_abt (abt0 : Z) (e : list Z) : Z :=
  match filter (fun t => (5000 <=? t) && (t <? 8000)) e with t :: _ => t | [] => abt0 end.
(* 10^40 + a = a community-pool spend of a units of the deposit denomination *)
Definition spend_base : Z := 10 ^ 40.
Definition spent_from_pool (e : list Z) : Z :=
  fold_right (fun t acc => if spend_base <=? t then (t - spend_base) + acc else acc) 0 e.

Definition ecode_num (e : ecode) : Z :=
  match e with
  | ENotFound => 1 | EInactive => 2 | EDepositSmall => 3 | EDenom => 4 | EFunds => 5 | EMixed => 6
  | EInvalid => 7 | EVote => 8 | EProposer => 9 | EBadStatus => 10 | EVotingEnded => 11 | EAuth => 12
  end.
Definition result_num (r : result) : Z :=
  match r with ROk => 0 | RHalt => -1 | RErr e => ecode_num e end.
Definition status_num (s : status) : Z :=
  match s with SDeposit => 1 | SVoting => 2 | SPassed => 3 | SRejected => 4 | SFailed => 5
             | SDropped => 6 | SCancelled => 7
             | SBadDeposit => 8 | SBadVoting => 9 | SStale => 10 | SFailedBad => 5 end.

Fixpoint insert_pair (k : Z * Z) (l : list (Z * Z)) : list (Z * Z) :=
  match l with
  | [] => [k]
  | k' :: r => if fst k <=? fst k' then k :: l else k' :: insert_pair k r
  end.
Definition sort_pairs (l : list (Z * Z)) : list (Z * Z) := fold_right insert_pair [] l.

(* the minimal record failUnsupportedProposal writes: id, FAILED, nothing else *)
Definition project_failed_bad (p : proposal) : pobs :=
  {| po_id := p_id p; po_status := 5; po_exp := false; po_total := 0; po_deps := []; po_vend := 0;
     po_tally := [0; 0; 0; 0] |}.

Definition project_prop (p : proposal) : pobs :=
  match p_status p with SFailedBad => project_failed_bad p | _ =>
  {| po_id := p_id p; po_status := status_num (p_status p); po_exp := p_expedited p;
     po_total := p_total p;
     po_deps := if is_open (p_status p) then sort_pairs (p_deps p) else [];
     po_vend := match p_status p with SDeposit | SBadDeposit => 0 | _ => p_vend p end;
     po_tally := [t_yes (p_tally p); t_abstain (p_tally p); t_no (p_tally p); t_veto (p_tally p)] |}
  end.

Definition project (abt0 : Z) (r : result) (s : state) (accts : list Z) : obs :=
  {| ob_res := result_num r;
     ob_props := map project_prop (filter (fun p => negb (is_removed (p_status p))) (props s));
     ob_gov := gov_bal s;
     ob_bals := map (fun a => (a, bal s a)) accts;
     ob_inactive := map snd (inactive_queue (props s));
     ob_active := map snd (active_queue (props s));
     ob_fx := [toggle_parity (ext s); last_abt abt0 (ext s); - burned s;
               pool_in s - spent_from_pool (ext s)] |}.

Fixpoint list_eqb {A} (e : A -> A -> bool) (a b : list A) : bool :=
  match a, b with
  | [], [] => true
  | x :: r, y :: r' => e x y && list_eqb e r r'
  | _, _ => false
  end.
Definition pair_eqb (a b : Z * Z) : bool := (fst a =? fst b) && (snd a =? snd b).
Definition pobs_eqb (a b : pobs) : bool :=
  (po_id a =? po_id b) && (po_status a =? po_status b) && Bool.eqb (po_exp a) (po_exp b)
  && (po_total a =? po_total b) && list_eqb pair_eqb (po_deps a) (po_deps b)
  && (po_vend a =? po_vend b) && list_eqb Z.eqb (po_tally a) (po_tally b).
Definition obs_eqb (a b : obs) : bool :=
  (ob_res a =? ob_res b) && list_eqb pobs_eqb (ob_props a) (ob_props b) && (ob_gov a =? ob_gov b)
  && list_eqb pair_eqb (ob_bals a) (ob_bals b) && list_eqb Z.eqb (ob_inactive a) (ob_inactive b)
  && list_eqb Z.eqb (ob_active a) (ob_active b) && list_eqb Z.eqb (ob_fx a) (ob_fx b).

Definition bal_of_list (l : list (Z * Z)) : Z -> Z := fun a => amount_of a l.

(* index of the first step whose observation differs from the model (-1: none) *)
Fixpoint first_bad (kf : keyfun) (abt0 : Z) (ps : params * state) (i : Z) (st : list (gop * obs)) : Z :=
  match st with
  | [] => -1
  | (o, ob) :: r =>
      let '(res, ps', _) := gstep kf ps o in
      if obs_eqb (project abt0 res (snd ps') (map fst (ob_bals ob))) ob then first_bad kf abt0 ps' (i + 1) r else i
  end.

Definition gov_first_bad (c : gov_case) : Z :=
  first_bad (if shape_is_fixed gen_shape then kf_fixed else kf_code) (gc_abt0 c)
            (gc_params c, init (bal_of_list (gc_bals c)) (gc_custom c)) 0 (gc_steps c).

(* the key function is the one the translator read off the sources (gen_shape); the harness's dynamic
   probe of the three exported lookup functions (gc_fixed) must agree with that reading *)
Definition gov_mismatch (c : gov_case) : bool :=
  negb (gov_first_bad c =? -1) || negb (Bool.eqb (gc_fixed c) (shape_is_fixed gen_shape)).

(* for debugging a mismatch by hand: what the model shows after step i *)
Fixpoint model_obs_at (kf : keyfun) (abt0 : Z) (ps : params * state) (i : nat) (st : list (gop * obs)) : option obs :=
  match st with
  | [] => None
  | (o, ob) :: r =>
      let '(res, ps', _) := gstep kf ps o in
      match i with
      | O => Some (project abt0 res (snd ps') (map fst (ob_bals ob)))
      | S j => model_obs_at kf abt0 ps' j r
      end
  end.
Definition gov_model_obs (c : gov_case) (i : nat) : option obs :=
  model_obs_at (if shape_is_fixed gen_shape then kf_fixed else kf_code) (gc_abt0 c)
               (gc_params c, init (bal_of_list (gc_bals c)) (gc_custom c)) i (gc_steps c).
