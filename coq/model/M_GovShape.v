(* M_GovShape.v — the syntactic shape of fx-core's governance code that model.M_Gov transcribes,
   as a record of facts (filled in from the current sources by harness/gen_c15 -> gen/Gen_GovShape.v),
   and the model's step functions re-stated as functions OF that shape where the shape decides the
   behaviour.  proofs/P_Gov5.v proves that under the generated facts they are M_Gov's functions.
   No proofs here. *)
From Coq Require Import ZArith List Bool.
From FxV Require Import lib.Dec model.M_Gov.
Import ListNotations.
Open Scope Z_scope.

(* which expression yields the type URL a stored proposal message is looked up under *)
Inductive key_expr :=
| KAnyName    (* sdk.MsgTypeURL(msg), msg : *codectypes.Any  => always "/google.protobuf.Any" *)
| KTypeUrl.   (* msg.TypeUrl                                  => the wrapped message's URL    *)

(* what checkProposalMsgs compares between consecutive proposal messages *)
Inductive cmp_expr :=
| CmpTypeURL   (* sdk.MsgTypeURL(pMsg) of the unpacked message, both in the comparison and in the carry *)
| CmpOther.    (* anything else (e.g. the Go type name, which is the same for every module's MsgUpdateParams) *)

(* abci.go, callback of the active-queue walk, top-level statements in source order *)
Inductive eb_step := EB_Tally | EB_Payout | EB_Dequeue | EB_Outcome | EB_SetTally | EB_Save.
(* deposit.go AddDeposit, top-level statements after the validation prelude, in source order *)
Inductive dep_step := D_Send | D_Total | D_Save | D_MinReq | D_Activate | D_GetRecord | D_Hook | D_SetRecord.
(* tally.go, the early-return checks after the vote loops, in source order *)
Inductive tally_check := TC_NoBonded | TC_Quorum | TC_AllAbstain | TC_Veto | TC_Threshold.

Record gov_shape := {
  (* --- EndBlocker, a proposal whose voting period ended --- *)
  sh_eb_order : list eb_step;
  sh_payout_guard : bool;        (* the payout is guarded by exactly  !(proposal.Expedited && !passes) *)
  sh_dequeue_key_voting_end : bool; (* Remove(Join(proposal.VotingEndTime, proposal.Id)) *)
  sh_cache_before_loop : bool;   (* cacheCtx, writeCache := ctx.CacheContext() precedes the message loop *)
  sh_cache_in_loop : Z;          (* CacheContext() calls inside the loop body *)
  sh_exec_on_cache : bool;       (* the handler runs on cacheCtx *)
  sh_err_plain_assign : bool;    (* res, err = safeExecuteHandler(...)  — '=' not ':=' (no shadowing) *)
  sh_break_on_err : bool;        (* if err != nil { break } right after it *)
  sh_write_in_loop : Z;          (* writeCache() calls inside the loop body *)
  sh_write_in_ok_branch : Z;     (* ... inside  if err == nil { } after the loop *)
  sh_write_elsewhere : Z;        (* ... anywhere else in the case *)
  sh_passed_in_ok_branch : bool; (* Status = StatusPassed only there *)
  sh_failed_in_else_branch : bool;
  sh_conv_requeue_after_reassign : bool; (* expedited: VotingEndTime reassigned, then Set(Join(VotingEndTime, Id)) *)
  sh_conv_period_default : bool; (* ... with VotingStartTime.Add(params.VotingPeriod) *)
  (* --- AddDeposit --- *)
  sh_dep_order : list dep_step;
  sh_dep_ok_returns_before_record : Z; (* return statements with a nil error between the bank transfer and SetDeposit *)
  (* --- ActivateVotingPeriod --- *)
  sh_act_inactive_remove_unconditional : bool;
  sh_act_inactive_key_deposit_end : bool;
  sh_act_active_key_voting_end : bool;
  (* --- custom-parameter lookups --- *)
  sh_egf_key : key_expr;   (* GetMinDepositAmountFromProposalMsgs *)
  sh_type_key : key_expr;  (* getProposalMsgType *)
  (* --- Tally --- *)
  sh_tally_checks : list tally_check;
  (* --- SubmitProposal: checkProposalMsgs --- *)
  sh_mixed_compare : cmp_expr;
  sh_mixed_fold : bool; (* compared with strings.EqualFold *)
  (* --- GetCustomMsgQuorum / GetCustomMsgVotingPeriod --- *)
  (* the body is exactly: look the key up; if found return the STORED field; else return the default —
     no other return, i.e. no stored value (0 included) is ever replaced by the default *)
  sh_quorum_default_only_absent : bool;
  sh_period_default_only_absent : bool;
  (* --- EndBlocker, the ErrEncoding branches (undecodable proposal record) --- *)
  sh_bad_inactive_dequeued : bool;        (* InactiveProposalsQueue.Remove(ctx, key) with the walk's key *)
  sh_bad_active_dequeued_by_key : bool    (* ActiveProposalsQueue.Remove(ctx, key) rather than by the zero record's VotingEndTime *) }.

(* ------------------------------------------------------------------ the shape M_Gov transcribes *)
Definition model_eb_order : list eb_step := [EB_Tally; EB_Payout; EB_Dequeue; EB_Outcome; EB_SetTally; EB_Save].
Definition model_dep_order : list dep_step :=
  [D_Send; D_Total; D_Save; D_MinReq; D_Activate; D_GetRecord; D_Hook; D_SetRecord].
Definition model_tally_checks : list tally_check := [TC_NoBonded; TC_Quorum; TC_AllAbstain; TC_Veto; TC_Threshold].

Definition eb_step_eqb (a b : eb_step) : bool :=
  match a, b with
  | EB_Tally, EB_Tally | EB_Payout, EB_Payout | EB_Dequeue, EB_Dequeue | EB_Outcome, EB_Outcome
  | EB_SetTally, EB_SetTally | EB_Save, EB_Save => true
  | _, _ => false
  end.
Definition dep_step_eqb (a b : dep_step) : bool :=
  match a, b with
  | D_Send, D_Send | D_Total, D_Total | D_Save, D_Save | D_MinReq, D_MinReq | D_Activate, D_Activate
  | D_GetRecord, D_GetRecord | D_Hook, D_Hook | D_SetRecord, D_SetRecord => true
  | _, _ => false
  end.
Definition tally_check_eqb (a b : tally_check) : bool :=
  match a, b with
  | TC_NoBonded, TC_NoBonded | TC_Quorum, TC_Quorum | TC_AllAbstain, TC_AllAbstain | TC_Veto, TC_Veto
  | TC_Threshold, TC_Threshold => true
  | _, _ => false
  end.
Fixpoint leqb {A} (e : A -> A -> bool) (a b : list A) : bool :=
  match a, b with
  | [], [] => true
  | x :: r, y :: r' => e x y && leqb e r r'
  | _, _ => false
  end.

(* the derived-queue abstraction of M_Gov (queues = status sets keyed by the proposal's own end time,
   the end blocker dequeues the entry it is processing before the outcome may re-key the proposal)
   is the right one exactly when: *)
Definition queue_shape_ok (sh : gov_shape) : bool :=
  leqb eb_step_eqb (sh_eb_order sh) model_eb_order
  && sh_dequeue_key_voting_end sh && sh_conv_requeue_after_reassign sh
  && sh_act_inactive_remove_unconditional sh && sh_act_inactive_key_deposit_end sh
  && sh_act_active_key_voting_end sh.

(* ------------------------------------------------------------------ message execution, as a function of the shape *)
(* run the messages one after the other on one state; stop at the first failure *)
Fixpoint exec_prefix (e : xenv) (s : state) (ms : list msg) : state * bool :=
  match ms with
  | [] => (s, true)
  | m :: r => match exec_one e s m with Some s' => exec_prefix e s' r | None => (s, false) end
  end.

(* what the `case passes:` block leaves behind and which status it sets *)
Definition exec_outcome_sh (sh : gov_shape) (e : xenv) (s1 : state) (ms : list msg) : state * status :=
  let '(sp, ok) := exec_prefix e s1 ms in
  if ok then (sp, SPassed)
  else
    (* effects of the successful prefix survive if they were not made on one branch opened before the
       loop, or if that branch is written message by message, or if the failure is not seen after the
       loop (shadowed err) and the success path writes the branch *)
    let isolated := sh_cache_before_loop sh && sh_exec_on_cache sh && (sh_cache_in_loop sh =? 0)
                    && (sh_write_in_loop sh =? 0) && (sh_write_elsewhere sh =? 0) in
    let failure_seen := sh_err_plain_assign sh && sh_break_on_err sh in
    let written_anyway := negb failure_seen && (0 <? sh_write_in_ok_branch sh) in
    (if isolated && negb written_anyway then s1 else sp,
     if failure_seen && sh_failed_in_else_branch sh then SFailed else SPassed).

(* ------------------------------------------------------------------ AddDeposit's record write *)
Definition deposited_sh (sh : gov_shape) (P : params) (kf : keyfun) (cust : list (Z * cparams))
           (now dep amt : Z) (p : proposal) : proposal :=
  let q := deposited P kf cust now dep amt p in
  if leqb dep_step_eqb (sh_dep_order sh) model_dep_order && (sh_dep_ok_returns_before_record sh =? 0)
  then q
  else (* some path returns success after the transfer without writing the record *)
    {| p_id := p_id q; p_status := p_status q; p_msgs := p_msgs q; p_proposer := p_proposer q;
       p_expedited := p_expedited q; p_total := p_total q; p_deps := p_deps p;
       p_submit := p_submit q; p_dep_end := p_dep_end q; p_vstart := p_vstart q; p_vend := p_vend q;
       p_votes := p_votes q; p_tally := p_tally q; p_act_total := p_act_total q; p_act_req := p_act_req q;
       p_act_period := p_act_period q; p_quorum_used := p_quorum_used q |}.

(* ------------------------------------------------------------------ stored value or default *)
(* M_Gov.quorum_for / period_for return the stored field whenever an entry exists.  If the code has
   further fallbacks nothing is claimed about stored values. *)
Definition quorum_for_sh (sh : gov_shape) (P : params) (kf : keyfun) (cust : list (Z * cparams)) (p : proposal) : Z :=
  if sh_quorum_default_only_absent sh then quorum_for P kf cust p else quorum P.
Definition period_for_sh (sh : gov_shape) (P : params) (kf : keyfun) (cust : list (Z * cparams)) (p : proposal) : Z :=
  if sh_period_default_only_absent sh then period_for P kf cust p
  else if p_expedited p then exp_voting_period P else voting_period P.

(* ------------------------------------------------------------------ the single-type check *)
(* M_Gov.check_msgs compares message type ids (= type URLs up to case).  If the code compares
   something else nothing is claimed about which mixes it refuses. *)
Definition check_msgs_sh (sh : gov_shape) (ms : list msg) : bool :=
  match sh_mixed_compare sh with
  | CmpTypeURL => if sh_mixed_fold sh then check_msgs ms else check_msgs ms
  | CmpOther => true
  end.

(* ------------------------------------------------------------------ the lookup key *)
Definition kf_of_shape (sh : gov_shape) : keyfun :=
  {| kf_key := match sh_type_key sh with KAnyName => kf_key kf_code | KTypeUrl => kf_key kf_fixed end;
     kf_is_egf := match sh_egf_key sh with KAnyName => kf_is_egf kf_code | KTypeUrl => kf_is_egf kf_fixed end |}.

Definition shape_is_fixed (sh : gov_shape) : bool :=
  match sh_type_key sh, sh_egf_key sh with KTypeUrl, KTypeUrl => true | _, _ => false end.
Definition shape_keys_consistent (sh : gov_shape) : bool :=
  match sh_type_key sh, sh_egf_key sh with
  | KTypeUrl, KTypeUrl | KAnyName, KAnyName => true
  | _, _ => false
  end.
