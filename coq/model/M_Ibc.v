(* C19 — IBC transfers through the fx middleware: executable model, faithful to the code as it is.

     x/ibc/middleware/ibc_middleware.go      IBCMiddleware.OnRecvPacket / OnAcknowledgementPacket / OnTimeoutPacket
     x/ibc/middleware/keeper/relay.go        OnRecvPacket, refundPacketTokenHook
     x/ibc/middleware/keeper/ibc_call.go     HandlerIbcCall / HandlerIbcCallEvm
     x/ibc/middleware/types/address.go       IntermediateSender
     x/crosschain/keeper/many_to_one.go      IBCCoinToBaseCoin, BaseCoinToIBCCoin, IBCCoinToEvm, IBCCoinRefund, AfterIBCAckSuccess
     x/erc20/keeper/transfer_relation.go     IbcRefund, Set/DeleteIBCTransferRelation, DeleteOutgoingTransferRelation
     x/crosschain/precompile/keeper.go       ibcTransfer (crossChain precompile)
     ibc-go v8.5.1 transfer keeper           OnRecvPacket, refundPacketToken, sendTransfer
     ibc-go v8.5.1 core keeper               RecvPacket cache rule (M_Cache.core_recv), commitment check of Acknowledgement / Timeout

   Token kinds as they behave in this snapshot:
     FX        the native coin; comes back over IBC out of escrow, stays the native (EVM) balance
     Own t     the IBC voucher denom ibc/HASH is itself the coin of ERC-20 pair t (one-to-one registration)
     Alias t   a base token t that lists the voucher denom as an alias (many-to-one registration)
     Unreg     a foreign denom nobody registered
   ibc-go's transfer module gives every voucher bank metadata on receipt, so crosschain's ManyToOne (HasToken) takes a
   received voucher for a base denom of its own: an Own voucher converts through pair t, an Alias voucher finds no pair
   of that name and the packet is refused.  On the way out the precompile refuses ibc/ denoms, so only Alias tokens
   leave from the EVM.  No proofs in this file. *)
From Coq Require Import ZArith List Bool.
From FxV Require Import model.M_Cache.
Import ListNotations.
Open Scope Z_scope.

(* ---- ledger keys: (holder, asset kind, token) ---- *)
Definition ACoin    : Z := 0.   (* bank: the pair's coin (Own: the voucher; Alias: the base coin) *)
Definition AVoucher : Z := 1.   (* bank: the voucher denom of an Alias token / of an unregistered denom *)
Definition AErc     : Z := 2.   (* ERC-20 of pair t *)
Definition AFx      : Z := 3.   (* native FX (token component 0) *)
Definition Callee      : Z := 60.                   (* the contract a memo call is addressed to (one fixed callee in the harness) *)
Definition BlockedAddr : Z := 90.                   (* an address the bank refuses to credit (module account / blocked list) *)
Definition ModTransfer : Z := -4.                   (* ibc transfer module account: the voucher pool *)
Definition Escrow (chan : Z) : Z := - (10 + chan).  (* ICS-20 escrow account of a local channel, chan >= 0 *)
(* ModErc20 = -2 and Supply = -3 from M_Cache *)

Inductive denom := DFx | DOwn (t : Z) | DAlias (t : Z) | DUnreg
  | DBase (t : Z).   (* the BASE coin of bridged token t itself: left by a plain ICS-20 transfer (escrowed), comes home unwound *)

Inductive memo :=
| NoMemo
| MemoText                       (* not an IbcCallEvmPacket JSON: ignored *)
| MemoBad                        (* a call packet that fails ValidateBasic *)
| MemoCall (fails : bool) (v : Z). (* a well-formed call: whether the callee fails, and the value (FX) it is sent with *)

Record inpacket := {
  ip_src : Z;            (* source channel on the remote chain *)
  ip_dst : Z;            (* our channel *)
  ip_sender : Z;         (* remote sender (opaque string, here an id) *)
  ip_denom : denom;
  ip_amt : Z;
  ip_addr_ok : bool;     (* receiver parses as bech32 or 0x *)
  ip_hex : bool;         (* … as 0x *)
  ip_recv : Z;
  ip_memo : memo }.

Record packet := { p_chan : Z; p_seq : Z; p_sender : Z; p_denom : denom; p_amt : Z }.

Inductive event :=
| EvSendEvm (chan seq : Z)           (* a transfer started from the EVM got this (channel, sequence) *)
| EvReconv (chan seq sender t amt : Z)  (* refund re-converted to ERC-20 *)
| EvCredit (recv t amt : Z)          (* inbound amount credited as ERC-20 *)
| EvCall (from : Z).                 (* memo call executed with this EVM sender *)

Record ist := {
  ibal : ledger;
  rel : list (Z * Z);            (* erc20 store prefix 0x04: channel/sequence *)
  nextseq : Z -> Z;              (* next send sequence per channel *)
  commits : list packet;         (* ibc core: packet commitments of packets in flight *)
  sent : list packet;            (* ghost: every packet ever sent *)
  pair_on : Z -> bool;           (* token pair t enabled *)
  has_acct : Z -> bool;          (* an auth account exists at this address (the bank creates one for a first-time recipient) *)
  chanid : Z -> Z;               (* static: the number N in the id "channel-N" of model channel c *)
  ilog : list event }.           (* ghost *)

Definition with_bal (s : ist) (l : ledger) : ist :=
  {| ibal := l; rel := rel s; nextseq := nextseq s; commits := commits s; sent := sent s;
     pair_on := pair_on s; has_acct := has_acct s; chanid := chanid s; ilog := ilog s |}.
Definition with_log (s : ist) (e : event) : ist :=
  {| ibal := ibal s; rel := rel s; nextseq := nextseq s; commits := commits s; sent := sent s;
     pair_on := pair_on s; has_acct := has_acct s; chanid := chanid s; ilog := ilog s ++ [e] |}.
Definition with_rel (s : ist) (r : list (Z * Z)) : ist :=
  {| ibal := ibal s; rel := r; nextseq := nextseq s; commits := commits s; sent := sent s;
     pair_on := pair_on s; has_acct := has_acct s; chanid := chanid s; ilog := ilog s |}.
Definition with_commits (s : ist) (c : list packet) : ist :=
  {| ibal := ibal s; rel := rel s; nextseq := nextseq s; commits := c; sent := sent s;
     pair_on := pair_on s; has_acct := has_acct s; chanid := chanid s; ilog := ilog s |}.

Definition cs_eqb (a b : Z * Z) : bool := (fst a =? fst b) && (snd a =? snd b).
Definition in_rel (r : list (Z * Z)) (c q : Z) : bool := existsb (cs_eqb (c, q)) r.
Definition del_rel (r : list (Z * Z)) (c q : Z) : list (Z * Z) := filter (fun x => negb (cs_eqb (c, q) x)) r.

(* bank: move / mint / burn with the insufficient-funds check *)
(* bank SendCoins: a recipient that has no auth account yet gets one (x/bank keeper SendCoins: HasAccount / NewAccountWithAddress) *)
Definition with_acct (s : ist) (a : Z) : ist :=
  {| ibal := ibal s; rel := rel s; nextseq := nextseq s; commits := commits s; sent := sent s;
     pair_on := pair_on s; has_acct := fun x => (x =? a) || has_acct s x; chanid := chanid s; ilog := ilog s |}.
Definition pay (s : ist) (from to kind t amt : Z) : result ist :=
  if ibal s (from, kind, t) <? amt then Err s
  else Ok (with_acct (with_bal s (ladd (ladd (ibal s) (from, kind, t) (- amt)) (to, kind, t) amt)) to).
Definition mint (s : ist) (to kind t amt : Z) : ist :=
  with_bal s (ladd (ladd (ibal s) (to, kind, t) amt) (Supply, kind, t) amt).
Definition burn (s : ist) (from kind t amt : Z) : result ist :=
  if ibal s (from, kind, t) <? amt then Err s
  else Ok (with_bal s (ladd (ladd (ibal s) (from, kind, t) (- amt)) (Supply, kind, t) (- amt))).

(* erc20 ConvertCoin(coin of pair t, amount) for `who` (native-coin pair): escrow the coin in the erc20 module, mint ERC-20 *)
(* MintingEnabled: the module-wide governance parameter EnableErc20 first, then the pair's own switch.
   The parameter is kept in pair_on under the pseudo pair id Erc20Switch (toggled by TogglePair Erc20Switch). *)
Definition Erc20Switch : Z := -1.
(* "the voucher denoms of Alias tokens have bank metadata of their own", kept in pair_on under the pseudo pair id VoucherMeta.
   False on a running chain (an inbound Alias voucher is refused, and the metadata ibc-go wrote during that receive is
   discarded with it); ibc-go's transfer InitGenesis writes metadata for EVERY stored denom trace, so it is true after a
   genesis export / import (op ExportImport).  From then on crosschain's ManyToOne (HasToken = HasDenomMetaData) takes the
   voucher for a base denom of its own and IBCCoinToBaseCoin no longer swaps it for the base coin. *)
Definition VoucherMeta : Z := -2.
Definition convert_coin (who t amt : Z) (s : ist) : result ist :=
  if negb (pair_on s Erc20Switch && pair_on s t) then Err s else
  bind (pay s who ModErc20 ACoin t amt) (fun s1 => Ok (mint s1 who AErc t amt)).

(* crosschain BaseDenomToBridgeDenom picks the ibc alias of a base token for an IBC target by
     strings.HasPrefix(denomTrace.GetPath(), "transfer/channel-N")
   — a PREFIX match on the text: the alias bound to channel-11 is also taken for the target channel-1.  On numbers: the decimal
   digits of a are a prefix of the decimal digits of b. *)
Fixpoint dec_prefix_fuel (n : nat) (a b : Z) : bool :=
  (a =? b) || match n with O => false | S n' => if b <? 10 then false else dec_prefix_fuel n' a (b / 10) end.
Definition dec_prefix (a b : Z) : bool := dec_prefix_fuel 20 a b.

(* the asset a received / refunded voucher of this denom is held in *)
Definition voucher_asset (d : denom) : Z * Z :=
  match d with DFx => (AFx, 0) | DOwn t => (ACoin, t) | DAlias t => (AVoucher, t) | DUnreg => (AVoucher, -1) | DBase t => (ACoin, t) end.

(* the receive-side rule of the middleware hook as a function of (denom class, receiver class) *)
Inductive recv_rule :=
| RKeepNative            (* FX: stays the native balance, hex or bech32 receiver *)
| RRefuse                (* any other coin to a bech32 receiver: "only support hex address" *)
| RPairOfVoucher (t : Z) (* voucher that is the coin of pair t: swapped for itself, then ConvertCoin through pair t *)
| RPairOfBase (t : Z)    (* base coin of bridged token t come home: ConvertCoin through pair t *)
| RNoPair.               (* alias-only or unregistered voucher: no pair under the voucher's name, refused *)
Definition recv_rule_of (d : denom) (hex : bool) : recv_rule :=
  match d with
  | DFx => RKeepNative
  | DOwn t => if hex then RPairOfVoucher t else RRefuse
  | DBase t => if hex then RPairOfBase t else RRefuse
  | DAlias _ | DUnreg => if hex then RNoPair else RRefuse
  end.

(* ------------------------------------------------------------------------------------------ *)
Section Ibc.
  (* IntermediateSender(sourcePort, sourceChannel, sender): hash-derived address *)
  Variable isender : Z -> Z -> Z.

  (** ** receive *)

  (* ibc-go transfer Keeper.OnRecvPacket on the packet with the receiver rewritten to bech32 *)
  Definition transfer_recv (p : inpacket) (s : ist) : result ist :=
    if ip_amt p <=? 0 then Err s else            (* FungibleTokenPacketData.ValidateBasic *)
    if ip_recv p =? BlockedAddr then Err s else  (* unescrow: explicit BlockedAddr check; vouchers: SendCoinsFromModuleToAccount refuses *)
    match ip_denom p with
    | DFx => pay s (Escrow (ip_dst p)) (ip_recv p) AFx 0 (ip_amt p)       (* unescrow *)
    | DBase t => pay s (Escrow (ip_dst p)) (ip_recv p) ACoin t (ip_amt p) (* unescrow *)
    | d => let (k, t) := voucher_asset d in                               (* mint the voucher, send it to the receiver *)
           pay (mint s ModTransfer k t (ip_amt p)) ModTransfer (ip_recv p) k t (ip_amt p)
    end.

  (* crosschain IBCCoinToBaseCoin for a voucher that has bank metadata of its own (every received voucher):
     the "base coin" is the voucher itself — it is parked in the transfer module and minted afresh *)
  Definition voucher_to_self (who k t amt : Z) (s : ist) : result ist :=
    bind (pay s who ModTransfer k t amt) (fun s1 =>
    pay (mint s1 ModTransfer k t amt) ModTransfer who k t amt).

  (* HandlerIbcCall: the memo step of the hook *)
  Definition memo_step (p : inpacket) (s1 : ist) : result ist :=
    match ip_memo p with
    | NoMemo | MemoText => Ok s1
    | MemoBad => Err s1
    | MemoCall fails v =>
        let from := isender (ip_src p) (ip_sender p) in
        if v <? 0 then Err s1 else                     (* IbcCallEvmPacket.ValidateBasic: Value.IsNegative() *)
        if negb (has_acct s1 from) then Err s1         (* x/evm CallEVM: GetSequence of an unknown account *)
        else if ibal s1 (from, AFx, 0) <? v then Err s1  (* the EVM refuses a call whose value the caller cannot pay *)
        else
          (* evmPacket.Value moves from the derived sender to the callee inside the call *)
          let s2 := with_bal s1 (ladd (ladd (ibal s1) (from, AFx, 0) (- v)) (Callee, AFx, 0) v) in
          if fails then Err (with_log s2 (EvCall from)) else Ok (with_log s2 (EvCall from))
    end.

  (* middleware Keeper.OnRecvPacket *)
  Definition hook_recv (p : inpacket) (s : ist) : result ist :=
    let conv :=
      match ip_denom p with
      | DFx => Ok s
      | DBase t =>
          if negb (ip_hex p) then Err s else
          (* IBCCoinToBaseCoin: not an ibc/ denom, nothing to swap; ConvertCoin through pair t *)
          bind (convert_coin (ip_recv p) t (ip_amt p) s)
               (fun s2 => Ok (with_log s2 (EvCredit (ip_recv p) t (ip_amt p))))
      | d =>
          if negb (ip_hex p) then Err s else          (* "only support hex address" *)
          let (k, t) := voucher_asset d in
          bind (voucher_to_self (ip_recv p) k t (ip_amt p) s) (fun s1 =>
          match d with
          | DOwn t' => bind (convert_coin (ip_recv p) t' (ip_amt p) s1)
                            (fun s2 => Ok (with_log s2 (EvCredit (ip_recv p) t' (ip_amt p))))
          | _ => Err s1                                 (* no token pair under the voucher's name *)
          end)
      end in
    bind conv (memo_step p).

  (* through the ibc-go core cache rule *)
  Definition recv (p : inpacket) (s : ist) : ist * bool :=
    core_recv ist (ip_addr_ok p) (transfer_recv p) (hook_recv p) (fun x => x) (fun _ x => x) s.

  (** ** send *)

  (* the voucher alias of token t (trace path transfer/channel-<chanid t>) is taken for the target channel `chan` *)
  Definition alias_matches (s : ist) (chan t : Z) : bool := dec_prefix (chanid s chan) (chanid s t).
  (* ibc-go sendTransfer with the voucher of channel t over channel `chan`: over its own channel the voucher goes home and is
     burnt; over another channel (reached by the prefix rule only) this chain counts as the SOURCE of the coin
     (the trace path does not start with "transfer/channel-<chan>/") and the voucher is escrowed *)
  Definition voucher_out (s : ist) (chan sender t amt : Z) : result ist :=
    if chan =? t then burn s sender AVoucher t amt else pay s sender (Escrow chan) AVoucher t amt.

  Definition new_packet (s : ist) (chan sender : Z) (d : denom) (amt : Z) (evm : bool) : ist :=
    let q := nextseq s chan in
    let pk := {| p_chan := chan; p_seq := q; p_sender := sender; p_denom := d; p_amt := amt |} in
    let s1 := {| ibal := ibal s; rel := if evm then (chan, q) :: rel s else rel s;
                 nextseq := fun c => if c =? chan then q + 1 else nextseq s c;
                 commits := pk :: commits s; sent := pk :: sent s;
                 pair_on := pair_on s; has_acct := has_acct s; chanid := chanid s;
                 ilog := if evm then ilog s ++ [EvSendEvm chan q] else ilog s |} in
    s1.

  (* crossChain precompile, ERC-20 of an Alias token to an IBC target *)
  Definition send_from_evm (chan sender : Z) (d : denom) (amt : Z) (s : ist) : result ist :=
    if amt <=? 0 then Err s else
    match d with
    | DAlias t =>
        (* convention: Alias token t lists the voucher of model channel t only; the alias is found by the prefix rule *)
        if negb (alias_matches s chan t) then Err s else
        (* handlerERC20Token: transferFrom to the erc20 module, burn, release the escrowed base coin *)
        bind (burn s sender AErc t amt) (fun s1 =>
        bind (pay s1 ModErc20 sender ACoin t amt) (fun s2 =>
        (* BaseCoinToIBCCoin: base coin burnt, voucher out of the transfer module's pool *)
        bind (burn s2 sender ACoin t amt) (fun s3 =>
        bind (pay s3 ModTransfer sender AVoucher t amt) (fun s4 =>
        (* ibc transfer; SendPacket; SetIBCTransferRelation *)
        bind (voucher_out s4 chan sender t amt) (fun s5 =>
        Ok (new_packet s5 chan sender d amt true))))))
    | DFx =>
        (* msg.value path (origin token): escrow, no relation *)
        bind (pay s sender (Escrow chan) AFx 0 amt) (fun s1 => Ok (new_packet s1 chan sender DFx amt false))
    | _ => Err s        (* "can not convert ibc denom" / no such pair *)
    end.

  (* a transfer that does not start in the EVM: MsgTransfer of FX or of a held voucher, or the bridge's SendToFx->IBC *)
  Definition send_plain (chan sender : Z) (d : denom) (amt : Z) (s : ist) : result ist :=
    if amt <=? 0 then Err s else
    match d with
    | DFx => bind (pay s sender (Escrow chan) AFx 0 amt) (fun s1 => Ok (new_packet s1 chan sender DFx amt false))
    | DOwn t => bind (burn s sender ACoin t amt) (fun s1 => Ok (new_packet s1 chan sender d amt false))
    | DAlias t =>
        if negb (alias_matches s chan t) then Err s else
        bind (burn s sender ACoin t amt) (fun s1 =>
        bind (pay s1 ModTransfer sender AVoucher t amt) (fun s2 =>
        bind (voucher_out s2 chan sender t amt) (fun s3 => Ok (new_packet s3 chan sender d amt false))))
    | DUnreg => Err s
    | DBase t =>      (* MsgTransfer of the base coin itself: this chain is the source, the coin is escrowed *)
        bind (pay s sender (Escrow chan) ACoin t amt) (fun s1 => Ok (new_packet s1 chan sender d amt false))
    end.

  (** ** acknowledgement / timeout callbacks of the application stack *)

  (* ibc-go refundPacketToken for the voucher of channel t sent over channel c: minted back (own channel) or unescrowed *)
  Definition voucher_back (s : ist) (c who t amt : Z) : result ist :=
    if c =? t then pay (mint s ModTransfer AVoucher t amt) ModTransfer who AVoucher t amt
    else pay s (Escrow c) who AVoucher t amt.

  (* transfer refundPacketToken + middleware refundPacketTokenHook -> IBCCoinRefund -> IbcRefund *)
  Definition refund (pk : packet) (s : ist) : result ist :=
    let who := p_sender pk in
    let amt := p_amt pk in
    let c := p_chan pk in let q := p_seq pk in
    match p_denom pk with
    | DFx =>
        bind (pay s (Escrow c) who AFx 0 amt) (fun s1 =>
        (* IbcRefund: relation check comes first even for FX *)
        if in_rel (rel s1) c q then Err (with_rel s1 (del_rel (rel s1) c q))   (* ConvertCoin(FX) — not modelled: never reached from real sends *)
        else Ok s1)
    | DOwn t =>
        (* voucher minted back to the sender; IBCCoinToBaseCoin: "base coin" = the voucher itself *)
        bind (pay (mint s ModTransfer ACoin t amt) ModTransfer who ACoin t amt) (fun s1 =>
        bind (voucher_to_self who ACoin t amt s1) (fun s2 =>
        if in_rel (rel s2) c q
        then bind (convert_coin who t amt (with_rel s2 (del_rel (rel s2) c q)))
                  (fun s3 => Ok (with_log s3 (EvReconv c q who t amt)))
        else Ok s2))
    | DAlias t =>
        if pair_on s VoucherMeta then
          (* after a genesis import: voucher minted back; IBCCoinToBaseCoin: "base coin" = the voucher itself;
             IbcRefund: a recorded transfer would be re-converted — ConvertCoin finds no pair under the voucher's name *)
          bind (voucher_back s c who t amt) (fun s1 =>
          bind (voucher_to_self who AVoucher t amt s1) (fun s2 =>
          if in_rel (rel s2) c q then Err (with_rel s2 (del_rel (rel s2) c q)) else Ok s2))
        else
        (* voucher minted back; IBCCoinToBaseCoin: voucher into the pool, base coin minted *)
        bind (voucher_back s c who t amt) (fun s1 =>
        bind (pay s1 who ModTransfer AVoucher t amt) (fun s2 =>
        bind (pay (mint s2 ModTransfer ACoin t amt) ModTransfer who ACoin t amt) (fun s3 =>
        if in_rel (rel s3) c q
        then bind (convert_coin who t amt (with_rel s3 (del_rel (rel s3) c q)))
                  (fun s4 => Ok (with_log s4 (EvReconv c q who t amt)))
        else Ok s3)))
    | DUnreg => Err s
    | DBase t =>
        (* unescrowed back to the sender; nothing to swap; IbcRefund: only a recorded transfer is re-converted *)
        bind (pay s (Escrow c) who ACoin t amt) (fun s1 =>
        if in_rel (rel s1) c q
        then bind (convert_coin who t amt (with_rel s1 (del_rel (rel s1) c q)))
                  (fun s2 => Ok (with_log s2 (EvReconv c q who t amt)))
        else Ok s1)
    end.

  (* OnAcknowledgementPacket: error ack -> refund; success -> AfterIBCAckSuccess -> DeleteIBCTransferRelation *)
  Definition on_ack (pk : packet) (ok : bool) (s : ist) : result ist :=
    if ok then Ok (with_rel s (del_rel (rel s) (p_chan pk) (p_seq pk))) else refund pk s.
  (* as it was before the fix "AfterIBCAckSuccess deletes the IBC transfer relation" (finding C19-1, snapshot 6774338):
     the success path deleted the outgoing-pool relation key (prefix 0x07) and left `rel` untouched *)
  Definition on_ack_prefix (pk : packet) (ok : bool) (s : ist) : result ist :=
    if ok then Ok s else refund pk s.
  Definition on_timeout (pk : packet) (s : ist) : result ist := refund pk s.

  Definition pk_is (c q : Z) (pk : packet) : bool := (p_chan pk =? c) && (p_seq pk =? q).
  Definition find_pk (l : list packet) (c q : Z) : option packet := find (pk_is c q) l.
  Definition del_pk (l : list packet) (c q : Z) : list packet := filter (fun pk => negb (pk_is c q pk)) l.

  (* ibc-go core Acknowledgement / Timeout: no commitment -> no-op; else delete it, run the callback; a callback
     error fails the message and the transaction keeps nothing *)
  Definition core_deliver (cb : packet -> ist -> result ist) (c q : Z) (s : ist) : ist :=
    match find_pk (commits s) c q with
    | None => s
    | Some pk => fst (tx (fun x => cb pk (with_commits x (del_pk (commits x) c q))) s)
    end.
  (* a duplicated / replayed delivery handed straight to the application callbacks (what the core prevents) *)
  Definition raw_deliver (cb : packet -> ist -> result ist) (c q : Z) (s : ist) : ist :=
    match find_pk (sent s) c q with
    | None => s
    | Some pk => fst (tx (cb pk) s)
    end.

  Inductive op :=
  | SendFromEvm (chan sender : Z) (d : denom) (amt : Z)
  | SendPlain (chan sender : Z) (d : denom) (amt : Z)
  | Recv (p : inpacket)
  | Ack (chan seq : Z) (ok : bool)
  | Timeout (chan seq : Z)
  | AckRaw (chan seq : Z) (ok : bool)
  | TimeoutRaw (chan seq : Z)
  | TogglePair (t : Z)
  | ExportImport.   (* ExportAppStateAndValidators, then a new app started from the exported genesis (InitChain) *)

  Definition step (s : ist) (o : op) : ist :=
    match o with
    | SendFromEvm c a d n => fst (tx (send_from_evm c a d n) s)
    | SendPlain c a d n => fst (tx (send_plain c a d n) s)
    | Recv p => fst (recv p s)
    | Ack c q ok => core_deliver (fun pk => on_ack pk ok) c q s
    | Timeout c q => core_deliver on_timeout c q s
    | AckRaw c q ok => raw_deliver (fun pk => on_ack pk ok) c q s
    | TimeoutRaw c q => raw_deliver on_timeout c q s
    | TogglePair t =>
        {| ibal := ibal s; rel := rel s; nextseq := nextseq s; commits := commits s; sent := sent s;
           pair_on := fun x => if x =? t then negb (pair_on s t) else pair_on s x;
           has_acct := has_acct s; chanid := chanid s; ilog := ilog s |}
    | ExportImport =>
        (* as the code is (finding C19-2): the erc20 genesis state carries params and token pairs only — the tracking records
           (store prefix 0x04) are not exported; ibc core exports commitments and sequences, bank / evm / auth everything;
           ibc-go transfer InitGenesis gives every stored denom trace bank metadata (VoucherMeta) *)
        {| ibal := ibal s; rel := []; nextseq := nextseq s; commits := commits s; sent := sent s;
           pair_on := fun x => if x =? VoucherMeta then true else pair_on s x;
           has_acct := has_acct s; chanid := chanid s; ilog := ilog s |}
    end.

  Definition run (ops : list op) (s : ist) : ist := fold_left step ops s.
End Ibc.

(* counting ghost events *)
Definition is_reconv (c q : Z) (e : event) : bool :=
  match e with EvReconv c' q' _ _ _ => (c' =? c) && (q' =? q) | _ => false end.
Definition is_sendevm (c q : Z) (e : event) : bool :=
  match e with EvSendEvm c' q' => (c' =? c) && (q' =? q) | _ => false end.
Definition count {A} (f : A -> bool) (l : list A) : nat := length (filter f l).
