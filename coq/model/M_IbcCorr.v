(* glue for Cases_C19.v written by harness/c19: histories of operations with what the real app showed after each *)
From Coq Require Import ZArith List Bool.
From FxV Require Import model.M_Cache model.M_CacheCorr model.M_Ibc.
Import ListNotations.
Open Scope Z_scope.

(* the harness numbers derived memo-call senders like this (injective for channel < 100, sender < 100) *)
Definition isender_c (chan sender : Z) : Z := 1000 + 100 * chan + sender.

Record obs := { o_kind : Z;                (* 0 = nothing to compare, 1 = success / success ack, 2 = failure / error ack *)
                o_bal : list (key * Z);    (* watched balances after the operation *)
                o_rel : list (Z * Z) }.    (* relation records after the operation *)
Definition mk_obs k b r : obs := {| o_kind := k; o_bal := b; o_rel := r |}.

Record hist := { h_bal : list (key * Z); h_pairs : list Z; h_accts : list Z; h_seq : list (Z * Z);
                 h_chanid : list (Z * Z);   (* model channel -> the number N of its id "channel-N" *)
                 h_ops : list (op * obs) }.
Definition mk_hist b p a q ci ops : hist := {| h_bal := b; h_pairs := p; h_accts := a; h_seq := q; h_chanid := ci; h_ops := ops |}.

Definition mk_in src dst sender d amt addr_ok hex recv m : inpacket :=
  {| ip_src := src; ip_dst := dst; ip_sender := sender; ip_denom := d; ip_amt := amt; ip_addr_ok := addr_ok;
     ip_hex := hex; ip_recv := recv; ip_memo := m |}.

Fixpoint lookup2 (l : list (Z * Z)) (c : Z) : Z :=
  match l with [] => 1 | (c', v) :: r => if c' =? c then v else lookup2 r c end.

(* channels the harness does not name get ids that are no decimal prefix of one another *)
Fixpoint lookup_id (l : list (Z * Z)) (c : Z) : Z :=
  match l with [] => 1000 + c | (c', v) :: r => if c' =? c then v else lookup_id r c end.

Definition h_init (h : hist) : ist :=
  {| ibal := lookup (h_bal h); rel := []; nextseq := lookup2 (h_seq h); commits := []; sent := [];
     pair_on := fun t => memZ t (h_pairs h); has_acct := fun a => memZ a (h_accts h); chanid := lookup_id (h_chanid h); ilog := [] |}.

(* one operation with its observable result class *)
Definition step_obs (s : ist) (o : op) : ist * Z :=
  match o with
  | Recv p => let (s', ok) := recv isender_c p s in (s', if ok then 1 else 2)
  | SendFromEvm c a d n => let (s', ok) := tx (send_from_evm c a d n) s in (s', if ok then 1 else 2)
  | SendPlain c a d n => let (s', ok) := tx (send_plain c a d n) s in (s', if ok then 1 else 2)
  | _ => (step isender_c s o, 0)
  end.

Definition rel_same (a b : list (Z * Z)) : bool :=
  (length a =? length b)%nat && forallb (fun x => existsb (cs_eqb x) b) a && forallb (fun x => existsb (cs_eqb x) a) b.

Definition obs_ok (s : ist) (k : Z) (o : obs) : bool :=
  ((o_kind o =? 0) || (o_kind o =? k)) && forallb (fun kv => ibal s (fst kv) =? snd kv) (o_bal o) && rel_same (rel s) (o_rel o).

Fixpoint hist_run (s : ist) (ops : list (op * obs)) : bool :=   (* true = all observations agree *)
  match ops with
  | [] => true
  | (o, ob) :: r => let (s', k) := step_obs s o in obs_ok s' k ob && hist_run s' r
  end.

Definition hist_mismatch (h : hist) : bool := negb (hist_run (h_init h) (h_ops h)).

(* index of the first operation whose observation disagrees (debugging aid) *)
Fixpoint hist_first_bad (s : ist) (ops : list (op * obs)) (i : Z) : Z :=
  match ops with
  | [] => -1
  | (o, ob) :: r => let (s', k) := step_obs s o in if obs_ok s' k ob then hist_first_bad s' r (i + 1) else i
  end.
