(* M_Ledger.v — executable model of how value moves through the fx-core bridge (C04) and the
   coin<->ERC-20 conversions (C08).  Transcribed statement by statement from

     x/crosschain/keeper/many_to_one.go   DepositBridgeToken WithdrawBridgeToken ConversionCoin
                                          BridgeTokenToBaseCoin BaseCoinToBridgeToken BaseCoinToEvm
                                          EvmToBaseCoin IBCCoinToBaseCoin BaseCoinToIBCCoin
     x/crosschain/keeper/outgoing_pool.go addToOutgoingPool handleRemoveFromOutgoingPoolAndRefund handleCancelRefund
     x/crosschain/keeper/batch_fee.go     AddUnbatchedTxBridgeFee      (the OLDER escrow/burn rule)
     x/crosschain/keeper/batch.go         BuildOutgoingTxBatch OutgoingTxBatchExecuted CancelOutgoingTxBatch
     x/crosschain/keeper/send_to_fx.go    SendToFxExecuted
     x/crosschain/keeper/bridge_call_*.go BridgeCallHandler BridgeCallEvm BridgeCallFailedRefund AddOutgoingBridgeCall
                                          BridgeCallResultHandler HandleOutgoingBridgeCallRefund
                                          bridgeCallTransferCoins bridgeCallTransferTokens   (OLDER rule)
     x/crosschain/keeper/abci.go          cleanupTimedOutBatches cleanupTimeOutBridgeCall
     x/crosschain/precompile/*.go         crossChain bridgeCall cancelSendToExternal increaseBridgeFee (EOA caller)
     x/erc20/keeper/msg_server.go         ConvertCoin* ConvertERC20* ConvertDenom ConvertDenomToTarget (OLDER rule)
     x/erc20/keeper/token_pairs.go        IsOriginOrConvertedDenom
     solidity/contracts/fip20             FIP20 / WFX as ledgers (transfer mint burn deposit withdraw)

   as the code IS in this snapshot: the newer many-to-one accounting and the older
   IsOriginOrConvertedDenom / ConvertDenomToTarget accounting coexist; each entry point is modelled with the
   rule it actually calls.  No proofs in this file.

   Structure.  Every balance-moving function of the code is a straight-line sequence of bank / FIP20 statements;
   it is transcribed as a `prog` = list of `act`s (add to a cell, subtract from a cell with the sufficiency
   check the callee performs, a boolean check).  `runB` executes a prog on the balances.  The pool / batch /
   bridge-call records and the entry points are ordinary functions over the whole state calling these progs.

   Abstractions.  Accounts, denoms, tokens and chains are integers:
     chain c          : 1..8, its crosschain module account is account c
     erc20 module     : account 20     ibc transfer module : account 21
     WFX contract     : account 22     evm module          : account 23   precompile address: account 24
     ICS-20 channel escrow address : account 25
     users/contracts  : any other id (the harness uses >= 100)
     token t          : t_id; FX has t_id 0
     denoms of t      : base = 10*t_id, bridge denom on chain c = 10*t_id + c (FX: the base itself),
                        IBC voucher alias = 10*t_id + 9
   The token registry (kind, chains with a bridge alias, IBC alias) is a static configuration; the pair's
   Enabled flag is state.  Amounts are Z; every message amount is > 0 (ValidateBasic); sdkmath.Int's 256-bit
   cap is not modelled.  A failing operation returns None: the SDK discards the transaction's cache branch, so
   the state is unchanged (`step`). *)
From Coq Require Import ZArith List Bool.
Import ListNotations.
Open Scope Z_scope.

(* ---------- finite maps as shadowing association lists: get after set behaves like a function ---------- *)
Definition map1 := list (Z * Z).
Definition map2 := list ((Z * Z) * Z).

Fixpoint get1 (k : Z) (m : map1) : Z :=
  match m with [] => 0 | (k', v) :: r => if k =? k' then v else get1 k r end.
Definition set1 (k v : Z) (m : map1) : map1 := (k, v) :: m.

Definition key_eqb (a b : Z * Z) : bool := (fst a =? fst b) && (snd a =? snd b).
Fixpoint get2 (k : Z * Z) (m : map2) : Z :=
  match m with [] => 0 | (k', v) :: r => if key_eqb k k' then v else get2 k r end.
Definition set2 (k : Z * Z) (v : Z) (m : map2) : map2 := (k, v) :: m.

(* ---------- configuration ---------- *)
Inductive kind := KFX | KMod | KExt.
Record token := { t_id : Z; t_kind : kind; t_chains : list Z; t_ibc : bool }.
Definition cfg := list token.

Definition A_ERC20 : Z := 20.
Definition A_IBC : Z := 21.
Definition A_WFX : Z := 22.
Definition A_EVM : Z := 23.
Definition A_PRE : Z := 24.
Definition A_ESC : Z := 25.   (* ICS-20 escrow address of the transfer channel *)
Definition FX : Z := 0.

Fixpoint find_tok (g : cfg) (t : Z) : option token :=
  match g with [] => None | x :: r => if t_id x =? t then Some x else find_tok r t end.

Definition memZ (x : Z) (l : list Z) : bool := existsb (Z.eqb x) l.
Definition mem2 (x : Z * Z) (l : list (Z * Z)) : bool := existsb (key_eqb x) l.

(* chains are 1..8 (the message router knows no other name); the functions below are made total by clamping *)
Definition chain_ok (c : Z) : bool := (1 <=? c) && (c <=? 8).
Definition cacc (c : Z) : Z := if chain_ok c then c else 1.   (* module account of chain c *)
Definition base_of (t : token) : Z := 10 * t_id t.
Definition alias_of (t : token) (c : Z) : Z :=
  match t_kind t with KFX => 10 * t_id t | _ => 10 * t_id t + (if chain_ok c then c else 0) end.
Definition ibc_of (t : token) : Z := 10 * t_id t + 9.
Definition is_fx (t : token) : bool := match t_kind t with KFX => true | _ => false end.
Definition is_ext (t : token) : bool := match t_kind t with KExt => true | _ => false end.
Definition is_mod (t : token) : bool := match t_kind t with KMod => true | _ => false end.
Definition on_chain (t : token) (c : Z) : bool := chain_ok c && memZ c (t_chains t).

(* ---------- balances and straight-line balance programs ---------- *)
Record bals := {
  bank : map2;      (* (account, denom) -> amount *)
  supply : map1;    (* denom -> amount *)
  ebal : map2;      (* (token, holder) -> ERC-20 balance *)
  etot : map1;      (* token -> ERC-20 totalSupply *)
  disabled : map1   (* token -> 1 if the pair is toggled off *)
}.

Inductive cell := CB (a d : Z) | CS (d : Z) | CE (t a : Z) | CT (t : Z).

Definition cget (c : cell) (b : bals) : Z :=
  match c with
  | CB a d => get2 (a, d) (bank b) | CS d => get1 d (supply b)
  | CE t a => get2 (t, a) (ebal b) | CT t => get1 t (etot b)
  end.
Definition cset (c : cell) (v : Z) (b : bals) : bals :=
  match c with
  | CB a d => {| bank := set2 (a, d) v (bank b); supply := supply b; ebal := ebal b; etot := etot b; disabled := disabled b |}
  | CS d => {| bank := bank b; supply := set1 d v (supply b); ebal := ebal b; etot := etot b; disabled := disabled b |}
  | CE t a => {| bank := bank b; supply := supply b; ebal := set2 (t, a) v (ebal b); etot := etot b; disabled := disabled b |}
  | CT t => {| bank := bank b; supply := supply b; ebal := ebal b; etot := set1 t v (etot b); disabled := disabled b |}
  end.

Inductive act :=
| Add (c : cell) (x : Z)        (* cell += x *)
| Sub (c : cell) (x : Z)        (* cell -= x, fails if the cell holds less than x *)
| Chk (ok : bool)               (* fails if false *)
| ChkEnabled (t : Z).           (* MintingEnabled: fails if the pair is toggled off *)
Definition prog := list act.

Definition run_act (a : act) (b : bals) : option bals :=
  match a with
  | Add c x => Some (cset c (cget c b + x) b)
  | Sub c x => if x <=? cget c b then Some (cset c (cget c b - x) b) else None
  | Chk ok => if ok then Some b else None
  | ChkEnabled t => if get1 t (disabled b) =? 0 then Some b else None
  end.
Fixpoint runB (p : prog) (b : bals) : option bals :=
  match p with [] => Some b | a :: r => match run_act a b with Some b' => runB r b' | None => None end end.

(* x/bank: SendCoins = subUnlockedCoins then addCoins (sequential: from = to nets to zero);
   MintCoins(module): module balance and supply grow; BurnCoins(module): fails if the module lacks x *)
Definition send (from to d x : Z) : prog := [Sub (CB from d) x; Add (CB to d) x].
Definition mint (m d x : Z) : prog := [Add (CB m d) x; Add (CS d) x].
Definition burn (m d x : Z) : prog := [Sub (CB m d) x; Add (CS d) (- x)].
(* FIP20 _mint / _burn / _transfer *)
Definition erc20_mint (t a x : Z) : prog := [Add (CT t) x; Add (CE t a) x].
Definition erc20_burn (t a x : Z) : prog := [Sub (CE t a) x; Add (CT t) (- x)].
Definition erc20_transfer (t from to x : Z) : prog := [Sub (CE t from) x; Add (CE t to) x].

(* bank BlockedAddr (app.BlockedAccountAddrs): every module account except gov — here the chain modules, erc20, ibc
   transfer and evm module accounts; the WFX / token contracts and the precompile address are not blocked.
   MintingEnabled refuses a blocked receiver; SendCoinsFromModuleToAccount refuses a blocked recipient. *)
Definition blocked (a : Z) : bool := chain_ok a || (a =? A_ERC20) || (a =? A_IBC) || (a =? A_EVM).

(* ---------- x/erc20 conversions (msg_server.go) ---------- *)
(* ConvertCoin: MintingEnabled; ConvertCoinNativeCoin / ConvertCoinNativeERC20 *)
Definition convert_coin (t : token) (sender receiver x : Z) : prog :=
  ChkEnabled (t_id t) :: Chk (negb (blocked receiver)) :: Chk (0 <? x) ::   (* sdk.Coins{coin} with a zero amount is invalid *)
  match t_kind t with
  | KFX => send sender A_ERC20 (base_of t) x ++ erc20_mint (t_id t) receiver x ++ send A_ERC20 A_WFX (base_of t) x
  | KMod => send sender A_ERC20 (base_of t) x ++ erc20_mint (t_id t) receiver x
  | KExt => send sender A_ERC20 (base_of t) x ++ erc20_transfer (t_id t) A_ERC20 receiver x ++
            burn A_ERC20 (base_of t) x
  end.

(* ConvertERC20: ConvertERC20NativeCoin / ConvertERC20NativeToken *)
Definition convert_erc20 (t : token) (sender receiver x : Z) : prog :=
  ChkEnabled (t_id t) :: Chk (negb (blocked receiver)) :: Chk (0 <? x) ::
  match t_kind t with
  | KFX => erc20_burn (t_id t) sender x ++ send A_WFX A_ERC20 (base_of t) x ++ send A_ERC20 receiver (base_of t) x
  | KMod => erc20_burn (t_id t) sender x ++ send A_ERC20 receiver (base_of t) x
  | KExt => erc20_transfer (t_id t) sender A_ERC20 x ++ mint A_ERC20 (base_of t) x ++
            send A_ERC20 receiver (base_of t) x
  end.

(* ---- the OLDER rule: ConvertDenomToTarget (erc20 keeper) ----
   rep: 0 = base, c in 1..8 = bridge alias of chain c, 9 = IBC alias.
   GetTargetCoin/ToTargetDenom: target 0 (""/erc20) -> base; chain c -> the alias with that prefix if the
   token has one, else base.  FX has no aliases in its metadata: never converted. *)
Definition denom_rep (t : token) (rep : Z) : Z :=
  if rep =? 0 then base_of t else if rep =? 9 then ibc_of t else alias_of t rep.
Definition has_rep (t : token) (rep : Z) : bool :=
  if rep =? 0 then true else if rep =? 9 then t_ibc t else on_chain t rep.
Definition has_aliases (t : token) : bool :=
  match t_chains t with [] => t_ibc t | _ => true end.
Definition old_target (t : token) (target : Z) : Z :=
  if target =? 0 then 0 else if on_chain t target then target else 0.
(* the representation the holder ends up with *)
(* GetTargetCoin: "no convert required" when the pair has no aliases or the coin's denom is not one of the token's *)
Definition no_convert (t : token) (src : Z) : bool := is_fx t || negb (has_aliases t) || negb (has_rep t src).
Definition converted_rep (t : token) (src target : Z) : Z :=
  if no_convert t src then src else old_target t target.

Definition convert_denom_to_target (t : token) (from src target : Z) (x : Z) : prog :=
  if no_convert t src then []
  else
    let tg := old_target t target in
    if src =? tg then []
    else
      send from A_ERC20 (denom_rep t src) x ++
      (match t_kind t with
       | KMod => (* convertNativeCoin *)
           if src =? 0 then burn A_ERC20 (base_of t) x
           else if tg =? 0 then mint A_ERC20 (base_of t) x
           else []
       | _ => (* convertNativeERC20 *)
           if src =? 0 then mint A_ERC20 (denom_rep t tg) x
           else if tg =? 0 then burn A_ERC20 (denom_rep t src) x
           else []
       end) ++
      send A_ERC20 from (denom_rep t tg) x.

(* MsgConvertDenom *)
Definition msg_convert_denom (t : token) (sender receiver src target x : Z) : prog :=
  Chk (has_rep t src) ::
  convert_denom_to_target t sender src target x ++
  Chk (negb (converted_rep t src target =? src)) ::
  (if sender =? receiver then []
   else Chk (negb (blocked receiver)) ::
        send sender A_ERC20 (denom_rep t (converted_rep t src target)) x ++
        send A_ERC20 receiver (denom_rep t (converted_rep t src target)) x).

(* IsOriginOrConvertedDenom on a bridge denom of token t: FX -> true, module-owned alias -> false,
   externally-owned alias -> true *)
Definition origin_or_converted (t : token) : bool :=
  match t_kind t with KFX => true | KMod => false | KExt => true end.

(* ---------- the NEWER rule: many_to_one.go ---------- *)
(* DepositBridgeToken on chain c *)
Definition deposit_bridge_token (t : token) (c holder x : Z) : prog :=
  match t_kind t with
  | KMod => mint (cacc c) (alias_of t c) x ++ send (cacc c) holder (alias_of t c) x
  | _ => send (cacc c) holder (alias_of t c) x
  end.

(* WithdrawBridgeToken on chain c *)
Definition withdraw_bridge_token (t : token) (c holder x : Z) : prog :=
  send holder (cacc c) (alias_of t c) x ++
  match t_kind t with
  | KMod => burn (cacc c) (alias_of t c) x
  | _ => []
  end.

(* ConversionCoin(holder, coin, base, target) on chain c; to_base = true: bridge denom -> base *)
Definition conversion_coin (t : token) (c holder x : Z) (to_base : bool) : prog :=
  match t_kind t with
  | KFX => []
  | KExt =>
      let src := if to_base then alias_of t c else base_of t in
      let tgt := if to_base then base_of t else alias_of t c in
      send holder (cacc c) src x ++ burn (cacc c) src x ++ mint (cacc c) tgt x ++ send (cacc c) holder tgt x
  | KMod =>
      if to_base then send holder (cacc c) (alias_of t c) x ++ mint (cacc c) (base_of t) x ++ send (cacc c) holder (base_of t) x
      else send holder (cacc c) (base_of t) x ++ burn (cacc c) (base_of t) x ++ send (cacc c) holder (alias_of t c) x
  end.

(* BridgeTokenToBaseCoin: the bridge token must exist on chain c *)
Definition bridge_token_to_base (t : token) (c holder x : Z) : prog :=
  Chk (on_chain t c) :: deposit_bridge_token t c holder x ++ conversion_coin t c holder x true.

(* BaseCoinToBridgeToken: ManyToOne(base, chain) fails if the token has no alias on c *)
Definition base_to_bridge_token (t : token) (c holder x : Z) : prog :=
  Chk (on_chain t c) :: conversion_coin t c holder x false ++ withdraw_bridge_token t c holder x.

(* BaseCoinToEvm / EvmToBaseCoin: ConvertCoin / ConvertERC20 with sender = receiver = holder *)
Definition base_to_evm (t : token) (holder x : Z) : prog := convert_coin t holder holder x.
Definition evm_to_base (t : token) (holder x : Z) : prog := convert_erc20 t holder holder x.

(* IBCCoinToBaseCoin / BaseCoinToIBCCoin (holder's voucher <-> base through the transfer module account) *)
Definition ibc_to_base (t : token) (holder x : Z) : prog :=
  Chk (t_ibc t && negb (is_fx t)) ::
  send holder A_IBC (ibc_of t) x ++ mint A_IBC (base_of t) x ++ send A_IBC holder (base_of t) x.
(* BaseCoinToIBCCoin: ManyToOne(FX, ibc target) = FX (no alias needed), so for FX the function burns the coin in the
   transfer module and then "releases" the same denomination from the transfer module's own balance *)
Definition base_to_ibc (t : token) (holder x : Z) : prog :=
  if is_fx t
  then send holder A_IBC (base_of t) x ++ burn A_IBC (base_of t) x ++ send A_IBC holder (base_of t) x
  else Chk (t_ibc t) ::
       send holder A_IBC (base_of t) x ++ burn A_IBC (base_of t) x ++ send A_IBC holder (ibc_of t) x.

(* ibc-go transfer sendTransfer: the native coin is escrowed in the channel's escrow address, a voucher going back to its
   source is sent to the transfer module and burned *)
Definition ibc_send (t : token) (sender x : Z) : prog :=
  if is_fx t then send sender A_ESC (base_of t) x
  else Chk (t_ibc t) :: send sender A_IBC (ibc_of t) x ++ burn A_IBC (ibc_of t) x.

(* handlerOriginToken: msg.value already moved sender -> precompile by the EVM, then precompile -> evm module -> sender *)
Definition handler_origin_token (sender x : Z) : prog :=
  send sender A_PRE FX x ++ send A_PRE A_EVM FX x ++ send A_EVM sender FX x.

(* handlerERC20Token: transferFrom(sender -> erc20 module) and burn through the RUNNING EVM, then coins to sender *)
Definition handler_erc20_token (t : token) (sender x : Z) : prog :=
  erc20_transfer (t_id t) sender A_ERC20 x ++
  (match t_kind t with
   | KFX => erc20_burn (t_id t) A_ERC20 x ++ send A_WFX A_ERC20 (base_of t) x
   | KMod => erc20_burn (t_id t) A_ERC20 x
   | KExt => mint A_ERC20 (base_of t) x
   end) ++
  send A_ERC20 sender (base_of t) x.

(* a prog per (token id, amount) of a list; an unknown token id fails *)
Fixpoint each_tok (g : cfg) (f : token -> Z -> prog) (l : list (Z * Z)) : prog :=
  match l with
  | [] => []
  | (t, x) :: r => match find_tok g t with None => [Chk false] | Some tk => f tk x ++ each_tok g f r end
  end.

(* HandleOutgoingBridgeCallRefund — the OLDER rule:
   bridgeCallTransferCoins: mint (unless origin/converted) all, unlock all to refund, ConvertDenomToTarget each to base;
   then, unless the call came from MsgBridgeCall, bridgeCallTransferTokens: ConvertCoin each (FX stays a coin) *)
Definition refund_mint (c : Z) (t : token) (x : Z) : prog :=
  Chk (on_chain t c) :: (if origin_or_converted t then [] else mint (cacc c) (alias_of t c) x).
Definition refund_unlock (c refund : Z) (t : token) (x : Z) : prog := send (cacc c) refund (alias_of t c) x.
Definition refund_to_base (c refund : Z) (t : token) (x : Z) : prog := convert_denom_to_target t refund c 0 x.
Definition refund_to_evm (refund : Z) (t : token) (x : Z) : prog :=
  if is_fx t then [] else convert_coin t refund refund x.
Definition pos_toks (l : list (Z * Z)) : list (Z * Z) := filter (fun p => 0 <? snd p) l.

Definition bridge_call_refund_prog (g : cfg) (c refund : Z) (toks : list (Z * Z)) (from_msg : bool) : prog :=
  each_tok g (refund_mint c) (pos_toks toks) ++
  each_tok g (refund_unlock c refund) (pos_toks toks) ++
  each_tok g (refund_to_base c refund) (pos_toks toks) ++
  (if from_msg then [] else each_tok g (refund_to_evm refund) (pos_toks toks)).

(* ---------- records (only as far as value moves) ---------- *)
Record ptx := { p_chain : Z; p_id : Z; p_sender : Z; p_tok : Z; p_amt : Z; p_fee : Z }.
Record batch := { b_chain : Z; b_nonce : Z; b_tok : Z; b_txs : list ptx; b_timeout : Z }.
Record bcall := { c_chain : Z; c_nonce : Z; c_refund : Z; c_toks : list (Z * Z); c_timeout : Z }.

Record recs := {
  pool : list ptx;            (* unbatched transfers, all chains *)
  batches : list batch;
  calls : list bcall;         (* outgoing bridge calls, ascending nonce per chain *)
  txid : map1; batchid : map1; callid : map1;   (* chain -> last id handed out *)
  height : map1;              (* chain -> last observed external block height *)
  rel : list (Z * Z);         (* (chain, tx id) with an erc20 OutgoingTransferRelation *)
  frommsg : list (Z * Z)      (* (chain, nonce) of bridge calls created by MsgBridgeCall *)
}.

(* ghost counters: what was deposited by executed inbound events / observed as executed on the external side *)
Record ghost := {
  dept : map1; exet : map1;   (* per token *)
  depc : map2; exec : map2    (* per (token, chain); chain 9 = IBC *)
}.

Record state := { sb : bals; sr : recs; sg : ghost }.

Definition M := state -> option state.
Definition ret : M := fun s => Some s.
Definition fail : M := fun _ => None.
Definition bind (m : M) (f : M) : M := fun s => match m s with Some s' => f s' | None => None end.
Notation "m ;; f" := (bind m f) (at level 61, right associativity).
Definition guard (b : bool) : M := fun s => if b then Some s else None.

Definition doB (p : prog) : M := fun s =>
  match runB p (sb s) with Some b => Some {| sb := b; sr := sr s; sg := sg s |} | None => None end.
Definition updR (f : recs -> recs) : M := fun s => Some {| sb := sb s; sr := f (sr s); sg := sg s |}.
Definition updG (f : ghost -> ghost) : M := fun s => Some {| sb := sb s; sr := sr s; sg := f (sg s) |}.

Definition set_pool (l : list ptx) (r : recs) : recs :=
  {| pool := l; batches := batches r; calls := calls r; txid := txid r; batchid := batchid r; callid := callid r;
     height := height r; rel := rel r; frommsg := frommsg r |}.
Definition set_batches (l : list batch) (r : recs) : recs :=
  {| pool := pool r; batches := l; calls := calls r; txid := txid r; batchid := batchid r; callid := callid r;
     height := height r; rel := rel r; frommsg := frommsg r |}.
Definition set_calls (l : list bcall) (r : recs) : recs :=
  {| pool := pool r; batches := batches r; calls := l; txid := txid r; batchid := batchid r; callid := callid r;
     height := height r; rel := rel r; frommsg := frommsg r |}.
Definition set_txid (m : map1) (r : recs) : recs :=
  {| pool := pool r; batches := batches r; calls := calls r; txid := m; batchid := batchid r; callid := callid r;
     height := height r; rel := rel r; frommsg := frommsg r |}.
Definition set_batchid (m : map1) (r : recs) : recs :=
  {| pool := pool r; batches := batches r; calls := calls r; txid := txid r; batchid := m; callid := callid r;
     height := height r; rel := rel r; frommsg := frommsg r |}.
Definition set_callid (m : map1) (r : recs) : recs :=
  {| pool := pool r; batches := batches r; calls := calls r; txid := txid r; batchid := batchid r; callid := m;
     height := height r; rel := rel r; frommsg := frommsg r |}.
Definition set_height (m : map1) (r : recs) : recs :=
  {| pool := pool r; batches := batches r; calls := calls r; txid := txid r; batchid := batchid r; callid := callid r;
     height := m; rel := rel r; frommsg := frommsg r |}.
Definition set_rel (l : list (Z * Z)) (r : recs) : recs :=
  {| pool := pool r; batches := batches r; calls := calls r; txid := txid r; batchid := batchid r; callid := callid r;
     height := height r; rel := l; frommsg := frommsg r |}.
Definition set_frommsg (l : list (Z * Z)) (r : recs) : recs :=
  {| pool := pool r; batches := batches r; calls := calls r; txid := txid r; batchid := batchid r; callid := callid r;
     height := height r; rel := rel r; frommsg := l |}.

Definition dep_add (t c x : Z) : M := updG (fun g =>
  {| dept := set1 t (get1 t (dept g) + x) (dept g); exet := exet g;
     depc := set2 (t, c) (get2 (t, c) (depc g) + x) (depc g); exec := exec g |}).
Definition exe_add (t c x : Z) : M := updG (fun g =>
  {| dept := dept g; exet := set1 t (get1 t (exet g) + x) (exet g);
     depc := depc g; exec := set2 (t, c) (get2 (t, c) (exec g) + x) (exec g) |}).

Definition is_ptx (c id : Z) (p : ptx) : bool := (p_chain p =? c) && (p_id p =? id).
Fixpoint find_ptx (c id : Z) (l : list ptx) : option ptx :=
  match l with [] => None | p :: r => if is_ptx c id p then Some p else find_ptx c id r end.
(* removes the first match (the store key (fee, id) is unique) *)
Fixpoint del_ptx (c id : Z) (l : list ptx) : list ptx :=
  match l with [] => [] | p :: r => if is_ptx c id p then r else p :: del_ptx c id r end.
Definition rem2 (x : Z * Z) (l : list (Z * Z)) : list (Z * Z) := filter (fun y => negb (key_eqb y x)) l.

(* AddToOutgoingPool: autoIncrementID, BaseCoinToBridgeToken(amount+fee), AddUnbatchedTx *)
Definition add_to_outgoing_pool (t : token) (c sender amt fee : Z) : M := fun s =>
  let id := get1 c (txid (sr s)) + 1 in
  (doB (base_to_bridge_token t c sender (amt + fee)) ;;
   updR (fun r => set_txid (set1 c id (txid r))
                  (set_pool ({| p_chain := c; p_id := id; p_sender := sender; p_tok := t_id t; p_amt := amt; p_fee := fee |}
                             :: pool r) r))) s.

(* handleRemoveFromOutgoingPoolAndRefund + handleCancelRefund + handleOutgoingTransferRelation *)
Definition cancel_send (g : cfg) (c sender id : Z) : M := fun s =>
  match find_ptx c id (pool (sr s)) with
  | None => None
  | Some p =>
    match find_tok g (p_tok p) with
    | None => None
    | Some t =>
      (guard (p_sender p =? sender) ;;
       updR (fun r => set_pool (del_ptx c id (pool r)) r) ;;
       doB (bridge_token_to_base t c sender (p_amt p + p_fee p)) ;;
       (if mem2 (c, id) (rel (sr s))
        then doB (convert_coin t sender sender (p_amt p + p_fee p)) ;;
             updR (fun r => set_rel (rem2 (c, id) (rel r)) r)
        else ret)) s
    end
  end.

(* AddUnbatchedTxBridgeFee: the OLDER rule; the fee coin is the bridge denom of chain c *)
Definition add_bridge_fee_prog (t : token) (c sender x : Z) : prog :=
  send sender (cacc c) (alias_of t c) x ++ (if origin_or_converted t then [] else burn (cacc c) (alias_of t c) x).
Definition add_bridge_fee (t : token) (c sender id x : Z) : M := fun s =>
  match find_ptx c id (pool (sr s)) with
  | None => None
  | Some p =>
    (guard (0 <? x) ;; guard (on_chain t c) ;; guard (p_tok p =? t_id t) ;;
     doB (add_bridge_fee_prog t c sender x) ;;
     updR (fun r => set_pool ({| p_chain := c; p_id := p_id p; p_sender := p_sender p; p_tok := p_tok p; p_amt := p_amt p;
                                 p_fee := p_fee p + x |} :: del_ptx c id (pool r)) r)) s
  end.

Definition sumZ (l : list Z) : Z := fold_right Z.add 0 l.
Definition fees_of (l : list ptx) : Z := sumZ (map p_fee l).
Definition total_of (l : list ptx) : Z := sumZ (map (fun p => p_amt p + p_fee p) l).
Definition sel_tx (c t : Z) (p : ptx) : bool := (p_chain p =? c) && (p_tok p =? t).

(* GetLastOutgoingBatchByToken: highest nonce for the token on the chain *)
Fixpoint last_batch (c t : Z) (l : list batch) (best : option batch) : option batch :=
  match l with
  | [] => best
  | b :: r =>
    if (b_chain b =? c) && (b_tok b =? t)
    then match best with
         | Some b0 => if b_nonce b0 <? b_nonce b then last_batch c t r (Some b) else last_batch c t r best
         | None => last_batch c t r (Some b)
         end
    else last_batch c t r best
  end.

(* the pool is keyed (contract, fee, id) and scanned in reverse: highest fee first, then highest id *)
Definition tx_before (p q : ptx) : bool := (p_fee q <? p_fee p) || ((p_fee p =? p_fee q) && (p_id q <? p_id p)).
Fixpoint tx_insert (p : ptx) (l : list ptx) : list ptx :=
  match l with [] => [p] | q :: r => if tx_before p q then p :: l else q :: tx_insert p r end.
Fixpoint tx_sort (l : list ptx) : list ptx := match l with [] => [] | p :: r => tx_insert p (tx_sort r) end.
Definition batch_size : nat := Z.to_nat 100.   (* types.OutgoingTxBatchSize *)

(* BuildOutgoingTxBatch with baseFee 0, minimumFee 1: the (at most) 100 best-paying unbatched txs of the token go into
   the batch, the others stay in the pool; `timeout` is the value the real code computed (read back by the harness) *)
Definition request_batch (t : token) (c timeout : Z) : M := fun s =>
  let r := sr s in
  let sorted := tx_sort (filter (sel_tx c (t_id t)) (pool r)) in
  let sel := firstn batch_size sorted in
  (guard (on_chain t c) ;;
   guard (match last_batch c (t_id t) (batches r) None with
          | Some b => negb (fees_of sel <? fees_of (b_txs b)) | None => true end) ;;
   guard (match sel with [] => false | _ => true end) ;;
   guard (1 <=? fees_of sel) ;;
   guard (negb (get1 c (height r) =? 0)) ;;
   updR (fun r => set_batchid (set1 c (get1 c (batchid r) + 1) (batchid r))
                  (set_batches ({| b_chain := c; b_nonce := get1 c (batchid r) + 1; b_tok := t_id t; b_txs := sel;
                                   b_timeout := timeout |} :: batches r)
                  (set_pool (skipn batch_size sorted ++ filter (fun p => negb (sel_tx c (t_id t) p)) (pool r)) r)))) s.

Definition is_batch (c t n : Z) (b : batch) : bool := (b_chain b =? c) && (b_tok b =? t) && (b_nonce b =? n).
Fixpoint find_batch (c t n : Z) (l : list batch) : option batch :=
  match l with [] => None | b :: r => if is_batch c t n b then Some b else find_batch c t n r end.
Fixpoint del_batch (c t n : Z) (l : list batch) : list batch :=
  match l with [] => [] | b :: r => if is_batch c t n b then r else b :: del_batch c t n r end.

(* CancelOutgoingTxBatch for every batch selected by sel: txs back to the pool, batch deleted *)
Definition cancel_batches (sel : batch -> bool) (r : recs) : recs :=
  set_batches (filter (fun b => negb (sel b)) (batches r))
    (set_pool (flat_map b_txs (filter sel (batches r)) ++ pool r) r).

(* OutgoingTxBatchExecuted: earlier batches of the token cancelled, batch deleted, relations dropped;
   the batch's value is now observed as executed *)
Definition batch_executed (t : token) (c n : Z) : M := fun s =>
  match find_batch c (t_id t) n (batches (sr s)) with
  | None => None  (* panic: unknown batch *)
  | Some b =>
    (updR (fun r => set_batches (del_batch c (t_id t) n (batches r)) r) ;;
     updR (cancel_batches (fun b' => (b_chain b' =? c) && (b_tok b' =? t_id t) && (b_nonce b' <? n))) ;;
     updR (fun r => set_rel (filter (fun k => negb ((fst k =? c) && memZ (snd k) (map p_id (b_txs b)))) (rel r)) r) ;;
     exe_add (t_id t) c (total_of (b_txs b))) s
  end.

(* AddOutgoingBridgeCall: BaseCoinToBridgeToken per coin from `sender`, record with the refund address *)
Definition add_outgoing_bridge_call (g : cfg) (c sender refund : Z) (toks : list (Z * Z)) (timeout : Z) : M := fun s =>
  (doB (each_tok g (fun t x => base_to_bridge_token t c sender x) toks) ;;
   guard (negb (get1 c (height (sr s)) =? 0)) ;;
   updR (fun r => set_callid (set1 c (get1 c (callid r) + 1) (callid r))
                  (set_calls (calls r ++ [{| c_chain := c; c_nonce := get1 c (callid r) + 1; c_refund := refund;
                                             c_toks := toks; c_timeout := timeout |}]) r))) s.

Definition is_call (c n : Z) (b : bcall) : bool := (c_chain b =? c) && (c_nonce b =? n).
Fixpoint find_call (c n : Z) (l : list bcall) : option bcall :=
  match l with [] => None | b :: r => if is_call c n b then Some b else find_call c n r end.
Fixpoint del_call_l (c n : Z) (l : list bcall) : list bcall :=
  match l with [] => [] | b :: r => if is_call c n b then r else b :: del_call_l c n r end.

Definition bridge_call_refund (g : cfg) (b : bcall) : M := fun s =>
  doB (bridge_call_refund_prog g (c_chain b) (c_refund b) (c_toks b) (mem2 (c_chain b, c_nonce b) (frommsg (sr s)))) s.

Definition del_call (c n : Z) : M :=
  updR (fun r => set_frommsg (rem2 (c, n) (frommsg r)) (set_calls (del_call_l c n (calls r)) r)).

Fixpoint each_exe (c : Z) (l : list (Z * Z)) : M :=
  match l with [] => ret | (t, x) :: r => exe_add t c x ;; each_exe c r end.
Fixpoint each_dep (c : Z) (l : list (Z * Z)) : M :=
  match l with [] => ret | (t, x) :: r => dep_add t c x ;; each_dep c r end.

(* BridgeCallResultHandler *)
Definition bridge_call_result (g : cfg) (c n : Z) (success : bool) : M := fun s =>
  match find_call c n (calls (sr s)) with
  | None => None  (* panic *)
  | Some b =>
    ((if success then each_exe c (c_toks b) else bridge_call_refund g b) ;; del_call c n) s
  end.

(* cleanupTimedOutBatches *)
Definition cleanup_batches (c : Z) : M := fun s =>
  updR (cancel_batches (fun b => (b_chain b =? c) && (b_timeout b <? get1 c (height (sr s))))) s.

(* cleanupTimeOutBridgeCall iterates the chain's calls in ascending nonce order, refunds and deletes each one whose
   timeout has been reached and stops at the first live one: split the list positionally, refund, then drop *)
Fixpoint timed_out (c h : Z) (l : list bcall) : list bcall * list bcall :=
  match l with
  | [] => ([], [])
  | b :: r =>
    if negb (c_chain b =? c) then let (x, y) := timed_out c h r in (x, b :: y)
    else if h <? c_timeout b then ([], l)
    else let (x, y) := timed_out c h r in (b :: x, y)
  end.
Fixpoint each_refund (g : cfg) (l : list bcall) : M :=
  match l with [] => ret | b :: r => bridge_call_refund g b ;; each_refund g r end.
Definition cleanup_calls (g : cfg) (c h : Z) : M := fun s =>
  let (gone, rest) := timed_out c h (calls (sr s)) in
  (each_refund g gone ;;
   updR (fun r => set_frommsg (filter (fun k => negb (mem2 k (map (fun b => (c_chain b, c_nonce b)) gone))) (frommsg r))
                  (set_calls rest r))) s.

(* an observed claim: height recorded, handler, then the two clean-ups (TryAttestation) *)
Definition observe (g : cfg) (c h : Z) (handler : M) : M :=
  updR (fun r => set_height (set1 c h (height r)) r) ;; handler ;; cleanup_batches c ;; cleanup_calls g c h.

(* SendToFxExecuted: target 0 = none, 1 = erc20, 2 = an IBC channel (transferIBCHandler: BaseCoinToIBCCoin, then the
   ICS-20 transfer, accounted as executed towards "chain" 9 when the packet is sent) *)
Definition send_to_fx (t : token) (c receiver x target : Z) : M :=
  doB (bridge_token_to_base t c receiver x) ;; dep_add (t_id t) c x ;;
  (if target =? 1 then doB (base_to_evm t receiver x)
   else if target =? 2 then guard (0 <? x) ;;   (* MsgTransfer needs a positive amount *)
                            doB (base_to_ibc t receiver x) ;; doB (ibc_send t receiver x) ;; exe_add (t_id t) 9 x
   else ret).

(* BridgeCallHandler: deposit to the receiver, BridgeCallEvm in a cache branch (ConvertCoin each to the receiver,
   then the EVM call whose outcome evm_ok is known from the kind of `to`); on failure the deposited base coins are
   handed from the receiver to the refund address (bank SendCoins, skipped when they are the same account) and
   BridgeCallFailedRefund = AddOutgoingBridgeCall from the refund address. *)
(* BridgeCallHandler: who is credited.  receiverAddr := msg.GetToAddr(); if msg.IsMemoSendCallTo() (memo = the marker
   0x00..010000) receiverAddr = msg.GetSenderAddr(): the bridged tokens are deposited to the SENDER's account, converted to
   ERC-20 for it, and `to` is called as the sender with the raw data.  Every other memo (empty or not): the receiver is `to`. *)
Definition bridge_call_receiver (sender to : Z) (call_to : bool) : Z := if call_to then sender else to.

Definition bridge_call_in (g : cfg) (c receiver refund : Z) (toks : list (Z * Z)) (evm_ok : bool) (timeout : Z) : M :=
  doB (each_tok g (fun t x => bridge_token_to_base t c receiver x) toks) ;;
  each_dep c toks ;;
  (fun s =>
     (* baseCoins is an sdk.Coins: zero amounts have been dropped *)
     match (if evm_ok then doB (each_tok g (fun t x => base_to_evm t receiver x) (pos_toks toks)) s else None) with
     | Some s' => Some s'
     | None =>
       ((if receiver =? refund then ret
         else doB (each_tok g (fun t x => send receiver refund (base_of t) x) (pos_toks toks))) ;;
        add_outgoing_bridge_call g c refund refund (pos_toks toks) timeout) s
     end).

(* ---------- precompile entry points called by an externally-owned account ---------- *)
(* crossChain(token, ..., amount, fee, target=chain c); native = msg.value path (FX coin) *)
Definition pre_cross_chain (t : token) (c sender amt fee : Z) (native : bool) : M :=
  guard (0 <? amt) ;;   (* CrossChainArgs.Validate *)
  (if native then guard (is_fx t) ;; doB (handler_origin_token sender (amt + fee))
   else doB (handler_erc20_token t sender (amt + fee))) ;;
  add_to_outgoing_pool t c sender amt fee ;;
  (if native then ret else updR (fun r => set_rel ((c, get1 c (txid r)) :: rel r) r)).

(* crossChain(token, ..., amount, fee = 0, target = an IBC channel): ibcTransfer; the msg.value path sends the native coin as it
   is, the ERC-20 path converts with BaseCoinToIBCCoin first *)
Definition pre_cross_chain_ibc (t : token) (sender amt : Z) (native : bool) : M :=
  guard (0 <? amt) ;;
  (if native then guard (is_fx t) ;; doB (handler_origin_token sender amt)
   else doB (handler_erc20_token t sender amt) ;; doB (base_to_ibc t sender amt)) ;;
  doB (ibc_send t sender amt) ;; exe_add (t_id t) 9 amt.

(* an inbound ICS-20 packet through the transfer stack (ibc-go transfer, then the fx middleware), receiver a hex address.
   The native coin coming back is released from the channel escrow.  Any other denomination: ibc-go mints the voucher and
   gives it bank metadata BEFORE the middleware runs, so ManyToOne takes the voucher for a base denom of its own, the
   conversion to ERC-20 finds no pair, the acknowledgement is an error and ibc-go core discards everything. *)
Definition ibc_recv (t : token) (a x : Z) : M :=
  if is_fx t then guard (0 <? x) ;; doB (send A_ESC a (base_of t) x) ;; dep_add (t_id t) 9 x else fail.

(* bridgeCall(dstChain c, refund, tokens, amounts, ...) with msg.value = value *)
Definition pre_bridge_call (g : cfg) (c sender refund value : Z) (toks : list (Z * Z)) (timeout : Z) : M :=
  (if 0 <? value then doB (handler_origin_token sender value) else ret) ;;
  doB (each_tok g (fun t x => evm_to_base t sender x) toks) ;;
  add_outgoing_bridge_call g c sender refund ((if 0 <? value then [(0, value)] else []) ++ toks) timeout.

(* increaseBridgeFee(chain c, txid, token, fee): handler*Token, ConvertDenomToTarget (OLDER rule), AddUnbatchedTxBridgeFee *)
Definition pre_increase_fee (t : token) (c sender id x : Z) (native : bool) : M :=
  (if native then guard (is_fx t) ;; doB (handler_origin_token sender x) else doB (handler_erc20_token t sender x)) ;;
  doB (convert_denom_to_target t sender 0 c x) ;;
  guard (is_fx t || (converted_rep t 0 c =? c)) ;;
  add_bridge_fee t c sender id x.

(* ---------- operations ---------- *)
Inductive op :=
| OSendToFx (c t receiver x target : Z)                      (* executed MsgSendToFxClaim *)
| OSendToExternal (c t sender amt fee : Z)                   (* MsgSendToExternal, base denom *)
| OCancel (c sender id : Z)                                  (* MsgCancelSendToExternal *)
| OIncreaseFee (c t sender id x : Z)                         (* MsgIncreaseBridgeFee, bridge denom *)
| ORequestBatch (c t timeout : Z)                            (* MsgRequestBatch *)
| OObserve (c h : Z)                                         (* any observed claim that only moves the height *)
| OBatchExecuted (c h t n : Z)                               (* observed MsgSendToExternalClaim *)
| OBridgeCallMsg (c sender refund : Z) (toks : list (Z * Z)) (timeout : Z)   (* MsgBridgeCall *)
| OBridgeCallResult (c n : Z) (success : bool)               (* executed MsgBridgeCallResultClaim *)
| OBridgeCallIn (c sender to refund : Z) (toks : list (Z * Z)) (call_to : bool) (evm_ok : bool) (timeout : Z)
    (* executed MsgBridgeCallClaim; call_to = the memo is exactly the 32-byte MemoSendCallTo marker *)
| OConvertCoin (t sender receiver x : Z)
| OConvertERC20 (t sender receiver x : Z)
| OConvertDenom (t sender receiver src target x : Z)
| OToggle (t : Z)
| OPreCrossChain (c t sender amt fee : Z) (native : bool)
| OPreBridgeCall (c sender refund value : Z) (toks : list (Z * Z)) (timeout : Z)
| OPreCancel (c sender id : Z)
| OPreIncreaseFee (c t sender id x : Z) (native : bool)
| OBankSend (from to d x : Z)                                (* bank MsgSend between users *)
| OErc20Transfer (t from to x : Z)                           (* token.transfer by an EOA *)
| OWfxDeposit (a x : Z)                                      (* WFX.deposit{value: x} *)
| OWfxWithdraw (a x : Z)                                     (* WFX.withdraw(x) *)
| OIbcMint (t a x : Z)                                       (* inbound IBC packet: voucher minted to a *)
| OIbcToBase (t a x : Z)                                     (* IBCCoinToBaseCoin *)
| OBaseToIbc (t a x : Z)                                     (* BaseCoinToIBCCoin *)
| OPreCrossChainIbc (t sender amt : Z) (native : bool)       (* precompile crossChain with an IBC target *)
| OIbcRecv (t a x : Z).                                      (* inbound ICS-20 packet through the real transfer stack *)

Definition with_tok (g : cfg) (t : Z) (f : token -> M) : M :=
  match find_tok g t with Some tk => f tk | None => fail end.

Definition toggle (t : Z) : M := fun s =>
  let b := sb s in
  Some {| sb := {| bank := bank b; supply := supply b; ebal := ebal b; etot := etot b;
                   disabled := set1 t (1 - get1 t (disabled b)) (disabled b) |};
          sr := sr s; sg := sg s |}.

Definition run (g : cfg) (o : op) : M :=
  match o with
  | OSendToFx c t r x tg => with_tok g t (fun tk => send_to_fx tk c r x tg)
  | OSendToExternal c t a amt fee =>   (* ValidateBasic: amount and bridge fee positive *)
      guard ((0 <? amt) && (0 <? fee)) ;; with_tok g t (fun tk => add_to_outgoing_pool tk c a amt fee)
  | OCancel c a id => cancel_send g c a id
  | OIncreaseFee c t a id x => with_tok g t (fun tk => add_bridge_fee tk c a id x)
  | ORequestBatch c t to => with_tok g t (fun tk => request_batch tk c to)
  | OObserve c h => observe g c h ret
  | OBatchExecuted c h t n => with_tok g t (fun tk => observe g c h (batch_executed tk c n))
  | OBridgeCallMsg c a r toks to =>   (* ValidateBasic: coins (zero amounts dropped) and data not both empty; data is empty *)
      guard (existsb (fun p => 0 <? snd p) toks) ;;
      add_outgoing_bridge_call g c a r toks to ;;
      updR (fun r => set_frommsg ((c, get1 c (callid r)) :: frommsg r) r)
  | OBridgeCallResult c n ok => bridge_call_result g c n ok
  | OBridgeCallIn c sd t rf toks cto ok to => bridge_call_in g c (bridge_call_receiver sd t cto) rf toks ok to
  | OConvertCoin t a b x => with_tok g t (fun tk => doB (convert_coin tk a b x))
  | OConvertERC20 t a b x => with_tok g t (fun tk => doB (convert_erc20 tk a b x))
  | OConvertDenom t a b src tg x => guard (0 <? x) ;; with_tok g t (fun tk => doB (msg_convert_denom tk a b src tg x))
  | OToggle t => toggle t
  | OPreCrossChain c t a amt fee nat => with_tok g t (fun tk => pre_cross_chain tk c a amt fee nat)
  | OPreBridgeCall c a r v toks to => pre_bridge_call g c a r v toks to
  | OPreCancel c a id => cancel_send g c a id
  | OPreIncreaseFee c t a id x nat => with_tok g t (fun tk => pre_increase_fee tk c a id x nat)
  | OBankSend a b d x => doB (send a b d x)
  | OErc20Transfer t a b x => doB (erc20_transfer t a b x)
  | OWfxDeposit a x => doB (send a A_WFX FX x ++ erc20_mint 0 a x)
  | OWfxWithdraw a x => doB (erc20_burn 0 a x ++ send A_WFX a FX x)
  | OIbcMint t a x => with_tok g t (fun tk => doB (Chk (t_ibc tk && negb (is_fx tk)) ::
                                                   mint A_IBC (ibc_of tk) x ++ send A_IBC a (ibc_of tk) x) ;;
                                              dep_add t 9 x)
  | OIbcToBase t a x => with_tok g t (fun tk => doB (ibc_to_base tk a x))
  | OBaseToIbc t a x => with_tok g t (fun tk => doB (base_to_ibc tk a x))
  | OPreCrossChainIbc t a amt nat => with_tok g t (fun tk => pre_cross_chain_ibc tk a amt nat)
  | OIbcRecv t a x => with_tok g t (fun tk => ibc_recv tk a x)
  end.

(* transaction semantics: a failing operation leaves the state unchanged *)
Definition step (g : cfg) (s : state) (o : op) : state * bool :=
  match run g o s with Some s' => (s', true) | None => (s, false) end.

Definition steps (g : cfg) (s : state) (l : list op) : state :=
  fold_left (fun s o => fst (step g s o)) l s.
