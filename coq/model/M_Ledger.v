(* M_Ledger.v — executable model of how value moves through the fx-core bridge (C04) and the
   coin<->ERC-20 conversions (C08).  Transcribed statement by statement from

     x/crosschain/keeper/many_to_one.go   DepositBridgeToken WithdrawBridgeToken ConversionCoin
                                          BridgeTokenToBaseCoin BaseCoinToBridgeToken BaseCoinToEvm
                                          EvmToBaseCoin IBCCoinToBaseCoin BaseCoinToIBCCoin
     x/crosschain/keeper/outgoing_pool.go addToOutgoingPool handleRemoveFromOutgoingPoolAndRefund handleCancelRefund
     x/crosschain/keeper/batch_fee.go     AddUnbatchedTxBridgeFee      (the OLDER escrow/burn rule)
     x/crosschain/keeper/batch.go         BuildOutgoingTxBatch OutgoingTxBatchExecuted CancelOutgoingTxBatch
     x/crosschain/keeper/send_to_fx.go    SendToFxExecuted
     x/crosschain/keeper/bridge_call_*.go BridgeCallHandler BridgeCallEvm BridgeCallFailedRefund AddOutgoingBridgeCall
                                          BridgeCallResultHandler HandleOutgoingBridgeCallRefund
                                          bridgeCallTransferCoins bridgeCallTransferTokens   (OLDER rule)
     x/crosschain/keeper/abci.go          cleanupTimedOutBatches cleanupTimeOutBridgeCall
     x/crosschain/precompile/*.go         crossChain bridgeCall cancelSendToExternal increaseBridgeFee (EOA caller)
     x/erc20/keeper/msg_server.go         ConvertCoin* ConvertERC20* ConvertDenom ConvertDenomToTarget (OLDER rule)
     x/erc20/keeper/token_pairs.go        IsOriginOrConvertedDenom
     solidity/contracts/fip20             FIP20 / WFX as ledgers (transfer mint burn deposit withdraw)

   as the code IS in this snapshot: the newer many-to-one accounting and the older
   IsOriginOrConvertedDenom / ConvertDenomToTarget accounting coexist, each entry point is modelled with the
   rule it actually calls.  No proofs in this file.

   Abstractions.  Accounts, denoms, tokens and chains are integers:
     chain c          : 1..8, its crosschain module account is account c
     erc20 module     : account 20     ibc transfer module : account 21
     WFX contract     : account 22     evm module          : account 23   precompile address: account 24
     users/contracts  : any other id (the harness uses >= 100)
     token t          : t_id; FX has t_id 0
     denoms of t      : base = 10*t_id, bridge denom on chain c = 10*t_id + c (FX: the base itself),
                        IBC voucher alias = 10*t_id + 9
   The token registry (kind, chains with a bridge alias, IBC alias) is a static configuration; the pair's
   Enabled flag is state.  Amounts are Z; every message amount is > 0 (ValidateBasic), sdkmath.Int's 256-bit
   cap is not modelled.  A failing operation returns None: the SDK discards the transaction's cache branch, so
   the state is unchanged (step_total below). *)
From Coq Require Import ZArith List Bool.
Import ListNotations.
Open Scope Z_scope.

(* ---------- finite maps as shadowing association lists: get after set behaves like a function ---------- *)
Definition map1 := list (Z * Z).
Definition map2 := list ((Z * Z) * Z).

Fixpoint get1 (k : Z) (m : map1) : Z :=
  match m with [] => 0 | (k', v) :: r => if k =? k' then v else get1 k r end.
Definition set1 (k v : Z) (m : map1) : map1 := (k, v) :: m.

Definition key_eqb (a b : Z * Z) : bool := (fst a =? fst b) && (snd a =? snd b).
Fixpoint get2 (k : Z * Z) (m : map2) : Z :=
  match m with [] => 0 | (k', v) :: r => if key_eqb k k' then v else get2 k r end.
Definition set2 (k : Z * Z) (v : Z) (m : map2) : map2 := (k, v) :: m.

(* ---------- configuration ---------- *)
Inductive kind := KFX | KMod | KExt.
Record token := { t_id : Z; t_kind : kind; t_chains : list Z; t_ibc : bool }.
Definition cfg := list token.

Definition A_ERC20 : Z := 20.
Definition A_IBC : Z := 21.
Definition A_WFX : Z := 22.
Definition A_EVM : Z := 23.
Definition A_PRE : Z := 24.
Definition FX : Z := 0.

Fixpoint find_tok (g : cfg) (t : Z) : option token :=
  match g with [] => None | x :: r => if t_id x =? t then Some x else find_tok r t end.

Definition memZ (x : Z) (l : list Z) : bool := existsb (Z.eqb x) l.

Definition base_of (t : token) : Z := 10 * t_id t.
Definition alias_of (t : token) (c : Z) : Z :=
  match t_kind t with KFX => FX | _ => 10 * t_id t + c end.
Definition ibc_of (t : token) : Z := 10 * t_id t + 9.
Definition is_fx (t : token) : bool := match t_kind t with KFX => true | _ => false end.
Definition is_ext (t : token) : bool := match t_kind t with KExt => true | _ => false end.
Definition is_mod (t : token) : bool := match t_kind t with KMod => true | _ => false end.

(* ---------- state ---------- *)
Record ptx := { p_id : Z; p_sender : Z; p_tok : Z; p_amt : Z; p_fee : Z }.
Record batch := { b_nonce : Z; b_tok : Z; b_txs : list ptx; b_timeout : Z }.
Record bcall := { c_nonce : Z; c_refund : Z; c_toks : list (Z * Z); c_timeout : Z }.

(* per-chain bridge records *)
Record xstate := {
  x_pool : list ptx;          (* unbatched transfers *)
  x_batches : list batch;
  x_calls : list bcall;       (* outgoing bridge calls, ascending nonce *)
  x_txid : Z; x_batchid : Z; x_callid : Z;   (* last ids handed out *)
  x_height : Z;               (* last observed external block height *)
  x_rel : list Z;             (* tx ids with an erc20 OutgoingTransferRelation *)
  x_frommsg : list Z          (* bridge-call nonces created by MsgBridgeCall *)
}.
Definition x0 : xstate :=
  {| x_pool := []; x_batches := []; x_calls := []; x_txid := 0; x_batchid := 0; x_callid := 0;
     x_height := 0; x_rel := []; x_frommsg := [] |}.

Record state := {
  bank : map2;      (* (account, denom) -> amount *)
  supply : map1;    (* denom -> amount *)
  ebal : map2;      (* (token, holder) -> ERC-20 balance *)
  etot : map1;      (* token -> ERC-20 totalSupply *)
  disabled : map1;  (* token -> 1 if the pair is toggled off *)
  xs : list (Z * xstate);   (* chain -> bridge records (shadowing) *)
  dep : map2;       (* ghost: (token, chain) -> amount deposited by executed inbound events; chain 9 = IBC *)
  exe : map2        (* ghost: (token, chain) -> amount observed as executed on the external chain *)
}.

Fixpoint getx (c : Z) (l : list (Z * xstate)) : xstate :=
  match l with [] => x0 | (c', x) :: r => if c =? c' then x else getx c r end.

Definition M := state -> option state.
Definition ret : M := fun s => Some s.
Definition fail : M := fun _ => None.
Definition bind (m : M) (f : M) : M := fun s => match m s with Some s' => f s' | None => None end.
Notation "m ;; f" := (bind m f) (at level 61, right associativity).
Definition guard (b : bool) : M := fun s => if b then Some s else None.

Definition with_bank (f : map2 -> map2) (s : state) : state :=
  {| bank := f (bank s); supply := supply s; ebal := ebal s; etot := etot s; disabled := disabled s;
     xs := xs s; dep := dep s; exe := exe s |}.
Definition with_supply (f : map1 -> map1) (s : state) : state :=
  {| bank := bank s; supply := f (supply s); ebal := ebal s; etot := etot s; disabled := disabled s;
     xs := xs s; dep := dep s; exe := exe s |}.
Definition with_ebal (f : map2 -> map2) (s : state) : state :=
  {| bank := bank s; supply := supply s; ebal := f (ebal s); etot := etot s; disabled := disabled s;
     xs := xs s; dep := dep s; exe := exe s |}.
Definition with_etot (f : map1 -> map1) (s : state) : state :=
  {| bank := bank s; supply := supply s; ebal := ebal s; etot := f (etot s); disabled := disabled s;
     xs := xs s; dep := dep s; exe := exe s |}.
Definition with_disabled (f : map1 -> map1) (s : state) : state :=
  {| bank := bank s; supply := supply s; ebal := ebal s; etot := etot s; disabled := f (disabled s);
     xs := xs s; dep := dep s; exe := exe s |}.
Definition with_x (c : Z) (f : xstate -> xstate) (s : state) : state :=
  {| bank := bank s; supply := supply s; ebal := ebal s; etot := etot s; disabled := disabled s;
     xs := (c, f (getx c (xs s))) :: xs s; dep := dep s; exe := exe s |}.
Definition with_dep (f : map2 -> map2) (s : state) : state :=
  {| bank := bank s; supply := supply s; ebal := ebal s; etot := etot s; disabled := disabled s;
     xs := xs s; dep := f (dep s); exe := exe s |}.
Definition with_exe (f : map2 -> map2) (s : state) : state :=
  {| bank := bank s; supply := supply s; ebal := ebal s; etot := etot s; disabled := disabled s;
     xs := xs s; dep := dep s; exe := f (exe s) |}.

(* ---------- primitive moves (x/bank, FIP20) ---------- *)
(* every primitive is "add a signed amount to one cell", guarded by sufficiency *)
Definition bank_add (a d x : Z) : M := fun s =>
  Some (with_bank (set2 (a, d) (get2 (a, d) (bank s) + x)) s).
Definition bank_sub (a d x : Z) : M := fun s =>
  if x <=? get2 (a, d) (bank s) then Some (with_bank (set2 (a, d) (get2 (a, d) (bank s) - x)) s) else None.
Definition supply_add (d x : Z) : M := fun s =>
  Some (with_supply (set1 d (get1 d (supply s) + x)) s).

(* bank SendCoins: subUnlockedCoins then addCoins, sequentially (from = to nets to zero) *)
Definition send (from to d x : Z) : M := bank_sub from d x ;; bank_add to d x.
(* MintCoins(module): module balance and supply grow *)
Definition mint (m d x : Z) : M := bank_add m d x ;; supply_add d x.
(* BurnCoins(module): fails if the module does not hold x *)
Definition burn (m d x : Z) : M := bank_sub m d x ;; supply_add d (- x).

Definition ebal_add (t a x : Z) : M := fun s =>
  Some (with_ebal (set2 (t, a) (get2 (t, a) (ebal s) + x)) s).
Definition ebal_sub (t a x : Z) : M := fun s =>
  if x <=? get2 (t, a) (ebal s) then Some (with_ebal (set2 (t, a) (get2 (t, a) (ebal s) - x)) s) else None.
Definition etot_add (t x : Z) : M := fun s =>
  Some (with_etot (set1 t (get1 t (etot s) + x)) s).

(* FIP20._mint / _burn / _transfer *)
Definition erc20_mint (t a x : Z) : M := etot_add t x ;; ebal_add t a x.
Definition erc20_burn (t a x : Z) : M := ebal_sub t a x ;; etot_add t (- x).
Definition erc20_transfer (t from to x : Z) : M := ebal_sub t from x ;; ebal_add t to x.

Definition dep_add (t c x : Z) : M := fun s =>
  Some (with_dep (set2 (t, c) (get2 (t, c) (dep s) + x)) s).
Definition exe_add (t c x : Z) : M := fun s =>
  Some (with_exe (set2 (t, c) (get2 (t, c) (exe s) + x)) s).

(* ---------- x/erc20 conversions (msg_server.go) ---------- *)
Definition pair_enabled (t : token) : M := fun s =>
  if get1 (t_id t) (disabled s) =? 0 then Some s else None.

(* ConvertCoin: MintingEnabled; ConvertCoinNativeCoin / ConvertCoinNativeERC20 *)
Definition convert_coin (t : token) (sender receiver x : Z) : M :=
  pair_enabled t ;;
  match t_kind t with
  | KFX => send sender A_ERC20 FX x ;; erc20_mint (t_id t) receiver x ;; send A_ERC20 A_WFX FX x
  | KMod => send sender A_ERC20 (base_of t) x ;; erc20_mint (t_id t) receiver x
  | KExt => send sender A_ERC20 (base_of t) x ;; erc20_transfer (t_id t) A_ERC20 receiver x ;;
            burn A_ERC20 (base_of t) x
  end.

(* ConvertERC20: ConvertERC20NativeCoin / ConvertERC20NativeToken *)
Definition convert_erc20 (t : token) (sender receiver x : Z) : M :=
  pair_enabled t ;;
  match t_kind t with
  | KFX => erc20_burn (t_id t) sender x ;; send A_WFX A_ERC20 FX x ;; send A_ERC20 receiver FX x
  | KMod => erc20_burn (t_id t) sender x ;; send A_ERC20 receiver (base_of t) x
  | KExt => erc20_transfer (t_id t) sender A_ERC20 x ;; mint A_ERC20 (base_of t) x ;;
            send A_ERC20 receiver (base_of t) x
  end.

(* ---- the OLDER rule: ConvertDenomToTarget (erc20 keeper) ----
   which: 0 = base, c in 1..8 = bridge alias of chain c, 9 = IBC alias.
   GetTargetCoin/ToTargetDenom: target 0 (""/erc20) -> base; chain c -> the alias with that prefix if the
   token has one, else base.  FX has no aliases in its metadata: never converted. *)
Definition denom_rep (t : token) (which : Z) : Z :=
  if which =? 0 then base_of t else if which =? 9 then ibc_of t else alias_of t which.
Definition has_rep (t : token) (which : Z) : bool :=
  if which =? 0 then true else if which =? 9 then t_ibc t else memZ which (t_chains t).
Definition has_aliases (t : token) : bool :=
  match t_chains t with [] => t_ibc t | _ => true end.

Definition old_target (t : token) (target : Z) : Z :=
  if target =? 0 then 0 else if memZ target (t_chains t) then target else 0.

(* returns through k the representation the holder ends up with *)
Definition convert_denom_to_target (t : token) (from src target : Z) (x : Z) : M :=
  if is_fx t || negb (has_aliases t) then ret
  else
    let tg := old_target t target in
    if src =? tg then ret
    else
      send from A_ERC20 (denom_rep t src) x ;;
      (match t_kind t with
       | KMod => (* convertNativeCoin *)
           if src =? 0 then burn A_ERC20 (base_of t) x
           else if tg =? 0 then mint A_ERC20 (base_of t) x
           else ret
       | _ => (* convertNativeERC20 *)
           if src =? 0 then mint A_ERC20 (denom_rep t tg) x
           else if tg =? 0 then burn A_ERC20 (denom_rep t src) x
           else ret
       end) ;;
      send A_ERC20 from (denom_rep t tg) x.
Definition converted_rep (t : token) (src target : Z) : Z :=
  if is_fx t || negb (has_aliases t) then src else old_target t target.

(* MsgConvertDenom *)
Definition msg_convert_denom (t : token) (sender receiver src target x : Z) : M :=
  guard (has_rep t src) ;;
  convert_denom_to_target t sender src target x ;;
  guard (negb (converted_rep t src target =? src)) ;;
  (if sender =? receiver then ret
   else send sender A_ERC20 (denom_rep t (converted_rep t src target)) x ;;
        send A_ERC20 receiver (denom_rep t (converted_rep t src target)) x).

(* IsOriginOrConvertedDenom on a bridge denom of token t: FX -> true, module-owned alias -> false,
   externally-owned alias -> true *)
Definition origin_or_converted (t : token) : bool :=
  match t_kind t with KFX => true | KMod => false | KExt => true end.

(* ---------- the NEWER rule: many_to_one.go ---------- *)
(* DepositBridgeToken on chain c *)
Definition deposit_bridge_token (t : token) (c holder x : Z) : M :=
  match t_kind t with
  | KFX => send c holder FX x
  | KMod => mint c (alias_of t c) x ;; send c holder (alias_of t c) x
  | KExt => send c holder (alias_of t c) x
  end.

(* WithdrawBridgeToken on chain c *)
Definition withdraw_bridge_token (t : token) (c holder x : Z) : M :=
  send holder c (alias_of t c) x ;;
  match t_kind t with
  | KFX => ret
  | KExt => ret
  | KMod => burn c (alias_of t c) x
  end.

(* ConversionCoin(holder, coin, base, target) on chain c; to_base = true: bridge denom -> base *)
Definition conversion_coin (t : token) (c holder x : Z) (to_base : bool) : M :=
  if is_fx t then ret
  else
    let src := if to_base then alias_of t c else base_of t in
    let tgt := if to_base then base_of t else alias_of t c in
    send holder c src x ;;
    if is_ext t then burn c src x ;; mint c tgt x ;; send c holder tgt x
    else if to_base then mint c tgt x ;; send c holder tgt x
    else burn c src x ;; send c holder tgt x.

Definition on_chain (t : token) (c : Z) : bool := memZ c (t_chains t).

(* BridgeTokenToBaseCoin: the bridge token must exist on chain c *)
Definition bridge_token_to_base (t : token) (c holder x : Z) : M :=
  guard (on_chain t c) ;; deposit_bridge_token t c holder x ;; conversion_coin t c holder x true.

(* BaseCoinToBridgeToken: ManyToOne(base, chain) fails if the token has no alias on c *)
Definition base_to_bridge_token (t : token) (c holder x : Z) : M :=
  guard (on_chain t c) ;; conversion_coin t c holder x false ;; withdraw_bridge_token t c holder x.

(* BaseCoinToEvm / EvmToBaseCoin: ConvertCoin / ConvertERC20 with sender = receiver = holder *)
Definition base_to_evm (t : token) (holder x : Z) : M := convert_coin t holder holder x.
Definition evm_to_base (t : token) (holder x : Z) : M := convert_erc20 t holder holder x.

(* IBCCoinToBaseCoin / BaseCoinToIBCCoin (holder's voucher <-> base through the transfer module account) *)
Definition ibc_to_base (t : token) (holder x : Z) : M :=
  guard (t_ibc t && negb (is_fx t)) ;;
  send holder A_IBC (ibc_of t) x ;; mint A_IBC (base_of t) x ;; send A_IBC holder (base_of t) x.
Definition base_to_ibc (t : token) (holder x : Z) : M :=
  guard (t_ibc t && negb (is_fx t)) ;;
  send holder A_IBC (base_of t) x ;; burn A_IBC (base_of t) x ;; send A_IBC holder (ibc_of t) x.

(* ---------- pool / batch / bridge-call records (only as far as value moves) ---------- *)
Definition upd_x (c : Z) (f : xstate -> xstate) : M := fun s => Some (with_x c f s).

Definition x_set_pool (l : list ptx) (x : xstate) : xstate :=
  {| x_pool := l; x_batches := x_batches x; x_calls := x_calls x; x_txid := x_txid x; x_batchid := x_batchid x;
     x_callid := x_callid x; x_height := x_height x; x_rel := x_rel x; x_frommsg := x_frommsg x |}.
Definition x_set_batches (l : list batch) (x : xstate) : xstate :=
  {| x_pool := x_pool x; x_batches := l; x_calls := x_calls x; x_txid := x_txid x; x_batchid := x_batchid x;
     x_callid := x_callid x; x_height := x_height x; x_rel := x_rel x; x_frommsg := x_frommsg x |}.
Definition x_set_calls (l : list bcall) (x : xstate) : xstate :=
  {| x_pool := x_pool x; x_batches := x_batches x; x_calls := l; x_txid := x_txid x; x_batchid := x_batchid x;
     x_callid := x_callid x; x_height := x_height x; x_rel := x_rel x; x_frommsg := x_frommsg x |}.
Definition x_set_txid (n : Z) (x : xstate) : xstate :=
  {| x_pool := x_pool x; x_batches := x_batches x; x_calls := x_calls x; x_txid := n; x_batchid := x_batchid x;
     x_callid := x_callid x; x_height := x_height x; x_rel := x_rel x; x_frommsg := x_frommsg x |}.
Definition x_set_batchid (n : Z) (x : xstate) : xstate :=
  {| x_pool := x_pool x; x_batches := x_batches x; x_calls := x_calls x; x_txid := x_txid x; x_batchid := n;
     x_callid := x_callid x; x_height := x_height x; x_rel := x_rel x; x_frommsg := x_frommsg x |}.
Definition x_set_callid (n : Z) (x : xstate) : xstate :=
  {| x_pool := x_pool x; x_batches := x_batches x; x_calls := x_calls x; x_txid := x_txid x; x_batchid := x_batchid x;
     x_callid := n; x_height := x_height x; x_rel := x_rel x; x_frommsg := x_frommsg x |}.
Definition x_set_height (n : Z) (x : xstate) : xstate :=
  {| x_pool := x_pool x; x_batches := x_batches x; x_calls := x_calls x; x_txid := x_txid x; x_batchid := x_batchid x;
     x_callid := x_callid x; x_height := n; x_rel := x_rel x; x_frommsg := x_frommsg x |}.
Definition x_set_rel (l : list Z) (x : xstate) : xstate :=
  {| x_pool := x_pool x; x_batches := x_batches x; x_calls := x_calls x; x_txid := x_txid x; x_batchid := x_batchid x;
     x_callid := x_callid x; x_height := x_height x; x_rel := l; x_frommsg := x_frommsg x |}.
Definition x_set_frommsg (l : list Z) (x : xstate) : xstate :=
  {| x_pool := x_pool x; x_batches := x_batches x; x_calls := x_calls x; x_txid := x_txid x; x_batchid := x_batchid x;
     x_callid := x_callid x; x_height := x_height x; x_rel := x_rel x; x_frommsg := l |}.

Definition X (c : Z) (s : state) : xstate := getx c (xs s).

Fixpoint find_ptx (id : Z) (l : list ptx) : option ptx :=
  match l with [] => None | p :: r => if p_id p =? id then Some p else find_ptx id r end.
Definition del_ptx (id : Z) (l : list ptx) : list ptx := filter (fun p => negb (p_id p =? id)) l.
Definition remZ (x : Z) (l : list Z) : list Z := filter (fun y => negb (y =? x)) l.

(* AddToOutgoingPool: autoIncrementID, BaseCoinToBridgeToken(amount+fee), AddUnbatchedTx *)
Definition add_to_outgoing_pool (t : token) (c sender amt fee : Z) : M := fun s =>
  let id := x_txid (X c s) + 1 in
  (upd_x c (x_set_txid id) ;;
   base_to_bridge_token t c sender (amt + fee) ;;
   upd_x c (fun x => x_set_pool ({| p_id := id; p_sender := sender; p_tok := t_id t; p_amt := amt; p_fee := fee |}
                                   :: x_pool x) x)) s.

(* handleRemoveFromOutgoingPoolAndRefund + handleCancelRefund + handleOutgoingTransferRelation *)
Definition cancel_send (g : cfg) (c sender id : Z) : M := fun s =>
  match find_ptx id (x_pool (X c s)) with
  | None => None
  | Some p =>
    match find_tok g (p_tok p) with
    | None => None
    | Some t =>
      (guard (p_sender p =? sender) ;;
       upd_x c (fun x => x_set_pool (del_ptx id (x_pool x)) x) ;;
       bridge_token_to_base t c sender (p_amt p + p_fee p) ;;
       (if memZ id (x_rel (X c s))
        then convert_coin t sender sender (p_amt p + p_fee p) ;; upd_x c (fun x => x_set_rel (remZ id (x_rel x)) x)
        else ret)) s
    end
  end.

(* AddUnbatchedTxBridgeFee: the OLDER rule; the fee coin is a bridge denom (rep = chain alias) *)
Definition add_bridge_fee (g : cfg) (t : token) (c sender id x : Z) : M := fun s =>
  match find_ptx id (x_pool (X c s)) with
  | None => None
  | Some p =>
    (guard (on_chain t c) ;; guard (p_tok p =? t_id t) ;;
     send sender c (alias_of t c) x ;;
     (if origin_or_converted t then ret else burn c (alias_of t c) x) ;;
     upd_x c (fun xx => x_set_pool ({| p_id := p_id p; p_sender := p_sender p; p_tok := p_tok p; p_amt := p_amt p;
                                       p_fee := p_fee p + x |} :: del_ptx id (x_pool xx)) xx)) s
  end.

Definition sumZ (l : list Z) : Z := fold_right Z.add 0 l.
Definition fees_of (l : list ptx) : Z := sumZ (map p_fee l).
Definition total_of (l : list ptx) : Z := sumZ (map (fun p => p_amt p + p_fee p) l).
Definition of_tok (t : Z) (l : list ptx) : list ptx := filter (fun p => p_tok p =? t) l.
Definition not_tok (t : Z) (l : list ptx) : list ptx := filter (fun p => negb (p_tok p =? t)) l.

(* GetLastOutgoingBatchByToken: highest nonce for the token *)
Fixpoint last_batch (t : Z) (l : list batch) (best : option batch) : option batch :=
  match l with
  | [] => best
  | b :: r =>
    if b_tok b =? t
    then match best with
         | Some b0 => if b_nonce b0 <? b_nonce b then last_batch t r (Some b) else last_batch t r best
         | None => last_batch t r (Some b)
         end
    else last_batch t r best
  end.

(* BuildOutgoingTxBatch with maxElements above the pool size, baseFee 0, minimumFee 1: takes every
   unbatched tx of the token; `timeout` is the value the real code computed (read back by the harness) *)
Definition request_batch (t : token) (c timeout : Z) : M := fun s =>
  let x := X c s in
  let sel := of_tok (t_id t) (x_pool x) in
  (guard (on_chain t c) ;;
   guard (match last_batch (t_id t) (x_batches x) None with
          | Some b => negb (fees_of sel <? fees_of (b_txs b)) | None => true end) ;;
   guard (match sel with [] => false | _ => true end) ;;
   guard (1 <=? fees_of sel) ;;
   guard (negb (x_height x =? 0)) ;;
   upd_x c (fun x => x_set_batchid (x_batchid x + 1)
                     (x_set_batches ({| b_nonce := x_batchid x + 1; b_tok := t_id t; b_txs := sel;
                                        b_timeout := timeout |} :: x_batches x)
                     (x_set_pool (not_tok (t_id t) (x_pool x)) x)))) s.

Fixpoint find_batch (t n : Z) (l : list batch) : option batch :=
  match l with [] => None | b :: r => if (b_tok b =? t) && (b_nonce b =? n) then Some b else find_batch t n r end.

(* CancelOutgoingTxBatch for every batch selected by sel: txs back to the pool, batch deleted *)
Definition cancel_batches (sel : batch -> bool) (x : xstate) : xstate :=
  x_set_batches (filter (fun b => negb (sel b)) (x_batches x))
    (x_set_pool (flat_map b_txs (filter sel (x_batches x)) ++ x_pool x) x).

(* OutgoingTxBatchExecuted: earlier batches of the token cancelled, batch deleted, relations dropped;
   the batch's value is now observed as executed *)
Definition batch_executed (t : token) (c n : Z) : M := fun s =>
  match find_batch (t_id t) n (x_batches (X c s)) with
  | None => None  (* panic: unknown batch *)
  | Some b =>
    (upd_x c (cancel_batches (fun b' => (b_tok b' =? t_id t) && (b_nonce b' <? n))) ;;
     upd_x c (fun x => x_set_batches (filter (fun b' => negb ((b_tok b' =? t_id t) && (b_nonce b' =? n))) (x_batches x)) x) ;;
     upd_x c (fun x => x_set_rel (filter (fun id => negb (memZ id (map p_id (b_txs b)))) (x_rel x)) x) ;;
     exe_add (t_id t) c (total_of (b_txs b))) s
  end.

(* AddOutgoingBridgeCall: BaseCoinToBridgeToken per coin from `sender`, record with the refund address *)
Fixpoint each_tok (g : cfg) (f : token -> Z -> M) (l : list (Z * Z)) : M :=
  match l with
  | [] => ret
  | (t, x) :: r => match find_tok g t with None => fail | Some tk => f tk x ;; each_tok g f r end
  end.

Definition add_outgoing_bridge_call (g : cfg) (c sender refund : Z) (toks : list (Z * Z)) (timeout : Z) : M := fun s =>
  (each_tok g (fun t x => base_to_bridge_token t c sender x) toks ;;
   guard (negb (x_height (X c s) =? 0)) ;;
   upd_x c (fun x => x_set_callid (x_callid x + 1)
                     (x_set_calls (x_calls x ++ [{| c_nonce := x_callid x + 1; c_refund := refund; c_toks := toks;
                                                   c_timeout := timeout |}]) x))) s.

(* HandleOutgoingBridgeCallRefund — the OLDER rule:
   bridgeCallTransferCoins: mint (unless origin/converted) all, unlock all to refund, ConvertDenomToTarget each to base;
   then, unless the call came from MsgBridgeCall, bridgeCallTransferTokens: ConvertCoin each (FX stays a coin) *)
Definition refund_mint (c : Z) (t : token) (x : Z) : M :=
  if origin_or_converted t then ret else mint c (alias_of t c) x.
Definition refund_unlock (c refund : Z) (t : token) (x : Z) : M := send c refund (alias_of t c) x.
Definition refund_to_base (c refund : Z) (t : token) (x : Z) : M := convert_denom_to_target t refund c 0 x.
Definition refund_to_evm (refund : Z) (t : token) (x : Z) : M :=
  if is_fx t then ret else convert_coin t refund refund x.

Definition pos_toks (l : list (Z * Z)) : list (Z * Z) := filter (fun p => 0 <? snd p) l.

Definition bridge_call_refund (g : cfg) (c : Z) (b : bcall) : M := fun s =>
  (guard (forallb (fun p => match find_tok g (fst p) with Some t => on_chain t c | None => false end) (c_toks b)) ;;
   each_tok g (refund_mint c) (pos_toks (c_toks b)) ;;
   each_tok g (refund_unlock c (c_refund b)) (pos_toks (c_toks b)) ;;
   each_tok g (refund_to_base c (c_refund b)) (pos_toks (c_toks b)) ;;
   (if memZ (c_nonce b) (x_frommsg (X c s)) then ret
    else each_tok g (refund_to_evm (c_refund b)) (pos_toks (c_toks b)))) s.

Definition del_call (c n : Z) : M :=
  upd_x c (fun x => x_set_frommsg (remZ n (x_frommsg x))
                    (x_set_calls (filter (fun b => negb (c_nonce b =? n)) (x_calls x)) x)).

Fixpoint find_call (n : Z) (l : list bcall) : option bcall :=
  match l with [] => None | b :: r => if c_nonce b =? n then Some b else find_call n r end.

Fixpoint each_exe (c : Z) (l : list (Z * Z)) : M :=
  match l with [] => ret | (t, x) :: r => exe_add t c x ;; each_exe c r end.
Fixpoint each_dep (c : Z) (l : list (Z * Z)) : M :=
  match l with [] => ret | (t, x) :: r => dep_add t c x ;; each_dep c r end.

(* BridgeCallResultHandler *)
Definition bridge_call_result (g : cfg) (c n : Z) (success : bool) : M := fun s =>
  match find_call n (x_calls (X c s)) with
  | None => None  (* panic *)
  | Some b =>
    ((if success then each_exe c (c_toks b) else bridge_call_refund g c b) ;; del_call c n) s
  end.

(* cleanupTimedOutBatches; cleanupTimeOutBridgeCall (ascending nonce, stops at the first live one) *)
Definition cleanup_batches (c : Z) : M := fun s =>
  upd_x c (cancel_batches (fun b => b_timeout b <? x_height (X c s))) s.

Fixpoint cleanup_calls (g : cfg) (c h : Z) (l : list bcall) : M :=
  match l with
  | [] => ret
  | b :: r => if h <? c_timeout b then ret
              else bridge_call_refund g c b ;; del_call c (c_nonce b) ;; cleanup_calls g c h r
  end.

(* an observed claim: height recorded, handler, then the two clean-ups (TryAttestation) *)
Definition observe (g : cfg) (c h : Z) (handler : M) : M :=
  upd_x c (x_set_height h) ;; handler ;; cleanup_batches c ;;
  (fun s => cleanup_calls g c h (x_calls (X c s)) s).

(* SendToFxExecuted: target 0 = none, 1 = erc20 *)
Definition send_to_fx (t : token) (c receiver x target : Z) : M :=
  bridge_token_to_base t c receiver x ;; dep_add (t_id t) c x ;;
  (if target =? 1 then base_to_evm t receiver x else ret).

(* BridgeCallHandler: deposit to the receiver, BridgeCallEvm in a cache branch (ConvertCoin each to the receiver,
   then the EVM call whose outcome evm_ok is known from the kind of `to`); on failure BridgeCallFailedRefund
   = AddOutgoingBridgeCall FROM THE REFUND ADDRESS.  toks are sorted by denom and merged (sdk.Coins). *)
Definition bridge_call_in (g : cfg) (c receiver refund : Z) (toks : list (Z * Z)) (evm_ok : bool) (timeout : Z) : M :=
  each_tok g (fun t x => bridge_token_to_base t c receiver x) toks ;;
  each_dep c toks ;;
  (fun s =>
     match (if evm_ok then each_tok g (fun t x => base_to_evm t receiver x) toks s else None) with
     | Some s' => Some s'
     | None => add_outgoing_bridge_call g c refund refund toks timeout s
     end).

(* ---------- precompile entry points called by an externally-owned account ---------- *)
(* handlerOriginToken: msg.value already moved sender -> precompile by the EVM, then precompile -> evm module -> sender *)
Definition handler_origin_token (sender x : Z) : M :=
  send sender A_PRE FX x ;; send A_PRE A_EVM FX x ;; send A_EVM sender FX x.

(* handlerERC20Token: transferFrom(sender -> erc20 module) and burn through the RUNNING EVM, then coins to sender *)
Definition handler_erc20_token (t : token) (sender x : Z) : M :=
  erc20_transfer (t_id t) sender A_ERC20 x ;;
  (match t_kind t with
   | KFX => erc20_burn (t_id t) A_ERC20 x ;; send A_WFX A_ERC20 FX x
   | KMod => erc20_burn (t_id t) A_ERC20 x
   | KExt => mint A_ERC20 (base_of t) x
   end) ;;
  send A_ERC20 sender (base_of t) x.

(* crossChain(token, ..., amount, fee, target=chain c); native = msg.value path (FX coin) *)
Definition pre_cross_chain (t : token) (c sender amt fee : Z) (native : bool) : M := fun s =>
  ((if native then guard (is_fx t) ;; handler_origin_token sender (amt + fee)
    else handler_erc20_token t sender (amt + fee)) ;;
   add_to_outgoing_pool t c sender amt fee ;;
   (if native then ret else upd_x c (fun x => x_set_rel ((x_txid x) :: x_rel x) x))) s.

(* bridgeCall(dstChain c, refund, tokens, amounts, ...) with msg.value = value *)
Definition pre_bridge_call (g : cfg) (c sender refund value : Z) (toks : list (Z * Z)) (timeout : Z) : M :=
  (if 0 <? value then handler_origin_token sender value else ret) ;;
  each_tok g (fun t x => evm_to_base t sender x) toks ;;
  add_outgoing_bridge_call g c sender refund ((if 0 <? value then [(FX, value)] else []) ++ toks) timeout.

(* increaseBridgeFee(chain c, txid, token, fee): handler*Token, ConvertDenomToTarget (OLDER rule), AddUnbatchedTxBridgeFee *)
Definition pre_increase_fee (g : cfg) (t : token) (c sender id x : Z) (native : bool) : M :=
  (if native then guard (is_fx t) ;; handler_origin_token sender x else handler_erc20_token t sender x) ;;
  convert_denom_to_target t sender 0 c x ;;
  guard (is_fx t || (converted_rep t 0 c =? c)) ;;
  add_bridge_fee g t c sender id x.

(* ---------- operations ---------- *)
Inductive op :=
| OSendToFx (c t receiver x target : Z)                      (* executed MsgSendToFxClaim *)
| OSendToExternal (c t sender amt fee : Z)                   (* MsgSendToExternal, base denom *)
| OCancel (c sender id : Z)                                  (* MsgCancelSendToExternal *)
| OIncreaseFee (c t sender id x : Z)                         (* MsgIncreaseBridgeFee, bridge denom *)
| ORequestBatch (c t timeout : Z)                            (* MsgRequestBatch *)
| OObserve (c h : Z)                                         (* any observed claim that only moves the height *)
| OBatchExecuted (c h t n : Z)                               (* observed MsgSendToExternalClaim *)
| OBridgeCallMsg (c sender refund : Z) (toks : list (Z * Z)) (timeout : Z)   (* MsgBridgeCall *)
| OBridgeCallResult (c n : Z) (success : bool)               (* executed MsgBridgeCallResultClaim *)
| OBridgeCallIn (c receiver refund : Z) (toks : list (Z * Z)) (evm_ok : bool) (timeout : Z)
| OConvertCoin (t sender receiver x : Z)
| OConvertERC20 (t sender receiver x : Z)
| OConvertDenom (t sender receiver src target x : Z)
| OToggle (t : Z)
| OPreCrossChain (c t sender amt fee : Z) (native : bool)
| OPreBridgeCall (c sender refund value : Z) (toks : list (Z * Z)) (timeout : Z)
| OPreCancel (c sender id : Z)
| OPreIncreaseFee (c t sender id x : Z) (native : bool)
| OBankSend (from to d x : Z)                                (* bank MsgSend between users *)
| OErc20Transfer (t from to x : Z)                           (* token.transfer by an EOA *)
| OWfxDeposit (a x : Z)                                      (* WFX.deposit{value: x} *)
| OWfxWithdraw (a x : Z)                                     (* WFX.withdraw(x) *)
| OIbcMint (t a x : Z)                                       (* inbound IBC packet: voucher minted to a *)
| OIbcToBase (t a x : Z)                                     (* IBCCoinToBaseCoin *)
| OBaseToIbc (t a x : Z).                                    (* BaseCoinToIBCCoin *)

Definition with_tok (g : cfg) (t : Z) (f : token -> M) : M :=
  match find_tok g t with Some tk => f tk | None => fail end.

Definition is_module (a : Z) : bool := (1 <=? a) && (a <=? 24).

Definition run (g : cfg) (o : op) : M :=
  match o with
  | OSendToFx c t r x tg => with_tok g t (fun tk => send_to_fx tk c r x tg)
  | OSendToExternal c t a amt fee => with_tok g t (fun tk => add_to_outgoing_pool tk c a amt fee)
  | OCancel c a id => cancel_send g c a id
  | OIncreaseFee c t a id x => with_tok g t (fun tk => add_bridge_fee g tk c a id x)
  | ORequestBatch c t to => with_tok g t (fun tk => request_batch tk c to)
  | OObserve c h => observe g c h ret
  | OBatchExecuted c h t n => with_tok g t (fun tk => observe g c h (batch_executed tk c n))
  | OBridgeCallMsg c a r toks to =>
      add_outgoing_bridge_call g c a r toks to ;;
      upd_x c (fun x => x_set_frommsg (x_callid x :: x_frommsg x) x)
  | OBridgeCallResult c n ok => bridge_call_result g c n ok
  | OBridgeCallIn c r rf toks ok to => bridge_call_in g c r rf toks ok to
  | OConvertCoin t a b x => with_tok g t (fun tk => convert_coin tk a b x)
  | OConvertERC20 t a b x => with_tok g t (fun tk => convert_erc20 tk a b x)
  | OConvertDenom t a b src tg x => with_tok g t (fun tk => msg_convert_denom tk a b src tg x)
  | OToggle t => fun s => Some (with_disabled (set1 t (1 - get1 t (disabled s))) s)
  | OPreCrossChain c t a amt fee nat => with_tok g t (fun tk => pre_cross_chain tk c a amt fee nat)
  | OPreBridgeCall c a r v toks to => pre_bridge_call g c a r v toks to
  | OPreCancel c a id => cancel_send g c a id
  | OPreIncreaseFee c t a id x nat => with_tok g t (fun tk => pre_increase_fee g tk c a id x nat)
  | OBankSend a b d x => send a b d x
  | OErc20Transfer t a b x => erc20_transfer t a b x
  | OWfxDeposit a x => send a A_WFX FX x ;; erc20_mint 0 a x
  | OWfxWithdraw a x => erc20_burn 0 a x ;; send A_WFX a FX x
  | OIbcMint t a x => with_tok g t (fun tk => guard (t_ibc tk && negb (is_fx tk)) ;;
                                              mint A_IBC (ibc_of tk) x ;; send A_IBC a (ibc_of tk) x ;;
                                              dep_add t 9 x)
  | OIbcToBase t a x => with_tok g t (fun tk => ibc_to_base tk a x)
  | OBaseToIbc t a x => with_tok g t (fun tk => base_to_ibc tk a x)
  end.

(* transaction semantics: a failing operation leaves the state unchanged *)
Definition step (g : cfg) (s : state) (o : op) : state * bool :=
  match run g o s with Some s' => (s', true) | None => (s, false) end.

Definition steps (g : cfg) (s : state) (l : list op) : state :=
  fold_left (fun s o => fst (step g s o)) l s.
