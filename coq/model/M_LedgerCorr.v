(* glue for the correspondence files Cases_C04.v / Cases_C08.v written by harness/c04:
   one case = one history on the real app.  After every operation the harness records whether the real
   code accepted it and a checksum (a fixed linear form with distinct weights) of every tracked observable:
   all (account, denom) balances incl. module accounts, supplies, ERC-20 balanceOf of every tracked holder,
   ERC-20 totalSupply, and the in-flight amount per (chain, token).  The model is run on the same operations
   and must agree on accept/reject and on the checksum after every step. *)
From Coq Require Import ZArith List Bool.
From FxV Require Import model.M_Ledger.
Import ListNotations.
Open Scope Z_scope.

Definition denoms_of (t : token) : list Z :=
  base_of t :: (if is_fx t then [] else map (alias_of t) (t_chains t)) ++ (if t_ibc t then [ibc_of t] else []).
Definition all_denoms (g : cfg) : list Z := flat_map denoms_of g.

Definition call_amt (t : Z) (b : bcall) : Z := sumZ (map snd (filter (fun p => fst p =? t) (c_toks b))).
Definition inflight (c t : Z) (s : state) : Z :=
  let r := sr s in
  total_of (filter (sel_tx c t) (pool r))
  + total_of (filter (sel_tx c t) (flat_map b_txs (filter (fun b => b_chain b =? c) (batches r))))
  + sumZ (map (call_amt t) (filter (fun b => c_chain b =? c) (calls r))).

Definition cells (g : cfg) (accts chains : list Z) (s : state) : list Z :=
  flat_map (fun a => map (fun d => get2 (a, d) (bank (sb s))) (all_denoms g)) accts
  ++ map (fun d => get1 d (supply (sb s))) (all_denoms g)
  ++ flat_map (fun t => map (fun a => get2 (t_id t, a) (ebal (sb s))) accts) g
  ++ map (fun t => get1 (t_id t) (etot (sb s))) g
  ++ flat_map (fun c => map (fun t => inflight c (t_id t) s) g) chains.

Fixpoint wsum (i : Z) (l : list Z) : Z :=
  match l with [] => 0 | v :: r => ((i + 1) * (i + 1) * 7919 + 13) * v + wsum (i + 1) r end.
Definition checksum (g : cfg) (accts chains : list Z) (s : state) : Z := wsum 0 (cells g accts chains s).

Record lcase := {
  lc_cfg : cfg; lc_accts : list Z; lc_chains : list Z;
  lc_bank : map2; lc_supply : map1; lc_ebal : map2; lc_etot : map1; lc_heights : list (Z * Z);
  lc_ops : list (op * bool * Z)
}.
Definition mk_lcase g a c b su eb et h ops : lcase :=
  {| lc_cfg := g; lc_accts := a; lc_chains := c; lc_bank := b; lc_supply := su; lc_ebal := eb; lc_etot := et;
     lc_heights := h; lc_ops := ops |}.

Definition init_of (k : lcase) : state :=
  {| sb := {| bank := lc_bank k; supply := lc_supply k; ebal := lc_ebal k; etot := lc_etot k; disabled := [] |};
     sr := {| pool := []; batches := []; calls := []; txid := []; batchid := []; callid := [];
              height := lc_heights k; rel := []; frommsg := [] |};
     sg := {| dept := []; exet := []; depc := []; exec := [] |} |}.

(* index (from 0) of the first step on which model and implementation disagree, -1 if none *)
Fixpoint first_bad (k : lcase) (i : Z) (s : state) (l : list (op * bool * Z)) : Z :=
  match l with
  | [] => -1
  | (o, ok, chk) :: r =>
    let (s', ok') := step (lc_cfg k) s o in
    if Bool.eqb ok ok' && (checksum (lc_cfg k) (lc_accts k) (lc_chains k) s' =? chk)
    then first_bad k (i + 1) s' r else i
  end.

Definition ledger_bad (k : lcase) : Z := first_bad k 0 (init_of k) (lc_ops k).
Definition ledger_mismatch (k : lcase) : bool := negb (ledger_bad k =? -1).

(* debugging aid: the model's cells after the first n steps *)
Definition cells_after (k : lcase) (n : nat) : list Z :=
  cells (lc_cfg k) (lc_accts k) (lc_chains k) (steps (lc_cfg k) (init_of k) (map (fun x => fst (fst x)) (firstn n (lc_ops k)))).
