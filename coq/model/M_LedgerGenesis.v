(* M_LedgerGenesis.v — the ledger model as a chain that starts at genesis and on which pairs are REGISTERED.  No proofs.
   M_Ledger takes the token configuration as given and starts in an arbitrary state.  Here:
     GRegister t   erc20 RegisterCoin / RegisterERC20 of configuration token t (governance): from now on the token can be
                   named by operations.  RegisterCoin deploys a fresh ERC-20 (totalSupply 0, no holder) for a denomination
                   nobody has escrowed; RegisterERC20 takes an existing contract of which the erc20 module holds nothing and
                   for which no coin has been minted: exactly the state an unregistered token of the configuration is in at
                   genesis (at_genesis in P_LedgerGenesis), and it stays in it because ...
     GOp o         ... an operation is accepted only if every token it names has been registered (the real handlers look the
                   pair up first: "token pair not found"); then it is M_Ledger.step.
   The pair of the native coin (FX / WFX) is registered by the erc20 InitGenesis: token 0 is registered from the start. *)
From Coq Require Import ZArith List Bool.
From FxV Require Import model.M_Ledger.
Import ListNotations.
Open Scope Z_scope.

(* the tokens an operation names (operations on stored records — cancel, results, observations — name none: the records
   exist only for registered tokens) *)
Definition op_tokens (o : op) : list Z :=
  match o with
  | OSendToFx _ t _ _ _ | OSendToExternal _ t _ _ _ | OIncreaseFee _ t _ _ _ | ORequestBatch _ t _ | OBatchExecuted _ _ t _ => [t]
  | OBridgeCallMsg _ _ _ toks _ => map fst toks
  | OBridgeCallIn _ _ _ _ toks _ _ _ => map fst toks
  | OPreBridgeCall _ _ _ v toks _ => (if 0 <? v then [0] else []) ++ map fst toks
  | OConvertCoin t _ _ _ | OConvertERC20 t _ _ _ | OConvertDenom t _ _ _ _ _ | OToggle t => [t]
  | OPreCrossChain _ t _ _ _ _ | OPreIncreaseFee _ t _ _ _ _ | OErc20Transfer t _ _ _ => [t]
  | OWfxDeposit _ _ | OWfxWithdraw _ _ => [0]
  | OIbcMint t _ _ | OIbcToBase t _ _ | OBaseToIbc t _ _ | OPreCrossChainIbc t _ _ _ | OIbcRecv t _ _ => [t]
  | OCancel _ _ _ | OPreCancel _ _ _ | OObserve _ _ | OBridgeCallResult _ _ _ | OBankSend _ _ _ _ => []
  end.

Inductive gop := GRegister (t : Z) | GOp (o : op).
Record gstate := { g_st : state; g_reg : list Z }.

Definition gstep (g : cfg) (s : gstate) (o : gop) : gstate * bool :=
  match o with
  | GRegister t =>
      match find_tok g t with
      | Some _ => if memZ t (g_reg s) then (s, false)   (* "coin denomination already registered" *)
                  else ({| g_st := g_st s; g_reg := t :: g_reg s |}, true)
      | None => (s, false)
      end
  | GOp o =>
      if forallb (fun t => memZ t (g_reg s)) (op_tokens o)
      then ({| g_st := fst (step g (g_st s) o); g_reg := g_reg s |}, snd (step g (g_st s) o))
      else (s, false)
  end.
Definition gsteps (g : cfg) (s : gstate) (l : list gop) : gstate := fold_left (fun s o => fst (gstep g s o)) l s.

(* the chain at genesis: ledger state s0, the native coin's pair registered *)
Definition genesis (s0 : state) : gstate := {| g_st := s0; g_reg := [0] |}.
