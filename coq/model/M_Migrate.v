(* M_Migrate.v — executable model of fx-core account migration (x/migrate) together with the
   parts of bank, staking, distribution and gov state it reads and rewrites.  No proofs here.

   Transcribed from
     x/migrate/keeper/msg_server.go   MigrateAccount: record check, checkMigrateFrom,
                                      validate all handlers, execute all handlers, SetMigrateRecord
     x/migrate/types/msg.go           ValidateBasic (same account, signature recovers to `to`)
     x/migrate/keeper/bank.go         BankMigrate.Execute (SendCoins of GetAllBalances)
     x/migrate/keeper/distr_staking.go  Validate / Execute (raw key-by-key rewrite)
     x/migrate/keeper/gov.go + x/gov/keeper/proposal.go   walk of the WHOLE deposit and voting queues
                                      (govQueueEnd = year 9999; since f80617f)
   and, for the follow-up behaviour,
     cosmos-sdk x/staking keeper: BlockValidatorUpdates (DequeueAllMature…, CompleteUnbonding,
                                      CompleteRedelegation), Set/RemoveUnbondingDelegation,
     fx-core x/gov abci.go EndBlocker (expired inactive / active proposals), AddDeposit,
     ActivateVotingPeriod, SubmitProposal, AddVote.

   Abstractions: an address (account, validator operator, module account) is an integer id — the
   20 address bytes, used both as sdk.AccAddress and sdk.ValAddress; denominations, proposal ids and
   unbonding ids are integers; times are integers (ns).  Every KV store is an association list
   `list (key * value)`; store iteration order is not modelled (nothing the property needs depends
   on it) except inside a queue time-slice, whose order is kept.  Addresses that the Go code reads
   from a record VALUE (DelegatorAddress, ValidatorAddress inside Delegation / UnbondingDelegation /
   Redelegation) are separate fields from the record KEY, as in the store.
   LegacyDec shares are their raw integer.  Signature recovery is a Section variable. *)
From Coq Require Import ZArith List Bool.
From FxV Require Import gen.Gen_C14.
Import ListNotations.
Open Scope Z_scope.

Notation addr := Z (only parsing).
Notation time := Z (only parsing).

(* ---------- association-list stores ---------- *)
Section Store.
  Context {K V : Type} (eqb : K -> K -> bool).
  Fixpoint sget (k : K) (m : list (K * V)) : option V :=
    match m with
    | [] => None
    | (k', v) :: r => if eqb k k' then Some v else sget k r
    end.
  Fixpoint sdel (k : K) (m : list (K * V)) : list (K * V) :=
    match m with
    | [] => []
    | (k', v) :: r => if eqb k k' then sdel k r else (k', v) :: sdel k r
    end.
  Definition sset (k : K) (v : V) (m : list (K * V)) : list (K * V) := (k, v) :: sdel k m.
  Definition shas (k : K) (m : list (K * V)) : bool :=
    match sget k m with Some _ => true | None => false end.
End Store.

Notation k2 := (Z * Z)%type (only parsing).            (* (delegator, validator) | (address, denom) | (proposal, address) *)
Notation k3 := (Z * (Z * Z))%type (only parsing).      (* (delegator, (src validator, dst validator)) *)
Definition pkeqb {R} (reqb : R -> R -> bool) (a b : Z * R) : bool := (fst a =? fst b) && reqb (snd a) (snd b).
Definition k2_eqb : k2 -> k2 -> bool := pkeqb Z.eqb.
Definition k3_eqb : k3 -> k3 -> bool := pkeqb k2_eqb.

(* ---------- records ---------- *)
Record del_rec := { d_del : addr; d_val : addr; d_shares : Z }.
Record start_rec := { st_period : Z; st_stake : Z; st_height : Z }.
Record ubd_entry := { ue_height : Z; ue_time : time; ue_init : Z; ue_bal : Z; ue_id : Z; ue_hold : Z }.
Record ubd_rec := { u_del : addr; u_val : addr; u_entries : list ubd_entry }.
Record red_entry := { re_height : Z; re_time : time; re_init : Z; re_shares : Z; re_id : Z; re_hold : Z }.
Record red_rec := { r_del : addr; r_src : addr; r_dst : addr; r_entries : list red_entry }.

(* value of the UnbondingIndex (0x38): the store key of the record holding the entry *)
Inductive ukey := UKubd (d v : addr) | UKred (d s t : addr) | UKval (v : addr).

Record stk := {
  dels   : list (k2 * del_rec);        (* 0x31 delegator|validator -> Delegation *)
  idx71  : list (k2 * unit);           (* 0x71 validator|delegator (DelegationByValIndex), keyed here (delegator, validator) *)
  ubds   : list (k2 * ubd_rec);        (* 0x32 *)
  idx33  : list (k2 * unit);           (* 0x33 UnbondingDelegationByValIndex *)
  ubdq   : list (time * list k2);      (* 0x41 completion time -> DVPairs *)
  reds   : list (k3 * red_rec);        (* 0x34 *)
  idx35  : list (k3 * unit);           (* 0x35 RedelegationByValSrcIndex *)
  idx36  : list (k3 * unit);           (* 0x36 RedelegationByValDstIndex *)
  redq   : list (time * list k3);      (* 0x42 completion time -> DVVTriplets *)
  unbidx : list (Z * ukey)             (* 0x38 unbonding id -> record key *)
}.

Inductive pstatus := PDeposit | PVoting | PClosed.
Record proposal := { p_status : pstatus; p_proposer : addr; p_total : Z; p_dep_end : time; p_vote_end : time;
  p_vp : time;          (* the voting period that applies to this proposal: expedited / per-message custom / default *)
  p_min : Z;            (* the deposit that opens its voting period (expedited / per-message ratio / default) *)
  p_exp : bool          (* expedited *) }.

Record govst := {
  props     : list (Z * proposal);
  deposits  : list (k2 * Z);           (* (proposal, depositor) -> amount *)
  votes     : list (k2 * unit);        (* (proposal, voter) *)
  inactiveq : list (time * Z);         (* InactiveProposalsQueue (deposit end time, id), iteration order *)
  activeq   : list (time * Z);         (* ActiveProposalsQueue (voting end time, id) *)
  next_pid  : Z
}.

Record mig_rec := { m_flag : Z; m_other : addr; m_height : Z }.   (* flag 1: key is the source, 2: key is the target *)
Record migst := {
  recs     : list (addr * mig_rec);    (* 0x01 *)
  dir_from : list (addr * unit);       (* 0x02 *)
  dir_to   : list (addr * unit)        (* 0x03 *)
}.

Record config := {
  bond_denom : Z;
  pool_nb : addr;                      (* not-bonded pool module account *)
  gov_acc : addr;                      (* gov module account *)
  max_dep_period : time; voting_period : time; min_deposit : Z;
  burn_prevote : bool
}.

(* account kinds for checkMigrateFrom: 0 no account, 1 account without public key,
   2 secp256k1 public key, 3 any other key type *)
Record state := {
  cfg   : config;
  now   : time;
  height : Z;
  accts : list (addr * Z);
  vals  : list (addr * unit);          (* validator operators present in the staking store *)
  bal   : list (k2 * Z);               (* bank balances (address, denom) -> amount, only non-zero *)
  start : list (k2 * start_rec);       (* distribution DelegatorStartingInfo, keyed (delegator, validator) *)
  stake : stk;
  gov   : govst;
  mig   : migst;
  locked : list (k2 * Z)               (* bank LockedCoins(address) at the current block time: (address, denom) -> amount
                                          (vesting accounts; an observation of the state, recomputed by the bank from the
                                          vesting schedule whenever it is asked) *)
}.

Inductive err := ESame | ESig | EMigrated | EAccount | EPubKey | EValidator | EToStaking | EGov
               | EGovMissing | EFunds | EProposal.
Inductive outcome (A : Type) := Ok (a : A) | Err (e : err) | Panic.
Arguments Ok {A} a. Arguments Err {A} e. Arguments Panic {A}.

Definition bind {A B} (x : outcome A) (f : A -> outcome B) : outcome B :=
  match x with Ok a => f a | Err e => Err e | Panic => Panic end.

(* ---------- field updates ---------- *)
Definition set_bal (s : state) (x : list (k2 * Z)) : state :=
  {| cfg := cfg s; now := now s; height := height s; accts := accts s; vals := vals s; bal := x;
     start := start s; stake := stake s; gov := gov s; mig := mig s; locked := locked s |}.
Definition set_start (s : state) (x : list (k2 * start_rec)) : state :=
  {| cfg := cfg s; now := now s; height := height s; accts := accts s; vals := vals s; bal := bal s;
     start := x; stake := stake s; gov := gov s; mig := mig s; locked := locked s |}.
Definition set_stake (s : state) (x : stk) : state :=
  {| cfg := cfg s; now := now s; height := height s; accts := accts s; vals := vals s; bal := bal s;
     start := start s; stake := x; gov := gov s; mig := mig s; locked := locked s |}.
Definition set_gov (s : state) (x : govst) : state :=
  {| cfg := cfg s; now := now s; height := height s; accts := accts s; vals := vals s; bal := bal s;
     start := start s; stake := stake s; gov := x; mig := mig s; locked := locked s |}.
Definition set_mig (s : state) (x : migst) : state :=
  {| cfg := cfg s; now := now s; height := height s; accts := accts s; vals := vals s; bal := bal s;
     start := start s; stake := stake s; gov := gov s; mig := x; locked := locked s |}.
Definition set_clock (s : state) (t : time) (h : Z) : state :=
  {| cfg := cfg s; now := t; height := h; accts := accts s; vals := vals s; bal := bal s;
     start := start s; stake := stake s; gov := gov s; mig := mig s; locked := locked s |}.

Definition set_dels (k : stk) x i := {| dels := x; idx71 := i; ubds := ubds k; idx33 := idx33 k; ubdq := ubdq k;
  reds := reds k; idx35 := idx35 k; idx36 := idx36 k; redq := redq k; unbidx := unbidx k |}.
Definition set_ubd (k : stk) x i q := {| dels := dels k; idx71 := idx71 k; ubds := x; idx33 := i; ubdq := q;
  reds := reds k; idx35 := idx35 k; idx36 := idx36 k; redq := redq k; unbidx := unbidx k |}.
Definition set_red (k : stk) x i5 i6 q := {| dels := dels k; idx71 := idx71 k; ubds := ubds k; idx33 := idx33 k; ubdq := ubdq k;
  reds := x; idx35 := i5; idx36 := i6; redq := q; unbidx := unbidx k |}.
Definition set_unbidx (k : stk) x := {| dels := dels k; idx71 := idx71 k; ubds := ubds k; idx33 := idx33 k; ubdq := ubdq k;
  reds := reds k; idx35 := idx35 k; idx36 := idx36 k; redq := redq k; unbidx := x |}.

(* ---------- bank ---------- *)
Definition bal_of (s : state) (a : addr) (d : Z) : Z :=
  match sget k2_eqb (a, d) (bal s) with Some x => x | None => 0 end.

(* setBalance: a zero balance deletes the key *)
Definition put_bal (a : addr) (d : Z) (x : Z) (b : list (k2 * Z)) : list (k2 * Z) :=
  if x =? 0 then sdel k2_eqb (a, d) b else sset k2_eqb (a, d) x b.

Definition get_bal (a : addr) (d : Z) (b : list (k2 * Z)) : Z :=
  match sget k2_eqb (a, d) b with Some x => x | None => 0 end.

(* one coin of SendCoins: subUnlockedCoins then addCoins *)
Definition send1 (a b : addr) (d x : Z) (m : list (k2 * Z)) : list (k2 * Z) :=
  let m1 := put_bal a d (get_bal a d m - x) m in
  put_bal b d (get_bal b d m1 + x) m1.

Definition locked_of (s : state) (a : addr) (d : Z) : Z :=
  match sget k2_eqb (a, d) (locked s) with Some x => x | None => 0 end.

(* BankMigrate.Execute: GetAllBalances(from); SendCoins(from, to, all of it).
   SendCoins first runs subUnlockedCoins over every coin: coin d is refused when
   balance(d) - LockedCoins(d) < amount(d); the amount is the whole balance, so as soon as anything of a held
   denomination is locked the send — and with it the migration — fails.  The check of coin d reads only the
   (from, d) balance, which no other coin's step touches, so it is written as one pass before the moves. *)
Definition bank_move (from to : addr) (s : state) : state :=
  let coins := filter (fun kv => fst (fst kv) =? from) (bal s) in
  set_bal s (fold_left (fun m kv => send1 from to (snd (fst kv)) (snd kv) m) coins (bal s)).

Definition bank_blocked (from : addr) (s : state) : bool :=
  existsb (fun kv : k2 * Z => (snd kv - locked_of s from (snd (fst kv))) <? snd kv)
          (filter (fun kv => fst (fst kv) =? from) (bal s)).

Definition bank_execute (from to : addr) (s : state) : outcome state :=
  if bank_blocked from s then Err EFunds else Ok (bank_move from to s).

(* ---------- staking / distribution handler ---------- *)
Definition from_rec2 {V} (a : addr) (kv : k2 * V) : bool := fst (fst kv) =? a.
Definition from_rec3 {V} (a : addr) (kv : k3 * V) : bool := fst (fst kv) =? a.

(* Validate: neither address is a validator operator; the target has no delegation,
   unbonding delegation or redelegation (prefix iteration by KEY) *)
Definition staking_validate (from to : addr) (s : state) : outcome unit :=
  if shas Z.eqb from (vals s) then Err EValidator
  else if shas Z.eqb to (vals s) then Err EValidator
  else if existsb (from_rec2 to) (dels (stake s)) then Err EToStaking
  else if existsb (from_rec2 to) (ubds (stake s)) then Err EToStaking
  else if existsb (from_rec3 to) (reds (stake s)) then Err EToStaking
  else Ok tt.

Definition qget {P} (t : time) (q : list (time * list P)) : list P :=
  match sget Z.eqb t q with Some l => l | None => [] end.

Definition ren_addr (from to a : addr) : addr := if a =? from then to else a.
Definition ren_pair (from to : addr) (p : k2) : k2 := (ren_addr from to (fst p), snd p).
Definition ren_trip (from to : addr) (p : k3) : k3 := (ren_addr from to (fst p), snd p).

(* the queue part of one unbonding entry: read the slice at the entry's completion time, rewrite
   every pair of `from` in it, write it back only if one was found *)
Definition mig_q_entry {P} (isfrom : P -> bool) (ren : P -> P) (q : list (time * list P)) (t : time)
  : list (time * list P) :=
  let slice := qget t q in
  if existsb isfrom slice then sset Z.eqb t (map ren slice) q else q.

(* delegations + distribution starting info; startingInfo == nil makes store.Set panic *)
Definition mig_del_step (from to : addr) (acc : outcome state) (kv : k2 * del_rec) : outcome state :=
  bind acc (fun s =>
    let info := snd kv in
    let v := d_val info in
    match sget k2_eqb (from, v) (start s) with
    | None => Panic
    | Some si =>
      let s1 := set_start s (sset k2_eqb (to, v) si (sdel k2_eqb (from, v) (start s))) in
      let k := stake s1 in
      Ok (set_stake s1 (set_dels k
           (sset k2_eqb (to, v) {| d_del := to; d_val := v; d_shares := d_shares info |}
              (sdel k2_eqb (fst kv) (dels k)))
           (* by-validator delegation index (since 048dbe3) *)
           (sset k2_eqb (to, v) tt (sdel k2_eqb (from, v) (idx71 k)))))
    end).

Definition mig_ubd_step (from to : addr) (s : state) (kv : k2 * ubd_rec) : state :=
  let u := snd kv in
  let v := u_val u in
  let k := stake s in
  let ubds' := sset k2_eqb (to, v) {| u_del := to; u_val := v; u_entries := u_entries u |}
                 (sdel k2_eqb (fst kv) (ubds k)) in
  let idx' := sset k2_eqb (to, v) tt (sdel k2_eqb (from, v) (idx33 k)) in
  let q' := fold_left (fun q e => mig_q_entry (fun p : k2 => fst p =? from) (ren_pair from to) q (ue_time e))
                      (u_entries u) (ubdq k) in
  (* unbonding id index (since 048dbe3): every entry's id now names the target's record key *)
  let ui' := fold_left (fun m e => sset Z.eqb (ue_id e) (UKubd to v) m) (u_entries u) (unbidx k) in
  set_stake s (set_unbidx (set_ubd k ubds' idx' q') ui').

Definition mig_red_step (from to : addr) (s : state) (kv : k3 * red_rec) : state :=
  let r := snd kv in
  let sd := (r_src r, r_dst r) in
  let k := stake s in
  let reds' := sset k3_eqb (to, sd) {| r_del := to; r_src := r_src r; r_dst := r_dst r; r_entries := r_entries r |}
                 (sdel k3_eqb (fst kv) (reds k)) in
  let i5 := sset k3_eqb (to, sd) tt (sdel k3_eqb (from, sd) (idx35 k)) in
  let i6 := sset k3_eqb (to, sd) tt (sdel k3_eqb (from, sd) (idx36 k)) in
  let q' := fold_left (fun q e => mig_q_entry (fun p : k3 => fst p =? from) (ren_trip from to) q (re_time e))
                      (r_entries r) (redq k) in
  let ui' := fold_left (fun m e => sset Z.eqb (re_id e) (UKred to (r_src r) (r_dst r)) m) (r_entries r) (unbidx k) in
  set_stake s (set_unbidx (set_red k reds' i5 i6 q') ui').

(* Execute: three prefix iterations (over the store as it was when each iterator was opened) *)
Definition staking_execute (from to : addr) (s : state) : outcome state :=
  bind (fold_left (mig_del_step from to) (filter (from_rec2 from) (dels (stake s))) (Ok s)) (fun s1 =>
  let s2 := fold_left (mig_ubd_step from to) (filter (from_rec2 from) (ubds (stake s1))) s1 in
  Ok (fold_left (mig_red_step from to) (filter (from_rec3 from) (reds (stake s2))) s2)).

(* ---------- gov handler ---------- *)
Definition has_deposit (g : govst) (pid : Z) (a : addr) : bool := shas k2_eqb (pid, a) (deposits g).
Definition has_vote (g : govst) (pid : Z) (a : addr) : bool := shas k2_eqb (pid, a) (votes g).

(* DepositPeriodCallback *)
Definition dep_cb (g : govst) (from to : addr) (pid : Z) : outcome unit :=
  match sget Z.eqb pid (props g) with
  | None => Err EGovMissing
  | Some p =>
    if (from =? p_proposer p) || (to =? p_proposer p) then Err EGov
    else if has_deposit g pid from || has_deposit g pid to then Err EGov
    else Ok tt
  end.

(* VotePeriodCallback *)
Definition vote_cb (g : govst) (from to : addr) (pid : Z) : outcome unit :=
  bind (dep_cb g from to pid) (fun _ =>
    if has_vote g pid from || has_vote g pid to then Err EGov else Ok tt).

(* Walk with NewPrefixUntilPairRange(govQueueEnd): every queue entry *)
Fixpoint walk_all (cb : Z -> outcome unit) (q : list (time * Z)) : outcome unit :=
  match q with
  | [] => Ok tt
  | (_, pid) :: r => bind (cb pid) (fun _ => walk_all cb r)
  end.

Definition gov_validate (from to : addr) (s : state) : outcome unit :=
  bind (walk_all (dep_cb (gov s) from to) (inactiveq (gov s))) (fun _ =>
  walk_all (vote_cb (gov s) from to) (activeq (gov s))).

(* ---------- migrate keeper ---------- *)
Definition has_record (s : state) (a : addr) : bool := shas Z.eqb a (recs (mig s)).

Definition check_from (s : state) (a : addr) : outcome unit :=
  match sget Z.eqb a (accts s) with
  | None => Err EAccount
  | Some k => if k =? 0 then Err EAccount else if k =? 1 then Err EPubKey
              else if k =? 2 then Ok tt else Err EPubKey
  end.

Definition set_record (from to : addr) (s : state) : state :=
  let m := mig s in
  set_mig s {|
    recs := sset Z.eqb to {| m_flag := 2; m_other := from; m_height := height s |}
              (sset Z.eqb from {| m_flag := 1; m_other := to; m_height := height s |} (recs m));
    dir_from := sset Z.eqb from tt (dir_from m);
    dir_to := sset Z.eqb to tt (dir_to m) |}.

(* MigrateAccount (msg server) *)
Definition migrate_account (s : state) (from to : addr) : outcome state :=
  if has_record s from then Err EMigrated
  else if has_record s to then Err EMigrated
  else bind (check_from s from) (fun _ =>
       bind (staking_validate from to s) (fun _ =>
       bind (gov_validate from to s) (fun _ =>
       bind (bank_execute from to s) (fun s0 =>
       bind (staking_execute from to s0) (fun s' =>
       Ok (set_record from to s')))))).

Section Sig.
  Variable sigT : Type.
  (* crypto.SigToPub + PubkeyToAddress over keccak(prefix, from, to); the digest is kept as its pre-image *)
  Variable recover : addr -> addr -> sigT -> option addr.

  (* ValidateBasic; None = empty / undecodable signature *)
  Definition validate_basic (from to : addr) (sg : option sigT) : outcome unit :=
    if from =? to then Err ESame
    else match sg with
         | None => Err ESig
         | Some x => match recover from to x with
                     | Some a => if a =? to then Ok tt else Err ESig
                     | None => Err ESig
                     end
         end.

  (* what a transaction carrying MsgMigrateAccount does; a failing tx leaves the state unchanged *)
  Definition migrate_tx (s : state) (from to : addr) (sg : option sigT) : outcome state :=
    bind (validate_basic from to sg) (fun _ => migrate_account s from to).
End Sig.

(* ---------- follow-up: end of block ---------- *)
Definition ubd_mature (t : time) (e : ubd_entry) : bool := (ue_time e <=? t) && (ue_hold e <=? 0).
Definition red_mature (t : time) (e : red_entry) : bool := (re_time e <=? t) && (re_hold e <=? 0).

Definition sum_bal (l : list ubd_entry) : Z := fold_right (fun e a => ue_bal e + a) 0 l.

Definition pay (from to : addr) (d x : Z) (s : state) : state :=
  if x =? 0 then s else set_bal s (send1 from to d x (bal s)).

(* BurnCoins from a module account *)
Definition burn_coins (a : addr) (d x : Z) (s : state) : state :=
  set_bal s (put_bal a d (get_bal a d (bal s) - x) (bal s)).

(* CompleteUnbonding(del, val): a missing record is the `continue` of the caller *)
Definition complete_unbonding (t : time) (s : state) (p : k2) : state :=
  let k := stake s in
  match sget k2_eqb p (ubds k) with
  | None => s
  | Some u =>
    let mat := filter (ubd_mature t) (u_entries u) in
    let rest := filter (fun e => negb (ubd_mature t e)) (u_entries u) in
    let idx := fold_left (fun m e => sdel Z.eqb (ue_id e) m) mat (unbidx k) in
    let s1 := pay (pool_nb (cfg s)) (u_del u) (bond_denom (cfg s)) (sum_bal mat) s in
    let kk := (u_del u, u_val u) in
    let k1 := set_unbidx k idx in
    match rest with
    | [] => set_stake s1 (set_ubd k1 (sdel k2_eqb kk (ubds k)) (sdel k2_eqb kk (idx33 k)) (ubdq k))
    | _ => set_stake s1 (set_ubd k1
             (sset k2_eqb kk {| u_del := u_del u; u_val := u_val u; u_entries := rest |} (ubds k))
             (sset k2_eqb kk tt (idx33 k)) (ubdq k))
    end
  end.

Definition complete_redelegation (t : time) (s : state) (p : k3) : state :=
  let k := stake s in
  match sget k3_eqb p (reds k) with
  | None => s
  | Some r =>
    let mat := filter (red_mature t) (r_entries r) in
    let rest := filter (fun e => negb (red_mature t e)) (r_entries r) in
    let idx := fold_left (fun m e => sdel Z.eqb (re_id e) m) mat (unbidx k) in
    let kk := (r_del r, (r_src r, r_dst r)) in
    let k1 := set_unbidx k idx in
    match rest with
    | [] => set_stake s (set_red k1 (sdel k3_eqb kk (reds k)) (sdel k3_eqb kk (idx35 k)) (sdel k3_eqb kk (idx36 k)) (redq k))
    | _ => set_stake s (set_red k1
             (sset k3_eqb kk {| r_del := r_del r; r_src := r_src r; r_dst := r_dst r; r_entries := rest |} (reds k))
             (sset k3_eqb kk tt (idx35 k)) (sset k3_eqb kk tt (idx36 k)) (redq k))
    end
  end.

Definition due {P} (t : time) (q : list (time * list P)) : list P :=
  concat (map snd (filter (fun x => fst x <=? t) q)).
Definition undue {P} (t : time) (q : list (time * list P)) : list (time * list P) :=
  filter (fun x => negb (fst x <=? t)) q.

(* staking EndBlocker, maturation part: dequeue every slice with time <= t, then complete each pair *)
Definition staking_endblock (t : time) (s : state) : state :=
  let k := stake s in
  let pairs := due t (ubdq k) in
  let s1 := set_stake s (set_ubd k (ubds k) (idx33 k) (undue t (ubdq k))) in
  let s2 := fold_left (complete_unbonding t) pairs s1 in
  let k2' := stake s2 in
  let trips := due t (redq k2') in
  let s3 := set_stake s2 (set_red k2' (reds k2') (idx35 k2') (idx36 k2') (undue t (redq k2'))) in
  fold_left (complete_redelegation t) trips s3.

(* gov: deposits of one proposal are refunded (or burned) and deleted *)
Definition settle_deposits (pid : Z) (burn : bool) (s : state) : state :=
  let g := gov s in
  let mine := filter (fun kv => fst (fst kv) =? pid) (deposits g) in
  let s1 := fold_left (fun s kv =>
              if burn then burn_coins (gov_acc (cfg s)) (bond_denom (cfg s)) (snd kv) s
              else pay (gov_acc (cfg s)) (snd (fst kv)) (bond_denom (cfg s)) (snd kv) s) mine s in
  set_gov s1 {| props := props g; deposits := filter (fun kv => negb (fst (fst kv) =? pid)) (deposits g);
                votes := votes g; inactiveq := inactiveq g; activeq := activeq g; next_pid := next_pid g |}.

Definition memZ (x : Z) (l : list Z) : bool := existsb (Z.eqb x) l.
Definition qdel (te pid : Z) (q : list (time * Z)) : list (time * Z) :=
  filter (fun x => negb ((fst x =? te) && (snd x =? pid))) q.

(* expired deposit period: DeleteProposal + refund/burn *)
Definition drop_inactive (s : state) (x : time * Z) : state :=
  let pid := snd x in
  let g := gov s in
  match sget Z.eqb pid (props g) with
  | None => s
  | Some p =>
    let g1 := {| props := sdel Z.eqb pid (props g); deposits := deposits g; votes := votes g;
                 inactiveq := qdel (p_dep_end p) pid (inactiveq g);
                 activeq := if p_vote_end p =? 0 then activeq g else qdel (p_vote_end p) pid (activeq g);
                 next_pid := next_pid g |} in
    settle_deposits pid (burn_prevote (cfg s)) (set_gov s g1)
  end.

(* expired voting period: tally (deletes the votes); a FAILED EXPEDITED proposal (pid in `converts`, decided by the real
   tally) is converted to a regular one: deposits kept, voting end = voting start + the default voting period, queued
   again under the new end time, still open; otherwise refund/burn and close *)
Definition close_active (burns converts : list Z) (s : state) (x : time * Z) : state :=
  let pid := snd x in
  let g := gov s in
  match sget Z.eqb pid (props g) with
  | None => s
  | Some p =>
    let votes' := filter (fun kv : (Z * Z) * unit => negb (fst (fst kv) =? pid)) (votes g) in
    if memZ pid converts
    then
      let vend := (p_vote_end p - p_vp p) + voting_period (cfg s) in
      set_gov s {| props := sset Z.eqb pid {| p_status := PVoting; p_proposer := p_proposer p; p_total := p_total p;
                                            p_dep_end := p_dep_end p; p_vote_end := vend;
                                            p_vp := voting_period (cfg s); p_min := p_min p; p_exp := false |} (props g);
                   deposits := deposits g; votes := votes'; inactiveq := inactiveq g;
                   activeq := qdel (p_vote_end p) pid (activeq g) ++ [(vend, pid)];
                   next_pid := next_pid g |}
    else
      let g1 := {| props := sset Z.eqb pid {| p_status := PClosed; p_proposer := p_proposer p; p_total := p_total p;
                                             p_dep_end := p_dep_end p; p_vote_end := p_vote_end p;
                                             p_vp := p_vp p; p_min := p_min p; p_exp := p_exp p |} (props g);
                   deposits := deposits g; votes := votes'; inactiveq := inactiveq g;
                   activeq := qdel (p_vote_end p) pid (activeq g);
                   next_pid := next_pid g |} in
      settle_deposits pid (memZ pid burns) (set_gov s g1)
  end.

Definition gov_endblock (t : time) (burns converts : list Z) (s : state) : state :=
  let s1 := fold_left drop_inactive (filter (fun x => fst x <=? t) (inactiveq (gov s))) s in
  fold_left (close_active burns converts) (filter (fun x => fst x <=? t) (activeq (gov s1))) s1.

(* staking EndBlocker, validator part (ApplyAndReturnValidatorSetUpdates, UnbondAllMatureValidators) as far as it
   touches stores of this model: a validator leaving the active set (bondedToUnbonding) has its tokens moved from the
   bonded to the not-bonded pool and gets an unbonding id registered in the unbonding-id index 0x38 (UKval); one
   entering it has its tokens moved back; a validator whose own unbonding period ends has its ids deleted from the
   index.  Which validators change state is decided by validator-side arithmetic (power = tokens / PowerReduction,
   MaxValidators) that is not modelled: the net pool movement and the index writes are inputs of the end-block step,
   read by the harness from the real VALIDATOR records before and after the block (status, tokens, UnbondingIds) —
   not from the compared pool balance or index — in the same way as the tally's burn / conversion decisions. *)
Record vside := { v_pool : Z; v_set : list (Z * addr); v_del : list Z }.
Definition no_vside : vside := {| v_pool := 0; v_set := []; v_del := [] |}.

Definition valset_update (vs : vside) (s : state) : state :=
  let k := stake s in
  let idx1 := fold_left (fun m x => sset Z.eqb (fst x) (UKval (snd x)) m) (v_set vs) (unbidx k) in
  let idx2 := fold_left (fun m id => sdel Z.eqb id m) (v_del vs) idx1 in
  let s1 := set_stake s (set_unbidx k idx2) in
  if v_pool vs =? 0 then s1
  else set_bal s1 (put_bal (pool_nb (cfg s)) (bond_denom (cfg s))
                           (get_bal (pool_nb (cfg s)) (bond_denom (cfg s)) (bal s1) + v_pool vs) (bal s1)).

(* the block with time t ends; the next block's transactions run at time `next` *)
Definition end_block (t next : time) (burns converts : list Z) (vs : vside) (s : state) : state :=
  let s1 := gov_endblock t burns converts (set_clock s t (height s)) in
  let s2 := staking_endblock t (valset_update vs s1) in
  set_clock s2 next (height s + 1).

(* ---------- gov transactions (valid inputs only; failures leave the state unchanged) ---------- *)
Definition add_deposit (pid : Z) (a : addr) (amt : Z) (s : state) : outcome state :=
  let g := gov s in
  match sget Z.eqb pid (props g) with
  | None => Err EProposal
  | Some p =>
    match p_status p with
    | PClosed => Err EProposal
    | st =>
      let d := bond_denom (cfg s) in
      (* sdk.Coins are never negative; SendCoinsFromAccountToModule takes from balance - LockedCoins (>= 0) *)
      if (amt <? 0) || (bal_of s a d - Z.max 0 (locked_of s a d) <? amt) then Err EFunds
      else
        let s1 := pay a (gov_acc (cfg s)) d amt s in
        let total := p_total p + amt in
        let activate := match st with PDeposit => p_min p <=? total | _ => false end in
        let vend := now s + p_vp p in
        let p' := if activate
                  then {| p_status := PVoting; p_proposer := p_proposer p; p_total := total;
                          p_dep_end := p_dep_end p; p_vote_end := vend; p_vp := p_vp p; p_min := p_min p; p_exp := p_exp p |}
                  else {| p_status := st; p_proposer := p_proposer p; p_total := total;
                          p_dep_end := p_dep_end p; p_vote_end := p_vote_end p; p_vp := p_vp p; p_min := p_min p; p_exp := p_exp p |} in
        let old := match sget k2_eqb (pid, a) (deposits g) with Some x => x | None => 0 end in
        Ok (set_gov s1 {| props := sset Z.eqb pid p' (props g);
                          deposits := sset k2_eqb (pid, a) (old + amt) (deposits g);
                          votes := votes g;
                          inactiveq := if activate then qdel (p_dep_end p) pid (inactiveq g) else inactiveq g;
                          activeq := if activate then activeq g ++ [(vend, pid)] else activeq g;
                          next_pid := next_pid g |})
    end
  end.

(* exp / vp / mind: expedited flag, and the voting period and opening deposit the real keeper assigns to this
   proposal's message type (GetCustomMsgVotingPeriod, GetMinDepositAmountFromProposalMsgs) *)
Definition submit_proposal (a : addr) (amt : Z) (exp : bool) (vp : time) (mind : Z) (s : state) : outcome state :=
  let g := gov s in
  let pid := next_pid g in
  let dend := now s + max_dep_period (cfg s) in
  let p := {| p_status := PDeposit; p_proposer := a; p_total := 0; p_dep_end := dend; p_vote_end := 0;
              p_vp := vp; p_min := mind; p_exp := exp |} in
  let s1 := set_gov s {| props := sset Z.eqb pid p (props g); deposits := deposits g; votes := votes g;
                         inactiveq := inactiveq g ++ [(dend, pid)]; activeq := activeq g; next_pid := pid + 1 |} in
  match add_deposit pid a amt s1 with
  | Ok s2 => Ok s2
  | Err e => Err e
  | Panic => Panic
  end.

Definition cast_vote (a : addr) (pid : Z) (s : state) : outcome state :=
  let g := gov s in
  match sget Z.eqb pid (props g) with
  | Some p =>
    match p_status p with
    | PVoting => Ok (set_gov s {| props := props g; deposits := deposits g;
                                  votes := sset k2_eqb (pid, a) tt (votes g);
                                  inactiveq := inactiveq g; activeq := activeq g; next_pid := next_pid g |})
    | _ => Err EProposal
    end
  | None => Err EProposal
  end.

(* ---------- restart from an exported genesis ---------- *)
(* x/migrate/module.go: ExportGenesis writes one MigrateRecord per source (keeper.IterateMigrateRecords skips the
   target-side entries); AppModule.InitGenesis unmarshals them and keeper.InitGenesis calls SetMigrateRecord for
   each, which writes the source-side and the target-side record and both direction keys again, stamped with the
   block height of the import.  Whether InitGenesis hands the exported data to the keeper at all is the generated
   fact gen.Gen_C14.genesis_import_keeps_records (read from the current source on every run; before commit
   11e9a2c it was false).  SetMigrateRecord only ever writes records in source/target pairs, so re-creating the
   pairs from the source side re-creates every record: the step is written as "every record kept, height
   re-stamped" (compared with the real export + InitChain on every run).  The other modules' export/import is
   outside this model; the correspondence compares only the migrate store for this step. *)
Definition restamp (h : Z) (r : mig_rec) : mig_rec := {| m_flag := m_flag r; m_other := m_other r; m_height := h |}.

Definition export_import (h : Z) (s : state) : state :=
  if genesis_import_keeps_records
  then set_mig s {| recs := map (fun kv => (fst kv, restamp h (snd kv))) (recs (mig s));
                    dir_from := dir_from (mig s); dir_to := dir_to (mig s) |}
  else set_mig s {| recs := []; dir_from := []; dir_to := [] |}.

(* ---------- operations and histories ---------- *)
Section Ops.
  Variable sigT : Type.
  Variable recover : addr -> addr -> sigT -> option addr.

  Inductive op :=
  | OMigrate (from to : addr) (sg : option sigT)
  | OEndBlock (t next : time) (burns converts : list Z) (vs : vside)
  | OSubmit (a : addr) (amt : Z) (exp : bool) (vp : time) (mind : Z)
  | ODeposit (a : addr) (pid amt : Z)
  | OVote (a : addr) (pid : Z)
  | OExportImport (h : Z).

  (* a failed (or panicking) transaction leaves the state as it was *)
  Definition keep (s : state) (o : outcome state) : state :=
    match o with Ok s' => s' | _ => s end.

  Definition step (s : state) (o : op) : state :=
    match o with
    | OMigrate f t sg => keep s (migrate_tx sigT recover s f t sg)
    | OEndBlock t n b c vs => end_block t n b c vs s
    | OSubmit a amt x vp m => keep s (submit_proposal a amt x vp m s)
    | ODeposit a pid amt => keep s (add_deposit pid a amt s)
    | OVote a pid => keep s (cast_vote a pid s)
    | OExportImport h => export_import h s
    end.

  Definition run (s : state) (ops : list op) : state := fold_left step ops s.
End Ops.
