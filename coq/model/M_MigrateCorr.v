(* glue for the correspondence files Cases_C14*.v written by harness/c14: constructors the harness
   prints and the comparison of the model's step with what the real application did. *)
From Coq Require Import ZArith List Bool.
From FxV Require Import model.M_Migrate model.M_MigrateSpec model.M_MigrateFollow.
Import ListNotations.
Open Scope Z_scope.

(* short constructors *)
Definition D := Build_del_rec.
Definition SI := Build_start_rec.
Definition UE := Build_ubd_entry.
Definition U := Build_ubd_rec.
Definition RE := Build_red_entry.
Definition R := Build_red_rec.
Definition MR := Build_mig_rec.
Definition PR (st : Z) (prop : addr) (tot de ve vp mn ex : Z) : proposal :=
  {| p_status := if st =? 1 then PDeposit else if st =? 2 then PVoting else PClosed;
     p_proposer := prop; p_total := tot; p_dep_end := de; p_vote_end := ve;
     p_vp := vp; p_min := mn; p_exp := negb (ex =? 0) |}.
Definition CFG := Build_config.
Definition VS := Build_vside.

Definition unitize {K} (l : list K) : list (K * unit) := map (fun k => (k, tt)) l.

Definition mk_st (c : config) (nw h : Z) (ac : list (Z * Z)) (vl : list Z) (bl : list (k2 * Z))
  (st : list (k2 * start_rec))
  (dl : list (k2 * del_rec)) (i71 : list k2) (ub : list (k2 * ubd_rec)) (i33 : list k2) (uq : list (Z * list k2))
  (rd : list (k3 * red_rec)) (i35 i36 : list k3) (rq : list (Z * list k3)) (ui : list (Z * ukey))
  (pr : list (Z * proposal)) (dp : list (k2 * Z)) (vt : list k2) (iq aq : list (Z * Z)) (np : Z)
  (rc : list (Z * mig_rec)) (df dt : list Z) (lk : list (k2 * Z)) : state :=
  {| cfg := c; now := nw; height := h; accts := ac; vals := unitize vl; bal := bl; start := st;
     stake := {| dels := dl; idx71 := unitize i71; ubds := ub; idx33 := unitize i33; ubdq := uq;
                 reds := rd; idx35 := unitize i35; idx36 := unitize i36; redq := rq; unbidx := ui |};
     gov := {| props := pr; deposits := dp; votes := unitize vt; inactiveq := iq; activeq := aq; next_pid := np |};
     mig := {| recs := rc; dir_from := unitize df; dir_to := unitize dt |}; locked := lk |}.

(* a signature as the harness describes it: who signed, and over which (from, to) pair.
   Recovery over another digest yields an address nobody holds (-7). *)
Definition csig := (Z * (Z * Z))%type.
Definition crecover (from to : addr) (x : csig) : option addr :=
  if (fst (snd x) =? from) && (snd (snd x) =? to) then Some (fst x) else Some (-7).

Inductive cop :=
| CMigrate (from to : addr) (sg : option csig)      (* ValidateBasic + msg server: what a tx does *)
| CMigrateSrv (from to : addr)                      (* the msg server alone *)
| CEndBlock (t next : Z) (burns converts : list Z) (vs : vside)
| CSubmit (a : addr) (amt : Z) (exp vp mind : Z)
| CDeposit (a : addr) (pid amt : Z)
| CVote (a : addr) (pid : Z)
| CExportImport (h : Z)                             (* app-level export, fresh app, InitChain at height h *)
(* follow-up staking transactions; `ans` = what the validator side of the real chain answered *)
| CDelegate (a v : addr) (amt : Z) (ans : vans)
| CUndelegate (a v : addr) (shares : Z) (ans : vans)
| CWithdraw (a v : addr) (ans : vans)
| CRedelegate (a v w : addr) (shares : Z) (ans1 ans2 : vans)
| CSlashUbd (v ih fr : Z).                         (* Keeper.Slash: only its effect on the unbonding records is compared *)

(* two answers in sequence: the environment is the list of answers still to be given *)
Definition ask_seq (e : list vans) (_ : query) : vans :=
  match e with x :: _ => x | [] => Build_vans 0 (Build_start_rec 0 0 0) 0 true 0 0 0 end.
Definition next_seq (e : list vans) (_ : query) : list vans := tl e.
Definition drop_env' (o : outcome (list vans * state)) : outcome state :=
  match o with Ok x => Ok (snd x) | Err e => Err e | Panic => Panic end.

Definition VA := Build_vans.
Definition ask_obs (e : vans) (_ : query) : vans := e.
Definition next_obs (e : vans) (_ : query) : vans := e.
Definition drop_env (o : outcome (vans * state)) : outcome state :=
  match o with Ok x => Ok (snd x) | Err e => Err e | Panic => Panic end.

(* observed result class; codes of `err` in declaration order starting at 1 *)
Inductive cobs := OOk | OErr (code : Z) | OPanic.
Definition err_code (e : err) : Z :=
  match e with ESame => 1 | ESig => 2 | EMigrated => 3 | EAccount => 4 | EPubKey => 5 | EValidator => 6
             | EToStaking => 7 | EGov => 8 | EGovMissing => 9 | EFunds => 10 | EProposal => 11 end.

Record mig_case := { mc_pre : state; mc_op : cop; mc_obs : cobs; mc_post : state }.
Definition mk_case := Build_mig_case.

Definition model_step (s : state) (o : cop) : outcome state :=
  match o with
  | CMigrate f t sg => migrate_tx csig crecover s f t sg
  | CMigrateSrv f t => migrate_account s f t
  | CEndBlock t n b c vs => Ok (end_block t n b c vs s)
  | CSubmit a amt x vp m => submit_proposal a amt (negb (x =? 0)) vp m s
  | CDeposit a pid amt => add_deposit pid a amt s
  | CVote a pid => cast_vote a pid s
  | CExportImport h => Ok (export_import h s)
  | CDelegate a v amt ans => drop_env (f_delegate vans ask_obs next_obs ans s a v amt)
  | CUndelegate a v sh ans => drop_env (f_undelegate vans ask_obs next_obs ans s a v sh)
  | CWithdraw a v ans => drop_env (f_withdraw vans ask_obs next_obs ans s a v)
  | CSlashUbd v ih fr => Ok (slash_ubds s v ih fr)
  | CRedelegate a v w sh ans1 ans2 => drop_env' (f_redelegate (list vans) ask_seq next_seq [ans1; ans2] s a v w sh)
  end.

(* ---------- equality of states as sets of records ---------- *)
Definition seteq {A} (eqb : A -> A -> bool) (l1 l2 : list A) : bool :=
  (Nat.eqb (length l1) (length l2)) && forallb (fun x => existsb (eqb x) l2) l1 && forallb (fun x => existsb (eqb x) l1) l2.
Fixpoint listeq {A} (eqb : A -> A -> bool) (l1 l2 : list A) : bool :=
  match l1, l2 with
  | [], [] => true
  | x :: r, y :: q => eqb x y && listeq eqb r q
  | _, _ => false
  end.
Definition paireq {A B} (ea : A -> A -> bool) (eb : B -> B -> bool) (x y : A * B) : bool :=
  ea (fst x) (fst y) && eb (snd x) (snd y).
Definition uniteq (_ _ : unit) := true.

Definition del_eqb (a b : del_rec) := (d_del a =? d_del b) && (d_val a =? d_val b) && (d_shares a =? d_shares b).
Definition si_eqb (a b : start_rec) := (st_period a =? st_period b) && (st_stake a =? st_stake b) && (st_height a =? st_height b).
Definition ue_eqb (a b : ubd_entry) :=
  (ue_height a =? ue_height b) && (ue_time a =? ue_time b) && (ue_init a =? ue_init b) && (ue_bal a =? ue_bal b)
  && (ue_id a =? ue_id b) && (ue_hold a =? ue_hold b).
Definition ubd_eqb (a b : ubd_rec) := (u_del a =? u_del b) && (u_val a =? u_val b) && listeq ue_eqb (u_entries a) (u_entries b).
Definition re_eqb (a b : red_entry) :=
  (re_height a =? re_height b) && (re_time a =? re_time b) && (re_init a =? re_init b) && (re_shares a =? re_shares b)
  && (re_id a =? re_id b) && (re_hold a =? re_hold b).
Definition red_eqb (a b : red_rec) :=
  (r_del a =? r_del b) && (r_src a =? r_src b) && (r_dst a =? r_dst b) && listeq re_eqb (r_entries a) (r_entries b).
Definition ukey_eqb (a b : ukey) : bool :=
  match a, b with
  | UKubd d v, UKubd d' v' => (d =? d') && (v =? v')
  | UKred d s t, UKred d' s' t' => (d =? d') && (s =? s') && (t =? t')
  | UKval v, UKval v' => v =? v'
  | _, _ => false
  end.
Definition pst_eqb (a b : pstatus) : bool :=
  match a, b with PDeposit, PDeposit | PVoting, PVoting | PClosed, PClosed => true | _, _ => false end.
Definition prop_eqb (a b : proposal) :=
  pst_eqb (p_status a) (p_status b) && (p_proposer a =? p_proposer b) && (p_total a =? p_total b)
  && (p_dep_end a =? p_dep_end b) && (p_vote_end a =? p_vote_end b)
  && match p_status a with
     | PClosed => true   (* a closed proposal's period data no longer matters *)
     | PVoting => (p_vp a =? p_vp b) && Bool.eqb (p_exp a) (p_exp b)   (* nor the opening deposit once voting has begun *)
     | PDeposit => (p_vp a =? p_vp b) && (p_min a =? p_min b) && Bool.eqb (p_exp a) (p_exp b)
     end.
Definition mr_eqb (a b : mig_rec) := (m_flag a =? m_flag b) && (m_other a =? m_other b) && (m_height a =? m_height b).

(* one boolean per compared component, in a fixed order (see `diag`) *)
Definition state_cmp (a b : state) : list bool :=
  let ka := stake a in let kb := stake b in
  let ga := gov a in let gb := gov b in
  [ now a =? now b; height a =? height b;
    seteq (paireq k2_eqb Z.eqb) (bal a) (bal b);
    seteq (paireq k2_eqb si_eqb) (start a) (start b);
    seteq (paireq k2_eqb del_eqb) (dels ka) (dels kb);
    seteq (paireq k2_eqb uniteq) (idx71 ka) (idx71 kb);
    seteq (paireq k2_eqb ubd_eqb) (ubds ka) (ubds kb);
    seteq (paireq k2_eqb uniteq) (idx33 ka) (idx33 kb);
    seteq (paireq Z.eqb (listeq k2_eqb)) (ubdq ka) (ubdq kb);
    seteq (paireq k3_eqb red_eqb) (reds ka) (reds kb);
    seteq (paireq k3_eqb uniteq) (idx35 ka) (idx35 kb);
    seteq (paireq k3_eqb uniteq) (idx36 ka) (idx36 kb);
    seteq (paireq Z.eqb (listeq k3_eqb)) (redq ka) (redq kb);
    seteq (paireq Z.eqb ukey_eqb) (unbidx ka) (unbidx kb);
    seteq (paireq Z.eqb prop_eqb) (props ga) (props gb);
    seteq (paireq k2_eqb Z.eqb) (deposits ga) (deposits gb);
    seteq (paireq k2_eqb uniteq) (votes ga) (votes gb);
    seteq (paireq Z.eqb Z.eqb) (inactiveq ga) (inactiveq gb);
    seteq (paireq Z.eqb Z.eqb) (activeq ga) (activeq gb);
    next_pid ga =? next_pid gb;
    seteq (paireq Z.eqb mr_eqb) (recs (mig a)) (recs (mig b));
    seteq (paireq Z.eqb uniteq) (dir_from (mig a)) (dir_from (mig b));
    seteq (paireq Z.eqb uniteq) (dir_to (mig a)) (dir_to (mig b)) ].

Definition state_eqb (a b : state) : bool := forallb (fun x => x) (state_cmp a b).

Definition mr_eqb_noheight (a b : mig_rec) := (m_flag a =? m_flag b) && (m_other a =? m_other b).
Definition mig_kept (a b : state) : bool :=
  seteq (paireq Z.eqb mr_eqb_noheight) (recs (mig a)) (recs (mig b)) &&
  seteq (paireq Z.eqb uniteq) (dir_from (mig a)) (dir_from (mig b)) &&
  seteq (paireq Z.eqb uniteq) (dir_to (mig a)) (dir_to (mig b)).

Definition mig_mismatch (c : mig_case) : bool :=
  negb (wfb (mc_pre c) && qcoverb (mc_pre c) && govwfb (mc_pre c) && balposb (mc_pre c) && idxallb (mc_pre c) &&
        invb (mc_pre c)) ||
  match model_step (mc_pre c) (mc_op c), mc_obs c with
  | Ok s', OOk =>
      match mc_op c with
      | CSlashUbd v _ _ =>
          (* only the unbonding records AT the slashed validator: the redelegation part of the real Slash (not
             modelled) also touches delegations and unbonding entries at destination validators and both pools *)
          negb (seteq (paireq k2_eqb ubd_eqb)
                  (filter (fun kv : Z * Z * ubd_rec => snd (fst kv) =? v) (ubds (stake s')))
                  (filter (fun kv : Z * Z * ubd_rec => snd (fst kv) =? v) (ubds (stake (mc_post c)))))
      | CExportImport _ => negb (forallb (fun x => x) (skipn 20 (state_cmp s' (mc_post c))))   (* the migrate store only *)
      | CMigrate _ _ _ | CMigrateSrv _ _ =>
          (* plus the bank's locked amounts (vesting): a migration changes neither account object *)
          negb (state_eqb s' (mc_post c) && seteq (paireq k2_eqb Z.eqb) (locked s') (locked (mc_post c)))
      | _ => negb (state_eqb s' (mc_post c))
      end
  | Err e, OErr code => negb (err_code e =? code) || negb (state_eqb (mc_pre c) (mc_post c))
  | Panic, OPanic => negb (state_eqb (mc_pre c) (mc_post c))
  | _, _ => true
  end.

(* for debugging a mismatch by hand: which components differ (positions in state_cmp), or [-1; code]
   when the result classes differ *)
Fixpoint false_positions (i : Z) (l : list bool) : list Z :=
  match l with [] => [] | b :: r => if b then false_positions (i + 1) r else i :: false_positions (i + 1) r end.
Definition diag (c : mig_case) : list Z :=
  (if wfb (mc_pre c) then [] else [-2]) ++ (if qcoverb (mc_pre c) then [] else [-3]) ++
  (if govwfb (mc_pre c) then [] else [-4]) ++ (if invb (mc_pre c) then [] else [-5]) ++
  match model_step (mc_pre c) (mc_op c), mc_obs c with
  | Ok s', OOk => false_positions 0 (state_cmp s' (mc_post c))
  | Err e, OErr code => if err_code e =? code then false_positions 0 (state_cmp (mc_pre c) (mc_post c)) else [-1; err_code e]
  | Panic, OPanic => []
  | Ok _, _ => [-1; 0]
  | Err e, _ => [-1; err_code e]
  | Panic, _ => [-1; 99]
  end.
