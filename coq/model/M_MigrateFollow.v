(* M_MigrateFollow.v — what the owner of a portfolio does afterwards: delegate, undelegate, withdraw
   rewards, and the staking end blocker, at the level of the delegator-keyed records of M_Migrate.
   Transcribed from cosmos-sdk x/staking keeper (Delegate, Unbond, Undelegate, SetUnbondingDelegationEntry,
   InsertUBDQueue, SetDelegation/RemoveDelegation) and x/distribution (hooks BeforeDelegationSharesModified /
   AfterDelegationModified, WithdrawDelegationRewards, initializeDelegation).  No proofs here.

   Everything that is computed from the VALIDATOR side of the chain — F1 reward of a starting info, the new
   starting info, shares issued for tokens / tokens returned for shares, bonded or not, completion time,
   the next unbonding id, the max-entries parameter — is an answer `vans` of an abstract environment
   `env` to a `query`.  A query contains the delegator's records (starting info, shares) and the numeric
   arguments but NOT the delegator's address: that the real answers do not depend on the address is what
   the twin run of the harness checks on the real application; that the record bookkeeping below is what the
   real code does, given the real answers, is what the correspondence checks.  `env`, `ask`, `env_next`
   are Section variables: the theorems hold for every such environment. *)
From Coq Require Import ZArith List Bool.
From FxV Require Import model.M_Migrate.
Import ListNotations.
Open Scope Z_scope.

Record vans := {
  a_reward : Z;            (* rewards withdrawn by the distribution hook / WithdrawDelegationRewards *)
  a_start : start_rec;     (* the delegator starting info written by initializeDelegation *)
  a_amt : Z;               (* delegate: shares issued; undelegate: tokens returned *)
  a_bonded : bool;         (* validator bonded: stake lives in the bonded pool *)
  a_time : time;           (* undelegate: completion time of the new entry *)
  a_id : Z;                (* undelegate: IncrementUnbondingID *)
  a_max : Z                (* MaxEntries *)
}.

Record query := {
  q_kind : Z;              (* 1 delegate, 2 undelegate, 3 withdraw, 4 redelegate: unbond at the source validator,
                              5 redelegate: delegate at the destination validator *)
  q_val : addr;
  q_arg : Z;
  q_start : option start_rec;
  q_shares : option Z;
  q_now : time;
  q_height : Z
}.

Definition mkq (kind : Z) (s : state) (a v : addr) (arg : Z) : query :=
  {| q_kind := kind; q_val := v; q_arg := arg;
     q_start := sget k2_eqb (a, v) (start s);
     q_shares := option_map d_shares (sget k2_eqb (a, v) (dels (stake s)));
     q_now := now s; q_height := height s |}.

(* coins arriving from / leaving to a module account that is not tracked (distribution, bonded pool) *)
Definition credit (a : addr) (d x : Z) (s : state) : state :=
  if x =? 0 then s else set_bal s (put_bal a d (get_bal a d (bal s) + x) (bal s)).

Definition set_dels_start (s : state) (dl : list (k2 * del_rec)) (ix : list (k2 * unit)) (st : list (k2 * start_rec)) : state :=
  set_stake (set_start s st) (set_dels (stake s) dl ix).

(* ---------- validator slash: the unbonding entries ---------- *)
(* Keeper.Slash(cons, infractionHeight < current height, power, factor) -> SlashUnbondingDelegation for every
   unbonding delegation from the validator: an entry created before the infraction, or already mature and not on
   hold, is skipped; otherwise its balance goes down by min(floor(factor * InitialBalance), Balance) and that much
   is burned from the not-bonded pool.  `fr` is the factor's raw 10^18-scaled integer (LegacyDec.MulInt is exact,
   TruncateInt floors).  The bonded-stake part of the slash is validator-side; the redelegation-entry part (Unbond
   at the destination validator with its distribution hooks) is not in this model (real app: scenarios + twin run). *)
Definition slash_entry (nw ih fr : Z) (e : ubd_entry) : ubd_entry :=
  if (ue_height e <? ih) || ((ue_time e <=? nw) && (ue_hold e <=? 0)) then e
  else {| ue_height := ue_height e; ue_time := ue_time e; ue_init := ue_init e;
          ue_bal := ue_bal e - Z.min ((ue_init e * fr) / 10 ^ 18) (ue_bal e); ue_id := ue_id e; ue_hold := ue_hold e |}.

Definition slash_rec (nw ih fr : Z) (u : ubd_rec) : ubd_rec :=
  {| u_del := u_del u; u_val := u_val u; u_entries := map (slash_entry nw ih fr) (u_entries u) |}.

Definition burned_rec (nw ih fr : Z) (u : ubd_rec) : Z :=
  sum_bal (u_entries u) - sum_bal (map (slash_entry nw ih fr) (u_entries u)).

Definition slash_ubds (s : state) (v ih fr : Z) : state :=
  let k := stake s in
  let hit (kv : k2 * ubd_rec) := snd (fst kv) =? v in
  let ubds' := map (fun kv => if hit kv then (fst kv, slash_rec (now s) ih fr (snd kv)) else kv) (ubds k) in
  let burned := fold_right (fun kv acc => (if hit kv then burned_rec (now s) ih fr (snd kv) else 0) + acc) 0 (ubds k) in
  credit (pool_nb (cfg s)) (bond_denom (cfg s)) (- burned)
         (set_stake s (set_ubd k ubds' (idx33 k) (ubdq k))).

Section Follow.
  Variable env : Type.
  Variable ask : env -> query -> vans.
  Variable env_next : env -> query -> env.

  (* WithdrawDelegationRewards: pay, delete the starting info, initializeDelegation *)
  Definition f_withdraw (e : env) (s : state) (a v : addr) : outcome (env * state) :=
    match sget k2_eqb (a, v) (dels (stake s)) with
    | None => Err EProposal
    | Some _ =>
      let q := mkq 3 s a v 0 in
      let ans := ask e q in
      let s1 := credit a (bond_denom (cfg s)) (a_reward ans) s in
      Ok (env_next e q, set_start s1 (sset k2_eqb (a, v) (a_start ans) (start s1)))
    end.

  (* Delegate (tokens from the account): hook (rewards of an existing delegation), coins to the pool,
     SetDelegation (record + by-validator index), AfterDelegationModified (new starting info) *)
  Definition f_delegate (e : env) (s : state) (a v : addr) (amt : Z) : outcome (env * state) :=
    let q := mkq 1 s a v amt in
    let ans := ask e q in
    let d := bond_denom (cfg s) in
    let old := sget k2_eqb (a, v) (dels (stake s)) in
    let s1 := match old with Some _ => credit a d (a_reward ans) s | None => s end in
    if bal_of s1 a d <? amt then Err EFunds
    else
      let s2 := credit a d (- amt) s1 in
      let s3 := if a_bonded ans then s2 else credit (pool_nb (cfg s)) d amt s2 in
      let sh := match old with Some r => d_shares r | None => 0 end in
      Ok (env_next e q,
          set_dels_start s3
            (sset k2_eqb (a, v) {| d_del := a; d_val := v; d_shares := sh + a_amt ans |} (dels (stake s3)))
            (sset k2_eqb (a, v) tt (idx71 (stake s3)))
            (sset k2_eqb (a, v) (a_start ans) (start s3))).

  (* UnbondingDelegation.AddEntry: an entry with the same creation height and completion time absorbs the new one *)
  Fixpoint add_entry (h : Z) (t : time) (x id : Z) (es : list ubd_entry) : list ubd_entry * bool :=
    match es with
    | [] => ([ {| ue_height := h; ue_time := t; ue_init := x; ue_bal := x; ue_id := id; ue_hold := 0 |} ], true)
    | e :: r =>
      if (ue_height e =? h) && (ue_time e =? t)
      then ({| ue_height := ue_height e; ue_time := ue_time e; ue_init := ue_init e + x; ue_bal := ue_bal e + x;
               ue_id := ue_id e; ue_hold := ue_hold e |} :: r, false)
      else let (r', n) := add_entry h t x id r in (e :: r', n)
    end.

  (* Undelegate: max-entries check, Unbond (hook, shares down, record removed or re-set, starting info),
     bonded -> not-bonded pool, SetUnbondingDelegationEntry (record, by-validator index, id index for a new
     entry), InsertUBDQueue *)
  Definition f_undelegate (e : env) (s : state) (a v : addr) (shares : Z) : outcome (env * state) :=
    let k := stake s in
    match sget k2_eqb (a, v) (dels k) with
    | None => Err EProposal
    | Some r =>
      if d_shares r <? shares then Err EProposal
      else
        let q := mkq 2 s a v shares in
        let ans := ask e q in
        let olde := match sget k2_eqb (a, v) (ubds k) with Some u => u_entries u | None => [] end in
        if a_max ans <=? Z.of_nat (length olde) then Err EProposal
        else
          let d := bond_denom (cfg s) in
          let s1 := credit a d (a_reward ans) s in
          let s2 := if a_bonded ans then credit (pool_nb (cfg s)) d (a_amt ans) s1 else s1 in
          let rest := d_shares r - shares in
          let s3 :=
            if rest =? 0
            then set_dels_start s2 (sdel k2_eqb (a, v) (dels k)) (sdel k2_eqb (a, v) (idx71 k)) (sdel k2_eqb (a, v) (start s2))
            else set_dels_start s2 (sset k2_eqb (a, v) {| d_del := a; d_val := v; d_shares := rest |} (dels k))
                                   (sset k2_eqb (a, v) tt (idx71 k))
                                   (sset k2_eqb (a, v) (a_start ans) (start s2)) in
          let k3 := stake s3 in
          let '(es, isnew) := add_entry (height s) (a_time ans) (a_amt ans) (a_id ans) olde in
          let kk := match sget k2_eqb (a, v) (ubds k) with Some u => (u_del u, u_val u) | None => (a, v) end in
          let rec' := {| u_del := fst kk; u_val := snd kk; u_entries := es |} in
          let q' := sset Z.eqb (a_time ans) (qget (a_time ans) (ubdq k3) ++ [kk]) (ubdq k3) in
          let k4 := set_ubd k3 (sset k2_eqb kk rec' (ubds k3)) (sset k2_eqb kk tt (idx33 k3)) q' in
          let k5 := if isnew then set_unbidx k4 (sset Z.eqb (a_id ans) (UKubd (fst kk) (snd kk)) (unbidx k4)) else k4 in
          Ok (env_next e q, set_stake s3 k5)
    end.

  (* the three parts of BeginRedelegation *)
  (* Unbond at the source validator: hook reward, shares down, record + index + starting info removed or re-set *)
  Definition unbond_at (s : state) (a v : addr) (rest : Z) (ans : vans) : state :=
    let s1 := credit a (bond_denom (cfg s)) (a_reward ans) s in
    let k := stake s1 in
    if rest =? 0
    then set_dels_start s1 (sdel k2_eqb (a, v) (dels k)) (sdel k2_eqb (a, v) (idx71 k)) (sdel k2_eqb (a, v) (start s1))
    else set_dels_start s1 (sset k2_eqb (a, v) {| d_del := a; d_val := v; d_shares := rest |} (dels k))
                           (sset k2_eqb (a, v) tt (idx71 k))
                           (sset k2_eqb (a, v) (a_start ans) (start s1)).

  (* Delegate at the destination validator with tokens that are already staked (no coins from the account) *)
  Definition delegate_at (s : state) (a w : addr) (ans : vans) : state :=
    let old := sget k2_eqb (a, w) (dels (stake s)) in
    let s2 := match old with Some _ => credit a (bond_denom (cfg s)) (a_reward ans) s | None => s end in
    let shw := match old with Some x => d_shares x | None => 0 end in
    set_dels_start s2
      (sset k2_eqb (a, w) {| d_del := a; d_val := w; d_shares := shw + a_amt ans |} (dels (stake s2)))
      (sset k2_eqb (a, w) tt (idx71 (stake s2)))
      (sset k2_eqb (a, w) (a_start ans) (start s2)).

  (* SetRedelegationEntry (entries are only ever appended) + InsertRedelegationQueue *)
  Definition red_entry_at (s : state) (a v w : addr) (entry : red_entry) : state :=
    let k := stake s in
    let old := sget k3_eqb (a, (v, w)) (reds k) in
    let olde := match old with Some x => r_entries x | None => [] end in
    let kk := match old with Some x => (r_del x, (r_src x, r_dst x)) | None => (a, (v, w)) end in
    let rec' := {| r_del := fst kk; r_src := fst (snd kk); r_dst := snd (snd kk); r_entries := olde ++ [entry] |} in
    let q' := sset Z.eqb (re_time entry) (qget (re_time entry) (redq k) ++ [kk]) (redq k) in
    set_stake s (set_unbidx (set_red k (sset k3_eqb kk rec' (reds k)) (sset k3_eqb kk tt (idx35 k))
                                     (sset k3_eqb kk tt (idx36 k)) q')
                            (sset Z.eqb (re_id entry) (UKred (fst kk) (fst (snd kk)) (snd (snd kk))) (unbidx k))).

  (* HasReceivingRedelegation(a, v): a redelegation of a INTO validator v is pending (by-destination index 0x36) *)
  Definition receiving (s : state) (a v : addr) : bool :=
    existsb (fun kv : k3 * unit => (fst (fst kv) =? a) && (snd (snd (fst kv)) =? v)) (idx36 (stake s)).

  (* BeginRedelegation: no self-redelegation, no pending redelegation INTO the source validator, max entries,
     Unbond at the source, Delegate at the destination with the returned tokens, SetRedelegationEntry,
     InsertRedelegationQueue.  Source and destination validator bonded (no pool movement). *)
  Definition f_redelegate (e : env) (s : state) (a v w : addr) (shares : Z) : outcome (env * state) :=
    if v =? w then Err EProposal
    else if receiving s a v then Err EProposal
    else match sget k2_eqb (a, v) (dels (stake s)) with
    | None => Err EProposal
    | Some r =>
      if d_shares r <? shares then Err EProposal
      else
        let q1 := mkq 4 s a v shares in
        let ans1 := ask e q1 in
        let e1 := env_next e q1 in
        let olde := match sget k3_eqb (a, (v, w)) (reds (stake s)) with Some x => r_entries x | None => [] end in
        if a_max ans1 <=? Z.of_nat (length olde) then Err EProposal
        else
          let sA := unbond_at s a v (d_shares r - shares) ans1 in
          let q2 := mkq 5 sA a w (a_amt ans1) in
          let ans2 := ask e1 q2 in
          let sB := delegate_at sA a w ans2 in
          let entry := {| re_height := height s; re_time := a_time ans2; re_init := a_amt ans1; re_shares := a_amt ans2;
                          re_id := a_id ans2; re_hold := 0 |} in
          Ok (env_next e1 q2, red_entry_at sB a v w entry)
    end.

  Inductive fop :=
  | FDelegate (a v : addr) (amt : Z)
  | FUndelegate (a v : addr) (shares : Z)
  | FWithdraw (a v : addr)
  | FRedelegate (a v w : addr) (shares : Z).

  Definition factor (o : fop) : addr :=
    match o with FDelegate a _ _ => a | FUndelegate a _ _ => a | FWithdraw a _ => a | FRedelegate a _ _ _ => a end.

  Definition fstep (e : env) (s : state) (o : fop) : outcome (env * state) :=
    match o with
    | FDelegate a v amt => f_delegate e s a v amt
    | FUndelegate a v sh => f_undelegate e s a v sh
    | FWithdraw a v => f_withdraw e s a v
    | FRedelegate a v w sh => f_redelegate e s a v w sh
    end.

  (* a failed transaction leaves everything as it was *)
  Definition fkeep (es : env * state) (o : outcome (env * state)) : env * state :=
    match o with Ok x => x | _ => es end.

  Definition frun (es : env * state) (ops : list fop) : env * state :=
    fold_left (fun es o => fkeep es (fstep (fst es) (snd es) o)) ops es.
End Follow.
