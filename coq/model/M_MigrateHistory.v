(* M_MigrateHistory.v — the whole history model of C14 in one operation type: every operation the harness performs on
   the real application has its counterpart here (migration, blocks, governance, restart from exported genesis,
   delegate / undelegate / withdraw / redelegate, validator slash, parameter changes, funding), an initial state,
   and `hrun`.  The reachable states are `snd (hrun (e, init) ops)`; `Inv` is the invariant proved for all of them in
   proofs/P_MigrateReach.v.  No proofs here. *)
From Coq Require Import ZArith List Bool.
From FxV Require Import model.M_Migrate model.M_MigrateSpec model.M_MigrateFollow.
Import ListNotations.
Open Scope Z_scope.

Definition set_cfg (s : state) (c : config) : state :=
  {| cfg := c; now := now s; height := height s; accts := accts s; vals := vals s; bal := bal s;
     start := start s; stake := stake s; gov := gov s; mig := mig s; locked := locked s |}.
Definition set_accts (s : state) (x : list (addr * Z)) : state :=
  {| cfg := cfg s; now := now s; height := height s; accts := x; vals := vals s; bal := bal s;
     start := start s; stake := stake s; gov := gov s; mig := mig s; locked := locked s |}.

(* gov MsgUpdateParams: the two periods (module accounts, denom, opening deposit unchanged) *)
Definition set_gov_periods (d1 d2 : time) (s : state) : state :=
  let c := cfg s in
  set_cfg s {| bond_denom := bond_denom c; pool_nb := pool_nb c; gov_acc := gov_acc c;
               max_dep_period := d1; voting_period := d2; min_deposit := min_deposit c; burn_prevote := burn_prevote c |}.

Section History.
  Variable sigT : Type.
  Variable recover : addr -> addr -> sigT -> option addr.
  Variable env : Type.
  Variable ask : env -> query -> vans.
  Variable env_next : env -> query -> env.

  Inductive hop :=
  | HMigrate (from to : addr) (sg : option sigT)
  | HEndBlock (t next : time) (burns converts : list Z) (vs : vside)
  | HSubmit (a : addr) (amt : Z) (exp : bool) (vp : time) (mind : Z)
  | HDeposit (a : addr) (pid amt : Z)
  | HVote (a : addr) (pid : Z)
  | HExportImport (h : Z)
  | HFollow (o : fop)                      (* delegate / undelegate / withdraw / redelegate *)
  | HSlash (v ih fr : Z)                   (* validator slash: the modelled (unbonding-entry) part *)
  | HGovPeriods (d1 d2 : time)             (* gov MsgUpdateParams *)
  | HStakingParams                         (* staking MsgUpdateParams (UnbondingTime): the completion times of later
                                              entries are answers of the environment; the state does not change *)
  | HMint (a d x : Z)                      (* coins arriving from outside the modelled accounts; ignored unless x >= 0 *)
  | HAccount (a kind : Z).                 (* an account object (kind of public key) appears; never for a module account
                                              address (module accounts are created without a public key) *)

  Definition hstep (es : env * state) (o : hop) : env * state :=
    let (e, s) := es in
    match o with
    | HMigrate f t sg => (e, keep s (migrate_tx sigT recover s f t sg))
    | HEndBlock t n b c vs => (e, end_block t n b c vs s)
    | HSubmit a amt x vp m => (e, keep s (submit_proposal a amt x vp m s))
    | HDeposit a pid amt => (e, keep s (add_deposit pid a amt s))
    | HVote a pid => (e, keep s (cast_vote a pid s))
    | HExportImport h => (e, export_import h s)
    | HFollow o => fkeep env (e, s) (fstep env ask env_next e s o)
    | HSlash v ih fr => (e, slash_ubds s v ih fr)
    | HGovPeriods d1 d2 => (e, set_gov_periods d1 d2 s)
    | HStakingParams => (e, s)
    | HMint a d x => (e, if x <? 0 then s else credit a d x s)
    | HAccount a kind => (e, if (a =? pool_nb (cfg s)) || (a =? gov_acc (cfg s)) then s
                             else set_accts s (sset Z.eqb a kind (accts s)))
    end.

  Definition hrun (es : env * state) (ops : list hop) : env * state := fold_left hstep ops es.
End History.

(* the initial state: three bonded validators (13, 14, 15) with their self-delegations and starting infos, the two
   module accounts (not-bonded pool 90, gov 91), no user funds yet (HMint), no proposals, no migrations *)
Definition init_cfg : config :=
  {| bond_denom := 0; pool_nb := 90; gov_acc := 91; max_dep_period := 1209600; voting_period := 1209600;
     min_deposit := 10000; burn_prevote := false |}.

Definition init : state :=
  {| cfg := init_cfg; now := 10; height := 2;
     accts := [(13, 2); (14, 2); (15, 2)];
     vals := [(13, tt); (14, tt); (15, tt)];
     bal := [((13, 0), 10000); ((14, 0), 10000); ((15, 0), 10000)];
     start := [((13, 13), {| st_period := 1; st_stake := 100; st_height := 0 |});
               ((14, 14), {| st_period := 1; st_stake := 100; st_height := 0 |});
               ((15, 15), {| st_period := 1; st_stake := 100; st_height := 0 |})];
     stake := {| dels := [((13, 13), {| d_del := 13; d_val := 13; d_shares := 100 |});
                          ((14, 14), {| d_del := 14; d_val := 14; d_shares := 100 |});
                          ((15, 15), {| d_del := 15; d_val := 15; d_shares := 100 |})];
                 idx71 := [((13, 13), tt); ((14, 14), tt); ((15, 15), tt)];
                 ubds := []; idx33 := []; ubdq := []; reds := []; idx35 := []; idx36 := []; redq := []; unbidx := [] |};
     gov := {| props := []; deposits := []; votes := []; inactiveq := []; activeq := []; next_pid := 1 |};
     mig := {| recs := []; dir_from := []; dir_to := [] |};
     locked := [] |}.

(* ---------- the invariant of the reachable states ---------- *)
(* entries: nothing in this model puts an unbonding / redelegation entry on hold (UnbondingOnHoldRefCount stays 0:
   no consumer-chain hooks in this application), and an entry's balance is never negative *)
Definition ent_ok (s : state) : Prop :=
  (forall kv e, In kv (ubds (stake s)) -> In e (u_entries (snd kv)) -> ue_hold e <= 0 /\ 0 <= ue_bal e) /\
  (forall kv e, In kv (reds (stake s)) -> In e (r_entries (snd kv)) -> re_hold e <= 0).

(* balances of everything that is not one of the two modelled module accounts (whose holdings depend on
   validator-side flows: bonded <-> not-bonded pool transfers, tally burns) *)
Definition balposP (s : state) : Prop :=
  forall a d, a <> pool_nb (cfg s) -> a <> gov_acc (cfg s) -> 0 <= bal_of s a d.

(* module accounts have no account object with a public key *)
Definition acct_ok (s : state) : Prop :=
  sget Z.eqb (pool_nb (cfg s)) (accts s) = None /\ sget Z.eqb (gov_acc (cfg s)) (accts s) = None.

(* gov store: queues and proposals agree in both directions, votes only on proposals in their voting period,
   proposal ids below the counter, deposits never negative *)
Record govI (g : govst) : Prop := {
  gi_dep : forall pid p, sget Z.eqb pid (props g) = Some p -> p_status p = PDeposit -> In (p_dep_end p, pid) (inactiveq g);
  gi_vot : forall pid p, sget Z.eqb pid (props g) = Some p -> p_status p = PVoting -> In (p_vote_end p, pid) (activeq g);
  gi_inq : forall te pid, In (te, pid) (inactiveq g) ->
             exists p, sget Z.eqb pid (props g) = Some p /\ p_status p = PDeposit /\ te = p_dep_end p;
  gi_acq : forall te pid, In (te, pid) (activeq g) ->
             exists p, sget Z.eqb pid (props g) = Some p /\ p_status p = PVoting /\ te = p_vote_end p;
  gi_votes : forall kv, In kv (votes g) ->
             exists p, sget Z.eqb (fst (fst kv)) (props g) = Some p /\ p_status p = PVoting;
  gi_fresh : forall pid p, sget Z.eqb pid (props g) = Some p -> pid < next_pid g;
  gi_amt : forall kv, In kv (deposits g) -> 0 <= snd kv;
  gi_nodup : NoDup (map fst (props g))
}.

Record Inv (s : state) : Prop := {
  iv_wf : wfP s;
  iv_qc : qcoverP s;
  iv_ent : ent_ok s;
  iv_bal : balposP s;
  iv_i36 : idx36_ok s;
  iv_gov : govI (gov s);
  iv_acct : acct_ok s
}.

(* the one environmental assumption: the validator-side answers are amounts, i.e. not negative
   (F1 rewards, tokens returned for shares / shares issued for tokens) *)
Definition sane_env (env : Type) (ask : env -> query -> vans) : Prop :=
  forall e q, 0 <= a_reward (ask e q) /\ 0 <= a_amt (ask e q).
