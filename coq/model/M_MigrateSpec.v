(* M_MigrateSpec.v — observation functions, well-formedness of a state (decidable, evaluated on the
   real application's states in the correspondence run) and the predicates the C14 theorems are
   stated with.  Definitions only. *)
From Coq Require Import ZArith List Bool.
From FxV Require Import model.M_Migrate.
Import ListNotations.
Open Scope Z_scope.

(* ---------- observations: the portfolio of an address, pointwise ---------- *)
Definition del_of (s : state) (a v : addr) : option del_rec := sget k2_eqb (a, v) (dels (stake s)).
Definition start_of (s : state) (a v : addr) : option start_rec := sget k2_eqb (a, v) (start s).
Definition ubd_of (s : state) (a v : addr) : option ubd_rec := sget k2_eqb (a, v) (ubds (stake s)).
Definition red_of (s : state) (a v w : addr) : option red_rec := sget k3_eqb (a, (v, w)) (reds (stake s)).
Definition in71 (s : state) (a v : addr) : bool := shas k2_eqb (a, v) (idx71 (stake s)).
Definition in33 (s : state) (a v : addr) : bool := shas k2_eqb (a, v) (idx33 (stake s)).
Definition in35 (s : state) (a v w : addr) : bool := shas k3_eqb (a, (v, w)) (idx35 (stake s)).
Definition in36 (s : state) (a v w : addr) : bool := shas k3_eqb (a, (v, w)) (idx36 (stake s)).
Definition ubd_slice (s : state) (t : time) : list k2 := qget t (ubdq (stake s)).
Definition red_slice (s : state) (t : time) : list k3 := qget t (redq (stake s)).

(* the same record under the target's name *)
Definition to_del (to : addr) (r : del_rec) : del_rec := {| d_del := to; d_val := d_val r; d_shares := d_shares r |}.
Definition to_ubd (to : addr) (r : ubd_rec) : ubd_rec := {| u_del := to; u_val := u_val r; u_entries := u_entries r |}.
Definition to_red (to : addr) (r : red_rec) : red_rec :=
  {| r_del := to; r_src := r_src r; r_dst := r_dst r; r_entries := r_entries r |}.

(* completion times of the unbonding / redelegation entries held by an address *)
Definition ubd_times (s : state) (a : addr) : list time :=
  concat (map (fun kv => map ue_time (u_entries (snd kv))) (filter (from_rec2 a) (ubds (stake s)))).
Definition red_times (s : state) (a : addr) : list time :=
  concat (map (fun kv => map re_time (r_entries (snd kv))) (filter (from_rec3 a) (reds (stake s)))).

(* ---------- totals ---------- *)
Definition sumZ {A} (f : A -> Z) (l : list A) : Z := fold_right (fun x a => f x + a) 0 l.
Definition supply (s : state) (d : Z) : Z :=
  sumZ (fun kv : k2 * Z => if snd (fst kv) =? d then snd kv else 0) (bal s).
Definition val_shares (s : state) (v : addr) : Z :=
  sumZ (fun kv : k2 * del_rec => if snd (fst kv) =? v then d_shares (snd kv) else 0) (dels (stake s)).
Definition val_unbonding (s : state) (v : addr) : Z :=
  sumZ (fun kv : k2 * ubd_rec => if snd (fst kv) =? v then sum_bal (u_entries (snd kv)) else 0) (ubds (stake s)).
Definition val_redelegating (s : state) (v w : addr) : Z :=
  sumZ (fun kv : k3 * red_rec => if k2_eqb (snd (fst kv)) (v, w) then sumZ re_init (r_entries (snd kv)) else 0)
       (reds (stake s)).

(* ---------- well-formedness (what the real stores guarantee by construction) ---------- *)
Fixpoint nodupb {K} (eqb : K -> K -> bool) (l : list K) : bool :=
  match l with
  | [] => true
  | x :: r => negb (existsb (eqb x) r) && nodupb eqb r
  end.
Definition keys {K V} (m : list (K * V)) : list K := map fst m.

Definition del_key_ok (kv : k2 * del_rec) : bool := k2_eqb (fst kv) (d_del (snd kv), d_val (snd kv)).
Definition ubd_key_ok (kv : k2 * ubd_rec) : bool := k2_eqb (fst kv) (u_del (snd kv), u_val (snd kv)).
Definition red_key_ok (kv : k3 * red_rec) : bool :=
  k3_eqb (fst kv) (r_del (snd kv), (r_src (snd kv), r_dst (snd kv))).

Definition wfb (s : state) : bool :=
  nodupb k2_eqb (keys (bal s)) && nodupb k2_eqb (keys (start s)) &&
  nodupb k2_eqb (keys (dels (stake s))) && nodupb k2_eqb (keys (ubds (stake s))) &&
  nodupb k3_eqb (keys (reds (stake s))) &&
  forallb del_key_ok (dels (stake s)) && forallb ubd_key_ok (ubds (stake s)) &&
  forallb red_key_ok (reds (stake s)) &&
  (* a delegator starting info exists only next to its delegation (distribution hooks) *)
  forallb (fun kv : k2 * start_rec => shas k2_eqb (fst kv) (dels (stake s))) (start s).
Definition wf (s : state) : Prop := wfb s = true.

(* every unbonding / redelegation entry has its pair in the queue slice of its completion time
   (InsertUBDQueue / InsertRedelegationQueue put it there when the entry is created) *)
Definition qcoverb (s : state) : bool :=
  forallb (fun kv : k2 * ubd_rec =>
     forallb (fun e => existsb (k2_eqb (fst kv)) (ubd_slice s (ue_time e))) (u_entries (snd kv))) (ubds (stake s)) &&
  forallb (fun kv : k3 * red_rec =>
     forallb (fun e => existsb (k3_eqb (fst kv)) (red_slice s (re_time e))) (r_entries (snd kv))) (reds (stake s)).

(* the by-validator indexes list exactly the records *)
Definition idx_matches {K V} (eqb : K -> K -> bool) (m : list (K * V)) (ix : list (K * unit)) : Prop :=
  forall k, shas eqb k ix = shas eqb k m.
Definition idx71_ok (s : state) : Prop := idx_matches k2_eqb (dels (stake s)) (idx71 (stake s)).
Definition idx33_ok (s : state) : Prop := idx_matches k2_eqb (ubds (stake s)) (idx33 (stake s)).
Definition idx35_ok (s : state) : Prop := idx_matches k3_eqb (reds (stake s)) (idx35 (stake s)).
Definition idx36_ok (s : state) : Prop := idx_matches k3_eqb (reds (stake s)) (idx36 (stake s)).
(* the unbonding-id index points at the record that holds the entry *)
Definition idx38_ok (s : state) : Prop :=
  forall id d v, sget Z.eqb id (unbidx (stake s)) = Some (UKubd d v) ->
    exists u, ubd_of s d v = Some u /\ existsb (fun e => ue_id e =? id) (u_entries u) = true.

Definition matchb {K V} (eqb : K -> K -> bool) (m : list (K * V)) (ix : list (K * unit)) : bool :=
  forallb (fun kv => shas eqb (fst kv) ix) m && forallb (fun kv => shas eqb (fst kv) m) ix.
Definition idx38b (s : state) : bool :=
  forallb (fun kv : Z * ukey =>
    match snd kv with
    | UKubd d v => match ubd_of s d v with
                   | Some u => existsb (fun e => ue_id e =? fst kv) (u_entries u)
                   | None => false end
    | UKred d v w => match red_of s d v w with
                     | Some r => existsb (fun e => re_id e =? fst kv) (r_entries r)
                     | None => false end
    | UKval _ => true
    end) (unbidx (stake s)).

(* ---------- governance involvement ---------- *)
Definition involved (g : govst) (pid : Z) (p : proposal) (a : addr) : bool :=
  (a =? p_proposer p) || has_deposit g pid a || has_vote g pid a.
(* an open proposal: still in its deposit or voting period *)
Definition is_open (p : proposal) : bool := match p_status p with PClosed => false | _ => true end.
Definition involved_open (s : state) (a : addr) : Prop :=
  exists pid p, sget Z.eqb pid (props (gov s)) = Some p /\ is_open p = true /\ involved (gov s) pid p a = true.
(* what the code actually looks at: queued proposals whose end time has already been reached *)
Definition seen_inactive (s : state) (from to : addr) : Prop :=
  exists te pid p, In (te, pid) (inactiveq (gov s)) /\ te <= now s /\ sget Z.eqb pid (props (gov s)) = Some p /\
    ((from =? p_proposer p) || (to =? p_proposer p) || has_deposit (gov s) pid from || has_deposit (gov s) pid to) = true.
Definition seen_active (s : state) (from to : addr) : Prop :=
  exists te pid p, In (te, pid) (activeq (gov s)) /\ te <= now s /\ sget Z.eqb pid (props (gov s)) = Some p /\
    ((from =? p_proposer p) || (to =? p_proposer p) || has_deposit (gov s) pid from || has_deposit (gov s) pid to
      || has_vote (gov s) pid from || has_vote (gov s) pid to) = true.
Definition queued_exist (s : state) : Prop :=
  (forall te pid, In (te, pid) (inactiveq (gov s)) -> te <= now s -> sget Z.eqb pid (props (gov s)) <> None) /\
  (forall te pid, In (te, pid) (activeq (gov s)) -> te <= now s -> sget Z.eqb pid (props (gov s)) <> None).

Definition has_staking (s : state) (a : addr) : Prop :=
  (exists v, del_of s a v <> None) \/ (exists v, ubd_of s a v <> None) \/ (exists v w, red_of s a v w <> None).
Definition is_validator (s : state) (a : addr) : bool := shas Z.eqb a (vals s).
