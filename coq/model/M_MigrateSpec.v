(* M_MigrateSpec.v — observation functions, well-formedness of a state (decidable, evaluated on the
   real application's states in the correspondence run) and the predicates the C14 theorems are
   stated with.  Definitions only. *)
From Coq Require Import ZArith List Bool.
From FxV Require Import model.M_Migrate.
Import ListNotations.
Open Scope Z_scope.

(* ---------- observations: the portfolio of an address, pointwise ---------- *)
Definition del_of (s : state) (a v : addr) : option del_rec := sget k2_eqb (a, v) (dels (stake s)).
Definition start_of (s : state) (a v : addr) : option start_rec := sget k2_eqb (a, v) (start s).
Definition ubd_of (s : state) (a v : addr) : option ubd_rec := sget k2_eqb (a, v) (ubds (stake s)).
Definition red_of (s : state) (a v w : addr) : option red_rec := sget k3_eqb (a, (v, w)) (reds (stake s)).
Definition in71 (s : state) (a v : addr) : bool := shas k2_eqb (a, v) (idx71 (stake s)).
Definition in33 (s : state) (a v : addr) : bool := shas k2_eqb (a, v) (idx33 (stake s)).
Definition in35 (s : state) (a v w : addr) : bool := shas k3_eqb (a, (v, w)) (idx35 (stake s)).
Definition in36 (s : state) (a v w : addr) : bool := shas k3_eqb (a, (v, w)) (idx36 (stake s)).
Definition ubd_slice (s : state) (t : time) : list k2 := qget t (ubdq (stake s)).
Definition red_slice (s : state) (t : time) : list k3 := qget t (redq (stake s)).

(* the same record under the target's name *)
Definition to_del (to : addr) (r : del_rec) : del_rec := {| d_del := to; d_val := d_val r; d_shares := d_shares r |}.
Definition to_ubd (to : addr) (r : ubd_rec) : ubd_rec := {| u_del := to; u_val := u_val r; u_entries := u_entries r |}.
Definition to_red (to : addr) (r : red_rec) : red_rec :=
  {| r_del := to; r_src := r_src r; r_dst := r_dst r; r_entries := r_entries r |}.

(* completion times of the unbonding / redelegation entries held by an address *)
Definition ubd_times (s : state) (a : addr) : list time :=
  concat (map (fun kv => map ue_time (u_entries (snd kv))) (filter (from_rec2 a) (ubds (stake s)))).
Definition red_times (s : state) (a : addr) : list time :=
  concat (map (fun kv => map re_time (r_entries (snd kv))) (filter (from_rec3 a) (reds (stake s)))).

(* ---------- totals ---------- *)
Definition sumZ {A} (f : A -> Z) (l : list A) : Z := fold_right (fun x a => f x + a) 0 l.
Definition supply (s : state) (d : Z) : Z :=
  sumZ (fun kv : k2 * Z => if snd (fst kv) =? d then snd kv else 0) (bal s).
Definition val_shares (s : state) (v : addr) : Z :=
  sumZ (fun kv : k2 * del_rec => if snd (fst kv) =? v then d_shares (snd kv) else 0) (dels (stake s)).
Definition val_unbonding (s : state) (v : addr) : Z :=
  sumZ (fun kv : k2 * ubd_rec => if snd (fst kv) =? v then sum_bal (u_entries (snd kv)) else 0) (ubds (stake s)).
Definition val_redelegating (s : state) (v w : addr) : Z :=
  sumZ (fun kv : k3 * red_rec => if k2_eqb (snd (fst kv)) (v, w) then sumZ re_init (r_entries (snd kv)) else 0)
       (reds (stake s)).

(* ---------- well-formedness (what the real stores guarantee by construction) ---------- *)
Fixpoint nodupb {K} (eqb : K -> K -> bool) (l : list K) : bool :=
  match l with
  | [] => true
  | x :: r => negb (existsb (eqb x) r) && nodupb eqb r
  end.
Definition keys {K V} (m : list (K * V)) : list K := map fst m.

Definition del_key_ok (kv : k2 * del_rec) : bool := k2_eqb (fst kv) (d_del (snd kv), d_val (snd kv)).
Definition ubd_key_ok (kv : k2 * ubd_rec) : bool := k2_eqb (fst kv) (u_del (snd kv), u_val (snd kv)).
Definition red_key_ok (kv : k3 * red_rec) : bool :=
  k3_eqb (fst kv) (r_del (snd kv), (r_src (snd kv), r_dst (snd kv))).

Definition wfb (s : state) : bool :=
  nodupb k2_eqb (keys (bal s)) && nodupb k2_eqb (keys (start s)) &&
  nodupb k2_eqb (keys (dels (stake s))) && nodupb k2_eqb (keys (ubds (stake s))) &&
  nodupb k3_eqb (keys (reds (stake s))) &&
  forallb del_key_ok (dels (stake s)) && forallb ubd_key_ok (ubds (stake s)) &&
  forallb red_key_ok (reds (stake s)) &&
  (* a delegator starting info exists only next to its delegation (distribution hooks) *)
  forallb (fun kv : k2 * start_rec => shas k2_eqb (fst kv) (dels (stake s))) (start s).
Definition wf (s : state) : Prop := wfb s = true.

(* every unbonding / redelegation entry has its pair in the queue slice of its completion time
   (InsertUBDQueue / InsertRedelegationQueue put it there when the entry is created) *)
Definition is_nil {A} (l : list A) : bool := match l with [] => true | _ => false end.
Definition qcoverb (s : state) : bool :=
  forallb (fun kv : k2 * ubd_rec =>
     negb (is_nil (u_entries (snd kv))) &&
     forallb (fun e => existsb (k2_eqb (fst kv)) (ubd_slice s (ue_time e))) (u_entries (snd kv))) (ubds (stake s)) &&
  forallb (fun kv : k3 * red_rec =>
     negb (is_nil (r_entries (snd kv))) &&
     forallb (fun e => existsb (k3_eqb (fst kv)) (red_slice s (re_time e))) (r_entries (snd kv))) (reds (stake s)) &&
  nodupb Z.eqb (keys (ubdq (stake s))) && nodupb Z.eqb (keys (redq (stake s))).

(* the by-validator indexes list exactly the records *)
Definition idx_matches {K V} (eqb : K -> K -> bool) (m : list (K * V)) (ix : list (K * unit)) : Prop :=
  forall k, shas eqb k ix = shas eqb k m.
Definition idx71_ok (s : state) : Prop := idx_matches k2_eqb (dels (stake s)) (idx71 (stake s)).
Definition idx33_ok (s : state) : Prop := idx_matches k2_eqb (ubds (stake s)) (idx33 (stake s)).
Definition idx35_ok (s : state) : Prop := idx_matches k3_eqb (reds (stake s)) (idx35 (stake s)).
Definition idx36_ok (s : state) : Prop := idx_matches k3_eqb (reds (stake s)) (idx36 (stake s)).
(* the unbonding-id index points at the record that holds the entry *)
Definition idx38_ok (s : state) : Prop :=
  (forall id d v, sget Z.eqb id (unbidx (stake s)) = Some (UKubd d v) ->
    exists u, ubd_of s d v = Some u /\ existsb (fun e => ue_id e =? id) (u_entries u) = true) /\
  (forall id d v w, sget Z.eqb id (unbidx (stake s)) = Some (UKred d v w) ->
    exists r, red_of s d v w = Some r /\ existsb (fun e => re_id e =? id) (r_entries r) = true).
(* ... and every entry is indexed *)
Definition idx38_complete (s : state) : Prop :=
  (forall kv e, In kv (ubds (stake s)) -> In e (u_entries (snd kv)) -> sget Z.eqb (ue_id e) (unbidx (stake s)) <> None) /\
  (forall kv e, In kv (reds (stake s)) -> In e (r_entries (snd kv)) -> sget Z.eqb (re_id e) (unbidx (stake s)) <> None).

Definition matchb {K V} (eqb : K -> K -> bool) (m : list (K * V)) (ix : list (K * unit)) : bool :=
  forallb (fun kv => shas eqb (fst kv) ix) m && forallb (fun kv => shas eqb (fst kv) m) ix.
Definition idx38b (s : state) : bool :=
  forallb (fun kv : Z * ukey =>
    match snd kv with
    | UKubd d v => match ubd_of s d v with
                   | Some u => existsb (fun e => ue_id e =? fst kv) (u_entries u)
                   | None => false end
    | UKred d v w => match red_of s d v w with
                     | Some r => existsb (fun e => re_id e =? fst kv) (r_entries r)
                     | None => false end
    | UKval _ => true
    end) (unbidx (stake s)).

(* ---------- governance involvement ---------- *)
Definition involved (g : govst) (pid : Z) (p : proposal) (a : addr) : bool :=
  (a =? p_proposer p) || has_deposit g pid a || has_vote g pid a.
(* an open proposal: still in its deposit or voting period *)
Definition is_open (p : proposal) : bool := match p_status p with PClosed => false | _ => true end.
Definition involved_open (s : state) (a : addr) : Prop :=
  exists pid p, sget Z.eqb pid (props (gov s)) = Some p /\ is_open p = true /\ involved (gov s) pid p a = true.
(* what the scan looks at: every queued proposal *)
Definition seen_inactive (s : state) (from to : addr) : Prop :=
  exists te pid p, In (te, pid) (inactiveq (gov s)) /\ sget Z.eqb pid (props (gov s)) = Some p /\
    ((from =? p_proposer p) || (to =? p_proposer p) || has_deposit (gov s) pid from || has_deposit (gov s) pid to) = true.
Definition seen_active (s : state) (from to : addr) : Prop :=
  exists te pid p, In (te, pid) (activeq (gov s)) /\ sget Z.eqb pid (props (gov s)) = Some p /\
    ((from =? p_proposer p) || (to =? p_proposer p) || has_deposit (gov s) pid from || has_deposit (gov s) pid to
      || has_vote (gov s) pid from || has_vote (gov s) pid to) = true.
Definition queued_exist (s : state) : Prop :=
  (forall te pid, In (te, pid) (inactiveq (gov s)) -> sget Z.eqb pid (props (gov s)) <> None) /\
  (forall te pid, In (te, pid) (activeq (gov s)) -> sget Z.eqb pid (props (gov s)) <> None).

(* gov store shape (decidable; evaluated on the real states): an open proposal sits in the queue of its
   period under its end time, votes exist only on proposals in their voting period, queued ids exist *)
Definition govwfb (s : state) : bool :=
  let g := gov s in
  forallb (fun kv : Z * proposal =>
    match p_status (snd kv) with
    | PDeposit => existsb (fun x => (fst x =? p_dep_end (snd kv)) && (snd x =? fst kv)) (inactiveq g)
    | PVoting => existsb (fun x => (fst x =? p_vote_end (snd kv)) && (snd x =? fst kv)) (activeq g)
    | PClosed => true
    end) (props g) &&
  forallb (fun kv : (Z * Z) * unit =>
    match sget Z.eqb (fst (fst kv)) (props g) with
    | Some p => match p_status p with PVoting => true | _ => false end
    | None => false
    end) (votes g) &&
  forallb (fun x : Z * Z => shas Z.eqb (snd x) (props g)) (inactiveq g) &&
  forallb (fun x : Z * Z => shas Z.eqb (snd x) (props g)) (activeq g).

Definition has_staking (s : state) (a : addr) : Prop :=
  (exists v, del_of s a v <> None) \/ (exists v, ubd_of s a v <> None) \/ (exists v w, red_of s a v w <> None).
Definition is_validator (s : state) (a : addr) : bool := shas Z.eqb a (vals s).

(* ---------- well-formedness as propositions ---------- *)
Record wfP (s : state) : Prop := {
  wf_bal : NoDup (map fst (bal s));
  wf_start : NoDup (map fst (start s));
  wf_dels : NoDup (map fst (dels (stake s)));
  wf_ubds : NoDup (map fst (ubds (stake s)));
  wf_reds : NoDup (map fst (reds (stake s)));
  wf_delk : forall kv, In kv (dels (stake s)) -> fst kv = (d_del (snd kv), d_val (snd kv));
  wf_ubdk : forall kv, In kv (ubds (stake s)) -> fst kv = (u_del (snd kv), u_val (snd kv));
  wf_redk : forall kv, In kv (reds (stake s)) -> fst kv = (r_del (snd kv), (r_src (snd kv), r_dst (snd kv)));
  wf_startdel : forall k, In k (map fst (start s)) -> In k (map fst (dels (stake s)))
}.

Record qcoverP (s : state) : Prop := {
  qc_ubd : forall kv e, In kv (ubds (stake s)) -> In e (u_entries (snd kv)) -> In (fst kv) (ubd_slice s (ue_time e));
  qc_red : forall kv e, In kv (reds (stake s)) -> In e (r_entries (snd kv)) -> In (fst kv) (red_slice s (re_time e));
  qc_ubd_ne : forall kv, In kv (ubds (stake s)) -> u_entries (snd kv) <> [];
  qc_red_ne : forall kv, In kv (reds (stake s)) -> r_entries (snd kv) <> [];
  qc_ubdq : NoDup (map fst (ubdq (stake s)));
  qc_redq : NoDup (map fst (redq (stake s)))
}.

(* ---------- what an accepted migration does, pointwise ---------- *)
Definition sel {A} (from to a : Z) (x_to x_from x_other : A) : A :=
  if a =? to then x_to else if a =? from then x_from else x_other.
Definition has_del (s : state) (a v : addr) : bool := shas k2_eqb (a, v) (dels (stake s)).
Definition has_ubd (s : state) (a v : addr) : bool := shas k2_eqb (a, v) (ubds (stake s)).
Definition has_red (s : state) (a v w : addr) : bool := shas k3_eqb (a, (v, w)) (reds (stake s)).

(* what Execute writes into the unbonding-id index, in order *)
Definition unb_writes (from to : addr) (s : state) : list (Z * ukey) :=
  concat (map (fun kv : k2 * ubd_rec => map (fun e => (ue_id e, UKubd to (u_val (snd kv)))) (u_entries (snd kv)))
              (filter (from_rec2 from) (ubds (stake s)))) ++
  concat (map (fun kv : k3 * red_rec => map (fun e => (re_id e, UKred to (r_src (snd kv)) (r_dst (snd kv)))) (r_entries (snd kv)))
              (filter (from_rec3 from) (reds (stake s)))).

Record moved (from to : addr) (s s' : state) : Prop := {
  (* the portfolio: the target receives, the source is left with nothing, nobody else is touched *)
  mv_bal : forall a d, bal_of s' a d = sel from to a (bal_of s to d + bal_of s from d) 0 (bal_of s a d);
  mv_del : forall a v, del_of s' a v = sel from to a (option_map (to_del to) (del_of s from v)) None (del_of s a v);
  mv_start : forall a v, start_of s' a v = sel from to a (start_of s from v) None (start_of s a v);
  mv_ubd : forall a v, ubd_of s' a v = sel from to a (option_map (to_ubd to) (ubd_of s from v)) None (ubd_of s a v);
  mv_red : forall a v w, red_of s' a v w = sel from to a (option_map (to_red to) (red_of s from v w)) None (red_of s a v w);
  (* the by-validator indexes *)
  mv_i71 : forall a v, in71 s' a v = sel from to a (has_del s from v || in71 s to v) (negb (has_del s from v) && in71 s from v) (in71 s a v);
  mv_i33 : forall a v, in33 s' a v = sel from to a (has_ubd s from v || in33 s to v) (negb (has_ubd s from v) && in33 s from v) (in33 s a v);
  mv_i35 : forall a v w, in35 s' a v w = sel from to a (has_red s from v w || in35 s to v w) (negb (has_red s from v w) && in35 s from v w) (in35 s a v w);
  mv_i36 : forall a v w, in36 s' a v w = sel from to a (has_red s from v w || in36 s to v w) (negb (has_red s from v w) && in36 s from v w) (in36 s a v w);
  (* the unbonding-id index: the ids of the source's entries are re-pointed at the target's record keys *)
  mv_unb : forall id k, sget Z.eqb id (unbidx (stake s')) = Some k ->
     In (id, k) (unb_writes from to s) \/
     (~ In id (map fst (unb_writes from to s)) /\ sget Z.eqb id (unbidx (stake s)) = Some k);
  mv_unb_has : forall id, In id (map fst (unb_writes from to s)) -> sget Z.eqb id (unbidx (stake s')) <> None;
  (* maturation queues: the slices at the completion times of the source's entries are renamed in place *)
  mv_ubdq : forall t, ubd_slice s' t =
     if existsb (Z.eqb t) (ubd_times s from) then map (ren_pair from to) (ubd_slice s t) else ubd_slice s t;
  mv_redq : forall t, red_slice s' t =
     if existsb (Z.eqb t) (red_times s from) then map (ren_trip from to) (red_slice s t) else red_slice s t;
  (* everything else *)
  mv_gov : gov s' = gov s;
  mv_vals : vals s' = vals s;
  mv_accts : accts s' = accts s;
  (* vesting: neither account object changes (the source keeps its vesting schedule and its DelegatedVesting
     bookkeeping, the target stays whatever it was) and the bank's locked amounts are what they were *)
  mv_locked : locked s' = locked s;
  mv_cfg : cfg s' = cfg s;
  mv_clock : now s' = now s /\ height s' = height s;
  mv_rec : forall a, has_record s' a = (a =? to) || (a =? from) || has_record s a;
  (* totals *)
  mv_supply : forall d, supply s' d = supply s d;
  mv_shares : forall v, val_shares s' v = val_shares s v;
  mv_unbonding : forall v, val_unbonding s' v = val_unbonding s v;
  mv_redelegating : forall v w, val_redelegating s' v w = val_redelegating s v w
}.

(* ---------- follow-up simulation: the migrated world s' against the world s in which nothing migrated ---------- *)
Definition qrel (from to : Z) (l l' : list (Z * Z)) : Prop :=
  Forall2 (fun p p' => p' = p \/ (fst p = from /\ p' = (to, snd p))) l l'.

Record sim (from to : addr) (s s' : state) : Prop := {
  sm_wf : wfP s; sm_wf' : wfP s'; sm_qc : qcoverP s; sm_qc' : qcoverP s';
  sm_cfg : cfg s' = cfg s; sm_now : now s' = now s; sm_height : height s' = height s;
  (* in the world without migration the target owns no staking record and no negative balance *)
  sm_clean : forall v, del_of s to v = None /\ start_of s to v = None /\ ubd_of s to v = None;
  sm_nonneg : forall d, 0 <= bal_of s to d;
  sm_bal : forall a d, bal_of s' a d = sel from to a (bal_of s to d + bal_of s from d) 0 (bal_of s a d);
  sm_del : forall a v, del_of s' a v = sel from to a (option_map (to_del to) (del_of s from v)) None (del_of s a v);
  sm_start : forall a v, start_of s' a v = sel from to a (start_of s from v) None (start_of s a v);
  sm_ubd : forall a v, ubd_of s' a v = sel from to a (option_map (to_ubd to) (ubd_of s from v)) None (ubd_of s a v);
  sm_q : forall t, qrel from to (ubd_slice s t) (ubd_slice s' t)
}.

(* the redelegation side of the relation *)
Definition qrel3 (from to : Z) (l l' : list (Z * (Z * Z))) : Prop :=
  Forall2 (fun p p' => p' = p \/ (fst p = from /\ p' = (to, snd p))) l l'.
Definition i36_of (s : state) (a v w : Z) : option unit := sget k3_eqb (a, (v, w)) (idx36 (stake s)).

Record simR (from to : addr) (s s' : state) : Prop := {
  sr_clean : forall v w, red_of s to v w = None /\ i36_of s to v w = None;
  sr_red : forall a v w, red_of s' a v w = sel from to a (option_map (to_red to) (red_of s from v w)) None (red_of s a v w);
  sr_i36 : forall a v w, i36_of s' a v w = sel from to a (i36_of s from v w) None (i36_of s a v w);
  sr_q : forall t, qrel3 from to (red_slice s t) (red_slice s' t)
}.

Definition sim2 (from to : addr) (s s' : state) : Prop := sim from to s s' /\ simR from to s s'.

(* all by-validator indexes and the unbonding-id index exact (decidable form, evaluated on the real states) *)
Definition idxallb (s : state) : bool :=
  matchb k2_eqb (dels (stake s)) (idx71 (stake s)) && matchb k2_eqb (ubds (stake s)) (idx33 (stake s)) &&
  matchb k3_eqb (reds (stake s)) (idx35 (stake s)) && matchb k3_eqb (reds (stake s)) (idx36 (stake s)) && idx38b s.

Definition balposb (s : state) : bool := forallb (fun kv : (Z * Z) * Z => 0 <=? snd kv) (bal s).

(* the remaining components of the reachable-state invariant (M_MigrateHistory.Inv) in decidable form, evaluated on the
   real application's states in the correspondence run: no entry on hold, no negative entry balance; every queued
   proposal id exists with the queue's status and end time; ids below the counter; deposits non-negative *)
Definition entb (s : state) : bool :=
  forallb (fun kv : k2 * ubd_rec =>
     forallb (fun e => (ue_hold e <=? 0) && (0 <=? ue_bal e)) (u_entries (snd kv))) (ubds (stake s)) &&
  forallb (fun kv : k3 * red_rec => forallb (fun e => re_hold e <=? 0) (r_entries (snd kv))) (reds (stake s)).
Definition govqb (s : state) : bool :=
  let g := gov s in
  forallb (fun x : Z * Z =>
     match sget Z.eqb (snd x) (props g) with
     | Some p => match p_status p with PDeposit => fst x =? p_dep_end p | _ => false end
     | None => false end) (inactiveq g) &&
  forallb (fun x : Z * Z =>
     match sget Z.eqb (snd x) (props g) with
     | Some p => match p_status p with PVoting => fst x =? p_vote_end p | _ => false end
     | None => false end) (activeq g) &&
  forallb (fun kv : Z * proposal => fst kv <? next_pid g) (props g) &&
  forallb (fun kv : k2 * Z => 0 <=? snd kv) (deposits g) &&
  nodupb Z.eqb (keys (props g)).
Definition invb (s : state) : bool := entb s && govqb s.
