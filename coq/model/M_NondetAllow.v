(* C17: the committed allow-table.  Every potential nondeterminism site the translator finds in
   fx-core must be listed here — keyed by (file, function, kind, number of occurrences, detail: float format string / float operations inside a map loop) — with the
   reason it cannot make two executions of the same block differ.  Reasons that are mathematical are
   theorems of proofs/P_Perm.v (see discharge_stmt there); the two classification-only reasons
   (D_PureFloat, D_Telemetry) are by reading and say so.

   A NEW site, or one more occurrence inside a listed function, has no entry: theorem
   C17_all_sites_discharged stops compiling until somebody reads the new code and extends this table. *)
From Coq Require Import String ZArith List.
From FxV Require Import model.M_NondetTypes.
Import ListNotations.
Open Scope string_scope.
Open Scope Z_scope.

Inductive discharge :=
| D_SortUnique      (* elements collected from a map, then sorted by a key that is unique among them
                       (the map key itself): sort_after_collect_deterministic                          *)
| D_CommSum         (* every iteration adds a per-element contribution into accumulators with an exact, commutative
                       and associative addition (big.Int / LegacyDec): accumulate_order_irrelevant             *)
| D_ExactFloatSum   (* float64 accumulation of |integers| whose total stays below 2^53: every partial
                       sum is exact, so the order is irrelevant: power_diff_order_irrelevant.  Exactly two
                       float operations may sit inside the map loop (the conversion and the +=); a division
                       or multiplication inside the loop would make the summands non-integers              *)
| D_MapRebuild      (* each iteration stores a function of one entry under a key that is injective in
                       the entry's key into a fresh map: map_rebuild_order_irrelevant                  *)
| D_PureFloat       (* (for the %.8f rendering: 8 decimals is what the allow-table pins)
                       a float operation applied once to values that are themselves deterministic
                       (no accumulation across an unordered iteration); IEEE-754 binary64 operations
                       and Go's strconv formatting are functions of their operands — by reading       *)
| D_WiringOnly      (* process-level state (package variable or keeper-struct field of map / slice / chan / pointer
                       type) that is assigned while the app is wired (init, NewKeeper, AddRoute, RegisterExternalAddress)
                       and only read during block execution: no cache, nothing that depends on which context
                       branches ran or on whether the process was restarted.  Discharged by the finite check
                       M_State.writers_wiring_only over the generated lists of writers and of their callers      *)
| D_Telemetry.      (* a float constant handed to a telemetry counter; metrics are not state — by reading *)

Definition allow : list (string * string * site_kind * Z * string * discharge) :=
 [ ("app/app.go", "App.AutoCliOpts", K_maprange, 1, "shape=write-keyed-by-element", D_MapRebuild);
   ("app/app.go", "App.GetModules", K_maprange, 1, "shape=write-keyed-by-element", D_MapRebuild);
   ("app/genesis.go", "NewDefAppGenesisByDenom", K_maprange, 1, "shape=write-keyed-by-element", D_MapRebuild);
   ("app/modules.go", "GetMaccPerms", K_maprange, 1, "shape=write-keyed-by-element", D_MapRebuild);
   ("app/modules.go", "ModuleAccountAddrs", K_maprange, 1, "shape=write-keyed-by-element", D_MapRebuild);
   ("x/crosschain/keeper/abci.go", "Keeper.isNeedOracleSetRequest", K_floatfmt, 1, "%.8f", D_PureFloat);
   ("x/crosschain/keeper/batch_fee.go", "Keeper.GetAllBatchFees", K_maprange, 1, "shape=collect-then-sort", D_SortUnique);
   ("x/crosschain/keeper/bridge_call_in.go", "Keeper.BridgeCallHandler", K_float, 1, "telemetry-arg", D_Telemetry);
   ("x/crosschain/keeper/bridge_call_out.go", "Keeper.AddOutgoingBridgeCallWithoutBuild", K_float, 1, "telemetry-arg", D_Telemetry);
   ("x/crosschain/keeper/msg_server.go", "MsgServer.AddDelegate", K_float, 1, "telemetry-arg", D_Telemetry);
   ("x/crosschain/keeper/oracle.go", "Keeper.SlashOracle", K_float, 1, "telemetry-arg", D_Telemetry);
   ("x/crosschain/keeper/send_to_fx.go", "Keeper.SendToFxExecuted", K_float, 1, "telemetry-arg", D_Telemetry);
   ("x/crosschain/types/external_address.go", "GetSupportChains", K_maprange, 1, "shape=collect-then-sort", D_SortUnique);
   ("x/crosschain/types/types.go", "BridgeValidators.PowerDiff", K_float, 4, "inmaprange,inmaprange", D_ExactFloatSum);
   ("x/crosschain/types/types.go", "BridgeValidators.PowerDiff", K_maprange, 1, "shape=accumulate-float", D_ExactFloatSum);
   ("x/gov/keeper/tally.go", "Keeper.Tally", K_maprange, 1, "shape=accumulate-exact", D_CommSum);
   ("x/gov/types/msgs.go", "CustomParams.ValidateBasic", K_float, 1, "compare-const", D_PureFloat);
   (* process-level mutable state under x/: each entry lists ALL such fields / variables of the struct / file *)
   ("x/crosschain/keeper/keeper_router.go", "type router", K_state, 1, "routes:map[string]*keeper.ModuleHandler", D_WiringOnly);
   ("x/crosschain/precompile/keeper.go", "type Keeper", K_state, 1, "router:*precompile.Router", D_WiringOnly);
   ("x/crosschain/types/external_address.go", "<package-level>", K_state, 2, "externalAddressRouter:map[string]types.ExternalAddress,reModuleName:*regexp.Regexp", D_WiringOnly);
   ("x/erc20/keeper/keeper.go", "type Keeper", K_state, 1, "chainsName:[]string", D_WiringOnly);
   ("x/evm/keeper/keeper.go", "type Keeper", K_state, 1, "(embedded):*keeper.Keeper", D_WiringOnly);
   ("x/gov/keeper/grpc_query.go", "type QueryServer", K_state, 1, "k:*keeper.Keeper", D_WiringOnly);
   ("x/gov/keeper/keeper.go", "type Keeper", K_state, 2, "(embedded):*keeper.Keeper,storeKeys:map[string]*types.KVStoreKey", D_WiringOnly);
   ("x/gov/keeper/msg_server.go", "type msgServer", K_state, 1, "(embedded):*keeper.Keeper", D_WiringOnly);
   ("x/migrate/keeper/keeper.go", "type Keeper", K_state, 1, "migrateI:[]keeper.MigrateI", D_WiringOnly);
   ("x/staking/keeper/keeper.go", "type Keeper", K_state, 1, "(embedded):*keeper.Keeper", D_WiringOnly) ].

Definition kind_eqb (a b : site_kind) : bool :=
  match a, b with
  | K_maprange, K_maprange | K_mapkeys, K_mapkeys | K_float, K_float | K_floatfmt, K_floatfmt
  | K_timenow, K_timenow | K_rand, K_rand | K_goroutine, K_goroutine | K_select, K_select | K_state, K_state
  | K_stack, K_stack | K_ptrfmt, K_ptrfmt => true
  | _, _ => false
  end.

Fixpoint lookup_allow_in (tbl : list (string * string * site_kind * Z * string * discharge)) (s : site_row) : option discharge :=
  match tbl with
  | [] => None
  | (f, fn, k, n, det, d) :: r =>
      if (String.eqb f (s_file s) && String.eqb fn (s_func s) && kind_eqb k (s_kind s) && (n =? s_count s) && String.eqb det (s_detail s))%bool
      then Some d else lookup_allow_in r s
  end.

Definition lookup_allow := lookup_allow_in allow.

(* a discharge class applies only to a site whose SHAPE — read from the source by the translator — matches the
   hypothesis of the class's lemma *)
Definition discharge_fits (d : discharge) (s : site_row) : bool :=
  match d, s_kind s with
  | D_SortUnique, K_maprange => String.eqb (s_detail s) "shape=collect-then-sort"
  | D_CommSum, K_maprange => String.eqb (s_detail s) "shape=accumulate-exact"
  | D_ExactFloatSum, K_maprange => String.eqb (s_detail s) "shape=accumulate-float"
  | D_ExactFloatSum, K_float => String.eqb (s_detail s) "inmaprange,inmaprange"   (* the conversion and the += , nothing else, inside the loop *)
  | D_MapRebuild, K_maprange => String.eqb (s_detail s) "shape=write-keyed-by-element"
  | D_PureFloat, K_floatfmt => String.eqb (s_detail s) "%.8f"
  | D_PureFloat, K_float => String.eqb (s_detail s) "compare-const"
  | D_Telemetry, K_float => String.eqb (s_detail s) "telemetry-arg"
  | D_WiringOnly, K_state => true
  | _, _ => false
  end.

Definition all_sites_allowed (sites : list site_row) : bool :=
  forallb (fun s => match lookup_allow s with Some d => discharge_fits d s | None => false end) sites.
