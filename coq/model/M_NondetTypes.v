(* C17: row type of the generated table coq/gen/Gen_NondetSites.v (written by harness/gen_c17 with
   go/types over fx-core's non-test packages under x, app, ante, types). *)
From Coq Require Import String ZArith List.
Import ListNotations.

Inductive site_kind :=
| K_maprange   (* range over a map-typed expression                                  *)
| K_mapkeys    (* maps.Keys / maps.Values / reflect MapKeys, MapRange                *)
| K_float      (* arithmetic, comparison, compound assignment or conversion on floats *)
| K_floatfmt   (* strconv.FormatFloat / fmt with a float argument                    *)
| K_timenow    (* time.Now / Since / Until                                           *)
| K_rand       (* math/rand                                                          *)
| K_goroutine  (* go statement                                                       *)
| K_select     (* select statement                                                   *)
| K_stack      (* import of runtime/debug; debug.Stack / PrintStack, runtime.Stack / Caller / Callers / FuncForPC *)
| K_ptrfmt     (* fmt with %p, or of a chan / func / unsafe.Pointer / pointer-to-non-struct argument     *)
| K_state.     (* process-level mutable state under x/: package variables / keeper-struct fields of
                  map, slice, chan or pointer type (detail: the sorted name:type list)               *)

Record site_row := mk_site {
  s_file : string;
  s_func : string;     (* enclosing function, Recv.Name for methods *)
  s_kind : site_kind;
  s_count : Z;         (* occurrences of this kind in this function *)
  s_detail : string    (* floatfmt: the format string literal; float: "inmaprange" once per occurrence that lies
                          inside the body of a range over a map; "" otherwise *)
}.
