(* M_OracleReg.v — executable model of the oracle registry of one crosschain module:
   /repo/x/crosschain/keeper/msg_server.go  BondedOracle, AddDelegate, ReDelegate, EditBridger,
                                            WithdrawReward, UnbondedOracle, UpdateParams,
                                            UpdateChainOracles, (OracleSet|Batch|BridgeCall)Confirm
   /repo/x/crosschain/keeper/oracle.go      SlashOracle, SetLastTotalPower, the two reverse indexes
   /repo/x/crosschain/keeper/proposal.go    UpdateProposalOracles, UnbondedOracleFromProposal
   /repo/x/crosschain/keeper/delegate.go    GetOracleDelegateToken
   /repo/x/crosschain/keeper/abci.go        EndBlocker: slashing (three loops), createOracleSetRequest
   /repo/x/crosschain/keeper/confirm.go     ValidateConfirmSign and the three confirm handlers
   /repo/x/crosschain/types/types.go        GetSlashAmount, GetPower
   Transcribed statement by statement, defects included; no proofs here.

   Abstractions
   * an account address (oracle, bridger) is an integer id, an external address another id space,
     a validator operator a third one.  The delegate address of oracle [a] (keccak(oracle ++ module)[12:])
     is represented by [a] itself: [bal_d a], [deleg a v], [ubds] with [u_orc = a] are the balance,
     delegations and unbonding entries of that keyless account.
   * one denomination (the staking coin); sdkmath.Int = Z.  LegacyDec = Z scaled by 10^18.
   * staking is what the keeper uses of it: validators with Tokens and DelegatorShares, Delegate /
     Undelegate / BeginRedelegate with the shares <-> tokens conversions of types/validator.go
     (LegacyDec rounding transcribed), Keeper.Slash of a validator at the current height, unbonding and
     redelegation entries with completion time, maturation in the staking end blocker.  Distribution: the reward paid out by the
     delegation hooks / WithdrawDelegatorReward is an input [rw] of the operation (observed on the
     real chain by the harness); the model decides only WHERE it goes.
   * a transaction that returns an error leaves no trace (cache branch discarded): [Err].
     A Go panic in the end blocker is [Panic] (the block is not committed).
   * oracle sets are created by the end blocker: GetCurrentOracleSet's members and the request rule
     (no latest set / slash in this block / float power difference >= OracleSetUpdatePowerChangePercent) are
     computed, the float part by model.M_OsetPhase.need_request (bit-exact, property C07); pruneOracleSet is
     modelled; an observed OracleSetUpdatedClaim is the op [ObserveSet].  Batches come from the real
     SendToExternal / RequestBatch path and leave by an observed SendToExternalClaim ([AddBatch]/[ExecBatch]);
     outgoing bridge calls are created / removed by ops [AddCall]/[DelCall] (their real construction and
     resolution belong to other properties). *)
From Coq Require Import ZArith List Bool.
From FxV Require Import gen.Gen_OracleSlash.
From FxV Require model.M_EndBlock model.M_OsetPhase.
Import ListNotations.
Open Scope Z_scope.

Definition dec_one : Z := 10 ^ 18.
Definition power_reduction : Z := 10 ^ 20.      (* sdk.DefaultPowerReduction, /repo/types/constant.go *)
Definition max_oracle_size : Z := 100.          (* types.MaxOracleSize *)
Definition change_power_pct : Z := 30.          (* AttestationProposalOracleChangePowerThreshold *)
Definition max_entries : Z := 7.                (* staking MaxEntries (default, unchanged by fx-core) *)

Record oracle := mkOracle {
  o_addr : Z; o_bridger : Z; o_ext : Z; o_amount : Z; o_start : Z;
  o_online : bool; o_val : Z; o_slash : Z }.

Record params := mkParams { p_threshold : Z; p_multiple : Z; p_fraction : Z; p_window : Z }.

Record ubd := mkUbd { u_orc : Z; u_val : Z; u_time : Z; u_amt : Z; u_h : Z; u_init : Z }.   (* + creation height, initial balance *)
Record red := mkRed { r_orc : Z; r_dst : Z; r_time : Z; r_src : Z; r_h : Z; r_init : Z; r_shr : Z }.   (* + source, creation height, initial balance, shares created at the destination *)

(* an object oracles must sign: oracle set (nonce, creation height), batch (id, block), outgoing
   bridge call (nonce, block height).  Confirms are stored under (object, oracle address) and
   carry the bridger and the external address of the message. *)
Record obj := mkObj { ob_nonce : Z; ob_height : Z; ob_conf : list (Z * Z * Z) }.   (* confirm: oracle address, bridger at confirm time, external address *)

Inductive kind := KSet | KBatch | KCall.

(* the staking validators the oracles delegate to: operator ids, Tokens, DelegatorShares (LegacyDec scaled 10^18) *)
(* v_stat: 0 bonded, 1 unbonding (until v_until), 2 unbonded *)
Record vset := mkV { v_ids : list Z; v_tok : Z -> Z; v_shr : Z -> Z; v_stat : Z -> Z; v_until : Z -> Z }.

Record state := mkState {
  height : Z;                      (* ctx.BlockHeight() of the open block *)
  now : Z;                         (* ctx.BlockTime() of the open block, seconds *)
  ubtime : Z;                      (* staking UnbondingTime *)
  vals : vset;                     (* bonded validators with their tokens / delegator shares *)
  prm : params;
  proposal : list Z;               (* ProposalOracle.Oracles, key 0x38 *)
  keys : list Z;                   (* oracle addresses with a record, iteration domain of 0x12 *)
  recs : Z -> option oracle;       (* 0x12 *)
  by_bridger : Z -> option Z;      (* 0x14 *)
  by_ext : Z -> option Z;          (* 0x13 *)
  total_power : Z;                 (* 0x39 *)
  deleg : Z -> Z -> Z;             (* SHARES (LegacyDec scaled 10^18) of the delegate address of oracle at validator; 0 = no delegation *)
  ubds : list ubd;
  reds : list red;
  bal_o : Z -> Z;                  (* bank balance of the oracle account *)
  bal_d : Z -> Z;                  (* bank balance of the delegate address *)
  sets : list obj;                 (* 0x15, ascending nonce *)
  latest_set : Z;                  (* 0x29 *)
  slashed_set : Z;                 (* 0x28 *)
  last_slash_height : Z;           (* 0x37 *)
  batches : list obj;              (* 0x21 index: one per block, ascending block *)
  slashed_batch_block : Z;         (* 0x30 *)
  calls : list obj;                (* 0x48, ascending nonce *)
  slashed_call : Z;                (* 0x46 *)
  next_call : Z;
  (* history variables (never read by the transitions) *)
  burned : Z;                      (* total penalties burned *)
  gov_und : Z -> Z;                (* per oracle: tokens undelegated by governance removal since the record was created *)
  set_mem : Z -> list (Z * Z);     (* members (external id, normalised power) of the stored oracle set with this nonce *)
  last_obs : option Z              (* nonce of LastObservedOracleSet (0x33); None = nil *)
}.

Inductive res := Ok (s : state) | Err (code : Z) | Panic.

(* error codes: only the class (Ok / Err / Panic) is compared with the implementation *)
Definition e_notfound := 1.   (* ErrNoFoundOracle *)
Definition e_invalid := 2.    (* ErrInvalid *)
Definition e_below := 3.      (* ErrDelegateAmountBelowMinimum *)
Definition e_above := 4.      (* ErrDelegateAmountAboveMaximum *)
Definition e_offline := 5.    (* ErrOracleNotOnLine *)
Definition e_bank := 6.       (* insufficient funds *)
Definition e_staking := 7.    (* error returned by the staking / distribution module *)
Definition e_basic := 8.      (* message ValidateBasic *)

Definition upd {A} (f : Z -> A) (k : Z) (v : A) : Z -> A := fun x => if x =? k then v else f x.
Definition upd2 (f : Z -> Z -> Z) (a b : Z) (v : Z) : Z -> Z -> Z :=
  fun x y => if (x =? a) && (y =? b) then v else f x y.
Definition memZ (x : Z) (l : list Z) : bool := existsb (Z.eqb x) l.
Definition remZ (x : Z) (l : list Z) : list Z := filter (fun y => negb (y =? x)) l.
Fixpoint nodupb (l : list Z) : bool :=
  match l with [] => true | x :: r => negb (memZ x r) && nodupb r end.
Definition sumZ (l : list Z) : Z := fold_right Z.add 0 l.

(* types.Oracle.GetPower / GetSlashAmount *)
Definition power (r : oracle) : Z := Z.quot (o_amount r) power_reduction.
Definition slash_amount (r : oracle) (fraction : Z) : Z :=
  Z.max (Z.min (Z.quot (o_amount r * fraction * o_slash r) dec_one) (o_amount r)) 0.

Definition all_recs (s : state) : list oracle :=
  flat_map (fun a => match recs s a with Some r => [r] | None => [] end) (keys s).
Definition online_recs (s : state) : list oracle := filter o_online (all_recs s).

(* SetLastTotalPower *)
Definition compute_power (s : state) : Z := sumZ (map power (online_recs s)).

Definition set_recs (s : state) f := mkState (height s) (now s) (ubtime s) (vals s) (prm s) (proposal s) (keys s) f
  (by_bridger s) (by_ext s) (total_power s) (deleg s) (ubds s) (reds s) (bal_o s) (bal_d s) (sets s) (latest_set s)
  (slashed_set s) (last_slash_height s) (batches s) (slashed_batch_block s) (calls s) (slashed_call s) (next_call s)
  (burned s) (gov_und s) (set_mem s) (last_obs s).
Definition set_power (s : state) p := mkState (height s) (now s) (ubtime s) (vals s) (prm s) (proposal s) (keys s) (recs s)
  (by_bridger s) (by_ext s) p (deleg s) (ubds s) (reds s) (bal_o s) (bal_d s) (sets s) (latest_set s)
  (slashed_set s) (last_slash_height s) (batches s) (slashed_batch_block s) (calls s) (slashed_call s) (next_call s)
  (burned s) (gov_und s) (set_mem s) (last_obs s).
Definition refresh_power (s : state) : state := set_power s (compute_power s).

Definition max_stake (p : params) : Z := p_threshold p * p_multiple p.

Definition count_ubd (a v : Z) (l : list ubd) : Z :=
  Z.of_nat (length (filter (fun u => (u_orc u =? a) && (u_val u =? v)) l)).
Definition has_ubd (a v : Z) (l : list ubd) : bool :=
  existsb (fun u => (u_orc u =? a) && (u_val u =? v)) l.
(* HasReceivingRedelegation(delegator, validator) *)
Definition has_red_into (a v : Z) (l : list red) : bool :=
  existsb (fun r => (r_orc r =? a) && (r_dst r =? v)) l.

(* ---------------- x/staking share arithmetic (types/validator.go, keeper/delegation.go) ----------------
   LegacyDec = Z scaled by 10^18; all operands are non-negative, big.Int Quo = floor. *)
Definition has_val (s : state) (v : Z) : bool := memZ v (v_ids (vals s)).
Definition vtok (s : state) (v : Z) : Z := v_tok (vals s) v.
Definition vshr (s : state) (v : Z) : Z := v_shr (vals s) v.

(* chopPrecisionAndRound: banker's rounding of x / 10^18 *)
Definition round_he (x : Z) : Z :=
  let q := x / dec_one in
  let r := x mod dec_one in
  if r =? 0 then q
  else if 2 * r <? dec_one then q
  else if dec_one <? 2 * r then q + 1
  else if Z.even q then q else q + 1.

(* Validator.TokensFromShares(sh).TruncateInt() : shares.MulInt(tokens).Quo(delegatorShares) *)
Definition tokens_from_shares (tok shr sh : Z) : Z := round_he (sh * tok * dec_one * dec_one / shr) / dec_one.
(* Validator.TokensFromSharesTruncated(sh).TruncateInt() *)
Definition tokens_from_shares_trunc (tok shr sh : Z) : Z := sh * tok * dec_one * dec_one / shr / dec_one / dec_one.
(* Validator.SharesFromTokens(amt) : delegatorShares.MulInt(amt).QuoInt(tokens) *)
Definition shares_from_tokens (tok shr amt : Z) : Z := shr * amt / tok.
(* Validator.SharesFromTokensTruncated(amt) : delegatorShares.MulInt(amt).QuoTruncate(Dec(tokens)) *)
Definition shares_from_tokens_trunc (tok shr amt : Z) : Z := shr * amt * dec_one * dec_one / (tok * dec_one) / dec_one.

Definition set_val (V : vset) (v tok shr : Z) : vset := mkV (v_ids V) (upd (v_tok V) v tok) (upd (v_shr V) v shr) (v_stat V) (v_until V).
Definition set_stat (V : vset) (v st untl : Z) : vset := mkV (v_ids V) (v_tok V) (v_shr V) (upd (v_stat V) v st) (upd (v_until V) v untl).

(* keeper.Delegate (validator bonded): AddTokensFromDel, delegation shares grow by the issued shares *)
Definition stk_delegate (V : vset) (dl : Z -> Z -> Z) (a v amt : Z) : option (vset * (Z -> Z -> Z)) :=
  let tok := v_tok V v in
  let shr := v_shr V v in
  if negb (memZ v (v_ids V)) then None                            (* ErrNoValidatorFound *)
  else if (tok =? 0) && (0 <? shr) then None                      (* ErrDelegatorShareExRateInvalid *)
  else
    let issued := if shr =? 0 then amt * dec_one else shares_from_tokens tok shr amt in
    Some (set_val V v (tok + amt) (shr + issued), upd2 dl a v (dl a v + issued)).

(* delegate.go GetOracleDelegateToken *)
Definition delegate_token (V : vset) (dl : Z -> Z -> Z) (a v : Z) : option Z :=
  let tok := v_tok V v in
  let shr := v_shr V v in
  let dsh := dl a v in
  if dsh =? 0 then None                                           (* GetDelegation: no delegation *)
  else if negb (memZ v (v_ids V)) then None                       (* GetValidator *)
  else
    let t0 := tokens_from_shares_trunc tok shr dsh in
    if tok =? 0 then None                                         (* SharesFromTokensTruncated: ErrInsufficientShares *)
    else
      let sht := shares_from_tokens_trunc tok shr t0 in
      Some (if dsh <? sht then tokens_from_shares_trunc tok shr sht else t0).

(* ValidateUnbondAmount + keeper.Unbond for amount amt: new validator set, new delegations, tokens returned *)
Definition stk_unbond (V : vset) (dl : Z -> Z -> Z) (a v amt : Z) : option (vset * (Z -> Z -> Z) * Z) :=
  let tok := v_tok V v in
  let shr := v_shr V v in
  let dsh := dl a v in
  if amt <=? 0 then None                                          (* msg server: amount must be positive *)
  else if negb (memZ v (v_ids V)) then None
  else if dsh =? 0 then None
  else if tok =? 0 then None                                      (* SharesFromTokens: ErrInsufficientShares *)
  else
    let sh := shares_from_tokens tok shr amt in
    let sht := shares_from_tokens_trunc tok shr amt in
    if dsh <? sht then None                                       (* "invalid shares amount" *)
    else
      let sh' := if dsh <? sh then dsh else sh in
      let remaining := shr - sh' in
      let issued := if remaining =? 0 then tok else tokens_from_shares tok shr sh' in
      Some (set_val V v (tok - issued) remaining, upd2 dl a v (dsh - sh'), issued).

Definition set_vals_deleg (s : state) (V : vset) (dl : Z -> Z -> Z) : state :=
  mkState (height s) (now s) (ubtime s) V (prm s) (proposal s) (keys s) (recs s) (by_bridger s) (by_ext s)
    (total_power s) dl (ubds s) (reds s) (bal_o s) (bal_d s) (sets s) (latest_set s) (slashed_set s)
    (last_slash_height s) (batches s) (slashed_batch_block s) (calls s) (slashed_call s) (next_call s)
    (burned s) (gov_und s) (set_mem s) (last_obs s).

(* ---------------- BondedOracle ---------------- *)
Definition bond (s : state) (a b e v amt : Z) : res :=
  if negb (memZ a (proposal s)) then Err e_notfound
  else if match recs s a with Some _ => true | None => false end then Err e_invalid
  else if match by_bridger s b with Some _ => true | None => false end then Err e_invalid
  else if match by_ext s e with Some _ => true | None => false end then Err e_invalid
  else if amt <? p_threshold (prm s) then Err e_below
  else if max_stake (prm s) <? amt then Err e_above
  else if bal_o s a <? amt then Err e_bank                       (* bank SendCoins oracle -> delegate address *)
  else match stk_delegate (vals s) (deleg s) a v amt with         (* staking Delegate *)
  | None => Err e_staking
  | Some (V', dl') =>
    let r := mkOracle a b e amt (height s) true v 0 in
    let s1 := mkState (height s) (now s) (ubtime s) V' (prm s) (proposal s)
                (if memZ a (keys s) then keys s else keys s ++ [a])
                (upd (recs s) a (Some r)) (upd (by_bridger s) b (Some a)) (upd (by_ext s) e (Some a))
                (total_power s) dl' (ubds s) (reds s)
                (upd (bal_o s) a (bal_o s a - amt)) (bal_d s)
                (sets s) (latest_set s) (slashed_set s) (last_slash_height s) (batches s)
                (slashed_batch_block s) (calls s) (slashed_call s) (next_call s) (burned s)
                (upd (gov_und s) a 0) (set_mem s) (last_obs s) in
    Ok (refresh_power s1)
  end.

(* ---------------- AddDelegate ---------------- *)
Definition add_delegate (s : state) (a amt rw : Z) : res :=
  if amt <=? 0 then Err e_basic                                   (* MsgAddDelegate.ValidateBasic *)
  else if negb (memZ a (proposal s)) then Err e_notfound
  else match recs s a with
  | None => Err e_notfound
  | Some r =>
    let sl := slash_amount r (p_fraction (prm s)) in
    if (0 <? sl) && (amt <? sl) then Err e_invalid
    else
      let dc := amt - sl in
      let amount' := o_amount r + dc in
      if amount' - p_threshold (prm s) <? 0 then Err e_below
      else if max_stake (prm s) <? amount' then Err e_above
      else if (0 <? sl) && (bal_o s a <? sl) then Err e_bank      (* SendCoinsFromAccountToModule + Burn *)
      else if (0 <? dc) && (bal_o s a - sl <? dc) then Err e_bank (* SendCoins oracle -> delegate address *)
      else match (if 0 <? dc then stk_delegate (vals s) (deleg s) a (o_val r) dc else Some (vals s, deleg s)) with
      | None => Err e_staking
      | Some (V', dl') =>
        let had := negb (deleg s a (o_val r) =? 0) in
        let paid := if (0 <? dc) && had then rw else 0 in        (* staking hook withdraws pending rewards *)
        let r' := mkOracle (o_addr r) (o_bridger r) (o_ext r) amount'
                    (if o_online r then o_start r else height s) true (o_val r) 0 in
        let s1 := mkState (height s) (now s) (ubtime s) V' (prm s) (proposal s) (keys s)
                    (upd (recs s) a (Some r')) (by_bridger s) (by_ext s) (total_power s)
                    dl'
                    (ubds s) (reds s)
                    (upd (bal_o s) a (bal_o s a - sl - (if 0 <? dc then dc else 0)))
                    (upd (bal_d s) a (bal_d s a + paid))
                    (sets s) (latest_set s) (slashed_set s) (last_slash_height s) (batches s)
                    (slashed_batch_block s) (calls s) (slashed_call s) (next_call s)
                    (burned s + (if 0 <? sl then sl else 0)) (gov_und s) (set_mem s) (last_obs s) in
        Ok (refresh_power s1)
      end
  end.

(* ---------------- ReDelegate ---------------- *)
Definition re_delegate (s : state) (a v rw : Z) : res :=
  match recs s a with
  | None => Err e_notfound
  | Some r =>
    if negb (o_online r) then Err e_offline
    else if o_val r =? v then Err e_invalid
    else
      match delegate_token (vals s) (deleg s) a (o_val r) with   (* GetOracleDelegateToken *)
      | None => Err e_staking
      | Some tok =>
        if negb (has_val s v) then Err e_staking                   (* ErrBadRedelegationDst *)
        else if has_red_into a (o_val r) (reds s) then Err e_staking (* ErrTransitiveRedelegation *)
        else match stk_unbond (vals s) (deleg s) a (o_val r) tok with (* ValidateUnbondAmount, Unbond from the source *)
        | None => Err e_staking
        | Some (V1, dl1, back) =>
          if back =? 0 then Err e_staking                          (* ErrTinyRedelegationAmount *)
          else match stk_delegate V1 dl1 a v back with             (* Delegate to the destination *)
          | None => Err e_staking
          | Some (V2, dl2) =>
            let r' := mkOracle (o_addr r) (o_bridger r) (o_ext r) (o_amount r) (o_start r) (o_online r) v (o_slash r) in
            Ok (mkState (height s) (now s) (ubtime s) V2 (prm s) (proposal s) (keys s)
                  (upd (recs s) a (Some r')) (by_bridger s) (by_ext s) (total_power s)
                  dl2
                  (ubds s)
                  (* getBeginInfo: no entry when the source validator is unbonded, its own completion time while it is unbonding *)
                  (let st := v_stat (vals s) (o_val r) in
                   if st =? 2 then reds s
                   else reds s ++ [mkRed a v (if st =? 1 then v_until (vals s) (o_val r) else now s + ubtime s)
                                         (o_val r) (height s) back (dl2 a v - dl1 a v)])
                  (bal_o s) (upd (bal_d s) a (bal_d s a + rw))
                  (sets s) (latest_set s) (slashed_set s) (last_slash_height s) (batches s)
                  (slashed_batch_block s) (calls s) (slashed_call s) (next_call s) (burned s) (gov_und s) (set_mem s) (last_obs s))
          end
        end
      end
  end.

(* ---------------- EditBridger ---------------- *)
Definition edit_bridger (s : state) (a b : Z) : res :=
  match recs s a with
  | None => Err e_notfound
  | Some r =>
    if negb (o_online r) then Err e_offline
    else if o_bridger r =? b then Err e_invalid
    else if match by_bridger s b with Some _ => true | None => false end then Err e_invalid
    else
      let r' := mkOracle (o_addr r) b (o_ext r) (o_amount r) (o_start r) (o_online r) (o_val r) (o_slash r) in
      Ok (mkState (height s) (now s) (ubtime s) (vals s) (prm s) (proposal s) (keys s)
            (upd (recs s) a (Some r'))
            (upd (upd (by_bridger s) (o_bridger r) None) b (Some a))
            (by_ext s) (total_power s) (deleg s) (ubds s) (reds s) (bal_o s) (bal_d s)
            (sets s) (latest_set s) (slashed_set s) (last_slash_height s) (batches s)
            (slashed_batch_block s) (calls s) (slashed_call s) (next_call s) (burned s) (gov_und s) (set_mem s) (last_obs s))
  end.

(* ---------------- WithdrawReward ---------------- *)
Definition withdraw_reward (s : state) (a rw : Z) : res :=
  match recs s a with
  | None => Err e_notfound
  | Some r =>
    if negb (o_online r) then Err e_offline
    else if deleg s a (o_val r) =? 0 then Err e_staking           (* distribution: no delegation *)
    else
      let bal := bal_d s a + rw in
      if bal <=? 0 then Err e_invalid                             (* "rewards is empty" *)
      else
        Ok (mkState (height s) (now s) (ubtime s) (vals s) (prm s) (proposal s) (keys s)
              (recs s) (by_bridger s) (by_ext s) (total_power s) (deleg s) (ubds s) (reds s)
              (upd (bal_o s) a (bal_o s a + bal)) (upd (bal_d s) a 0)
              (sets s) (latest_set s) (slashed_set s) (last_slash_height s) (batches s)
              (slashed_batch_block s) (calls s) (slashed_call s) (next_call s) (burned s) (gov_und s) (set_mem s) (last_obs s))
  end.

(* ---------------- UnbondedOracle ---------------- *)
(* Two points of this handler are re-read from msg_server.go on every run (gen/Gen_OracleSlash.v) and are explicit
   parameters of the transcription, so that each variant can also be spoken about on its own:
   [ne]  (unbond_needs_entry)     true  = `if _, err = GetUnbondingDelegation(...); err != nil { return nil, err }`:
                                          refused UNLESS an unbonding entry of (delegate address, validator) still exists
                                          (the tree before the C13-1 fix);
                                  false = refused WHILE one exists;
   [cap] (unbond_penalty_capped)  false = `if balance < penalty { return "not sufficient slash amount" }`;
                                  true  = `if balance < penalty { penalty = balance }` (the C13-3 patch). *)
Definition charged (cap : bool) (sl0 bal : Z) : Z :=
  let sl := if cap then Z.min sl0 bal else sl0 in
  if 0 <? sl then sl else 0.

Definition unbond_gen (ne cap : bool) (s : state) (a : Z) : res :=
  if memZ a (proposal s) then Err e_invalid
  else match recs s a with
  | None => Err e_notfound
  | Some r =>
    if o_online r then Err e_invalid
    else if negb (Bool.eqb (has_ubd a (o_val r) (ubds s)) ne) then Err e_staking
    else
      let bal := bal_d s a in
      let sl0 := slash_amount r (p_fraction (prm s)) in
      if negb cap && (0 <? sl0) && (bal <? sl0) then Err e_invalid
      else
        let ch := charged cap sl0 bal in
        Ok (mkState (height s) (now s) (ubtime s) (vals s) (prm s) (proposal s) (remZ a (keys s))
              (upd (recs s) a None) (upd (by_bridger s) (o_bridger r) None) (upd (by_ext s) (o_ext r) None)
              (total_power s) (deleg s) (ubds s) (reds s)
              (upd (bal_o s) a (bal_o s a + (bal - ch))) (upd (bal_d s) a 0)
              (sets s) (latest_set s) (slashed_set s) (last_slash_height s) (batches s)
              (slashed_batch_block s) (calls s) (slashed_call s) (next_call s)
              (burned s + ch) (gov_und s) (set_mem s) (last_obs s))
  end.

(* the handler of the checked tree *)
Definition unbond (s : state) (a : Z) : res := unbond_gen unbond_needs_entry unbond_penalty_capped s a.

(* ---------------- UpdateChainOracles / UpdateProposalOracles ---------------- *)
Definition lookup_rw (a : Z) (rws : list (Z * Z)) : Z :=
  match find (fun p => fst p =? a) rws with Some p => snd p | None => 0 end.

(* UnbondedOracleFromProposal on the snapshot record r *)
Definition gov_unbond1 (rws : list (Z * Z)) (acc : option state) (r : oracle) : option state :=
  match acc with
  | None => None
  | Some s =>
    let a := o_addr r in
    match delegate_token (vals s) (deleg s) a (o_val r) with      (* GetOracleDelegateToken *)
    | None => None
    | Some tok =>
      if max_entries <=? count_ubd a (o_val r) (ubds s) then None (* ErrMaxUnbondingDelegationEntries *)
      else match stk_unbond (vals s) (deleg s) a (o_val r) tok with (* staking Undelegate *)
      | None => None
      | Some (V', dl', back) =>
        let r' := mkOracle (o_addr r) (o_bridger r) (o_ext r) (o_amount r) (o_start r) false (o_val r) (o_slash r) in
        Some (mkState (height s) (now s) (ubtime s) V' (prm s) (proposal s) (keys s)
                (upd (recs s) a (Some r')) (by_bridger s) (by_ext s) (total_power s)
                dl'
                (ubds s ++ [mkUbd a (o_val r) (now s + ubtime s) back (height s) back]) (reds s)
                (bal_o s) (upd (bal_d s) a (bal_d s a + lookup_rw a rws))
                (sets s) (latest_set s) (slashed_set s) (last_slash_height s) (batches s)
                (slashed_batch_block s) (calls s) (slashed_call s) (next_call s) (burned s)
                (upd (gov_und s) a (gov_und s a + back)) (set_mem s) (last_obs s))
      end
    end
  end.

Definition gov_set (s : state) (l : list Z) (rws : list (Z * Z)) : res :=
  if match l with [] => true | _ => false end then Err e_basic    (* MsgUpdateChainOracles.ValidateBasic *)
  else if negb (nodupb l) then Err e_basic
  else if max_oracle_size <? Z.of_nat (length l) then Err e_invalid
  else
    let total := sumZ (map power (online_recs s)) in
    let gone := filter (fun r => negb (memZ (o_addr r) l) && memZ (o_addr r) (proposal s)) (all_recs s) in
    let del_power := sumZ (map power (filter o_online gone)) in
    let max_change := Z.quot (change_power_pct * total) 100 in
    if (0 <? del_power) && (max_change <=? del_power) then Err e_invalid
    else
      let s1 := mkState (height s) (now s) (ubtime s) (vals s) (prm s) l (keys s)
                  (recs s) (by_bridger s) (by_ext s) (total_power s) (deleg s) (ubds s) (reds s)
                  (bal_o s) (bal_d s) (sets s) (latest_set s) (slashed_set s) (last_slash_height s)
                  (batches s) (slashed_batch_block s) (calls s) (slashed_call s) (next_call s)
                  (burned s) (gov_und s) (set_mem s) (last_obs s) in
      match fold_left (gov_unbond1 rws) gone (Some s1) with
      | Some s2 => Ok s2
      | None => Err e_staking
      end.

(* ---------------- UpdateParams (the four values the registry reads) ---------------- *)
Definition set_params (s : state) (p : params) : res :=
  if p_window p <=? 1 then Err e_basic
  else if p_fraction p <? 0 then Err e_basic
  else if dec_one <? p_fraction p then Err e_basic
  else if p_threshold p <=? 0 then Err e_basic
  else if p_multiple p <=? 0 then Err e_basic
  else Ok (mkState (height s) (now s) (ubtime s) (vals s) p (proposal s) (keys s)
             (recs s) (by_bridger s) (by_ext s) (total_power s) (deleg s) (ubds s) (reds s)
             (bal_o s) (bal_d s) (sets s) (latest_set s) (slashed_set s) (last_slash_height s)
             (batches s) (slashed_batch_block s) (calls s) (slashed_call s) (next_call s)
             (burned s) (gov_und s) (set_mem s) (last_obs s)).

(* ---------------- confirms ---------------- *)
Definition find_obj (n : Z) (l : list obj) : option obj := find (fun x => ob_nonce x =? n) l.
Definition has_conf_addr (a : Z) (x : obj) : bool := existsb (fun c => fst (fst c) =? a) (ob_conf x).
Definition has_conf_ext (e : Z) (x : obj) : bool := existsb (fun c => snd c =? e) (ob_conf x).
Definition add_conf (n a b e : Z) (l : list obj) : list obj :=
  map (fun x => if ob_nonce x =? n then mkObj (ob_nonce x) (ob_height x) (ob_conf x ++ [(a, b, e)]) else x) l.

Definition objs_of (s : state) (k : kind) : list obj :=
  match k with KSet => sets s | KBatch => batches s | KCall => calls s end.

Definition set_objs (s : state) (k : kind) (l : list obj) : state :=
  mkState (height s) (now s) (ubtime s) (vals s) (prm s) (proposal s) (keys s)
    (recs s) (by_bridger s) (by_ext s) (total_power s) (deleg s) (ubds s) (reds s)
    (bal_o s) (bal_d s)
    (match k with KSet => l | _ => sets s end) (latest_set s) (slashed_set s) (last_slash_height s)
    (match k with KBatch => l | _ => batches s end) (slashed_batch_block s)
    (match k with KCall => l | _ => calls s end) (slashed_call s) (next_call s) (burned s) (gov_und s) (set_mem s) (last_obs s).

(* ConfirmHandler -> ValidateConfirmSign; [sig_ok] = the signature recovers to the external address *)
Definition confirm (s : state) (k : kind) (n b e : Z) (sig_ok : bool) : res :=
  match find_obj n (objs_of s k) with
  | None => Err e_invalid
  | Some x =>
    match by_ext s e with
    | None => Err e_notfound
    | Some a =>
      match recs s a with
      | None => Err e_notfound
      | Some r =>
        if negb (o_ext r =? e) then Err e_invalid
        else if negb (o_bridger r =? b) then Err e_invalid
        else if negb sig_ok then Err e_invalid
        else if has_conf_addr a x then Err e_invalid
        else Ok (set_objs s k (add_conf n a b e (objs_of s k)))
      end
    end
  end.

(* StoreBatch: "Only one OutgoingTxBatch can be submitted in a block" *)
Definition add_batch (s : state) (id : Z) : res :=
  if existsb (fun x => ob_height x =? height s) (batches s) then Err e_invalid
  else if existsb (fun x => ob_nonce x =? id) (batches s) then Err e_invalid
  else Ok (set_objs s KBatch (batches s ++ [mkObj id (height s) []])).
Definition del_batch (s : state) (id : Z) : res :=
  Ok (set_objs s KBatch (filter (fun x => negb (ob_nonce x =? id)) (batches s))).

Definition add_call (s : state) : res :=
  Ok (mkState (height s) (now s) (ubtime s) (vals s) (prm s) (proposal s) (keys s)
        (recs s) (by_bridger s) (by_ext s) (total_power s) (deleg s) (ubds s) (reds s)
        (bal_o s) (bal_d s) (sets s) (latest_set s) (slashed_set s) (last_slash_height s)
        (batches s) (slashed_batch_block s)
        (calls s ++ [mkObj (next_call s) (height s) []]) (slashed_call s) (next_call s + 1)
        (burned s) (gov_und s) (set_mem s) (last_obs s)).

Definition del_call (s : state) (n : Z) : res :=
  Ok (set_objs s KCall (filter (fun x => negb (ob_nonce x =? n)) (calls s))).

(* UpdateOracleSetExecuted (an observed OracleSetUpdatedClaim for set n with the stored members) *)
Definition observe_set (s : state) (n : Z) : res :=
  if negb (n =? 0) && negb (existsb (fun x => ob_nonce x =? n) (sets s)) then Err e_invalid
  else Ok (mkState (height s) (now s) (ubtime s) (vals s) (prm s) (proposal s) (keys s)
             (recs s) (by_bridger s) (by_ext s) (total_power s) (deleg s) (ubds s) (reds s)
             (bal_o s) (bal_d s) (sets s) (latest_set s) (slashed_set s) (last_slash_height s)
             (batches s) (slashed_batch_block s) (calls s) (slashed_call s) (next_call s)
             (burned s) (gov_und s) (set_mem s) (Some n)).

(* OutgoingTxBatchExecuted (an observed SendToExternalClaim for batch id): older batches of the token are
   cancelled, the executed one is deleted together with its confirms; younger batches stay as they are *)
Definition exec_batch (s : state) (id : Z) : res :=
  if negb (existsb (fun x => ob_nonce x =? id) (batches s)) then Err e_invalid
  else Ok (set_objs s KBatch (filter (fun x => id <? ob_nonce x) (batches s))).

(* ExportGenesis -> empty module store -> InitGenesis (keeper/genesis.go).  Exported: params, the oracle
   records ([export_all_oracles]: every record / only the online ones, re-read from ExportGenesis on every run),
   proposal list, oracle sets and batches with their confirms, the two slash cursors 0x28 / 0x30.  Import writes
   each record and rebuilds both indexes from it, recomputes LastTotalPower, keeps a confirm only if some imported
   oracle has the confirm's external address (GetOracleAddrByExternalAddr; it is filed under that oracle), sets the
   latest set nonce to the largest one.  Not exported: outgoing bridge calls, their confirms and cursor, LastOracleSlashBlockHeight. *)
Definition exported (s : state) : list oracle := if export_all_oracles then all_recs s else online_recs s.

Definition import_conf (ex : list oracle) (x : obj) : obj :=
  mkObj (ob_nonce x) (ob_height x)
    (flat_map (fun c => match find (fun r => o_ext r =? snd c) ex with
                        | Some r => [(o_addr r, snd (fst c), snd c)]
                        | None => []
                        end) (ob_conf x)).

Definition export_import (s : state) : res :=
  let ex := exported s in
  let s1 := mkState (height s) (now s) (ubtime s) (vals s) (prm s) (proposal s)
              (map o_addr ex)
              (fold_left (fun f r => upd f (o_addr r) (Some r)) ex (fun _ => None))
              (fold_left (fun f r => upd f (o_bridger r) (Some (o_addr r))) ex (fun _ => None))
              (fold_left (fun f r => upd f (o_ext r) (Some (o_addr r))) ex (fun _ => None))
              (total_power s) (deleg s) (ubds s) (reds s) (bal_o s) (bal_d s)
              (map (import_conf ex) (sets s))
              (fold_left (fun m x => Z.max m (ob_nonce x)) (sets s) 0)
              (slashed_set s) 0
              (map (import_conf ex) (batches s)) (slashed_batch_block s)
              [] 0 (next_call s) (burned s) (gov_und s) (set_mem s) (last_obs s) in
  Ok (refresh_power s1).

(* staking Keeper.Slash at the current height (no unbonding entries / redelegations are touched): the validator
   loses min(amount, Tokens) tokens, its shares stay; amount = trunc(power * 10^20 * fraction) *)
Definition slash_val (s : state) (v amount : Z) : res :=
  if negb (has_val s v) then Ok s
  else
    let burn := Z.max 0 (Z.min amount (vtok s v)) in
    Ok (set_vals_deleg s (set_val (vals s) v (vtok s v - burn) (vshr s v)) (deleg s)).

(* environment: other delegators of validator v (other modules' oracles, ordinary delegators) changed its tokens
   and shares; observed values *)
Definition env_val (s : state) (v tok shr : Z) : res :=
  Ok (set_vals_deleg s (set_val (vals s) v tok shr) (deleg s)).

(* staking Keeper.Slash of validator v for an infraction at an EARLIER height hinf (evidence / downtime handling).
   Besides the validator's tokens it cuts (slash.go SlashUnbondingDelegation, SlashRedelegation):
   1. every not yet matured unbonding entry at v created at or after hinf, by min(fraction * initial balance, balance);
   2. for every not yet matured redelegation away from v created at or after hinf: first the delegator's unbonding
      entries at the destination, then fraction * (shares created at the destination) of its delegation there
      (Unbond: the delegation hook pays the pending rewards).
   What all delegators together lose on the validators is taken as observed ([vs]: id, tokens, shares afterwards);
   the effects on this module's oracles are computed. *)
Definition cut_amount (frac init : Z) : Z := frac * init / dec_one.

Fixpoint cut_entries (hinf t a dst : Z) (sa : Z) (l : list ubd) : Z * list ubd :=
  match l with
  | [] => (sa, [])
  | u :: rest =>
    if (u_orc u =? a) && (u_val u =? dst) then
      let x := Z.min sa (u_amt u) in
      if (x =? 0) || (u_h u <? hinf) || (u_time u <=? t) then
        let (sa', rest') := cut_entries hinf t a dst sa rest in (sa', u :: rest')
      else
        let (sa', rest') := cut_entries hinf t a dst (sa - x) rest in
        (sa', mkUbd (u_orc u) (u_val u) (u_time u) (u_amt u - x) (u_h u) (u_init u) :: rest')
    else let (sa', rest') := cut_entries hinf t a dst sa rest in (sa', u :: rest')
  end.

Record pstate := mkP { p_ubds : list ubd; p_deleg : Z -> Z -> Z; p_bald : Z -> Z }.

Definition slash_red (hinf t frac : Z) (rws : list (Z * Z)) (st : pstate) (r : red) : pstate :=
  let (sa, ub) := cut_entries hinf t (r_orc r) (r_dst r) (cut_amount frac (r_init r)) (p_ubds st) in
  let sh := round_he (frac * r_shr r) in
  let dsh := p_deleg st (r_orc r) (r_dst r) in
  if (sh =? 0) || (sa =? 0) || (dsh =? 0) then mkP ub (p_deleg st) (p_bald st)
  else mkP ub (upd2 (p_deleg st) (r_orc r) (r_dst r) (dsh - Z.min sh dsh))
              (upd (p_bald st) (r_orc r) (p_bald st (r_orc r) + lookup_rw (r_orc r) rws)).

Definition set_vals_list (V : vset) (vs : list (Z * Z * Z)) : vset :=
  fold_left (fun V x => set_val V (fst (fst x)) (snd (fst x)) (snd x)) vs V.

Definition slash_past (s : state) (v hinf frac : Z) (vs : list (Z * Z * Z)) (rws : list (Z * Z)) : res :=
  let t := now s in
  let ub1 := map (fun u => if (u_val u =? v) && (hinf <=? u_h u) && negb (u_time u <=? t)
                           then mkUbd (u_orc u) (u_val u) (u_time u) (u_amt u - Z.min (cut_amount frac (u_init u)) (u_amt u)) (u_h u) (u_init u)
                           else u) (ubds s) in
  let rs := filter (fun r => (r_src r =? v) && (hinf <=? r_h r) && negb (r_time r <=? t)) (reds s) in
  let st := fold_left (slash_red hinf t frac rws) rs (mkP ub1 (deleg s) (bal_d s)) in
  Ok (mkState (height s) (now s) (ubtime s) (set_vals_list (vals s) vs) (prm s) (proposal s) (keys s)
        (recs s) (by_bridger s) (by_ext s) (total_power s) (p_deleg st) (p_ubds st) (reds s)
        (bal_o s) (p_bald st) (sets s) (latest_set s) (slashed_set s) (last_slash_height s)
        (batches s) (slashed_batch_block s) (calls s) (slashed_call s) (next_call s)
        (burned s) (gov_und s) (set_mem s) (last_obs s)).

(* environment: validator v changed status (jailed -> unbonding -> unbonded, unjailed -> bonded); observed *)
Definition env_stat (s : state) (v st untl : Z) : res :=
  Ok (set_vals_deleg s (set_stat (vals s) v st untl) (deleg s)).

Definition fund (s : state) (a amt : Z) : res :=
  Ok (mkState (height s) (now s) (ubtime s) (vals s) (prm s) (proposal s) (keys s)
        (recs s) (by_bridger s) (by_ext s) (total_power s) (deleg s) (ubds s) (reds s)
        (upd (bal_o s) a (bal_o s a + amt)) (bal_d s) (sets s) (latest_set s) (slashed_set s)
        (last_slash_height s) (batches s) (slashed_batch_block s) (calls s) (slashed_call s)
        (next_call s) (burned s) (gov_und s) (set_mem s) (last_obs s)).

(* ---------------- end blocker ---------------- *)
(* loop state of keeper.slashing: the record store, LastOracleSlashBlockHeight, hasSlash *)
Record lstate := mkL { l_recs : Z -> option oracle; l_lsh : Z; l_has : bool }.

(* SlashOracle (the caller sets hasSlash = true whether or not the oracle was still online) *)
Definition slash_one (h : Z) (a : Z) (st : lstate) : lstate :=
  match l_recs st a with
  | Some r =>
    if o_online r
    then mkL (upd (l_recs st) a (Some (mkOracle (o_addr r) (o_bridger r) (o_ext r) (o_amount r) (o_start r)
                                          false (o_val r) (o_slash r + 1)))) h true
    else mkL (l_recs st) (l_lsh st) true
  | None => mkL (l_recs st) (l_lsh st) true     (* unreachable: the snapshot comes from the same store *)
  end.

(* inner loop: `if <skip: StartHeight vs object height> { continue }; if no confirm { SlashOracle }`.
   The skip tests, the age tests, the cursor starts and the SlashOracle argument kinds come from
   gen/Gen_OracleSlash.v, regenerated from abci.go / oracle_set.go / batch_confirm.go /
   bridge_call_confirm.go on every run. *)
Definition skip_of (k : kind) : Z -> Z -> bool :=
  match k with KSet => skip_set | KBatch => skip_batch | KCall => skip_call end.
Definition by_address_of (k : kind) : bool :=
  match k with KSet => slash_by_address_set | KBatch => slash_by_address_batch | KCall => slash_by_address_call end.

Definition must_sign (k : kind) (r : oracle) (x : obj) : bool :=
  negb (skip_of k (o_start r) (ob_height x)) && negb (has_conf_ext (o_ext r) x).

Definition slash_obj (k : kind) (h : Z) (snap : list oracle) (st : lstate) (x : obj) : lstate :=
  fold_left (fun st r => if must_sign k r x then slash_one h (o_addr r) st else st) snap st.

Fixpoint take_while {A} (f : A -> bool) (l : list A) : list A :=
  match l with [] => [] | x :: r => if f x then x :: take_while f r else [] end.

(* GetUnSlashedOracleSets: nonces from the cursor, ascending, stop at the first that is not old enough *)
Definition due_sets (s : state) : list obj :=
  take_while (fun x => old_set (ob_height x) (height s - p_window (prm s)))
             (filter (fun x => from_set (slashed_set s) <=? ob_nonce x) (sets s)).
(* GetUnSlashedBatches: block index range *)
Definition due_batches (s : state) : list obj :=
  filter (fun x => (from_batch (slashed_batch_block s) <=? ob_height x) &&
                   old_batch (ob_height x) (height s - p_window (prm s)))
         (batches s).
(* GetUnSlashedBridgeCalls: nonces from the cursor, stop at the first that is not old enough *)
Definition due_calls (s : state) : list obj :=
  take_while (fun x => old_call (ob_height x) (height s - p_window (prm s)))
             (filter (fun x => from_call (slashed_call s) <=? ob_nonce x) (calls s)).

(* what the three loops look at in the block being finalized *)
Definition due_of (s : state) (k : kind) : list obj :=
  if slashing_off (height s) (p_window (prm s)) then []
  else match k with KSet => due_sets s | KBatch => due_batches s | KCall => due_calls s end.

Definition last_or {A} (f : A -> Z) (l : list A) (d : Z) : Z :=
  match rev l with x :: _ => f x | [] => d end.

(* a loop that hands SlashOracle something that is not a bech32 address panics in
   MustAccAddressFromBech32 as soon as it wants to slash *)
Definition would_slash (k : kind) (snap : list oracle) (l : list obj) : bool :=
  existsb (fun x => existsb (fun r => must_sign k r x) snap) l.
Definition loop_panics (s : state) (k : kind) : bool :=
  negb (by_address_of k) && would_slash k (online_recs s) (due_of s k).

Definition matured_sum (t : Z) (l : list ubd) (a : Z) : Z :=
  sumZ (map u_amt (filter (fun u => (u_orc u =? a) && (u_time u <=? t)) l)).

Definition has_power (s : state) : bool := existsb (fun r => 0 <? power r) (online_recs s).

(* staking end blocker: mature unbonding entries (paid to the delegate address) and redelegations *)
Definition staking_end (s : state) (t_end : Z) : state :=
  mkState (height s) (now s) (ubtime s) (vals s) (prm s) (proposal s) (keys s)
    (recs s) (by_bridger s) (by_ext s) (total_power s) (deleg s)
    (filter (fun u => negb (u_time u <=? t_end)) (ubds s))
    (filter (fun r => negb (r_time r <=? t_end)) (reds s))
    (bal_o s) (fun a => bal_d s a + matured_sum t_end (ubds s) a)
    (sets s) (latest_set s) (slashed_set s) (last_slash_height s) (batches s) (slashed_batch_block s)
    (calls s) (slashed_call s) (next_call s) (burned s) (gov_und s) (set_mem s) (last_obs s).

(* keeper.slashing: None = a loop panics *)
Definition slashing (s : state) : option state :=
  let h := height s in
  let snap := online_recs s in
  let st0 := mkL (recs s) (last_slash_height s) false in
  let st3 := fold_left (slash_obj KCall h snap) (due_of s KCall)
               (fold_left (slash_obj KBatch h snap) (due_of s KBatch)
                  (fold_left (slash_obj KSet h snap) (due_of s KSet) st0)) in
  if loop_panics s KSet || loop_panics s KBatch || loop_panics s KCall then None
  else
    let s1 := mkState h (now s) (ubtime s) (vals s) (prm s) (proposal s) (keys s)
                (l_recs st3) (by_bridger s) (by_ext s) (total_power s) (deleg s) (ubds s) (reds s)
                (bal_o s) (bal_d s) (sets s) (latest_set s)
                (last_or ob_nonce (due_of s KSet) (slashed_set s)) (l_lsh st3)
                (batches s) (last_or ob_height (due_of s KBatch) (slashed_batch_block s))
                (calls s) (last_or ob_nonce (due_of s KCall) (slashed_call s)) (next_call s) (burned s) (gov_und s) (set_mem s) (last_obs s) in
    Some (if l_has st3 then refresh_power s1 else s1).

(* createOracleSetRequest.  GetCurrentOracleSet: online oracles with power > 0, power normalised to
   power * MaxUint32 / total.  isNeedOracleSetRequest (no latest set / an oracle was slashed in this block /
   the float power difference rendered with %.8f reaches OracleSetUpdatePowerChangePercent) is
   model.M_OsetPhase.need_request, the bit-exact model built for property C07; None = it panics. *)
Definition max_u32 : Z := 4294967295.
Definition power_change_pct : Z := 10 ^ 17.     (* Params.OracleSetUpdatePowerChangePercent, default 0.1, never changed here *)

Definition current_members (s : state) : list (Z * Z) :=
  let ms := filter (fun r => 0 <? power r) (online_recs s) in
  let total := sumZ (map power ms) in
  map (fun r => (o_ext r, (power r * max_u32) / total)) ms.

Definition need_set (s : state) : option bool :=
  let latest := match find_obj (latest_set s) (sets s) with
                | Some _ => Some (set_mem s (latest_set s))
                | None => None
                end in
  match M_OsetPhase.need_request (current_members s) latest (last_slash_height s =? height s) power_change_pct with
  | M_EndBlock.Ok b => Some b
  | M_EndBlock.Panic => None
  end.

Definition create_set (s : state) : option state :=
  match need_set s with
  | None => None
  | Some need =>
    Some (if need && has_power s
          then refresh_power
                 (mkState (height s) (now s) (ubtime s) (vals s) (prm s) (proposal s) (keys s)
                    (recs s) (by_bridger s) (by_ext s) (total_power s) (deleg s) (ubds s) (reds s)
                    (bal_o s) (bal_d s)
                    (sets s ++ [mkObj (latest_set s + 1) (height s) []]) (latest_set s + 1)
                    (slashed_set s) (last_slash_height s) (batches s) (slashed_batch_block s)
                    (calls s) (slashed_call s) (next_call s) (burned s) (gov_und s)
                    (upd (set_mem s) (latest_set s + 1) (current_members s)) (last_obs s))
          else s)
  end.

(* pruneOracleSet: once an oracle set has been observed on the external chain, older sets that are past the
   signed window are deleted together with their confirms *)
Definition prune_sets (s : state) : state :=
  match last_obs s with
  | None => s
  | Some lo =>
    if height s <? p_window (prm s) then s
    else set_objs s KSet
           (filter (fun x => negb ((ob_height x <? height s - p_window (prm s)) && (ob_nonce x <? lo))) (sets s))
  end.

Definition next_block (s : state) (t_next : Z) : state :=
  mkState (height s + 1) t_next (ubtime s) (vals s) (prm s) (proposal s) (keys s)
    (recs s) (by_bridger s) (by_ext s) (total_power s) (deleg s) (ubds s) (reds s)
    (bal_o s) (bal_d s) (sets s) (latest_set s) (slashed_set s) (last_slash_height s)
    (batches s) (slashed_batch_block s) (calls s) (slashed_call s) (next_call s)
    (burned s) (gov_und s) (set_mem s) (last_obs s).

(* [pd] is what the real chain did (whether it stored a new oracle set in this block); it is recorded with the
   operation but no longer read: the request rule is computed *)
Definition end_block (s : state) (t_end t_next : Z) (pd : bool) : res :=
  match slashing (staking_end s t_end) with
  | None => Panic
  | Some s2 =>
    match create_set s2 with
    | None => Panic
    | Some s3 => Ok (next_block (prune_sets s3) t_next)
    end
  end.

(* ---------------- operations ---------------- *)
Inductive op :=
| Bond (a b e v amt : Z)
| AddDelegate (a amt rw : Z)
| ReDelegate (a v rw : Z)
| EditBridger (a b : Z)
| WithdrawReward (a rw : Z)
| Unbond (a : Z)
| GovSet (l : list Z) (rws : list (Z * Z))
| SetParams (p : params)
| Confirm (k : kind) (n b e : Z) (sig_ok : bool)
| AddBatch (id : Z)
| DelBatch (id : Z)
| AddCall
| DelCall (n : Z)
| Fund (a amt : Z)
| SlashVal (v amount : Z)
| EnvVal (v tok shr : Z)
| SlashValPast (v hinf frac : Z) (vs : list (Z * Z * Z)) (rws : list (Z * Z))
| EnvStat (v st untl : Z)
| ExecBatch (id : Z)
| ExportImport
| ObserveSet (n : Z)
| EndBlock (t_end t_next : Z) (pd : bool).

Definition step (s : state) (o : op) : res :=
  match o with
  | Bond a b e v amt => bond s a b e v amt
  | AddDelegate a amt rw => add_delegate s a amt rw
  | ReDelegate a v rw => re_delegate s a v rw
  | EditBridger a b => edit_bridger s a b
  | WithdrawReward a rw => withdraw_reward s a rw
  | Unbond a => unbond s a
  | GovSet l rws => gov_set s l rws
  | SetParams p => set_params s p
  | Confirm k n b e ok => confirm s k n b e ok
  | AddBatch id => add_batch s id
  | DelBatch id => del_batch s id
  | AddCall => add_call s
  | DelCall n => del_call s n
  | Fund a amt => fund s a amt
  | SlashVal v amount => slash_val s v amount
  | EnvVal v tok shr => env_val s v tok shr
  | SlashValPast v hinf frac vs rws => slash_past s v hinf frac vs rws
  | EnvStat v st untl => env_stat s v st untl
  | ExecBatch id => exec_batch s id
  | ExportImport => export_import s
  | ObserveSet n => observe_set s n
  | EndBlock t1 t2 pd => end_block s t1 t2 pd
  end.

(* a failed transaction / a panicking block leaves the committed state unchanged *)
Definition exec (s : state) (o : op) : state :=
  match step s o with Ok s' => s' | Err _ => s | Panic => s end.

Definition run (s : state) (ops : list op) : state := fold_left exec ops s.

(* the same machine with the two UnbondedOracle parameters given explicitly (to state and evaluate what each variant
   does, whatever the checked tree says) *)
Definition step_with (ne cap : bool) (s : state) (o : op) : res :=
  match o with Unbond a => unbond_gen ne cap s a | _ => step s o end.
Definition exec_with (ne cap : bool) (s : state) (o : op) : state :=
  match step_with ne cap s o with Ok s' => s' | Err _ => s | Panic => s end.
Definition run_with (ne cap : bool) (s : state) (ops : list op) : state := fold_left (exec_with ne cap) ops s.

Definition init (h t ub : Z) (vs : vset) (p : params) : state :=
  mkState h t ub vs p [] [] (fun _ => None) (fun _ => None) (fun _ => None) 0
    (fun _ _ => 0) [] [] (fun _ => 0) (fun _ => 0) [] 0 0 0 [] 0 [] 0 1 0 (fun _ => 0) (fun _ => []) None.
