(* glue for the correspondence files Cases_C13*.v written by harness/c13:
   a history = universe of ids + initial chain facts + list of (operation, observed class,
   observed projection of the real stores after the operation). *)
From Coq Require Import ZArith List Bool.
From FxV Require Import model.M_OracleReg.
Import ListNotations.
Open Scope Z_scope.

(* projection compared with the implementation (everything sorted by id, see harness/c13) *)
Record view := mkView {
  v_recs : list oracle;                 (* 0x12 records, ascending oracle id *)
  v_byb : list (Z * Z);                 (* 0x14 bridger -> oracle, ascending bridger id *)
  v_bye : list (Z * Z);                 (* 0x13 external -> oracle, ascending external id *)
  v_prop : list Z;                      (* 0x38 in stored order *)
  v_power : Z;                          (* GetLastTotalPower *)
  v_deleg : list (Z * Z * Z);           (* real staking: delegations (oracle, validator, SHARES scaled 10^18) of the delegate addresses *)
  v_ubds : list (Z * Z * Z * Z);        (* real staking: unbonding entries (oracle, validator, completion, balance) *)
  v_balo : list Z;                      (* bank balance of each oracle account, universe order *)
  v_bald : list Z;                      (* bank balance of each delegate address, universe order *)
  v_sets : list (Z * Z * list Z);       (* oracle sets: nonce, height, confirming external ids *)
  v_slashed_set : Z;
  v_batches : list (Z * Z * list Z);    (* batch block index: id, block, confirming external ids *)
  v_slashed_batch : Z;
  v_calls : list (Z * Z * list Z);      (* outgoing bridge calls: nonce, block height, confirming external ids *)
  v_slashed_call : Z;
  v_vals : list (Z * Z * Z);
  v_lastobs : Z }.                      (* nonce of the last observed oracle set, -1 = none *)          (* real staking: validator id, Tokens, DelegatorShares (scaled 10^18) *)

Record universe := mkU { u_accs : list Z; u_orcs : list Z; u_exts : list Z; u_vals : list Z }.

Definition view_obj (U : universe) (x : obj) : Z * Z * list Z :=
  (ob_nonce x, ob_height x, filter (fun e => has_conf_ext e x) (u_exts U)).

Definition view_of (U : universe) (s : state) : view :=
  mkView
    (flat_map (fun a => match recs s a with Some r => [r] | None => [] end) (u_accs U))
    (flat_map (fun b => match by_bridger s b with Some a => [(b, a)] | None => [] end) (u_accs U))
    (flat_map (fun e => match by_ext s e with Some a => [(e, a)] | None => [] end) (u_exts U))
    (proposal s) (total_power s)
    (flat_map (fun a => flat_map (fun v => if deleg s a v =? 0 then [] else [(a, v, deleg s a v)]) (u_vals U)) (u_orcs U))
    (flat_map (fun a => flat_map (fun v =>
        map (fun u => (u_orc u, u_val u, u_time u, u_amt u))
            (filter (fun u => (u_orc u =? a) && (u_val u =? v)) (ubds s))) (u_vals U)) (u_orcs U))
    (map (bal_o s) (u_orcs U)) (map (bal_d s) (u_orcs U))
    (map (view_obj U) (sets s)) (slashed_set s)
    (map (view_obj U) (batches s)) (slashed_batch_block s)
    (map (view_obj U) (calls s)) (slashed_call s)
    (map (fun v => (v, vtok s v, vshr s v)) (u_vals U))
    (match last_obs s with Some n => n | None => -1 end).

Fixpoint list_eqb {A} (eqb : A -> A -> bool) (l1 l2 : list A) : bool :=
  match l1, l2 with
  | [], [] => true
  | x :: r1, y :: r2 => eqb x y && list_eqb eqb r1 r2
  | _, _ => false
  end.
Definition pair_eqb (p q : Z * Z) := (fst p =? fst q) && (snd p =? snd q).
Definition triple_eqb (p q : Z * Z * Z) := pair_eqb (fst p) (fst q) && (snd p =? snd q).
Definition quad_eqb (p q : Z * Z * Z * Z) := triple_eqb (fst p) (fst q) && (snd p =? snd q).
Definition objv_eqb (p q : Z * Z * list Z) := pair_eqb (fst p) (fst q) && list_eqb Z.eqb (snd p) (snd q).
Definition oracle_eqb (r q : oracle) : bool :=
  (o_addr r =? o_addr q) && (o_bridger r =? o_bridger q) && (o_ext r =? o_ext q) &&
  (o_amount r =? o_amount q) && (o_start r =? o_start q) && Bool.eqb (o_online r) (o_online q) &&
  (o_val r =? o_val q) && (o_slash r =? o_slash q).

(* index of the first differing component (0 = equal), for diagnostics *)
Definition view_diff (a b : view) : Z :=
  if negb (list_eqb oracle_eqb (v_recs a) (v_recs b)) then 1
  else if negb (list_eqb pair_eqb (v_byb a) (v_byb b)) then 2
  else if negb (list_eqb pair_eqb (v_bye a) (v_bye b)) then 3
  else if negb (list_eqb Z.eqb (v_prop a) (v_prop b)) then 4
  else if negb (v_power a =? v_power b) then 5
  else if negb (list_eqb triple_eqb (v_deleg a) (v_deleg b)) then 6
  else if negb (list_eqb quad_eqb (v_ubds a) (v_ubds b)) then 7
  else if negb (list_eqb Z.eqb (v_balo a) (v_balo b)) then 8
  else if negb (list_eqb Z.eqb (v_bald a) (v_bald b)) then 9
  else if negb (list_eqb objv_eqb (v_sets a) (v_sets b)) then 10
  else if negb (v_slashed_set a =? v_slashed_set b) then 11
  else if negb (list_eqb objv_eqb (v_batches a) (v_batches b)) then 12
  else if negb (v_slashed_batch a =? v_slashed_batch b) then 13
  else if negb (list_eqb objv_eqb (v_calls a) (v_calls b)) then 14
  else if negb (v_slashed_call a =? v_slashed_call b) then 15
  else if negb (list_eqb triple_eqb (v_vals a) (v_vals b)) then 16
  else if negb (v_lastobs a =? v_lastobs b) then 17
  else 0.

(* the harness prints, per operation, only what changed in the projection *)
Inductive vdelta :=
| DRec (a : Z) (r : option oracle)      (* record of oracle a inserted / replaced / deleted *)
| DByB (l : list (Z * Z))
| DByE (l : list (Z * Z))
| DProp (l : list Z)
| DPower (z : Z)
| DDeleg (l : list (Z * Z * Z))
| DUbds (l : list (Z * Z * Z * Z))
| DBalO (i : nat) (z : Z)               (* position in universe order *)
| DBalD (i : nat) (z : Z)
| DSet (x : Z * Z * list Z)             (* oracle set with this nonce replaced / appended *)
| DSets (l : list (Z * Z * list Z))
| DSlashedSet (z : Z)
| DBatch (x : Z * Z * list Z)
| DBatches (l : list (Z * Z * list Z))
| DSlashedBat (z : Z)
| DCall (x : Z * Z * list Z)
| DCalls (l : list (Z * Z * list Z))
| DSlashedCall (z : Z)
| DVal (x : Z * Z * Z)
| DLastObs (z : Z).

Fixpoint insert_rec (r : oracle) (l : list oracle) : list oracle :=
  match l with
  | [] => [r]
  | x :: t => if o_addr r <? o_addr x then r :: l else x :: insert_rec r t
  end.
Definition patch_rec (a : Z) (r : option oracle) (l : list oracle) : list oracle :=
  let l' := filter (fun x => negb (o_addr x =? a)) l in
  match r with Some r => insert_rec r l' | None => l' end.
Fixpoint upd_nth (i : nat) (z : Z) (l : list Z) : list Z :=
  match l, i with
  | [], _ => []
  | _ :: t, O => z :: t
  | x :: t, S j => x :: upd_nth j z t
  end.
Fixpoint put_obj (x : Z * Z * list Z) (l : list (Z * Z * list Z)) : list (Z * Z * list Z) :=
  match l with
  | [] => [x]
  | y :: t => if fst (fst y) =? fst (fst x) then x :: t else y :: put_obj x t
  end.

Fixpoint put_val (x : Z * Z * Z) (l : list (Z * Z * Z)) : list (Z * Z * Z) :=
  match l with
  | [] => [x]
  | y :: t => if fst (fst y) =? fst (fst x) then x :: t else y :: put_val x t
  end.

Definition patch1 (v : view) (d : vdelta) : view :=
  match d with
  | DRec a r => mkView (patch_rec a r (v_recs v)) (v_byb v) (v_bye v) (v_prop v) (v_power v) (v_deleg v) (v_ubds v) (v_balo v) (v_bald v) (v_sets v) (v_slashed_set v) (v_batches v) (v_slashed_batch v) (v_calls v) (v_slashed_call v) (v_vals v) (v_lastobs v)
  | DByB l => mkView (v_recs v) l (v_bye v) (v_prop v) (v_power v) (v_deleg v) (v_ubds v) (v_balo v) (v_bald v) (v_sets v) (v_slashed_set v) (v_batches v) (v_slashed_batch v) (v_calls v) (v_slashed_call v) (v_vals v) (v_lastobs v)
  | DByE l => mkView (v_recs v) (v_byb v) l (v_prop v) (v_power v) (v_deleg v) (v_ubds v) (v_balo v) (v_bald v) (v_sets v) (v_slashed_set v) (v_batches v) (v_slashed_batch v) (v_calls v) (v_slashed_call v) (v_vals v) (v_lastobs v)
  | DProp l => mkView (v_recs v) (v_byb v) (v_bye v) l (v_power v) (v_deleg v) (v_ubds v) (v_balo v) (v_bald v) (v_sets v) (v_slashed_set v) (v_batches v) (v_slashed_batch v) (v_calls v) (v_slashed_call v) (v_vals v) (v_lastobs v)
  | DPower z => mkView (v_recs v) (v_byb v) (v_bye v) (v_prop v) z (v_deleg v) (v_ubds v) (v_balo v) (v_bald v) (v_sets v) (v_slashed_set v) (v_batches v) (v_slashed_batch v) (v_calls v) (v_slashed_call v) (v_vals v) (v_lastobs v)
  | DDeleg l => mkView (v_recs v) (v_byb v) (v_bye v) (v_prop v) (v_power v) l (v_ubds v) (v_balo v) (v_bald v) (v_sets v) (v_slashed_set v) (v_batches v) (v_slashed_batch v) (v_calls v) (v_slashed_call v) (v_vals v) (v_lastobs v)
  | DUbds l => mkView (v_recs v) (v_byb v) (v_bye v) (v_prop v) (v_power v) (v_deleg v) l (v_balo v) (v_bald v) (v_sets v) (v_slashed_set v) (v_batches v) (v_slashed_batch v) (v_calls v) (v_slashed_call v) (v_vals v) (v_lastobs v)
  | DBalO i z => mkView (v_recs v) (v_byb v) (v_bye v) (v_prop v) (v_power v) (v_deleg v) (v_ubds v) (upd_nth i z (v_balo v)) (v_bald v) (v_sets v) (v_slashed_set v) (v_batches v) (v_slashed_batch v) (v_calls v) (v_slashed_call v) (v_vals v) (v_lastobs v)
  | DBalD i z => mkView (v_recs v) (v_byb v) (v_bye v) (v_prop v) (v_power v) (v_deleg v) (v_ubds v) (v_balo v) (upd_nth i z (v_bald v)) (v_sets v) (v_slashed_set v) (v_batches v) (v_slashed_batch v) (v_calls v) (v_slashed_call v) (v_vals v) (v_lastobs v)
  | DSet x => mkView (v_recs v) (v_byb v) (v_bye v) (v_prop v) (v_power v) (v_deleg v) (v_ubds v) (v_balo v) (v_bald v) (put_obj x (v_sets v)) (v_slashed_set v) (v_batches v) (v_slashed_batch v) (v_calls v) (v_slashed_call v) (v_vals v) (v_lastobs v)
  | DSets l => mkView (v_recs v) (v_byb v) (v_bye v) (v_prop v) (v_power v) (v_deleg v) (v_ubds v) (v_balo v) (v_bald v) l (v_slashed_set v) (v_batches v) (v_slashed_batch v) (v_calls v) (v_slashed_call v) (v_vals v) (v_lastobs v)
  | DSlashedSet z => mkView (v_recs v) (v_byb v) (v_bye v) (v_prop v) (v_power v) (v_deleg v) (v_ubds v) (v_balo v) (v_bald v) (v_sets v) z (v_batches v) (v_slashed_batch v) (v_calls v) (v_slashed_call v) (v_vals v) (v_lastobs v)
  | DBatch x => mkView (v_recs v) (v_byb v) (v_bye v) (v_prop v) (v_power v) (v_deleg v) (v_ubds v) (v_balo v) (v_bald v) (v_sets v) (v_slashed_set v) (put_obj x (v_batches v)) (v_slashed_batch v) (v_calls v) (v_slashed_call v) (v_vals v) (v_lastobs v)
  | DBatches l => mkView (v_recs v) (v_byb v) (v_bye v) (v_prop v) (v_power v) (v_deleg v) (v_ubds v) (v_balo v) (v_bald v) (v_sets v) (v_slashed_set v) l (v_slashed_batch v) (v_calls v) (v_slashed_call v) (v_vals v) (v_lastobs v)
  | DSlashedBat z => mkView (v_recs v) (v_byb v) (v_bye v) (v_prop v) (v_power v) (v_deleg v) (v_ubds v) (v_balo v) (v_bald v) (v_sets v) (v_slashed_set v) (v_batches v) z (v_calls v) (v_slashed_call v) (v_vals v) (v_lastobs v)
  | DCall x => mkView (v_recs v) (v_byb v) (v_bye v) (v_prop v) (v_power v) (v_deleg v) (v_ubds v) (v_balo v) (v_bald v) (v_sets v) (v_slashed_set v) (v_batches v) (v_slashed_batch v) (put_obj x (v_calls v)) (v_slashed_call v) (v_vals v) (v_lastobs v)
  | DCalls l => mkView (v_recs v) (v_byb v) (v_bye v) (v_prop v) (v_power v) (v_deleg v) (v_ubds v) (v_balo v) (v_bald v) (v_sets v) (v_slashed_set v) (v_batches v) (v_slashed_batch v) l (v_slashed_call v) (v_vals v) (v_lastobs v)
  | DSlashedCall z => mkView (v_recs v) (v_byb v) (v_bye v) (v_prop v) (v_power v) (v_deleg v) (v_ubds v) (v_balo v) (v_bald v) (v_sets v) (v_slashed_set v) (v_batches v) (v_slashed_batch v) (v_calls v) z (v_vals v) (v_lastobs v)
  | DVal x => mkView (v_recs v) (v_byb v) (v_bye v) (v_prop v) (v_power v) (v_deleg v) (v_ubds v) (v_balo v) (v_bald v) (v_sets v) (v_slashed_set v) (v_batches v) (v_slashed_batch v) (v_calls v) (v_slashed_call v) (put_val x (v_vals v)) (v_lastobs v)
  | DLastObs z => mkView (v_recs v) (v_byb v) (v_bye v) (v_prop v) (v_power v) (v_deleg v) (v_ubds v) (v_balo v) (v_bald v) (v_sets v) (v_slashed_set v) (v_batches v) (v_slashed_batch v) (v_calls v) (v_slashed_call v) (v_vals v) z
  end.
Definition patch (v : view) (ds : list vdelta) : view := fold_left patch1 ds v.

(* observed class: 0 = accepted, 1 = rejected (error / tx reverted), 2 = panic *)
Definition class_of (r : res) : Z := match r with Ok _ => 0 | Err _ => 1 | Panic => 2 end.

Record orc_case := mkCase {
  c_univ : universe;
  c_init : state;
  c_view0 : view;
  c_steps : list (op * Z * list vdelta) }.

Definition vset_of (l : list (Z * Z * Z)) : vset :=
  mkV (map (fun x => fst (fst x)) l)
      (fun v => match find (fun x => fst (fst x) =? v) l with Some x => snd (fst x) | None => 0 end)
      (fun v => match find (fun x => fst (fst x) =? v) l with Some x => snd x | None => 0 end)
      (fun _ => 0) (fun _ => 0).

Definition mk_orc_case (accs orcs exts : list Z) (vs : list (Z * Z * Z)) (h t ub : Z) (thr mul frac win : Z)
           (v0 : view) (steps : list (op * Z * list vdelta)) : orc_case :=
  mkCase (mkU accs orcs exts (map (fun x => fst (fst x)) vs)) (init h t ub (vset_of vs) (mkParams thr mul frac win)) v0 steps.

(* (step index starting at 1, what differs: 100 = class, else view component); (0,0) = agreement *)
Fixpoint first_diff (U : universe) (s : state) (pv : view) (i : Z) (l : list (op * Z * list vdelta)) : Z * Z :=
  match l with
  | [] => (0, 0)
  | (o, cls, ds) :: r =>
    if negb (class_of (step s o) =? cls) then (i, 100)
    else let s' := exec s o in
         let v := patch pv ds in
         let d := view_diff (view_of U s') v in
         if negb (d =? 0) then (i, d) else first_diff U s' v (i + 1) r
  end.

Definition orc_diag (c : orc_case) : Z * Z :=
  let d0 := view_diff (view_of (c_univ c) (c_init c)) (c_view0 c) in
  if negb (d0 =? 0) then (0, d0) else first_diff (c_univ c) (c_init c) (c_view0 c) 1 (c_steps c).

Definition orc_mismatch (c : orc_case) : bool := negb (fst (orc_diag c) =? 0) || negb (snd (orc_diag c) =? 0).
