(* M_OsetPhase.v — executable model of the two remaining phases of the crosschain EndBlocker
   (/repo/x/crosschain/keeper/abci.go: createOracleSetRequest, isNeedOracleSetRequest, pruneOracleSet;
   oracle_set.go: AddOracleSetRequest, GetLatestOracleSet; types/types.go: BridgeValidators.PowerDiff),
   on top of M_EndBlock (slashing + GetCurrentOracleSet).

   isNeedOracleSetRequest computes a float64, renders it with "%.8f" and parses the text as a LegacyDec,
   panicking if the parse fails.  The float is modelled bit-exactly with the standard library's
   executable IEEE-754 specification (Coq.Floats.SpecFloat, binary64 = prec 53 / emax 1024, round to
   nearest even); "%.8f" of a finite binary64 is the exact decimal expansion rounded half-even at the 8th
   decimal (strconv's bigFtoa path), "NaN"/"+Inf" are what LegacyNewDecFromStr rejects -> [Panic].

   Members are (external-address id, normalised power) pairs; an oracle set is (nonce, height, members). *)
From Coq Require Import ZArith List Bool.
From Coq Require Import Floats.SpecFloat.
From FxV Require Import model.M_EndBlock.
Import ListNotations.
Open Scope Z_scope.

Definition f64_prec : Z := 53.
Definition f64_emax : Z := 1024.
Definition f_of_Z (z : Z) : spec_float := binary_normalize f64_prec f64_emax z 0 false.
Definition f_div (x y : spec_float) : spec_float := SFdiv f64_prec f64_emax x y.

Definition power_in (id : Z) (m : list (Z * Z)) : option Z :=
  match find (fun p => fst p =? id) m with Some p => Some (snd p) | None => None end.

(* BridgeValidators(b).PowerDiff(c) before the division: sum over the union of addresses of |b - c|.
   Go accumulates the terms as float64 in map order; every term and every partial sum is an integer below
   2^53 (members <= 100... the harness states the bound), where float64 addition is exact and therefore
   order-independent, so the sum is taken in Z and converted once. *)
Definition power_delta (cur latest : list (Z * Z)) : Z :=
  fold_left (fun acc p => acc + Z.abs (snd p - match power_in (fst p) latest with Some q => q | None => 0 end)) cur 0
  + fold_left (fun acc p => match power_in (fst p) cur with Some _ => acc | None => acc + Z.abs (snd p) end) latest 0.

Definition round_half_even_div (n d : Z) : Z :=
  let q := n / d in
  let r := n mod d in
  if 2 * r <? d then q else if d <? 2 * r then q + 1 else if Z.even q then q else q + 1.

Definition dec_one : Z := 10 ^ 18.

(* LegacyNewDecFromStr(fmt.Sprintf("%.8f", f)) as the Dec's integer (value * 10^18); None = parse error *)
Definition dec_of_fmt8 (f : spec_float) : option Z :=
  match f with
  | S754_zero _ => Some 0
  | S754_finite s m e =>
      let n := Zpos m * 10 ^ 8 in
      let q := if 0 <=? e then n * 2 ^ e else round_half_even_div n (2 ^ (- e)) in
      Some ((if s then - q else q) * 10 ^ 10)
  | _ => None
  end.

Definition power_diff (cur latest : list (Z * Z)) : spec_float :=
  SFabs (f_div (f_of_Z (power_delta cur latest)) (f_of_Z max_u32)).

(* isNeedOracleSetRequest's verdict; [latest] = members of GetLatestOracleSet (None: nil) *)
Definition need_request (cur : list (Z * Z)) (latest : option (list (Z * Z))) (slashed_now : bool)
           (pct : Z) : outcome bool :=
  match latest with
  | None => Ok true
  | Some lm =>
      if slashed_now then Ok true
      else match dec_of_fmt8 (power_diff cur lm) with
           | None => Panic
           | Some d => Ok (Z.min pct dec_one <=? d)
           end
  end.

Record oset_rec := { or_nonce : Z; or_height : Z; or_members : list (Z * Z) }.

Record ophase := {
  op_sets : list oset_rec;         (* store order = ascending nonce *)
  op_latest : Z;                   (* LatestOracleSetNonce (0 if unset) *)
  op_last_observed : option Z;     (* nonce of LastObservedOracleSet; None = nil *)
  op_pct : Z                       (* OracleSetUpdatePowerChangePercent * 10^18 *)
}.

Definition latest_set (p : ophase) : option oset_rec :=
  find (fun r => or_nonce r =? op_latest p) (op_sets p).

(* store.Set under the nonce key: replaces an equal nonce, keeps the order ascending *)
Fixpoint store_set (x : oset_rec) (l : list oset_rec) : list oset_rec :=
  match l with
  | [] => [x]
  | y :: r => if or_nonce x <? or_nonce y then x :: l
              else if or_nonce x =? or_nonce y then x :: r
              else y :: store_set x r
  end.

(* createOracleSetRequest given the members GetCurrentOracleSet computed after slashing *)
Definition create_request (p : ophase) (members : list (Z * Z)) (h : Z) (slashed_now : bool) : outcome ophase :=
  match need_request members (option_map or_members (latest_set p)) slashed_now (op_pct p) with
  | Panic => Panic
  | Ok false => Ok p
  | Ok true =>
      match members with
      | [] => Ok p                                     (* AddOracleSetRequest: empty set is not stored *)
      | _ => let n := op_latest p + 1 in
             Ok {| op_sets := store_set {| or_nonce := n; or_height := h; or_members := members |} (op_sets p);
                   op_latest := n; op_last_observed := op_last_observed p; op_pct := op_pct p |}
      end
  end.

(* pruneOracleSet *)
Definition prunable (h w lo : Z) (r : oset_rec) : bool := (or_height r <? h - w) && (or_nonce r <? lo).

Definition prune (p : ophase) (h w : Z) : ophase :=
  match op_last_observed p with
  | None => p
  | Some lo =>
      if h <? w then p
      else {| op_sets := filter (fun r => negb (prunable h w lo r)) (op_sets p);
              op_latest := op_latest p; op_last_observed := op_last_observed p; op_pct := op_pct p |}
  end.

(* the whole EndBlocker: slashing ; createOracleSetRequest ; pruneOracleSet *)
Definition endblock_full (a : slash_args) (s : xstate) (p : ophase) (h : Z)
  : outcome (slash_result * list (Z * Z) * ophase) :=
  match endblock a s h with
  | Panic => Panic
  | Ok (r, m) =>
      match create_request p m h (r_last_slash_height r =? h) with
      | Panic => Panic
      | Ok p1 => Ok (r, m, prune p1 h (window s))
      end
  end.
