(* glue for Cases_C07_full.v (harness/c07): the one-block case of M_EndBlockCorr extended by the oracle-set
   phase: stored oracle sets with their members, latest nonce, last observed nonce and the change-percent
   parameter before the block; stored (nonce, height) list, latest nonce and the members of the latest stored
   set after the real FinalizeBlock/Commit *)
From Coq Require Import ZArith List Bool.
From FxV Require Import model.M_EndBlock gen.Gen_EndBlock model.M_EndBlockCorr model.M_OsetPhase.
Import ListNotations.
Open Scope Z_scope.

Definition mk_set (n h : Z) (m : list (Z * Z)) : oset_rec := {| or_nonce := n; or_height := h; or_members := m |}.

Inductive obs2 :=
| Obs2Panic
| Obs2Ok (stored : list (Z * Z)) (latest : Z) (latest_members : list (Z * Z)).

Record eb2_case := { e2_base : eb_case; e2_phase : ophase; e2_obs : obs2 }.

(* last observed nonce: -1 encodes "no oracle set observed yet" *)
Definition mk_eb2_case (b : eb_case) (sets : list oset_rec) (latest lastobs pct : Z) (o : obs2) : eb2_case :=
  {| e2_base := b;
     e2_phase := {| op_sets := sets; op_latest := latest;
                    op_last_observed := if lastobs <? 0 then None else Some lastobs; op_pct := pct |};
     e2_obs := o |}.

Definition eb2_mismatch (c : eb2_case) : bool :=
  match endblock_full gen_slash_args (eb_state (e2_base c)) (e2_phase c) (eb_h (e2_base c)), e2_obs c with
  | Panic, Obs2Panic => false
  | Ok (_, _, p), Obs2Ok stored latest mem =>
      negb (list_eqb pair_eqb (map (fun r => (or_nonce r, or_height r)) (op_sets p)) stored
            && (op_latest p =? latest)
            && list_eqb pair_eqb
                 (match latest_set p with Some r => sort_members (or_members r) | None => [] end) mem)
  | _, _ => true
  end.

(* Cases_C07_pdiff.v: BridgeValidators.PowerDiff + "%.8f" + LegacyNewDecFromStr on the real code vs the model's
   bit-exact float64 computation, on random member lists and on deltas chosen next to the rounding boundaries
   (k + 1/2)·10^-8 of the quotient *)
Record pd_case := { pd_cur : list (Z * Z); pd_lat : list (Z * Z); pd_dec : Z }.
Definition mk_pd_case (c l : list (Z * Z)) (d : Z) : pd_case := {| pd_cur := c; pd_lat := l; pd_dec := d |}.
Definition pd_mismatch (c : pd_case) : bool :=
  match dec_of_fmt8 (power_diff (pd_cur c) (pd_lat c)) with
  | Some d => negb (d =? pd_dec c)
  | None => true
  end.
