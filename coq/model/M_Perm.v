(* C17 — models of the consumers of unordered iteration in fx-core (one per discharge class of
   model/M_NondetAllow.v).  In every model the argument list stands for "the entries in the order
   the Go runtime happened to iterate the map"; the theorems in proofs/P_Perm.v say the result is
   the same for every permutation of it.  No proofs here. *)
From Coq Require Import ZArith List Bool.
Import ListNotations.
Open Scope Z_scope.

(* ------------------------------------------------------------------ *)
(* 1. x/crosschain/types/types.go: BridgeValidators.PowerDiff

     powers := map[string]int64{}
     for _, bv := range b { powers[bv.ExternalAddress] = int64(bv.Power) }
     for _, bv := range c { if val, ok := powers[a]; ok { powers[a] = val - int64(bv.Power) } else { powers[a] = -int64(bv.Power) } }
     var delta float64
     for _, v := range powers { delta += math.Abs(float64(v)) }        // <- map order
     return math.Abs(delta / float64(math.MaxUint32))

   Addresses are abstracted to integers.  The map is an association list; its value list in list
   order is ONE possible iteration order. *)

Definition member := (Z * Z)%type.          (* (external address id, power) *)
Definition pmap := list (Z * Z).

Fixpoint pm_get (m : pmap) (k : Z) : option Z :=
  match m with
  | [] => None
  | (k', v) :: r => if k =? k' then Some v else pm_get r k
  end.

Fixpoint pm_set (m : pmap) (k v : Z) : pmap :=
  match m with
  | [] => [(k, v)]
  | (k', v') :: r => if k =? k' then (k, v) :: r else (k', v') :: pm_set r k v
  end.

Definition powers_of (b c : list member) : pmap :=
  let m1 := fold_left (fun m bv => pm_set m (fst bv) (snd bv)) b [] in
  fold_left (fun m bv =>
               match pm_get m (fst bv) with
               | Some v => pm_set m (fst bv) (v - snd bv)
               | None => pm_set m (fst bv) (- snd bv)
               end) c m1.

Definition sum_abs (vals : list Z) : Z := fold_left (fun acc v => acc + Z.abs v) vals 0.

Definition two53 : Z := 2 ^ 53.
Definition two32 : Z := 2 ^ 32.
Definition max_uint32 : Z := 2 ^ 32 - 1.

(* binary64: [rnd z] is the double nearest to the integer-valued real z.  Nothing is assumed about
   it except that integers of magnitude <= 2^53 are representable (P_Perm states that as a section
   hypothesis, not an axiom). *)
Section FloatSum.
  Variable rnd : Z -> Z.
  (* delta += math.Abs(float64(v)) *)
  Definition fsum (vals : list Z) : Z := fold_left (fun acc v => rnd (acc + Z.abs (rnd v))) vals 0.
End FloatSum.

(* the exact value of delta for two oracle sets *)
Definition power_diff_sum (b c : list member) : Z := sum_abs (map snd (powers_of b c)).

(* ------------------------------------------------------------------ *)
(* 2. collect from a map, then sort by the (unique) map key:
        x/crosschain/keeper/batch_fee.go GetAllBatchFees   (sort.Slice by TokenContract)
        x/crosschain/types/external_address.go GetSupportChains (sort.SliceStable by name)
      The sort is any function whose output is a permutation of its input and strictly ascending
      when the keys are distinct (P_Perm, section hypotheses); [isort] is one such function. *)

Section InsertionSort.
  Variable A : Type.
  Variable key : A -> Z.
  Fixpoint insert (x : A) (l : list A) : list A :=
    match l with
    | [] => [x]
    | y :: r => if key x <=? key y then x :: y :: r else y :: insert x r
    end.
  Fixpoint isort (l : list A) : list A :=
    match l with [] => [] | x :: r => insert x (isort r) end.
End InsertionSort.

(* createBatchFees + GetAllBatchFees on the pool as IterateUnbatchedTransactions yields it
   (contract, fee, amount), ordered by contract then fee descending: per contract the first
   maxElements transfers are summed; entries: (contract, (total fees, (tx count, total amount))). *)
Definition fee_entry := (Z * (Z * (Z * Z)))%type.

Fixpoint fm_add (m : list fee_entry) (contract fee amt maxel : Z) : list fee_entry :=
  match m with
  | [] => [(contract, (fee, (1, amt)))]
  | (c', (f, (n, a))) :: r =>
      if contract =? c' then (if n <? maxel then (c', (f + fee, (n + 1, a + amt))) else (c', (f, (n, a)))) :: r
      else (c', (f, (n, a))) :: fm_add r contract fee amt maxel
  end.

Definition create_batch_fees (maxel : Z) (pool : list (Z * (Z * Z))) : list fee_entry :=
  fold_left (fun m tx => fm_add m (fst tx) (fst (snd tx)) (snd (snd tx)) maxel) pool [].

Definition all_batch_fees (maxel : Z) (pool : list (Z * (Z * Z))) : list fee_entry :=
  isort fee_entry fst (create_batch_fees maxel pool).

(* ------------------------------------------------------------------ *)
(* 3. x/gov/keeper/tally.go Tally, second loop: for _, val := range currValidators { ... }
      Every validator that voted adds votingPower*weight to the voted options and votingPower to
      the total; LegacyDec addition is exact integer addition. *)

Record tally := mk_tally { t_yes : Z; t_abstain : Z; t_no : Z; t_veto : Z; t_total : Z }.

Definition tadd (a b : tally) : tally :=
  mk_tally (t_yes a + t_yes b) (t_abstain a + t_abstain b) (t_no a + t_no b) (t_veto a + t_veto b) (t_total a + t_total b).

Definition tzero : tally := mk_tally 0 0 0 0 0.

Record gov_val := mk_gov_val {
  gv_shares : Z; gv_deductions : Z; gv_bonded : Z;
  gv_vote : list (Z * Z)      (* (option 1..4, weight) ; [] = did not vote *)
}.

Section Tally.
  (* LegacyDec arithmetic with its rounding: arbitrary functions *)
  Variable dec_mul_int_quo : Z -> Z -> Z -> Z.   (* shares.MulInt(bonded).Quo(total shares) *)
  Variable dec_mul : Z -> Z -> Z.                 (* votingPower.Mul(weight)                  *)

  Definition opt_tally (o p : Z) : tally :=
    if o =? 1 then mk_tally p 0 0 0 0 else if o =? 2 then mk_tally 0 p 0 0 0
    else if o =? 3 then mk_tally 0 0 p 0 0 else if o =? 4 then mk_tally 0 0 0 p 0 else tzero.

  Definition contrib (v : gov_val) : tally :=
    match gv_vote v with
    | [] => tzero                                   (* if len(val.Vote) == 0 { continue } *)
    | vs =>
        let power := dec_mul_int_quo (gv_shares v - gv_deductions v) (gv_bonded v) (gv_shares v) in
        tadd (fold_left (fun acc ow => tadd acc (opt_tally (fst ow) (dec_mul power (snd ow)))) vs tzero)
             (mk_tally 0 0 0 0 power)
    end.

  Definition tally_validators (acc : tally) (vals : list gov_val) : tally :=
    fold_left (fun a v => tadd a (contrib v)) vals acc.
End Tally.

(* ------------------------------------------------------------------ *)
(* 4. map -> map rebuilds (app/modules.go GetMaccPerms, ModuleAccountAddrs; app/app.go GetModules,
      AutoCliOpts; app/genesis.go NewDefAppGenesisByDenom): out[f k] = g k v for every entry. *)

Definition fmap := Z -> option Z.
Definition fm_empty : fmap := fun _ => None.
Definition fm_upd (m : fmap) (k v : Z) : fmap := fun k' => if k' =? k then Some v else m k'.
Definition rebuild (entries : list (Z * Z)) : fmap := fold_left (fun m e => fm_upd m (fst e) (snd e)) entries fm_empty.

(* 5. deleting a set of keys (x/crosschain/keeper/abci.go pruneAttestations deletes the attestations of
      the collected nonces): the final store does not depend on the order of deletion *)
Definition fm_del (m : fmap) (k : Z) : fmap := fun k' => if k' =? k then None else m k'.
Definition delete_all (m : fmap) (keys : list Z) : fmap := fold_left fm_del keys m.

(* 6. membership-only maps (UpdateProposalOracles, validateDepositDenom, checkProposalMsgs, ...):
      the map is only indexed, never ranged *)
Definition member_of (x : Z) (l : list Z) : bool := existsb (Z.eqb x) l.

(* ------------------------------------------------------------------ *)
(* cosmossdk.io/math LegacyDec arithmetic on values scaled by 10^18 (non-negative operands), transcribed
   from dec.go: chopPrecisionAndRound = divide by 10^18 with banker's rounding; Mul = multiply, chop;
   Quo = multiply by 10^36, big.Int Quo, chop; MulInt = exact.  Used to instantiate the tally model for
   the correspondence run. *)
Definition dec_one : Z := 10 ^ 18.
Definition chop_round (x : Z) : Z :=
  let q := x / dec_one in
  let r := x mod dec_one in
  if r =? 0 then q
  else if r <? 5 * 10 ^ 17 then q
  else if 5 * 10 ^ 17 <? r then q + 1
  else if Z.even q then q else q + 1.
Definition ldec_mul (a b : Z) : Z := chop_round (a * b).
Definition ldec_mul_int_quo (s b t : Z) : Z := chop_round (s * b * (dec_one * dec_one) / t).

(* x/gov Tally's result for the validator loop, started from the accumulators the (store-ordered) vote walk
   left, truncated like NewTallyResultFromMap does *)
Definition tally_counts (acc : tally) (vals : list gov_val) : Z * Z * Z * Z :=
  let t := tally_validators ldec_mul_int_quo ldec_mul acc vals in
  (t_yes t / dec_one, t_abstain t / dec_one, t_no t / dec_one, t_veto t / dec_one).

(* ------------------------------------------------------------------ *)
(* x/crosschain/keeper/proposal.go UpdateProposalOracles: two membership-only maps (new list, old list)
   decide which bonded oracles are unbonded; the oracles are walked in store order. *)
Record orc := mk_orc { o_addr : Z; o_online : bool; o_power : Z }.

Definition upo (max_size : Z) (all : list orc) (old new : list Z) : option (list Z) :=
  if max_size <? Z.of_nat (length new) then None else
  let total := fold_left (fun a o => if o_online o then a + o_power o else a) all 0 in
  let unb := filter (fun o => negb (member_of (o_addr o) new) && member_of (o_addr o) old) all in
  let del := fold_left (fun a o => if o_online o then a + o_power o else a) unb 0 in
  (* AttestationProposalOracleChangePowerThreshold (30) * total / 100 *)
  if (0 <? del) && (30 * total / 100 <=? del) then None else Some (map o_addr unb).

(* ------------------------------------------------------------------ *)
(* x/crosschain/keeper/abci.go pruneAttestations: after an event is observed, every attestation whose event
   nonce is <= lastObserved - MaxKeepEventSize is deleted (nonces collected, sorted, deleted one by one).
   The store is the fmap built from the attestation nonces; the deletions are a delete_all. *)
Definition present (keys : list Z) : fmap := rebuild (map (fun k => (k, 1)) keys).
Definition prune (keep last : Z) (atts : list Z) : fmap :=
  if last <=? keep then present atts
  else delete_all (present atts) (filter (fun n => n <=? last - keep) atts).
