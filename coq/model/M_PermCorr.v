(* glue for the correspondence files Cases_C17.v / Cases_C17bf.v written by harness/c17 *)
From Coq Require Import ZArith List Bool Uint63.
From Coq Require Export Floats.
From FxV Require Import model.M_Perm.
Import ListNotations.
Open Scope Z_scope.

(* real BridgeValidators.PowerDiff on two generated oracle sets:
   obs_sum = round(PowerDiff * MaxUint32)   (the exact integer the float accumulation represents)
   obs8    = the digits of fmt.Sprintf("%.8f", PowerDiff) read as an integer (value * 10^8)
   obs     = the returned float64 itself (hex float literal)                                              *)
Record pd_case := mk_pd_case { pd_b : list member; pd_c : list member; pd_sum : Z; pd_fmt8 : Z; pd_obs : float }.

(* the value the code computes when the accumulation is exact: one correctly rounded binary64 division
   of the integer sum by MaxUint32 (Coq's primitive floats are IEEE-754 binary64; used only here, in
   the evaluation of harness cases, never in a theorem) *)
Definition pd_model_float (s : Z) : float :=
  PrimFloat.div (PrimFloat.of_uint63 (Uint63.of_Z s)) (PrimFloat.of_uint63 (Uint63.of_Z max_uint32)).

Definition pd_mismatch (c : pd_case) : bool :=
  let s := power_diff_sum (pd_b c) (pd_c c) in
  negb ((s =? pd_sum c) && PrimFloat.eqb (pd_model_float s) (pd_obs c) &&
        (* the printed value is sum/(2^32-1) to 8 decimals, up to one unit in the last place *)
        (Z.abs (pd_fmt8 c * max_uint32 - s * 10 ^ 8) <=? max_uint32 + max_uint32 / 2)).

(* real GetAllBatchFees on the real unbatched pool of the running history: the pool in the order
   IterateUnbatchedTransactions yields it (contract rank, fee, amount) and the returned entries *)
Record bf_case := mk_bf_case { bf_max : Z; bf_pool : list (Z * (Z * Z)); bf_obs : list fee_entry }.

Definition fee_entry_eqb (a b : fee_entry) : bool :=
  (fst a =? fst b) && (fst (snd a) =? fst (snd b)) && (fst (snd (snd a)) =? fst (snd (snd b))) && (snd (snd (snd a)) =? snd (snd (snd b))).

Fixpoint fee_list_eqb (a b : list fee_entry) : bool :=
  match a, b with
  | [], [] => true
  | x :: a', y :: b' => fee_entry_eqb x y && fee_list_eqb a' b'
  | _, _ => false
  end.

Definition bf_mismatch (c : bf_case) : bool :=
  negb (fee_list_eqb (all_batch_fees (bf_max c) (bf_pool c)) (bf_obs c)).
