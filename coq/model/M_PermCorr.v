(* glue for the correspondence files Cases_C17.v / Cases_C17bf.v written by harness/c17 *)
From Coq Require Import ZArith List Bool Uint63.
From Coq Require Export Floats.
From FxV Require Import model.M_Perm.
Import ListNotations.
Open Scope Z_scope.

(* real BridgeValidators.PowerDiff on two generated oracle sets:
   obs_sum = round(PowerDiff * MaxUint32)   (the exact integer the float accumulation represents)
   obs8    = the digits of fmt.Sprintf("%.8f", PowerDiff) read as an integer (value * 10^8)
   obs     = the returned float64 itself (hex float literal)                                              *)
Record pd_case := mk_pd_case { pd_b : list member; pd_c : list member; pd_sum : Z; pd_fmt8 : Z; pd_obs : float }.

(* the value the code computes when the accumulation is exact: one correctly rounded binary64 division
   of the integer sum by MaxUint32 (Coq's primitive floats are IEEE-754 binary64; used only here, in
   the evaluation of harness cases, never in a theorem) *)
Definition pd_model_float (s : Z) : float :=
  PrimFloat.div (PrimFloat.of_uint63 (Uint63.of_Z s)) (PrimFloat.of_uint63 (Uint63.of_Z max_uint32)).

Definition pd_mismatch (c : pd_case) : bool :=
  let s := power_diff_sum (pd_b c) (pd_c c) in
  negb ((s =? pd_sum c) && PrimFloat.eqb (pd_model_float s) (pd_obs c) &&
        (* the printed value is sum/(2^32-1) to 8 decimals, up to one unit in the last place *)
        (Z.abs (pd_fmt8 c * max_uint32 - s * 10 ^ 8) <=? max_uint32 + max_uint32 / 2)).

(* real GetAllBatchFees on the real unbatched pool of the running history: the pool in the order
   IterateUnbatchedTransactions yields it (contract rank, fee, amount) and the returned entries *)
Record bf_case := mk_bf_case { bf_max : Z; bf_pool : list (Z * (Z * Z)); bf_obs : list fee_entry }.

Definition fee_entry_eqb (a b : fee_entry) : bool :=
  (fst a =? fst b) && (fst (snd a) =? fst (snd b)) && (fst (snd (snd a)) =? fst (snd (snd b))) && (snd (snd (snd a)) =? snd (snd (snd b))).

Fixpoint fee_list_eqb (a b : list fee_entry) : bool :=
  match a, b with
  | [], [] => true
  | x :: a', y :: b' => fee_entry_eqb x y && fee_list_eqb a' b'
  | _, _ => false
  end.

Definition bf_mismatch (c : bf_case) : bool :=
  negb (fee_list_eqb (all_batch_fees (bf_max c) (bf_pool c)) (bf_obs c)).

(* ------------------------------------------------------------------ *)
(* real x/gov Tally (48 in-process replays, all equal) vs the model on the same votes *)
Record tally_case := mk_tally_case { tc_acc : tally; tc_vals : list gov_val; tc_obs : Z * Z * Z * Z }.

Definition quad_eqb (a b : Z * Z * Z * Z) : bool :=
  let '(a1, a2, a3, a4) := a in let '(b1, b2, b3, b4) := b in (a1 =? b1) && (a2 =? b2) && (a3 =? b3) && (a4 =? b4).

Definition tally_mismatch (c : tally_case) : bool :=
  negb (quad_eqb (tally_counts (tc_acc c) (tc_vals c)) (tc_obs c)) ||
  (* and the model itself on the reversed validator list *)
  negb (quad_eqb (tally_counts (tc_acc c) (rev (tc_vals c))) (tc_obs c)).

(* real UpdateProposalOracles vs upo: Some l = accepted and exactly the oracles l (store order) went offline *)
Record upo_case := mk_upo_case { uc_max : Z; uc_all : list orc; uc_old : list Z; uc_new : list Z; uc_obs : option (list Z) }.

Fixpoint zlist_eqb (a b : list Z) : bool :=
  match a, b with [], [] => true | x :: a', y :: b' => (x =? y) && zlist_eqb a' b' | _, _ => false end.

Definition upo_mismatch (c : upo_case) : bool :=
  match upo (uc_max c) (uc_all c) (uc_old c) (uc_new c), uc_obs c with
  | None, None => false
  | Some l, Some l' => negb (zlist_eqb l l') || negb (match upo (uc_max c) (uc_all c) (rev (uc_old c)) (rev (uc_new c)) with Some l2 => zlist_eqb l l2 | None => false end)
  | _, _ => true
  end.

(* real pruneAttestations (inside a Claim that was observed): attestation nonces before (plus the claim's own),
   last observed nonce after, nonces after *)
Record prune_case := mk_prune_case { pc_keep : Z; pc_last : Z; pc_before : list Z; pc_after : list Z }.

Definition prune_mismatch (c : prune_case) : bool :=
  let m := prune (pc_keep c) (pc_last c) (pc_before c) in
  negb (forallb (fun k => Bool.eqb (match m k with Some _ => true | None => false end) (member_of k (pc_after c))) (pc_before c) &&
        forallb (fun k => member_of k (pc_before c)) (pc_after c)).

(* real map -> map rebuilds of app/ (GetMaccPerms, ModuleAccountAddrs): two calls' iteration orders of the
   same entries give the same map *)
Record rb_case := mk_rb_case { rb_a : list (Z * Z); rb_b : list (Z * Z) }.

Definition rb_mismatch (c : rb_case) : bool :=
  negb (forallb (fun e => match rebuild (rb_a c) (fst e), rebuild (rb_b c) (fst e) with
                          | Some x, Some y => (x =? y) && (x =? snd e) | _, _ => false end) (rb_a c) &&
        (Z.of_nat (length (rb_a c)) =? Z.of_nat (length (rb_b c)))).
