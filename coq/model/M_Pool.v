(* M_Pool.v — executable model of the outgoing side of one crosschain module (x/crosschain/keeper):
   outgoing_pool.go, batch.go, batch_fee.go, bridge_call_out.go, bridge_call_refund.go,
   timeout_height.go, the two clean-ups of abci.go as called from attestation.go:TryAttestation,
   the parking of BridgeCallResult claims (attestation_handler.go) and the message handlers of
   msg_server.go (SendToExternal, CancelSendToExternal, IncreaseBridgeFee, RequestBatch, BridgeCall)
   including the ValidateBasic checks of those messages.  Transcribed as the code is; no proofs here.

   Abstractions
   * accounts, external addresses, tokens are integers; token t stands for a bridge-token contract, the
     contracts order like the integers (the harness chooses contract strings that way), so the
     store key 0x18|contract|fee(32 bytes)|id orders like (token, fee, id); iteration is reverse.
   * two token kinds, fixed per history in [toks]:
       KNative = FX  (base denom = bridge denom = FX; every conversion is a plain transfer)
       KExt    = a plain bridge token registered as in the repo's own tests
                 (bank metadata base<->alias, erc20 pair owned externally): sending burns the
                 sender's base coins and the module holds bridge-denom coins; a refund is the reverse;
                 IncreaseBridgeFee burns the payer's bridge-denom coins; a bridge-call refund mints.
       KCoin   = a coin registered in x/erc20 (RegisterCoin: module-owned ERC-20, the bridge denom as alias):
                 sending burns the sender's base coins and the same amount of the module's bridge-denom float,
                 a refund mints; a bridge-call refund goes through the erc20 module's alias conversion and ends as base
                 coins (call created by MsgBridgeCall) or as ERC-20 tokens (call created by the bridgeCall precompile).
     ledger key = (account, token, which) with which = 0 base denom, 1 bridge denom (always 0 for KNative),
       KErc    = an externally owned ERC-20 registered through x/erc20 RegisterNativeERC20 with the bridge denom as alias
                 (the production path of MsgRegisterERC20): users hold ERC-20 tokens; the erc20 module escrows them while
                 base coins exist; base <-> bridge conversion as for KExt.
     2 ERC-20 balance (KCoin, KErc); account -1 is the crosschain module, -2 the erc20 module.
   * uint64 arithmetic of CalExternalTimeoutHeight is written out modulo 2^64.
   * comparison operators of the time-out rules come from gen/Gen_TimeoutRules.v (read from the source
     on every run). *)
From Coq Require Import ZArith List Bool.
From FxV Require Import gen.Gen_TimeoutRules.
Import ListNotations.
Open Scope Z_scope.

Definition two64 : Z := 2 ^ 64.
Definition u64 (x : Z) : Z := x mod two64.
Definition MODULE : Z := -1.

Definition ERC20MOD : Z := -2.

Inductive tkind := KNative | KExt | KCoin | KErc.

Record tx := { tx_id : Z; tx_sender : Z; tx_dest : Z; tx_token : Z; tx_amount : Z; tx_fee : Z }.
Record batch := { b_nonce : Z; b_timeout : Z; b_txs : list tx; b_token : Z; b_feercv : Z; b_block : Z }.
Record bcall := { c_nonce : Z; c_timeout : Z; c_block : Z; c_sender : Z; c_refund : Z;
                  c_tokens : list (Z * Z); c_to : Z; c_data : list Z; c_memo : list Z; c_evnonce : Z }.
Record params := { p_batch_timeout : Z; p_avg_block : Z; p_avg_ext : Z; p_call_timeout : Z; p_max_elems : Z }.

Definition acct_key := (Z * Z * Z)%type.
Definition ledger := list (acct_key * Z).

Record state := {
  pool : list tx;                 (* 0x18, in iteration order: descending (token, fee, id) *)
  batches : list batch;           (* 0x20, in iteration order: descending (token, nonce) *)
  by_block : list (Z * (Z * Z));  (* 0x21: block -> (token, nonce) *)
  next_tx : Z; next_batch : Z; next_call : Z;   (* 0x25...: value stored = next id; absent = 1 *)
  calls : list bcall;             (* 0x48, ascending nonce *)
  by_sender : list (Z * Z);       (* 0x49: (sender, nonce) *)
  from_msg : list Z;              (* 0x51 *)
  pending : list (Z * (Z * bool));(* 0x54 restricted to BridgeCallResult claims: event nonce -> (call nonce, success) *)
  evn : Z;                        (* 0x24 last observed event nonce *)
  obs_ext : Z; obs_fx : Z;        (* 0x32 *)
  fxh : Z;                        (* height of the block being built *)
  bal : ledger;
  prm : params;
  toks : list (Z * tkind);
  relation : list Z               (* x/erc20 outgoing transfer relation of this module: ids of live transfers started from the EVM with an ERC-20 token *)
}.

Inductive cause := ByTimeout | BySupersede | ByFailure.
Inductive event :=
| EvTxCreated (id : Z)
| EvTxRefund (id who amount token : Z)
| EvBatchCreated (token nonce timeout : Z)
| EvBatchCanceled (token nonce : Z) (c : cause)
| EvBatchExecuted (token nonce : Z)
| EvCallCreated (nonce timeout : Z)
| EvCallRefund (nonce refund : Z) (tokens : list (Z * Z)) (c : cause)
| EvCallDone (nonce : Z) (ok : bool).

Inductive res := Ok | Err | Panic.

Inductive op :=
| Send (sender dest amount fee token : Z)
| SendP (sender dest amount fee token : Z)
| Cancel (id who : Z)
| IncreaseFee (id who add token which : Z)
| IncreaseFeeP (id who add token : Z)
| RequestBatch (token which feercv basefee minfee : Z) (auth : bool)
| BatchExecuted (token nonce h : Z)
| Observe (h : Z)
| BridgeCall (sender refund : Z) (coins : list (Z * Z)) (to : Z) (data memo : list Z)
| BridgeCallP (sender refund value : Z) (tokens : list (Z * Z)) (to : Z) (data memo : list Z)
| ObserveResult (nonce : Z) (ok : bool) (h : Z)
| ExecResult (e : Z)
| NextBlock
| SetParams (p : params)
| Migrate.

(* ---------- result monad: Go error (tx reverted) / Go panic (tx reverted) ---------- *)
Inductive R (A : Type) := ROk (a : A) | RErr | RPanic.
Arguments ROk {A} a. Arguments RErr {A}. Arguments RPanic {A}.
Definition bind {A B} (r : R A) (f : A -> R B) : R B :=
  match r with ROk a => f a | RErr => RErr | RPanic => RPanic end.
Notation "'do' x <- r ; k" := (bind r (fun x => k)) (at level 200, x pattern, r at level 100, k at level 200).
(* if err != nil { panic(err) } *)
Definition must {A} (r : R A) : R A := match r with RErr => RPanic | x => x end.

(* ---------- field updates ---------- *)
Definition set_pool (s : state) v := {| pool := v; batches := batches s; by_block := by_block s; next_tx := next_tx s; next_batch := next_batch s; next_call := next_call s; calls := calls s; by_sender := by_sender s; from_msg := from_msg s; pending := pending s; evn := evn s; obs_ext := obs_ext s; obs_fx := obs_fx s; fxh := fxh s; bal := bal s; prm := prm s; toks := toks s; relation := relation s |}.
Definition set_batches (s : state) v w := {| pool := pool s; batches := v; by_block := w; next_tx := next_tx s; next_batch := next_batch s; next_call := next_call s; calls := calls s; by_sender := by_sender s; from_msg := from_msg s; pending := pending s; evn := evn s; obs_ext := obs_ext s; obs_fx := obs_fx s; fxh := fxh s; bal := bal s; prm := prm s; toks := toks s; relation := relation s |}.
Definition set_next_tx (s : state) v := {| pool := pool s; batches := batches s; by_block := by_block s; next_tx := v; next_batch := next_batch s; next_call := next_call s; calls := calls s; by_sender := by_sender s; from_msg := from_msg s; pending := pending s; evn := evn s; obs_ext := obs_ext s; obs_fx := obs_fx s; fxh := fxh s; bal := bal s; prm := prm s; toks := toks s; relation := relation s |}.
Definition set_next_batch (s : state) v := {| pool := pool s; batches := batches s; by_block := by_block s; next_tx := next_tx s; next_batch := v; next_call := next_call s; calls := calls s; by_sender := by_sender s; from_msg := from_msg s; pending := pending s; evn := evn s; obs_ext := obs_ext s; obs_fx := obs_fx s; fxh := fxh s; bal := bal s; prm := prm s; toks := toks s; relation := relation s |}.
Definition set_next_call (s : state) v := {| pool := pool s; batches := batches s; by_block := by_block s; next_tx := next_tx s; next_batch := next_batch s; next_call := v; calls := calls s; by_sender := by_sender s; from_msg := from_msg s; pending := pending s; evn := evn s; obs_ext := obs_ext s; obs_fx := obs_fx s; fxh := fxh s; bal := bal s; prm := prm s; toks := toks s; relation := relation s |}.
Definition set_calls (s : state) v w m := {| pool := pool s; batches := batches s; by_block := by_block s; next_tx := next_tx s; next_batch := next_batch s; next_call := next_call s; calls := v; by_sender := w; from_msg := m; pending := pending s; evn := evn s; obs_ext := obs_ext s; obs_fx := obs_fx s; fxh := fxh s; bal := bal s; prm := prm s; toks := toks s; relation := relation s |}.
Definition set_pending (s : state) v := {| pool := pool s; batches := batches s; by_block := by_block s; next_tx := next_tx s; next_batch := next_batch s; next_call := next_call s; calls := calls s; by_sender := by_sender s; from_msg := from_msg s; pending := v; evn := evn s; obs_ext := obs_ext s; obs_fx := obs_fx s; fxh := fxh s; bal := bal s; prm := prm s; toks := toks s; relation := relation s |}.
Definition set_obs (s : state) e x f := {| pool := pool s; batches := batches s; by_block := by_block s; next_tx := next_tx s; next_batch := next_batch s; next_call := next_call s; calls := calls s; by_sender := by_sender s; from_msg := from_msg s; pending := pending s; evn := e; obs_ext := x; obs_fx := f; fxh := fxh s; bal := bal s; prm := prm s; toks := toks s; relation := relation s |}.
Definition set_fxh (s : state) v := {| pool := pool s; batches := batches s; by_block := by_block s; next_tx := next_tx s; next_batch := next_batch s; next_call := next_call s; calls := calls s; by_sender := by_sender s; from_msg := from_msg s; pending := pending s; evn := evn s; obs_ext := obs_ext s; obs_fx := obs_fx s; fxh := v; bal := bal s; prm := prm s; toks := toks s; relation := relation s |}.
Definition set_bal (s : state) v := {| pool := pool s; batches := batches s; by_block := by_block s; next_tx := next_tx s; next_batch := next_batch s; next_call := next_call s; calls := calls s; by_sender := by_sender s; from_msg := from_msg s; pending := pending s; evn := evn s; obs_ext := obs_ext s; obs_fx := obs_fx s; fxh := fxh s; bal := v; prm := prm s; toks := toks s; relation := relation s |}.
Definition set_relation (s : state) v := {| pool := pool s; batches := batches s; by_block := by_block s; next_tx := next_tx s; next_batch := next_batch s; next_call := next_call s; calls := calls s; by_sender := by_sender s; from_msg := from_msg s; pending := pending s; evn := evn s; obs_ext := obs_ext s; obs_fx := obs_fx s; fxh := fxh s; bal := bal s; prm := prm s; toks := toks s; relation := v |}.
Definition set_prm (s : state) v := {| pool := pool s; batches := batches s; by_block := by_block s; next_tx := next_tx s; next_batch := next_batch s; next_call := next_call s; calls := calls s; by_sender := by_sender s; from_msg := from_msg s; pending := pending s; evn := evn s; obs_ext := obs_ext s; obs_fx := obs_fx s; fxh := fxh s; bal := bal s; prm := v; toks := toks s; relation := relation s |}.

(* ---------- bank ledger (projection: the accounts and denoms involved) ---------- *)
Definition key_eqb (a b : acct_key) : bool :=
  let '(a1, a2, a3) := a in let '(b1, b2, b3) := b in (a1 =? b1) && (a2 =? b2) && (a3 =? b3).
Fixpoint get_bal (l : ledger) (k : acct_key) : Z :=
  match l with [] => 0 | (k', v) :: r => if key_eqb k k' then v else get_bal r k end.
Definition credit (l : ledger) (k : acct_key) (v : Z) : ledger := (k, get_bal l k + v) :: l.
(* bank SendCoins / burn: error when the spendable balance is insufficient *)
Definition debit (l : ledger) (k : acct_key) (v : Z) : R ledger :=
  if get_bal l k <? v then RErr else ROk ((k, get_bal l k - v) :: l).

Fixpoint kind_of (ts : list (Z * tkind)) (t : Z) : option tkind :=
  match ts with [] => None | (t', k) :: r => if t =? t' then Some k else kind_of r t end.

(* many_to_one.go BaseCoinToBridgeToken (ManyToOne + ConversionCoin + WithdrawBridgeToken), net effect *)
Definition base_to_bridge (l : ledger) (k : tkind) (holder t amt : Z) : R ledger :=
  match k with
  | KNative => do l1 <- debit l (holder, t, 0) amt; ROk (credit l1 (MODULE, t, 0) amt)
  | KExt => do l1 <- debit l (holder, t, 0) amt; ROk (credit l1 (MODULE, t, 1) amt)
  | KCoin => do l1 <- debit l (holder, t, 0) amt; debit l1 (MODULE, t, 1) amt
  | KErc => do l1 <- debit l (holder, t, 0) amt; ROk (credit l1 (MODULE, t, 1) amt)
  end.
(* many_to_one.go BridgeTokenToBaseCoin (DepositBridgeToken + ConversionCoin), net effect *)
Definition bridge_to_base (l : ledger) (k : tkind) (holder t amt : Z) : R ledger :=
  match k with
  | KNative => do l1 <- debit l (MODULE, t, 0) amt; ROk (credit l1 (holder, t, 0) amt)
  | KExt => do l1 <- debit l (MODULE, t, 1) amt; ROk (credit l1 (holder, t, 0) amt)
  | KCoin => ROk (credit (credit l (MODULE, t, 1) amt) (holder, t, 0) amt)
  | KErc => do l1 <- debit l (MODULE, t, 1) amt; ROk (credit l1 (holder, t, 0) amt)
  end.
(* batch_fee.go AddUnbatchedTxBridgeFee: origin/converted denom is locked in the module, any other is burnt *)
Definition pay_added_fee (l : ledger) (k : tkind) (payer t amt : Z) : R ledger :=
  match k with
  | KNative => do l1 <- debit l (payer, t, 0) amt; ROk (credit l1 (MODULE, t, 0) amt)
  | KExt | KCoin => debit l (payer, t, 1) amt
  | KErc => do l1 <- debit l (payer, t, 1) amt; ROk (credit l1 (MODULE, t, 1) amt)   (* alias of an externally owned ERC-20 counts as origin: locked *)
  end.
(* bridge_call_in.go bridgeCallTransferCoins + bridgeCallTransferTokens as used by HandleOutgoingBridgeCallRefund;
   [msg] = the call carries the from-msg marker (created by MsgBridgeCall): the refund stays in the bank; otherwise
   (created by the bridgeCall precompile) it is converted to ERC-20 for the REFUND address. A plain bridge token has no
   ERC-20 pair for its bridge denom: that conversion fails (and the caller panics). *)
Fixpoint refund_coins (ts : list (Z * tkind)) (msg : bool) (l : ledger) (refund : Z) (coins : list (Z * Z)) : R ledger :=
  match coins with
  | [] => ROk l
  | (t, amt) :: r =>
      match kind_of ts t with
      | None => RErr
      | Some k =>
          if amt <=? 0 then refund_coins ts msg l refund r
          else match k with
               | KNative => do l1 <- debit l (MODULE, t, 0) amt; refund_coins ts msg (credit l1 (refund, t, 0) amt) refund r
               | KExt => if msg then refund_coins ts msg (credit l (refund, t, 1) amt) refund r else RErr
               | KCoin =>
                   let l1 := credit l (ERC20MOD, t, 1) amt in
                   if msg then refund_coins ts msg (credit l1 (refund, t, 0) amt) refund r
                   else refund_coins ts msg (credit (credit l1 (ERC20MOD, t, 0) amt) (refund, t, 2) amt) refund r
               | KErc =>
                   (* unlocked from the module (origin denom), then the erc20 module's alias conversion (old path) burns the alias and wants
                      to release base coins it has locked: it has none unless somebody converted base -> alias there *)
                   do l0 <- debit l (MODULE, t, 1) amt;
                   do l1 <- debit l0 (ERC20MOD, t, 0) amt;
                   if msg then refund_coins ts msg (credit l1 (refund, t, 0) amt) refund r
                   else do l2 <- debit l1 (ERC20MOD, t, 2) amt; refund_coins ts msg (credit l2 (refund, t, 2) amt) refund r
               end
      end
  end.

(* ---------- pool (types/key.go GetOutgoingTxPoolKey, reverse iteration) ---------- *)
Definition key3_ltb (a b : Z * Z * Z) : bool :=
  let '(a1, a2, a3) := a in let '(b1, b2, b3) := b in
  (a1 <? b1) || ((a1 =? b1) && ((a2 <? b2) || ((a2 =? b2) && (a3 <? b3)))).
Definition key3_eqb (a b : Z * Z * Z) : bool :=
  let '(a1, a2, a3) := a in let '(b1, b2, b3) := b in (a1 =? b1) && (a2 =? b2) && (a3 =? b3).
Definition tx_key (x : tx) : Z * Z * Z := (tx_token x, tx_fee x, tx_id x).

Fixpoint pool_insert (x : tx) (l : list tx) : list tx :=
  match l with
  | [] => [x]
  | y :: r => if key3_ltb (tx_key y) (tx_key x) then x :: l else y :: pool_insert x r
  end.
Definition pool_has (k : Z * Z * Z) (l : list tx) : bool := existsb (fun y => key3_eqb (tx_key y) k) l.
Fixpoint pool_remove (k : Z * Z * Z) (l : list tx) : list tx :=
  match l with
  | [] => []
  | y :: r => if key3_eqb (tx_key y) k then r else y :: pool_remove k r
  end.
(* AddUnbatchedTx *)
Definition add_unbatched (x : tx) (l : list tx) : R (list tx) :=
  if pool_has (tx_key x) l then RErr else ROk (pool_insert x l).
(* removeUnbatchedTx *)
Definition remove_unbatched (x : tx) (l : list tx) : R (list tx) :=
  if pool_has (tx_key x) l then ROk (pool_remove (tx_key x) l) else RErr.
(* GetUnbatchedTxById: first hit of the reverse iteration over the whole pool *)
Definition find_by_id (id : Z) (l : list tx) : option tx := find (fun y => tx_id y =? id) l.

(* pickUnBatchedTx / GetBatchFeesByTokenType: walk the token's entries fee-descending, stop at the first
   fee below baseFee, stop after max entries *)
Fixpoint pick (token base max cnt : Z) (l : list tx) : list tx :=
  match l with
  | [] => []
  | y :: r =>
      if tx_token y =? token then
        if tx_fee y <? base then []
        else if cnt + 1 =? max then [y] else y :: pick token base max (cnt + 1) r
      else pick token base max cnt r
  end.
Definition sum_fees (l : list tx) : Z := fold_left (fun a y => a + tx_fee y) l 0.

(* ---------- batches ---------- *)
Definition b_key (b : batch) : Z * Z := (b_token b, b_nonce b).
Definition key2_ltb (a b : Z * Z) : bool := (fst a <? fst b) || ((fst a =? fst b) && (snd a <? snd b)).
Fixpoint batch_insert (x : batch) (l : list batch) : list batch :=
  match l with
  | [] => [x]
  | y :: r => if key2_ltb (b_key y) (b_key x) then x :: l
              else if (b_token y =? b_token x) && (b_nonce y =? b_nonce x) then x :: r   (* store.Set overwrites *)
              else y :: batch_insert x r
  end.
Definition batch_is (token nonce : Z) (b : batch) : bool := (b_token b =? token) && (b_nonce b =? nonce).
Definition find_batch (token nonce : Z) (l : list batch) : option batch := find (batch_is token nonce) l.
Definition batch_remove (token nonce : Z) (l : list batch) : list batch :=
  filter (fun b => negb (batch_is token nonce b)) l.
Definition block_remove (blk : Z) (l : list (Z * (Z * Z))) := filter (fun e => negb (fst e =? blk)) l.
Definition block_has (blk : Z) (l : list (Z * (Z * Z))) : bool := existsb (fun e => fst e =? blk) l.
Fixpoint block_insert (e : Z * (Z * Z)) (l : list (Z * (Z * Z))) :=
  match l with
  | [] => [e]
  | y :: r => if fst e <? fst y then e :: l else y :: block_insert e r
  end.
(* GetLastOutgoingBatchByToken: highest nonce of the token (nonce > 0) *)
Definition last_batch (token : Z) (l : list batch) : option batch :=
  fold_left (fun acc b =>
               if (b_token b =? token) && (match acc with None => 0 | Some a => b_nonce a end <? b_nonce b)
               then Some b else acc) l None.

(* CancelOutgoingTxBatch for a batch that exists: every transaction back into the pool
   (AddUnbatchedTx error => panic), DeleteBatch (record + block index) *)
Fixpoint readd (txs : list tx) (p : list tx) : R (list tx) :=
  match txs with
  | [] => ROk p
  | x :: r => do p1 <- must (add_unbatched x p); readd r p1
  end.
Definition cancel_batch (c : cause) (s : state) (b : batch) : R (state * list event) :=
  match find_batch (b_token b) (b_nonce b) (batches s) with
  | None => RErr
  | Some b0 =>
      do p <- readd (b_txs b0) (pool s);
      let s1 := set_pool s p in
      ROk (set_batches s1 (batch_remove (b_token b0) (b_nonce b0) (batches s1)) (block_remove (b_block b0) (by_block s1)),
           [EvBatchCanceled (b_token b0) (b_nonce b0) c])
  end.

(* iterate a snapshot of the batches (reverse store order), cancelling those selected by f *)
Fixpoint cancel_where (c : cause) (f : batch -> bool) (once : bool) (snap : list batch) (s : state) : R (state * list event) :=
  match snap with
  | [] => ROk (s, [])
  | b :: r =>
      if f b then
        do x <- must (cancel_batch c s b);
        if once then ROk x
        else do y <- cancel_where c f once r (fst x); ROk (fst y, snd x ++ snd y)
      else cancel_where c f once r s
  end.

(* abci.go cleanupTimedOutBatches *)
Definition cleanup_batches (s : state) : R (state * list event) :=
  cancel_where ByTimeout (fun b => batch_cleanup_cancel (b_timeout b) (obs_ext s)) (negb batch_cleanup_continues) (batches s) s.

(* ---------- outgoing bridge calls ---------- *)
Definition call_remove (n : Z) (l : list bcall) := filter (fun c => negb (c_nonce c =? n)) l.
Definition find_call (n : Z) (l : list bcall) : option bcall := find (fun c => c_nonce c =? n) l.
(* DeleteOutgoingBridgeCallRecord *)
Definition delete_call (s : state) (n : Z) : state :=
  match find_call n (calls s) with
  | None => set_calls s (calls s) (by_sender s) (filter (fun m => negb (m =? n)) (from_msg s))
  | Some c => set_calls s (call_remove n (calls s))
                        (filter (fun e => negb ((fst e =? c_sender c) && (snd e =? n))) (by_sender s))
                        (filter (fun m => negb (m =? n)) (from_msg s))
  end.
(* HandleOutgoingBridgeCallRefund: any error panics *)
Definition refund_call (cs : cause) (s : state) (c : bcall) : R (state * list event) :=
  do l <- must (refund_coins (toks s) (existsb (Z.eqb (c_nonce c)) (from_msg s)) (bal s) (c_refund c) (c_tokens c));
  ROk (set_bal s l, [EvCallRefund (c_nonce c) (c_refund c) (c_tokens c) cs]).

(* abci.go cleanupTimeOutBridgeCall: ascending nonce, stop at the first call that has not timed out *)
Fixpoint cleanup_calls_from (snap : list bcall) (s : state) : R (state * list event) :=
  match snap with
  | [] => ROk (s, [])
  | c :: r =>
      if call_cleanup_stop (c_timeout c) (obs_ext s) then ROk (s, [])
      else do x <- refund_call ByTimeout s c;
           do y <- cleanup_calls_from r (delete_call (fst x) (c_nonce c));
           ROk (fst y, snd x ++ snd y)
  end.
Definition cleanup_calls (s : state) : R (state * list event) := cleanup_calls_from (calls s) s.

Definition cleanups (s : state) : R (state * list event) :=
  do x <- cleanup_batches s; do y <- cleanup_calls (fst x); ROk (fst y, snd x ++ snd y).

(* ---------- timeout_height.go CalExternalTimeoutHeight ---------- *)
Definition cal_timeout (s : state) (period : Z) : R Z :=
  if cal_zero_guard (obs_ext s) then ROk cal_zero_result
  else if p_avg_ext (prm s) =? 0 then RPanic
  else
    let millis := u64 (u64 (fxh s - obs_fx s) * p_avg_block (prm s)) in
    let projected := u64 (millis / p_avg_ext (prm s) + obs_ext s) in
    ROk (u64 (projected + period / p_avg_ext (prm s))).

(* ---------- the operations ---------- *)
Definition mk_tx id sender dest token amount fee :=
  {| tx_id := id; tx_sender := sender; tx_dest := dest; tx_token := token; tx_amount := amount; tx_fee := fee |}.

(* MsgSendToExternal.ValidateBasic + MsgServer.SendToExternal -> AddToOutgoingPool *)
Definition do_send (s : state) (sender dest amount fee token : Z) : R (state * list event) :=
  if (amount <=? 0) || (fee <=? 0) then RErr else
  let id := next_tx s in
  let s1 := set_next_tx s (id + 1) in
  match kind_of (toks s) token with
  | None => RErr
  | Some k =>
      do l <- base_to_bridge (bal s1) k sender token (amount + fee);
      do p <- add_unbatched (mk_tx id sender dest token amount fee) (pool s1);
      ROk (set_pool (set_bal s1 l) p, [EvTxCreated id])
  end.

(* precompile handlerERC20Token / EvmToBaseCoin: the caller's ERC-20 tokens become base coins of the caller.
   module-owned pair: tokens burnt, the erc20 module releases the locked base coins; externally owned pair: tokens escrowed
   by the erc20 module, base coins minted *)
Definition erc20_in (l : ledger) (k : tkind) (holder t a : Z) : R ledger :=
  match k with
  | KCoin => do l1 <- debit l (holder, t, 2) a; do l2 <- debit l1 (ERC20MOD, t, 0) a; ROk (credit l2 (holder, t, 0) a)
  | KErc => do l1 <- debit l (holder, t, 2) a; ROk (credit (credit l1 (ERC20MOD, t, 2) a) (holder, t, 0) a)
  | _ => RErr
  end.
Definition erc20_kind (k : tkind) : bool := match k with KCoin | KErc => true | _ => false end.

(* x/crosschain/precompile/crosschain.go (target = this module): msg.value of FX (origin token: no relation), or an
   ERC-20 token of a registered coin (handlerERC20Token: transferFrom to the erc20 module, burn, base coins released to
   the caller), then AddToOutgoingPool and, for the ERC-20 case, erc20 SetOutgoingTransferRelation(module, id).
   CrossChainArgs.Validate: amount > 0, fee >= 0. *)
Definition do_send_p (s : state) (sender dest amount fee token : Z) : R (state * list event) :=
  if (amount <=? 0) || (fee <? 0) then RErr else
  let id := next_tx s in
  let s1 := set_next_tx s (id + 1) in
  match kind_of (toks s) token with
  | Some KNative =>
      do l <- base_to_bridge (bal s1) KNative sender token (amount + fee);
      do p <- add_unbatched (mk_tx id sender dest token amount fee) (pool s1);
      ROk (set_pool (set_bal s1 l) p, [EvTxCreated id])
  | Some k =>
      if negb (erc20_kind k) then RErr else
      do l0 <- erc20_in (bal s1) k sender token (amount + fee);
      do l <- base_to_bridge l0 k sender token (amount + fee);
      do p <- add_unbatched (mk_tx id sender dest token amount fee) (pool s1);
      ROk (set_relation (set_pool (set_bal s1 l) p) (id :: relation s1), [EvTxCreated id])
  | _ => RErr
  end.

(* erc20 HookOutgoingRefund = ConvertCoin(base coins -> ERC-20 of the same account) *)
Definition hook_refund (l : ledger) (k : tkind) (who t amt : Z) : R ledger :=
  match k with
  | KCoin => do l1 <- debit l (who, t, 0) amt; ROk (credit (credit l1 (ERC20MOD, t, 0) amt) (who, t, 2) amt)
  | KErc => do l1 <- debit l (who, t, 0) amt; do l2 <- debit l1 (ERC20MOD, t, 2) amt; ROk (credit l2 (who, t, 2) amt)
  | _ => RErr
  end.

(* MsgCancelSendToExternal.ValidateBasic + RemoveFromOutgoingPoolAndRefund *)
Definition do_cancel (s : state) (id who : Z) : R (state * list event) :=
  if id <? 1 then RErr else
  match find_by_id id (pool s) with
  | None => RErr
  | Some x =>
      if negb (tx_sender x =? who) then RErr else
      do p <- remove_unbatched x (pool s);
      if pool_has (tx_key x) p then RErr else
      match kind_of (toks s) (tx_token x) with
      | None => RErr
      | Some k =>
          do l <- bridge_to_base (bal s) k who (tx_token x) (tx_amount x + tx_fee x);
          (* handleOutgoingTransferRelation: a transfer started from the EVM is refunded as ERC-20 (HookOutgoingRefund) *)
          if existsb (Z.eqb id) (relation s) then
            do l2 <- hook_refund l k who (tx_token x) (tx_amount x + tx_fee x);
            ROk (set_relation (set_pool (set_bal s l2) p) (filter (fun r => negb (r =? id)) (relation s)),
                 [EvTxRefund id who (tx_amount x + tx_fee x) (tx_token x)])
          else
          ROk (set_pool (set_bal s l) p, [EvTxRefund id who (tx_amount x + tx_fee x) (tx_token x)])
      end
  end.

(* MsgIncreaseBridgeFee.ValidateBasic + AddUnbatchedTxBridgeFee; [which] = 1 when the offered coin is the
   bridge denom of [token], 0 when it is its base denom (same thing for KNative) *)
Definition do_increase (s : state) (id who add token which : Z) : R (state * list event) :=
  if (id <? 1) || (add <=? 0) then RErr else
  match find_by_id id (pool s) with
  | None => RErr
  | Some x =>
      match kind_of (toks s) token with
      | None => RErr
      | Some k =>
          if (match k with KExt | KCoin | KErc => which =? 0 | KNative => false end) then RErr    (* GetContractByBridgeDenom *)
          else if negb (tx_token x =? token) then RErr
          else
            do l <- pay_added_fee (bal s) k who token add;
            do p <- remove_unbatched x (pool s);
            do p2 <- add_unbatched (mk_tx (tx_id x) (tx_sender x) (tx_dest x) (tx_token x) (tx_amount x) (tx_fee x + add)) p;
            ROk (set_pool (set_bal s l) p2, [])
      end
  end.

(* x/crosschain/precompile/increase_bridge_fee.go: the added fee comes as FX msg.value or as ERC-20 tokens; it is turned into
   base coins (erc20_in), then into the bridge denom by the erc20 module's alias conversion (ConvertDenomToTarget, old path:
   a module-owned pair burns the base coins and pays the alias out of the erc20 module's own alias holdings; an externally
   owned pair keeps the base coins locked in the erc20 module and mints the alias), then AddUnbatchedTxBridgeFee *)
Definition fee_in (l : ledger) (k : tkind) (who t add : Z) : R ledger :=
  match k with
  | KNative => pay_added_fee l KNative who t add
  | KCoin => do l1 <- erc20_in l KCoin who t add; do l2 <- debit l1 (who, t, 0) add; do l3 <- debit l2 (ERC20MOD, t, 1) add;
             pay_added_fee (credit l3 (who, t, 1) add) KCoin who t add
  | KErc => do l1 <- erc20_in l KErc who t add; do l2 <- debit l1 (who, t, 0) add;
            pay_added_fee (credit (credit l2 (ERC20MOD, t, 0) add) (who, t, 1) add) KErc who t add
  | KExt => RErr
  end.
Definition do_increase_p (s : state) (id who add token : Z) : R (state * list event) :=
  if (id <? 1) || (add <=? 0) then RErr else
  match kind_of (toks s) token with
  | None => RErr
  | Some k =>
      do l <- fee_in (bal s) k who token add;
      match find_by_id id (pool s) with
      | None => RErr
      | Some x =>
          if negb (tx_token x =? token) then RErr else
          do p <- remove_unbatched x (pool s);
          do p2 <- add_unbatched (mk_tx (tx_id x) (tx_sender x) (tx_dest x) (tx_token x) (tx_amount x) (tx_fee x + add)) p;
          ROk (set_pool (set_bal s l) p2, [])
      end
  end.

(* MsgRequestBatch.ValidateBasic + MsgServer.RequestBatch + BuildOutgoingTxBatch + StoreBatch *)
Definition do_request_batch (s : state) (token which feercv basefee minfee : Z) (auth : bool) : R (state * list event) :=
  if (minfee <=? 0) || (basefee <? 0) then RErr else
  match kind_of (toks s) token with
  | None => RErr
  | Some k =>
      if (match k with KExt | KCoin | KErc => which =? 0 | KNative => false end) then RErr else
      if negb auth then RErr else
      let max := p_max_elems (prm s) in
      if max =? 0 then RErr else
      if (match last_batch token (batches s) with
          | Some lb => sum_fees (pick token basefee max 0 (pool s)) <? sum_fees (b_txs lb)
          | None => false end) then RErr else
      let sel := pick token basefee max 0 (pool s) in
      do p <- fold_left (fun acc x => do a <- acc; remove_unbatched x a) sel (ROk (pool s));
      match sel with
      | [] => RErr
      | _ =>
          if sum_fees sel <? minfee then RErr else
          do t <- cal_timeout s (p_batch_timeout (prm s));
          if batch_build_reject t then RErr else
          let n := next_batch s in
          let b := {| b_nonce := n; b_timeout := t; b_txs := sel; b_token := token; b_feercv := feercv; b_block := fxh s |} in
          if block_has (fxh s) (by_block s) then RErr else
          ROk (set_batches (set_pool (set_next_batch s (n + 1)) p)
                           (batch_insert b (batches s)) (block_insert (fxh s, (token, n)) (by_block s)),
               [EvBatchCreated token n t])
      end
  end.

(* batch.go OutgoingTxBatchExecuted *)
Definition batch_executed (s : state) (token nonce : Z) : R (state * list event) :=
  match find_batch token nonce (batches s) with
  | None => RPanic
  | Some b =>
      do x <- cancel_where BySupersede (fun ib => (b_nonce ib <? b_nonce b) && (b_token ib =? token)) false (batches s) s;
      let s1 := fst x in
      let s2 := set_batches s1 (batch_remove token nonce (batches s1)) (block_remove (b_block b) (by_block s1)) in
      (* DeleteOutgoingTransferRelation for every transfer of the executed batch *)
      ROk (set_relation s2 (filter (fun r => negb (existsb (fun x => tx_id x =? r) (b_txs b))) (relation s2)),
           snd x ++ [EvBatchExecuted token nonce])
  end.

(* attestation.go TryAttestation, quorum branch: nonce, observed heights, handler, clean-ups *)
Definition observed (s : state) (h : Z) : state := set_obs s (evn s + 1) h (fxh s).

Definition do_batch_executed (s : state) (token nonce h : Z) : R (state * list event) :=
  if (h <=? 0) || (nonce <=? 0) then RErr else
  do x <- batch_executed (observed s h) token nonce;
  do y <- cleanups (fst x);
  ROk (fst y, snd x ++ snd y).

Definition do_observe (s : state) (h : Z) : R (state * list event) :=
  if h <=? 0 then RErr else cleanups (observed s h).

(* attestation_handler.go: a BridgeCallResult claim is only parked *)
Definition do_observe_result (s : state) (nonce : Z) (ok : bool) (h : Z) : R (state * list event) :=
  if (h <=? 0) || (nonce <=? 0) then RErr else
  let s1 := observed s h in
  cleanups (set_pending s1 ((evn s1, (nonce, ok)) :: pending s1)).

(* ExecuteClaim -> BridgeCallResultHandler *)
Definition do_exec_result (s : state) (e : Z) : R (state * list event) :=
  match find (fun p => fst p =? e) (pending s) with
  | None => RErr
  | Some (_, (n, ok)) =>
      let s1 := set_pending s (filter (fun p => negb (fst p =? e)) (pending s)) in
      match find_call n (calls s1) with
      | None => RPanic
      | Some c =>
          do x <- (if ok then ROk (s1, []) else refund_call ByFailure s1 c);
          ROk (delete_call (fst x) n, snd x ++ [EvCallDone n ok])
      end
  end.

(* MsgBridgeCall.ValidateBasic (coins valid: positive amounts, strictly ascending denoms = tokens here)
   + MsgServer.BridgeCall -> AddOutgoingBridgeCall *)
Fixpoint coins_valid (prev : Z) (coins : list (Z * Z)) : bool :=
  match coins with
  | [] => true
  | (t, a) :: r => (prev <? t) && (0 <? a) && coins_valid t r
  end.
Fixpoint lock_coins (ts : list (Z * tkind)) (l : ledger) (holder : Z) (coins : list (Z * Z)) : R ledger :=
  match coins with
  | [] => ROk l
  | (t, a) :: r =>
      match kind_of ts t with
      | None => RErr
      | Some k => do l1 <- base_to_bridge l k holder t a; lock_coins ts l1 holder r
      end
  end.
Definition do_bridge_call (s : state) (sender refund : Z) (coins : list (Z * Z)) (to : Z) (data memo : list Z) : R (state * list event) :=
  if negb (coins_valid (-1) coins) then RErr else
  if (match coins with [] => true | _ => false end) && (match data with [] => true | _ => false end) then RErr else
  do l <- lock_coins (toks s) (bal s) sender coins;
  do t <- cal_timeout s (p_call_timeout (prm s));
  if call_build_reject t then RErr else
  let n := next_call s in
  let c := {| c_nonce := n; c_timeout := t; c_block := fxh s; c_sender := sender; c_refund := refund;
              c_tokens := coins; c_to := to; c_data := data; c_memo := memo; c_evnonce := 0 |} in
  let s1 := set_bal (set_next_call s (n + 1)) l in
  ROk (set_calls s1 (calls s1 ++ [c]) ((sender, n) :: by_sender s1) (n :: from_msg s1), [EvCallCreated n t]).

(* x/crosschain/precompile/bridge_call.go: msg.value of FX (handlerOriginToken) and ERC-20 tokens (EvmToBaseCoin =
   ConvertERC20: the caller's tokens are burnt, the erc20 module releases the base coins) become base coins of the caller,
   then Keeper.AddOutgoingBridgeCall; no from-msg marker. The coins keep the order value, tokens. *)
Fixpoint erc20_to_base (ts : list (Z * tkind)) (l : ledger) (holder : Z) (tokens : list (Z * Z)) : R ledger :=
  match tokens with
  | [] => ROk l
  | (t, a) :: r =>
      match kind_of ts t with
      | Some k =>
          if a <=? 0 then RErr else
          do l1 <- erc20_in l k holder t a; erc20_to_base ts l1 holder r
      | None => RErr
      end
  end.
Definition do_bridge_call_p (s : state) (sender refund value : Z) (tokens : list (Z * Z)) (to : Z) (data memo : list Z) : R (state * list event) :=
  if value <? 0 then RErr else
  let coins := (if 0 <? value then [(0, value)] else []) ++ tokens in
  do l0 <- erc20_to_base (toks s) (bal s) sender tokens;
  do l <- lock_coins (toks s) l0 sender coins;
  do t <- cal_timeout s (p_call_timeout (prm s));
  if call_build_reject t then RErr else
  let n := next_call s in
  let c := {| c_nonce := n; c_timeout := t; c_block := fxh s; c_sender := sender; c_refund := refund;
              c_tokens := coins; c_to := to; c_data := data; c_memo := memo; c_evnonce := 0 |} in
  let s1 := set_bal (set_next_call s (n + 1)) l in
  ROk (set_calls s1 (calls s1 ++ [c]) ((sender, n) :: by_sender s1) (from_msg s1), [EvCallCreated n t]).

(* Params.ValidateBasic, the four fields used here (all uint64) *)
Definition params_ok (p : params) : bool :=
  (100 <=? p_avg_block p) && (60000 <=? p_batch_timeout p) && (100 <=? p_avg_ext p) && (3600000 <? p_call_timeout p)
  && (p_avg_block p <? two64) && (p_batch_timeout p <? two64) && (p_avg_ext p <? two64) && (p_call_timeout p <? two64).

Definition exec (s : state) (o : op) : R (state * list event) :=
  match o with
  | Send sender dest amount fee token => do_send s sender dest amount fee token
  | SendP sender dest amount fee token => do_send_p s sender dest amount fee token
  | Cancel id who => do_cancel s id who
  | IncreaseFee id who add token which => do_increase s id who add token which
  | IncreaseFeeP id who add token => do_increase_p s id who add token
  | RequestBatch token which feercv basefee minfee auth => do_request_batch s token which feercv basefee minfee auth
  | BatchExecuted token nonce h => do_batch_executed s token nonce h
  | Observe h => do_observe s h
  | BridgeCall sender refund coins to data memo => do_bridge_call s sender refund coins to data memo
  | BridgeCallP sender refund value tokens to data memo => do_bridge_call_p s sender refund value tokens to data memo
  | ObserveResult nonce ok h => do_observe_result s nonce ok h
  | ExecResult e => do_exec_result s e
  | NextBlock => ROk (set_fxh s (fxh s + 1), [])
  | SetParams p => if params_ok p then
                     ROk (set_prm s {| p_batch_timeout := p_batch_timeout p; p_avg_block := p_avg_block p; p_avg_ext := p_avg_ext p;
                                        p_call_timeout := p_call_timeout p; p_max_elems := p_max_elems (prm s) |}, [])
                   else RErr
  (* keeper/migrations.go Migrator.Migrate (run by the v8 upgrade for every crosschain module): rewrites the parameters
     BridgeCallTimeout := DefBridgeCallTimeout, BridgeCallMaxGasLimit, the two pending flags — through SetParams — and
     touches nothing else *)
  | Migrate =>
      let p := {| p_batch_timeout := p_batch_timeout (prm s); p_avg_block := p_avg_block (prm s); p_avg_ext := p_avg_ext (prm s);
                  p_call_timeout := 604800000; p_max_elems := p_max_elems (prm s) |} in
      if params_ok p then ROk (set_prm s p, []) else RErr
  end.

(* a failed or panicking transaction leaves no trace (cache branch discarded) *)
Definition step (s : state) (o : op) : state * list event * res :=
  match exec s o with
  | ROk (s', evs) => (s', evs, Ok)
  | RErr => (s, [], Err)
  | RPanic => (s, [], Panic)
  end.

Definition step_state (s : state) (o : op) : state := fst (fst (step s o)).
Definition run (s : state) (ops : list op) : state := fold_left step_state ops s.

Definition init (p : params) (ts : list (Z * tkind)) (l : ledger) (h0 : Z) : state :=
  {| pool := []; batches := []; by_block := []; next_tx := 1; next_batch := 1; next_call := 1;
     calls := []; by_sender := []; from_msg := []; pending := []; evn := 0; obs_ext := 0; obs_fx := 0;
     fxh := h0; bal := l; prm := p; toks := ts; relation := [] |}.

(* ---------- genesis export + import of the module (keeper/genesis.go ExportGenesis, InitGenesis) ----------
   Exported: params, last observed event nonce / heights, unbatched transfers, batches (StoreBatch rebuilds the block
   index), oracles, attestations, ...  NOT exported: the three sequence counters 0x25..., the outgoing bridge calls with
   their indexes, the parked claims. Not an [op]: the theorems about [reachable] are about a running chain. *)
Definition export_import (s : state) : state :=
  {| pool := pool s; batches := batches s; by_block := by_block s; next_tx := 1; next_batch := 1; next_call := 1;
     calls := []; by_sender := []; from_msg := []; pending := []; evn := evn s; obs_ext := obs_ext s; obs_fx := obs_fx s;
     fxh := fxh s; bal := bal s; prm := prm s; toks := toks s; relation := relation s |}.

(* the same with the counters re-derived from the imported records (smallest patch that avoids collisions with live records) *)
Definition max_of (l : list Z) : Z := fold_right Z.max 0 l.
Definition export_import_patched (s : state) : state :=
  let s1 := export_import s in
  set_next_batch (set_next_tx s1 (1 + max_of (map tx_id (pool s ++ flat_map b_txs (batches s))))) (1 + max_of (map b_nonce (batches s))).
