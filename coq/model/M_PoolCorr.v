(* glue for the correspondence files Cases_C05.v / Cases_C06.v written by harness/c05:
   one case = one history on the real app: the initial configuration, and per step the operation and
   what the real stores / balances / events looked like after it. *)
From Coq Require Import ZArith List Bool.
From FxV Require Import gen.Gen_TimeoutRules model.M_Pool.
Import ListNotations.
Open Scope Z_scope.

(* operations of a history: the model's operations, plus the genesis round trip of the module *)
Inductive xop := XO (o : op) | XExportImport.
Definition xstep (s : state) (x : xop) : state * list event * res :=
  match x with XO o => step s o | XExportImport => (export_import s, [], Ok) end.

Record obs := {
  o_ok : bool;
  o_pool : list tx;
  o_batches : list batch;
  o_byblock : list (Z * (Z * Z));
  o_ctr : Z * Z * Z;
  o_calls : list bcall;
  o_bysender : list (Z * Z);          (* descending nonce *)
  o_frommsg : list Z;                 (* descending *)
  o_pending : list (Z * (Z * bool));  (* descending event nonce *)
  o_heights : Z * Z * Z;              (* last event nonce, observed external height, fx height at observation *)
  o_bals : list Z;
  o_relation : list Z;                (* ids with an erc20 outgoing relation, descending *)
  o_events : list (Z * Z)             (* 1 = send_to_external_canceled id, 2 = outgoing_batch_canceled nonce, 3 = bridge_call_refund address *)
}.

Record pool_case := {
  pc_prm : params; pc_toks : list (Z * tkind); pc_keys : list acct_key; pc_bal0 : list Z; pc_h0 : Z;
  pc_steps : list (xop * obs)
}.

Definition mk_obs ok p b bb c1 c2 c3 cs bs fm pd e x f bl rl ev : obs :=
  {| o_ok := ok; o_pool := p; o_batches := b; o_byblock := bb; o_ctr := (c1, c2, c3); o_calls := cs; o_bysender := bs;
     o_frommsg := fm; o_pending := pd; o_heights := (e, x, f); o_bals := bl; o_relation := rl; o_events := ev |}.
Definition T := mk_tx.
Definition B n t txs tok fr blk : batch := {| b_nonce := n; b_timeout := t; b_txs := txs; b_token := tok; b_feercv := fr; b_block := blk |}.
Definition C n t blk s r toks to d m e : bcall :=
  {| c_nonce := n; c_timeout := t; c_block := blk; c_sender := s; c_refund := r; c_tokens := toks; c_to := to; c_data := d; c_memo := m; c_evnonce := e |}.
Definition P bt ab ae ct mx : params := {| p_batch_timeout := bt; p_avg_block := ab; p_avg_ext := ae; p_call_timeout := ct; p_max_elems := mx |}.
Definition mk_pool_case p ts keys b0 h0 steps : pool_case :=
  {| pc_prm := p; pc_toks := ts; pc_keys := keys; pc_bal0 := b0; pc_h0 := h0; pc_steps := steps |}.

Fixpoint list_eqb {A} (f : A -> A -> bool) (a b : list A) : bool :=
  match a, b with
  | [], [] => true
  | x :: r, y :: s => f x y && list_eqb f r s
  | _, _ => false
  end.
Definition pairZ_eqb (a b : Z * Z) := (fst a =? fst b) && (snd a =? snd b).
Definition tx_eqb (a b : tx) : bool :=
  (tx_id a =? tx_id b) && (tx_sender a =? tx_sender b) && (tx_dest a =? tx_dest b) && (tx_token a =? tx_token b)
  && (tx_amount a =? tx_amount b) && (tx_fee a =? tx_fee b).
Definition batch_eqb (a b : batch) : bool :=
  (b_nonce a =? b_nonce b) && (b_timeout a =? b_timeout b) && list_eqb tx_eqb (b_txs a) (b_txs b)
  && (b_token a =? b_token b) && (b_feercv a =? b_feercv b) && (b_block a =? b_block b).
Definition bcall_eqb (a b : bcall) : bool :=
  (c_nonce a =? c_nonce b) && (c_timeout a =? c_timeout b) && (c_block a =? c_block b) && (c_sender a =? c_sender b)
  && (c_refund a =? c_refund b) && list_eqb pairZ_eqb (c_tokens a) (c_tokens b) && (c_to a =? c_to b)
  && list_eqb Z.eqb (c_data a) (c_data b) && list_eqb Z.eqb (c_memo a) (c_memo b) && (c_evnonce a =? c_evnonce b).
Definition byblock_eqb (a b : Z * (Z * Z)) := (fst a =? fst b) && pairZ_eqb (snd a) (snd b).
Definition pending_eqb (a b : Z * (Z * bool)) := (fst a =? fst b) && (fst (snd a) =? fst (snd b)) && Bool.eqb (snd (snd a)) (snd (snd b)).

Definition ev_proj (e : event) : list (Z * Z) :=
  match e with
  | EvTxRefund id _ _ _ => [(1, id)]
  | EvBatchCanceled _ n _ => [(2, n)]
  | EvCallRefund _ r _ _ => [(3, r)]
  | _ => []
  end.

(* the erc20 relation is a key set in the store: compare it as a set (descending, without duplicates); the order and
   multiplicity of the model's list only differ from that after a genesis round trip has restarted the id counter (C05-2) *)
Fixpoint ins_desc (x : Z) (l : list Z) : list Z :=
  match l with
  | [] => [x]
  | y :: r => if y <? x then x :: l else if y =? x then l else y :: ins_desc x r
  end.
Definition as_set_desc (l : list Z) : list Z := fold_right ins_desc [] l.

(* which projections differ (empty = the model agrees with the implementation on this step) *)
Definition step_diff (keys : list acct_key) (s' : state) (evs : list event) (r : res) (ob : obs) : list Z :=
  (if Bool.eqb (match r with Ok => true | _ => false end) (o_ok ob) then [] else [0])
  ++ (if list_eqb tx_eqb (pool s') (o_pool ob) then [] else [1])
  ++ (if list_eqb batch_eqb (batches s') (o_batches ob) then [] else [2])
  ++ (if list_eqb byblock_eqb (by_block s') (o_byblock ob) then [] else [3])
  ++ (let '(a, b, c) := o_ctr ob in if (next_tx s' =? a) && (next_batch s' =? b) && (next_call s' =? c) then [] else [4])
  ++ (if list_eqb bcall_eqb (calls s') (o_calls ob) then [] else [5])
  ++ (if list_eqb pairZ_eqb (by_sender s') (o_bysender ob) then [] else [6])
  ++ (if list_eqb Z.eqb (from_msg s') (o_frommsg ob) then [] else [7])
  ++ (if list_eqb pending_eqb (pending s') (o_pending ob) then [] else [8])
  ++ (let '(a, b, c) := o_heights ob in if (evn s' =? a) && (obs_ext s' =? b) && (obs_fx s' =? c) then [] else [9])
  ++ (if list_eqb Z.eqb (map (get_bal (bal s')) keys) (o_bals ob) then [] else [10])
  ++ (if list_eqb pairZ_eqb (flat_map ev_proj evs) (o_events ob) then [] else [11])
  ++ (if list_eqb Z.eqb (as_set_desc (relation s')) (o_relation ob) then [] else [12]).

Fixpoint steps_diag (keys : list acct_key) (i : Z) (s : state) (steps : list (xop * obs)) : list (Z * list Z) :=
  match steps with
  | [] => []
  | (o, ob) :: r =>
      let '(s', evs, rs) := xstep s o in
      match step_diff keys s' evs rs ob with
      | [] => steps_diag keys (i + 1) s' r
      | d => [(i, d)]
      end
  end.

Definition case_init (c : pool_case) : state :=
  init (pc_prm c) (pc_toks c) (combine (pc_keys c) (pc_bal0 c)) (pc_h0 c).

(* first diverging step and the differing projections *)
Definition pool_diag (c : pool_case) : list (Z * list Z) := steps_diag (pc_keys c) 0 (case_init c) (pc_steps c).
Definition pool_mismatch (c : pool_case) : bool := match pool_diag c with [] => false | _ => true end.
