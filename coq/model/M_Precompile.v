(* M_Precompile — C10: who a precompile call acts for, and in which call contexts it may act.

   Transcribed from
     go-ethereum fork core/vm/evm.go        Call / CallCode / DelegateCall / StaticCall -> RunPrecompiledContract(p, caller,
                                            input, gas, value, readOnly): the literal flags are READ FROM THE SOURCE by
                                            harness/gen_c09 (Gen_Precompiles.evm_sites); caller = the executing context
     x/{staking,crosschain}/precompile/contract.go   Run: input length, lookup, readonly guard, governance switch, dispatch
                                            (order read from the source: Gen_Precompiles.*_run_guards)
     x/gov/keeper/keeper.go                 CheckContractAddressIsDisabled (case folding included)
     x/staking/precompile/*.go, x/crosschain/precompile/*.go   the methods; IsReadonly per method comes from the generated table
     x/crosschain/keeper/outgoing_pool.go, batch_fee.go        sender check of cancel; fee increase open to anybody

   State is the part of the chain a caller could take value from: balances, delegations, reward entitlements, share
   allowances, unbonding queues, outgoing pool entries, outgoing bridge calls. One share = one token (validators are
   not slashed in the harness; stated in the trusted base). An error returns the state unchanged: that is property C09.
   No proofs in this file. *)
From Coq Require Import ZArith List Bool String Ascii.
From FxV Require Import gen.Gen_Precompiles.
Import ListNotations.
Open Scope Z_scope.

Definition acct := Z.
Definition valid := Z.

(* a pending claim, as far as executeClaim is modelled: an inbound deposit of FX, or the (successful) result of an
   outgoing bridge call. Anybody may execute a pending claim: it carries the authority of the oracle quorum that
   attested it, not of the caller. *)
Inductive pclaim :=
| PSendToFx (receiver : acct) (amt : Z)
| PResultOk (bcnonce : Z).

Record pst := mkp {
  bal : acct -> Z;                          (* FX *)
  dlg : acct -> valid -> Z;                 (* shares *)
  rwd : acct -> valid -> Z;                 (* withdrawable reward, integer part *)
  wdr : acct -> acct;                       (* withdraw address *)
  alw : valid -> acct -> acct -> Z;         (* validator, owner, spender *)
  unb : acct -> valid -> Z;                 (* queued in unbonding entries *)
  rrd : acct -> valid -> bool;              (* has a receiving redelegation at the validator *)
  isval : valid -> bool;
  pool : Z -> option (acct * Z * Z * bool);  (* tx id -> sender, amount, fee, paid in the ERC-20 (true) or in FX (false) *)
  next_tx : Z;
  bcalls : Z -> option (acct * acct * Z * Z); (* nonce -> sender, refund address, FX amount, ERC-20 amount *)
  next_bc : Z;
  xready : bool;                            (* FX has a bridge token on the target chain and an external height was observed *)
  switch : list string;                     (* SwitchParams.DisablePrecompiles *)
  tok : acct -> Z;                          (* balance of a registered (module-owned) ERC-20 *)
  tka : acct -> Z;                          (* ERC-20 allowance the account gave the crosschain precompile address *)
  claims : Z -> option pclaim               (* pending (attested, not yet executed) claims by event nonce *)
}.

Definition set_bal s f := mkp f (dlg s) (rwd s) (wdr s) (alw s) (unb s) (rrd s) (isval s) (pool s) (next_tx s) (bcalls s) (next_bc s) (xready s) (switch s) (tok s) (tka s) (claims s).
Definition set_dlg s f := mkp (bal s) f (rwd s) (wdr s) (alw s) (unb s) (rrd s) (isval s) (pool s) (next_tx s) (bcalls s) (next_bc s) (xready s) (switch s) (tok s) (tka s) (claims s).
Definition set_rwd s f := mkp (bal s) (dlg s) f (wdr s) (alw s) (unb s) (rrd s) (isval s) (pool s) (next_tx s) (bcalls s) (next_bc s) (xready s) (switch s) (tok s) (tka s) (claims s).
Definition set_alw s f := mkp (bal s) (dlg s) (rwd s) (wdr s) f (unb s) (rrd s) (isval s) (pool s) (next_tx s) (bcalls s) (next_bc s) (xready s) (switch s) (tok s) (tka s) (claims s).
Definition set_unb s f := mkp (bal s) (dlg s) (rwd s) (wdr s) (alw s) f (rrd s) (isval s) (pool s) (next_tx s) (bcalls s) (next_bc s) (xready s) (switch s) (tok s) (tka s) (claims s).
Definition set_rrd s f := mkp (bal s) (dlg s) (rwd s) (wdr s) (alw s) (unb s) f (isval s) (pool s) (next_tx s) (bcalls s) (next_bc s) (xready s) (switch s) (tok s) (tka s) (claims s).
Definition set_pool s f n := mkp (bal s) (dlg s) (rwd s) (wdr s) (alw s) (unb s) (rrd s) (isval s) f n (bcalls s) (next_bc s) (xready s) (switch s) (tok s) (tka s) (claims s).
Definition set_bcalls s f n := mkp (bal s) (dlg s) (rwd s) (wdr s) (alw s) (unb s) (rrd s) (isval s) (pool s) (next_tx s) f n (xready s) (switch s) (tok s) (tka s) (claims s).

Definition set_tok s f := mkp (bal s) (dlg s) (rwd s) (wdr s) (alw s) (unb s) (rrd s) (isval s) (pool s) (next_tx s) (bcalls s) (next_bc s) (xready s) (switch s) f (tka s) (claims s).
Definition set_tka s f := mkp (bal s) (dlg s) (rwd s) (wdr s) (alw s) (unb s) (rrd s) (isval s) (pool s) (next_tx s) (bcalls s) (next_bc s) (xready s) (switch s) (tok s) f (claims s).
Definition set_claims s f := mkp (bal s) (dlg s) (rwd s) (wdr s) (alw s) (unb s) (rrd s) (isval s) (pool s) (next_tx s) (bcalls s) (next_bc s) (xready s) (switch s) (tok s) (tka s) f.

Definition up1 {A} (f : Z -> A) (a : Z) (v : A) : Z -> A := fun x => if Z.eqb x a then v else f x.
Definition up2 {A} (f : Z -> Z -> A) (a b : Z) (v : A) : Z -> Z -> A :=
  fun x y => if Z.eqb x a && Z.eqb y b then v else f x y.
Definition up3 {A} (f : Z -> Z -> Z -> A) (a b c : Z) (v : A) : Z -> Z -> Z -> A :=
  fun x y z => if Z.eqb x a && Z.eqb y b && Z.eqb z c then v else f x y z.

Definition pay (s : pst) (a : acct) (x : Z) : pst := set_bal s (up1 (bal s) a (bal s a + x)).
Definition payt (s : pst) (a : acct) (x : Z) : pst := set_tok s (up1 (tok s) a (tok s a + x)).
(* ERC-20 transferFrom(owner -> erc20 module) by the crosschain precompile: needs and consumes the owner's allowance *)
Definition take_tok (s : pst) (a : acct) (x : Z) : option pst :=
  if (tka s a <? x) || (tok s a <? x) then None
  else let s1 := payt s a (- x) in Some (set_tka s1 (up1 (tka s1) a (tka s1 a - x))).

Inductive res := Ok (s : pst) | Err.

(* ---- calls ---- *)

Inductive call :=
| CAllowanceShares (v : valid) (o sp : acct)
| CDelegation (v : valid) (d : acct)
| CDelegationRewards (v : valid) (d : acct)
| CApproveShares (v : valid) (sp : acct) (sh : Z)
| CTransferShares (v : valid) (to : acct) (sh : Z)
| CTransferFromShares (v : valid) (from to : acct) (sh : Z)
| CWithdraw (v : valid)
| CDelegateV2 (v : valid) (amt : Z)
| CRedelegateV2 (vs vd : valid) (amt : Z)
| CUndelegateV2 (v : valid) (amt : Z)
| CSlashingInfo (v : valid)
| CValidatorList
| CBridgeCoinAmount
| CHasOracle
| CIsOracleOnline
| CCancelSendToExternal (txid : Z)
| CIncreaseBridgeFee (txid fee : Z)
| CCrossChain (amt fee : Z)                 (* the FX path: token = zero address, paid with msg.value *)
| CBridgeCall (refund : acct)               (* no ERC-20 tokens; msg.value is what is bridged *)
| CCrossChainTok (amt fee : Z)              (* the ERC-20 path: transferFrom(caller) by the precompile *)
| CIncreaseBridgeFeeTok (txid fee : Z)      (* fee paid in the ERC-20 *)
| CBridgeCallTok (refund : acct) (tamt : Z) (* one ERC-20 token; ConvertERC20{Sender: caller}, no allowance involved *)
| CExecuteClaim (nonce : Z)
| CUnknownMethod
| CShortInput.

Definition call_name (c : call) : string :=
  match c with
  | CAllowanceShares _ _ _ => "allowanceShares" | CDelegation _ _ => "delegation"
  | CDelegationRewards _ _ => "delegationRewards" | CApproveShares _ _ _ => "approveShares"
  | CTransferShares _ _ _ => "transferShares" | CTransferFromShares _ _ _ _ => "transferFromShares"
  | CWithdraw _ => "withdraw" | CDelegateV2 _ _ => "delegateV2" | CRedelegateV2 _ _ _ => "redelegateV2"
  | CUndelegateV2 _ _ => "undelegateV2" | CSlashingInfo _ => "slashingInfo" | CValidatorList => "validatorList"
  | CBridgeCoinAmount => "bridgeCoinAmount" | CHasOracle => "hasOracle" | CIsOracleOnline => "isOracleOnline"
  | CCancelSendToExternal _ => "cancelSendToExternal" | CIncreaseBridgeFee _ _ => "increaseBridgeFee"
  | CCrossChain _ _ => "crossChain" | CBridgeCall _ => "bridgeCall" | CExecuteClaim _ => "executeClaim"
  | CCrossChainTok _ _ => "crossChain" | CIncreaseBridgeFeeTok _ _ => "increaseBridgeFee" | CBridgeCallTok _ _ => "bridgeCall"
  | CUnknownMethod => "" | CShortInput => ""
  end%string.

Definition call_contract (c : call) : pc_contract :=
  match c with
  | CBridgeCoinAmount | CHasOracle | CIsOracleOnline | CCancelSendToExternal _ | CIncreaseBridgeFee _ _
  | CCrossChain _ _ | CBridgeCall _ | CExecuteClaim _
  | CCrossChainTok _ _ | CIncreaseBridgeFeeTok _ _ | CBridgeCallTok _ _ => PCrosschain
  | _ => PStaking
  end.

Definition contract_eqb (a b : pc_contract) : bool :=
  match a, b with PStaking, PStaking | PCrosschain, PCrosschain => true | _, _ => false end.

(* the generated method table decides what exists and what is read-only *)
Definition find_method (tbl : list pmethod) (c : call) : option pmethod :=
  find (fun m => contract_eqb (pm_contract m) (call_contract c) && String.eqb (pm_name m) (call_name c)) tbl.

(* ---- governance switch: CheckContractAddressIsDisabled ---- *)

Definition lower_ascii (a : ascii) : ascii :=
  let n := nat_of_ascii a in
  if (Nat.leb 65 n && Nat.leb n 90)%bool then ascii_of_nat (n + 32) else a.
Fixpoint lower (s : string) : string :=
  match s with EmptyString => EmptyString | String a r => String (lower_ascii a) (lower r) end.

(* addr = strings.ToLower(addr.String()), mid = hex.EncodeToString(methodId) *)
Definition is_disabled (entries : list string) (addr mid : string) : bool :=
  match entries with
  | [] => false
  | _ => existsb (fun e => let l := lower e in
                           String.eqb l addr || String.eqb l (addr ++ "/" ++ mid)%string) entries
  end.

Definition contract_addr (c : pc_contract) : string :=
  match c with
  | PStaking => "0x0000000000000000000000000000000000001003"
  | PCrosschain => "0x0000000000000000000000000000000000001004"
  end%string.

(* ---- the methods (caller = contract.Caller(), value = contract.Value()) ---- *)

(* distribution: WithdrawDelegatorReward *)
Definition withdraw_rewards (s : pst) (d : acct) (v : valid) : pst :=
  let r := rwd s d v in
  set_rwd (pay s (wdr s d) r) (up2 (rwd s) d v 0).

Definition transfer_shares (s : pst) (v : valid) (from to : acct) (sh : Z) : res :=
  if Z.eqb from to then Err                               (* "cannot transfer shares to the same address" *)
  else if negb (isval s v) then Err
  else if dlg s from v <=? 0 then Err                     (* GetDelegation(from): no delegation *)
  else if rrd s from v then Err                           (* from has receiving redelegation *)
  else if dlg s from v <? sh then Err                     (* insufficient shares *)
  else
    let s1 := withdraw_rewards s from v in
    let to_found := 0 <? dlg s1 to v in
    let d_to := dlg s1 to v in
    let s2 := if to_found then withdraw_rewards s1 to v else s1 in
    let s3 := set_dlg s2 (up2 (dlg s2) from v (dlg s2 from v - sh)) in
    Ok (set_dlg s3 (up2 (dlg s3) to v (d_to + sh))).

Definition method_run (caller : acct) (value : Z) (c : call) (s : pst) : res :=
  match c with
  | CAllowanceShares _ _ _ | CDelegation _ _ | CSlashingInfo _ | CValidatorList
  | CBridgeCoinAmount | CHasOracle | CIsOracleOnline => Ok s
  | CDelegationRewards _ _ => Ok s
  | CApproveShares v sp sh =>
      if sh <? 0 then Err else Ok (set_alw s (up3 (alw s) v caller sp sh))
  | CTransferShares v to sh =>
      if sh <=? 0 then Err else transfer_shares s v caller to sh
  | CTransferFromShares v from to sh =>
      if sh <=? 0 then Err
      else if alw s v from caller <? sh then Err           (* decrementAllowance *)
      else transfer_shares (set_alw s (up3 (alw s) v from caller (alw s v from caller - sh))) v from to sh
  | CWithdraw v =>
      if negb (isval s v) then Err
      else if dlg s caller v <=? 0 then Err
      else Ok (withdraw_rewards s caller v)
  | CDelegateV2 v amt =>
      if amt <=? 0 then Err
      else if negb (isval s v) then Err
      else if bal s caller <? amt then Err
      else
        let s1 := if 0 <? dlg s caller v then withdraw_rewards s caller v else s in
        let s2 := pay s1 caller (- amt) in
        Ok (set_dlg s2 (up2 (dlg s2) caller v (dlg s2 caller v + amt)))
  | CUndelegateV2 v amt =>
      if amt <=? 0 then Err
      else if negb (isval s v) then Err
      else if dlg s caller v <? amt then Err
      else if dlg s caller v <=? 0 then Err
      else
        let s1 := withdraw_rewards s caller v in
        let s2 := set_dlg s1 (up2 (dlg s1) caller v (dlg s1 caller v - amt)) in
        Ok (set_unb s2 (up2 (unb s2) caller v (unb s2 caller v + amt)))
  | CRedelegateV2 vs vd amt =>
      if amt <=? 0 then Err
      else if negb (isval s vs) || negb (isval s vd) then Err
      else if Z.eqb vs vd then Err
      else if dlg s caller vs <? amt then Err
      else if dlg s caller vs <=? 0 then Err
      else if rrd s caller vs then Err                     (* transitive redelegation *)
      else
        let s1 := withdraw_rewards s caller vs in
        let s2 := if 0 <? dlg s1 caller vd then withdraw_rewards s1 caller vd else s1 in
        let s3 := set_dlg s2 (up2 (dlg s2) caller vs (dlg s2 caller vs - amt)) in
        let s4 := set_dlg s3 (up2 (dlg s3) caller vd (dlg s3 caller vd + amt)) in
        Ok (set_rrd s4 (up2 (rrd s4) caller vd true))
  | CCrossChain amt fee =>
      if (amt <=? 0) || (fee <? 0) then Err
      else if negb (xready s) then Err
      else if value <=? 0 then Err                         (* token 0x0 without value: no such token pair *)
      else if negb (Z.eqb (amt + fee) value) then Err
      else
        (* the EVM moved value caller -> precompile; handlerOriginToken hands it back; the pool takes amount+fee *)
        let s1 := pay s caller (- value) in
        Ok (set_pool s1 (up1 (pool s1) (next_tx s1 + 1) (Some (caller, amt, fee, false))) (next_tx s1 + 1))
  | CCrossChainTok amt fee =>
      if (amt <=? 0) || (fee <? 0) then Err
      else if negb (xready s) then Err
      else match take_tok s caller (amt + fee) with        (* handlerERC20Token: transferFrom(sender = caller) *)
           | None => Err
           | Some s1 =>
               let s2 := pay s1 caller (- value) in        (* a msg.value sent along stays with the precompile *)
               Ok (set_pool s2 (up1 (pool s2) (next_tx s2 + 1) (Some (caller, amt, fee, true))) (next_tx s2 + 1))
           end
  | CIncreaseBridgeFee txid fee =>
      if (txid <=? 0) || (fee <=? 0) then Err
      else if negb (xready s) then Err
      else if value <=? 0 then Err
      else if negb (Z.eqb fee value) then Err
      else match pool s txid with
           | Some (snd_, a, f, false) =>
               let s1 := pay s caller (- value) in
               Ok (set_pool s1 (up1 (pool s1) txid (Some (snd_, a, f + fee, false))) (next_tx s1))
           | _ => Err                                       (* missing, or its fee token is the ERC-20 *)
           end
  | CIncreaseBridgeFeeTok txid fee =>
      if (txid <=? 0) || (fee <=? 0) then Err
      else if negb (xready s) then Err
      else match take_tok s caller fee with
           | None => Err
           | Some s1 =>
               match pool s1 txid with
               | Some (snd_, a, f, true) =>
                   let s2 := pay s1 caller (- value) in
                   Ok (set_pool s2 (up1 (pool s2) txid (Some (snd_, a, f + fee, true))) (next_tx s2))
               | _ => Err
               end
           end
  | CCancelSendToExternal txid =>
      if txid <=? 0 then Err
      else match pool s txid with
           | None => Err
           | Some (snd_, a, f, tk) =>
               if negb (Z.eqb snd_ caller) then Err        (* "Sender %s did not send Id %d" *)
               else
                 let s1 := if tk then payt s caller (a + f) else pay s caller (a + f) in
                 Ok (set_pool s1 (up1 (pool s1) txid None) (next_tx s1))
           end
  | CBridgeCall refund =>
      if negb (xready s) then Err
      else
        let s1 := pay s caller (- value) in
        Ok (set_bcalls s1 (up1 (bcalls s1) (next_bc s1 + 1) (Some (caller, refund, value, 0))) (next_bc s1 + 1))
  | CBridgeCallTok refund tamt =>
      if negb (xready s) then Err
      else if tamt <=? 0 then Err                           (* ConvertERC20 refuses a non-positive amount *)
      else if tok s caller <? tamt then Err                 (* burn from the holder = the caller; nobody else's tokens are named *)
      else
        let s1 := payt (pay s caller (- value)) caller (- tamt) in
        Ok (set_bcalls s1 (up1 (bcalls s1) (next_bc s1 + 1) (Some (caller, refund, value, tamt))) (next_bc s1 + 1))
  | CExecuteClaim nonce =>
      if nonce <=? 0 then Err
      else match claims s nonce with
           | None => Err                                    (* "claim not found" *)
           | Some (PSendToFx r amt) =>
               let s1 := pay s r amt in                     (* the attested deposit is credited to ITS receiver *)
               Ok (set_claims s1 (up1 (claims s1) nonce None))
           | Some (PResultOk n) =>
               match bcalls s n with
               | None => Err                                (* the keeper panics: the transaction is aborted *)
               | Some _ =>
                   (* the attested result closes the outgoing call's record, whoever submits the execution *)
                   let s1 := set_bcalls s (up1 (bcalls s) n None) (next_bc s) in
                   Ok (set_claims s1 (up1 (claims s1) nonce None))
               end
           end
  | CUnknownMethod | CShortInput => Err
  end.

(* ---- Contract.Run, with the guard order found in the source ---- *)

Definition run_guard (tbl : list pmethod) (g : guard) (readonly : bool) (c : call) (s : pst) : bool (* passes *) :=
  match g with
  | GInputLen => match c with CShortInput => false | _ => true end
  | GLookup => match find_method tbl c with Some _ => true | None => false end
  | GReadonly => match find_method tbl c with
                 | Some m => negb (readonly && negb (pm_readonly m))
                 | None => true end
  | GDisabled => negb (is_disabled (switch s) (contract_addr (call_contract c))
                                   (match find_method tbl c with Some m => pm_selector m | None => EmptyString end))
  | GDispatch => true
  end.

Fixpoint contract_run (tbl : list pmethod) (gs : list guard) (readonly : bool) (caller : acct) (value : Z)
         (c : call) (s : pst) : res :=
  match gs with
  | [] => Err                                    (* a Run without dispatch never succeeds *)
  | GDispatch :: _ => method_run caller value c s
  | g :: r => if run_guard tbl g readonly c s then contract_run tbl r readonly caller value c s else Err
  end.

Definition guards_of (c : pc_contract) : list guard :=
  match c with PStaking => staking_run_guards | PCrosschain => crosschain_run_guards end.

(* ---- the EVM entry points ---- *)

Definition flag_of (s : string) : option bool :=
  if String.eqb s "true" then Some true else if String.eqb s "false" then Some false else None.

(* readOnly handed to the precompile for an opcode, as written in the geth fork *)
Definition evm_readonly (sites : list (callkind * string * string * string)) (k : callkind) : option bool :=
  match find (fun x => match fst (fst (fst x)), k with
                       | CALL, CALL | CALLCODE, CALLCODE | DELEGATECALL, DELEGATECALL | STATICCALL, STATICCALL => true
                       | _, _ => false end) sites with
  | Some x => flag_of (snd x)
  | None => None
  end.

(* A call of `kind` from code executing in context `caller` (an externally owned account calls with CALL),
   `in_static` = the interpreter is inside a STATICCALL, value = the value operand (CALL, CALLCODE).
   None = the fork's source is not of the shape the model understands. *)
Definition precompile_entry (tbl : list pmethod) (sites : list (callkind * string * string * string))
           (k : callkind) (in_static : bool) (caller : acct) (value : Z) (c : call) (s : pst) : option res :=
  match evm_readonly sites k with
  | None => None
  | Some ro =>
      Some (
        (* opCall: a value-bearing CALL inside a static context is refused by the interpreter *)
        if (match k with CALL => in_static && (0 <? value) | _ => false end) then Err
        (* CanTransfer *)
        else if (match k with CALL | CALLCODE => bal s caller <? value | _ => false end) then Err
        else
          let v := match k with CALL | CALLCODE => value | _ => 0 end in
          contract_run tbl (guards_of (call_contract c)) ro caller v c s)
  end.

Definition entry := precompile_entry methods evm_sites.

(* ---- what must not get worse for an account that is not the caller ---- *)

Definition pool_kept (s s' : pst) (a : acct) : Prop :=
  forall id amt fee tk, pool s id = Some (a, amt, fee, tk) ->
  exists fee', pool s' id = Some (a, amt, fee', tk) /\ fee <= fee'.
(* an outgoing bridge call stays as it is, unless the oracle quorum attested its result and that claim is executed *)
Definition bcalls_kept (c : call) (s s' : pst) (a : acct) : Prop :=
  forall n r x t, bcalls s n = Some (a, r, x, t) ->
  bcalls s' n = Some (a, r, x, t) \/
  exists nonce, c = CExecuteClaim nonce /\ claims s nonce = Some (PResultOk n).

(* examples *)
Definition z2 {A} (d : A) : Z -> Z -> A := fun _ _ => d.
Definition ex_state : pst :=
  mkp (fun a => 1000) (fun a v => if Z.eqb a 1 then 100 else 0) (fun a v => if Z.eqb a 1 then 7 else 0) (fun a => a)
      (fun v o sp => if Z.eqb o 1 && Z.eqb sp 0 then 30 else 0) (z2 0) (z2 false) (fun v => Z.ltb v 2)
      (fun id => if Z.eqb id 1 then Some (1, 50, 5, false) else None) 1
      (fun n => if Z.eqb n 1 then Some (1, 1, 40, 0) else None) 1 true []
      (fun a => 500) (fun a => if Z.eqb a 1 then 300 else 0)
      (fun n => if Z.eqb n 7 then Some (PSendToFx 2 90) else if Z.eqb n 8 then Some (PResultOk 1) else None).
