(* glue for Cases_C10.v written by harness/c09 (VERIF_PROP=C10): abstract state before the precompile is entered,
   the call, and what the real EVM + precompile left behind *)
From Coq Require Import ZArith List Bool.
From Coq Require Export String.
From FxV Require Import gen.Gen_Precompiles model.M_Precompile.
Import ListNotations.
Open Scope Z_scope.

Record astate := mk_astate {
  a_bal : list (Z * Z);
  a_dlg : list ((Z * Z) * Z);
  a_rwd : list ((Z * Z) * Z);
  a_unb : list ((Z * Z) * Z);
  a_rrd : list (Z * Z);
  a_alw : list ((Z * Z * Z) * Z);           (* (validator, owner, spender) *)
  a_pool : list (Z * (Z * Z * Z * bool));   (* id -> (sender, amount, fee, paid in the ERC-20) *)
  a_lasttx : Z;
  a_bc : list (Z * (Z * Z * Z * Z));        (* nonce -> (sender, refund, FX amount, ERC-20 amount) *)
  a_lastbc : Z;
  a_switch : list string;
  a_wdr : list (Z * Z);                     (* withdraw addresses that differ from the delegator *)
  a_tok : list (Z * Z);
  a_tka : list (Z * Z);
  a_claims : list (Z * pclaim)
}.

Definition nacct : Z := 9.
Definition nval : Z := 2.

Fixpoint look1 {A} (d : A) (l : list (Z * A)) (k : Z) : A :=
  match l with [] => d | (k', v) :: r => if Z.eqb k k' then v else look1 d r k end.
Fixpoint look2 {A} (d : A) (l : list ((Z * Z) * A)) (a b : Z) : A :=
  match l with [] => d | ((a', b'), v) :: r => if Z.eqb a a' && Z.eqb b b' then v else look2 d r a b end.
Fixpoint look3 {A} (d : A) (l : list ((Z * Z * Z) * A)) (a b c : Z) : A :=
  match l with [] => d | ((a', b', c'), v) :: r => if Z.eqb a a' && Z.eqb b b' && Z.eqb c c' then v else look3 d r a b c end.

Definition to_pst (a : astate) : pst :=
  mkp (look1 0 (a_bal a)) (look2 0 (a_dlg a)) (look2 0 (a_rwd a))
      (fun x => match find (fun p => Z.eqb (fst p) x) (a_wdr a) with Some p => snd p | None => x end)
      (look3 0 (a_alw a)) (look2 0 (a_unb a))
      (fun x v => existsb (fun p => Z.eqb (fst p) x && Z.eqb (snd p) v) (a_rrd a))
      (fun v => (0 <=? v) && (v <? nval))
      (fun id => look1 None (map (fun p => (fst p, Some (snd p))) (a_pool a)) id) (a_lasttx a)
      (fun n => look1 None (map (fun p => (fst p, Some (snd p))) (a_bc a)) n) (a_lastbc a)
      true (a_switch a)
      (look1 0 (a_tok a)) (look1 0 (a_tka a))
      (fun n => look1 None (map (fun p => (fst p, Some (snd p))) (a_claims a)) n).

Record c10_case := mk_c10_case {
  c_kind : callkind; c_static : bool; c_caller : Z; c_value : Z; c_call : call;
  c_pre : astate; c_ok : bool; c_post : astate
}.

Fixpoint zrange (n : nat) (from : Z) : list Z :=
  match n with O => [] | S k => from :: zrange k (from + 1) end.
Definition accts := zrange 9 0.
Definition vals := zrange 2 0.

Definition optp_eqb (a b : option (Z * Z * Z * bool)) : bool :=
  match a, b with
  | None, None => true
  | Some (x, y, z, t), Some (x', y', z', t') => Z.eqb x x' && Z.eqb y y' && Z.eqb z z' && Bool.eqb t t'
  | _, _ => false
  end.
Definition optb_eqb (a b : option (Z * Z * Z * Z)) : bool :=
  match a, b with
  | None, None => true
  | Some (x, y, z, t), Some (x', y', z', t') => Z.eqb x x' && Z.eqb y y' && Z.eqb z z' && Z.eqb t t'
  | _, _ => false
  end.
Definition optc_eqb (a b : option pclaim) : bool :=
  match a, b with
  | None, None => true
  | Some (PSendToFx r x), Some (PSendToFx r' x') => Z.eqb r r' && Z.eqb x x'
  | Some (PResultOk n), Some (PResultOk n') => Z.eqb n n'
  | _, _ => false
  end.

Definition near (a b : Z) : bool := Z.leb (Z.abs (a - b)) 2.

(* model state s against observed state o on the tracked universe *)
Definition agree (s o : pst) (ids : list Z) : bool :=
  forallb (fun a => Z.eqb (bal s a) (bal o a) || (near (bal s a) (bal o a))) accts &&
  forallb (fun a => forallb (fun v => Z.eqb (dlg s a v) (dlg o a v) && near (rwd s a v) (rwd o a v) &&
                                      Z.eqb (unb s a v) (unb o a v) && Bool.eqb (rrd s a v) (rrd o a v)) vals) accts &&
  forallb (fun v => forallb (fun ow => forallb (fun sp => Z.eqb (alw s v ow sp) (alw o v ow sp)) accts) accts) vals &&
  forallb (fun id => optp_eqb (pool s id) (pool o id)) ids &&
  Z.eqb (next_tx s) (next_tx o) &&
  forallb (fun n => optb_eqb (bcalls s n) (bcalls o n)) ids &&
  Z.eqb (next_bc s) (next_bc o) &&
  forallb (fun a => Z.eqb (tok s a) (tok o a) && Z.eqb (tka s a) (tka o a) && Z.eqb (wdr s a) (wdr o a)) accts &&
  forallb (fun n => optc_eqb (claims s n) (claims o n)) (zrange 24 0).

Definition c10_mismatch (c : c10_case) : bool :=
  let pre := to_pst (c_pre c) in
  let post := to_pst (c_post c) in
  let ids := zrange 24 0 in
  match entry (c_kind c) (c_static c) (c_caller c) (c_value c) (c_call c) pre with
  | None => true
  | Some (Ok s') => negb (c_ok c && agree s' post ids)
  | Some Err => negb (negb (c_ok c) && agree pre post ids)
  end.
