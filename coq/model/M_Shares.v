(* M_Shares.v — executable model of the staking precompile's share operations
   (/repo/x/staking/precompile/{transfer_shares,approve_shares,delegate,undelegate,redelegate,withdraw}.go,
    /repo/x/staking/keeper/shares.go) together with the part of the SDK staking / distribution keepers
   they drive (cosmos-sdk v0.50.6 fork: x/staking/keeper/delegation.go, slash.go, types/validator.go;
   x/distribution/keeper/{delegation,validator,hooks}.go).  No proofs here.

   What is modelled, per validator:
     tokens, delegator shares, delegations (addr -> shares), and the F1 fee-distribution bookkeeping at the
     level `handlerTransferShares` edits by hand: ValidatorCurrentRewards.Period, the reference count of
     every ValidatorHistoricalRewards record, every DelegatorStartingInfo {previous period; stake; height},
     the (height, period) of every ValidatorSlashEvent.
   Globally: share allowances (validator, owner, spender), redelegation entries (delegator, src, dst),
   unbonding entries (delegator, validator, creation height), block height.

   NOT modelled - reward amounts: cumulative reward ratios, current/outstanding rewards, balances, the
   community pool, and therefore the sanity panics inside CalculateDelegationRewards.  Accounts are assumed
   to hold enough coins; validators stay bonded and unjailed; delegators are not validator operators.

   Conventions: accounts and validators are small integers; LegacyDec is its integer scaled by 10^18
   (lib/Dec.v); a missing store record reads as the Go zero value exactly where the keeper getters do that
   (GetDelegatorStartingInfo, GetValidatorHistoricalRewards), and as an error where they return one
   (GetDelegation, GetValidator).  Err = the call returns an error, Pan = Go panic; both leave the state
   untouched at the op level (ExecuteNativeAction / the tx cache branch discards the writes). *)
From Coq Require Import ZArith List Bool.
From FxV Require Import lib.Dec.
Import ListNotations.
Open Scope Z_scope.

(* ---------- LegacyDec operations missing from lib/Dec.v (math@v1.3.0/dec.go) ---------- *)
(* QuoTruncate: (a*10^36 quo b) quo 10^18 ; QuoInt: a quo n (big.Int.Quo truncates towards zero) *)
Definition dec_quo_trunc (a b : Z) : Z := Z.quot (Z.quot (a * (prec * prec)) b) prec.
Definition dec_quo_int (a n : Z) : Z := Z.quot a n.

(* ---------- results ---------- *)
Inductive res (A : Type) : Type := Ok (a : A) | Err | Pan.
Arguments Ok {A} a.
Arguments Err {A}.
Arguments Pan {A}.

Definition bind {A B} (r : res A) (f : A -> res B) : res B :=
  match r with Ok a => f a | Err => Err | Pan => Pan end.
Notation "x <- r ;; k" := (bind r (fun x => k)) (at level 61, r at next level, right associativity).

(* ---------- stores: association lists with ascending integer keys ---------- *)
Section KV.
  Context {A : Type}.
  Fixpoint kget (k : Z) (m : list (Z * A)) : option A :=
    match m with
    | [] => None
    | (k', a) :: r => if k =? k' then Some a else kget k r
    end.
  Fixpoint kset (k : Z) (a : A) (m : list (Z * A)) : list (Z * A) :=
    match m with
    | [] => [(k, a)]
    | (k', a') :: r =>
        if k <? k' then (k, a) :: m
        else if k =? k' then (k, a) :: r
        else (k', a') :: kset k a r
    end.
  Fixpoint kdel (k : Z) (m : list (Z * A)) : list (Z * A) :=
    match m with
    | [] => []
    | (k', a') :: r => if k =? k' then kdel k r else (k', a') :: kdel k r
    end.
  Definition khas (k : Z) (m : list (Z * A)) : bool :=
    match kget k m with Some _ => true | None => false end.
End KV.

(* ---------- state ---------- *)
Record sinfo := { si_prev : Z; si_stake : Z; si_height : Z }.
Definition sinfo_zero : sinfo := {| si_prev := 0; si_stake := 0; si_height := 0 |}.

Record vstate := {
  v_tokens : Z;                    (* Validator.Tokens *)
  v_shares : Z;                    (* Validator.DelegatorShares (Dec) *)
  v_dels : list (Z * Z);           (* Delegation.Shares by delegator (Dec) *)
  v_period : Z;                    (* ValidatorCurrentRewards.Period *)
  v_hist : list (Z * Z);           (* ValidatorHistoricalRewards.ReferenceCount by period *)
  v_start : list (Z * sinfo);      (* DelegatorStartingInfo by delegator *)
  v_slashes : list (Z * Z)         (* ValidatorSlashEvent keys: (height, period) *)
}.

Definition set_tokens (t : Z) (v : vstate) : vstate :=
  {| v_tokens := t; v_shares := v_shares v; v_dels := v_dels v; v_period := v_period v;
     v_hist := v_hist v; v_start := v_start v; v_slashes := v_slashes v |}.
Definition set_shares (s : Z) (v : vstate) : vstate :=
  {| v_tokens := v_tokens v; v_shares := s; v_dels := v_dels v; v_period := v_period v;
     v_hist := v_hist v; v_start := v_start v; v_slashes := v_slashes v |}.
Definition set_dels (d : list (Z * Z)) (v : vstate) : vstate :=
  {| v_tokens := v_tokens v; v_shares := v_shares v; v_dels := d; v_period := v_period v;
     v_hist := v_hist v; v_start := v_start v; v_slashes := v_slashes v |}.
Definition set_period (p : Z) (v : vstate) : vstate :=
  {| v_tokens := v_tokens v; v_shares := v_shares v; v_dels := v_dels v; v_period := p;
     v_hist := v_hist v; v_start := v_start v; v_slashes := v_slashes v |}.
Definition set_hist (hm : list (Z * Z)) (v : vstate) : vstate :=
  {| v_tokens := v_tokens v; v_shares := v_shares v; v_dels := v_dels v; v_period := v_period v;
     v_hist := hm; v_start := v_start v; v_slashes := v_slashes v |}.
Definition set_start (s : list (Z * sinfo)) (v : vstate) : vstate :=
  {| v_tokens := v_tokens v; v_shares := v_shares v; v_dels := v_dels v; v_period := v_period v;
     v_hist := v_hist v; v_start := s; v_slashes := v_slashes v |}.
Definition set_slashes (s : list (Z * Z)) (v : vstate) : vstate :=
  {| v_tokens := v_tokens v; v_shares := v_shares v; v_dels := v_dels v; v_period := v_period v;
     v_hist := v_hist v; v_start := v_start v; v_slashes := s |}.

Definition akey := (Z * Z * Z)%type.   (* validator, owner, spender *)
Definition akey_eqb (x y : akey) : bool :=
  let '(a, b, c) := x in let '(a', b', c') := y in (a =? a') && (b =? b') && (c =? c').

Record state := {
  s_vals : list vstate;
  s_allow : list (akey * Z);       (* x/staking AllowanceKey records *)
  s_reds : list (Z * Z * Z);       (* redelegation entries: (delegator, src, dst), one per entry *)
  s_ubds : list (Z * Z * Z);       (* unbonding entries: (delegator, validator, creation height) *)
  s_height : Z
}.

Definition set_vals (l : list vstate) (s : state) : state :=
  {| s_vals := l; s_allow := s_allow s; s_reds := s_reds s; s_ubds := s_ubds s; s_height := s_height s |}.
Definition set_allow (l : list (akey * Z)) (s : state) : state :=
  {| s_vals := s_vals s; s_allow := l; s_reds := s_reds s; s_ubds := s_ubds s; s_height := s_height s |}.
Definition set_reds (l : list (Z * Z * Z)) (s : state) : state :=
  {| s_vals := s_vals s; s_allow := s_allow s; s_reds := l; s_ubds := s_ubds s; s_height := s_height s |}.
Definition set_ubds (l : list (Z * Z * Z)) (s : state) : state :=
  {| s_vals := s_vals s; s_allow := s_allow s; s_reds := s_reds s; s_ubds := l; s_height := s_height s |}.
Definition set_height (h : Z) (s : state) : state :=
  {| s_vals := s_vals s; s_allow := s_allow s; s_reds := s_reds s; s_ubds := s_ubds s; s_height := h |}.

(* validators are addressed by index *)
Fixpoint vnth (i : nat) (l : list vstate) : option vstate :=
  match l, i with
  | [], _ => None
  | v :: _, O => Some v
  | _ :: r, S j => vnth j r
  end.
Fixpoint vupd (i : nat) (v : vstate) (l : list vstate) : list vstate :=
  match l, i with
  | [], _ => []
  | _ :: r, O => v :: r
  | x :: r, S j => x :: vupd j v r
  end.
Definition get_val (i : Z) (s : state) : option vstate :=
  if i <? 0 then None else vnth (Z.to_nat i) (s_vals s).
Definition put_val (i : Z) (v : vstate) (s : state) : state :=
  set_vals (vupd (Z.to_nat i) v (s_vals s)) s.

(* allowances: GetAllowance returns 0 for a missing (or empty) record *)
Fixpoint aget (k : akey) (m : list (akey * Z)) : Z :=
  match m with
  | [] => 0
  | (k', a) :: r => if akey_eqb k k' then a else aget k r
  end.
Fixpoint adel (k : akey) (m : list (akey * Z)) : list (akey * Z) :=
  match m with
  | [] => []
  | (k', a) :: r => if akey_eqb k k' then adel k r else (k', a) :: adel k r
  end.
Definition aset (k : akey) (a : Z) (m : list (akey * Z)) : list (akey * Z) := (k, a) :: adel k m.

(* ---------- staking/types/validator.go ---------- *)
(* all of these divide by DelegatorShares resp. Tokens: big.Int division by zero panics *)
Definition tokens_from_shares (tok vsh sh : Z) : res Z :=
  if vsh =? 0 then Pan else Ok (dec_quo (dec_mul_int sh tok) vsh).
Definition tokens_from_shares_trunc (tok vsh sh : Z) : res Z :=
  if vsh =? 0 then Pan else Ok (dec_quo_trunc (dec_mul_int sh tok) vsh).
(* SharesFromTokens / SharesFromTokensTruncated: ErrInsufficientShares when Tokens is zero *)
Definition shares_from_tokens (tok vsh amt : Z) : res Z :=
  if tok =? 0 then Err else Ok (dec_quo_int (dec_mul_int vsh amt) tok).
Definition shares_from_tokens_trunc (tok vsh amt : Z) : res Z :=
  if tok =? 0 then Err else Ok (dec_quo_trunc (dec_mul_int vsh amt) (dec_of_int tok)).

(* ---------- distribution/keeper/validator.go ---------- *)
Definition href (p : Z) (v : vstate) : Z :=
  match kget p (v_hist v) with Some c => c | None => 0 end.

(* decrementReferenceCount: panic at zero, delete the record when it reaches zero *)
Definition dec_ref (p : Z) (v : vstate) : res vstate :=
  let c := href p v in
  if c =? 0 then Pan
  else if c - 1 =? 0 then Ok (set_hist (kdel p (v_hist v)) v)
  else Ok (set_hist (kset p (c - 1) (v_hist v)) v).

(* incrementReferenceCount, SDK version: panic above 2 *)
Definition inc_ref (p : Z) (v : vstate) : res vstate :=
  let c := href p v in
  if 2 <? c then Pan else Ok (set_hist (kset p (c + 1) (v_hist v)) v).

(* incrementReferenceCount, the copy in transfer_shares.go: error above 2 *)
Definition inc_ref_precompile (p : Z) (v : vstate) : res vstate :=
  let c := href p v in
  if 2 <? c then Err else Ok (set_hist (kset p (c + 1) (v_hist v)) v).

(* IncrementValidatorPeriod: decrement (period-1), new record for `period` with count 1, period+1.
   (the zero-token branch only moves reward amounts) *)
Definition incr_period (v : vstate) : res vstate :=
  let p := v_period v in
  v1 <- dec_ref (p - 1) v ;;
  Ok (set_period (p + 1) (set_hist (kset p 1 (v_hist v1)) v1)).

(* ---------- distribution/keeper/delegation.go ---------- *)
(* initializeDelegation *)
Definition init_delegation (h : Z) (a : Z) (v : vstate) : res vstate :=
  let prev := v_period v - 1 in
  v1 <- inc_ref prev v ;;
  match kget a (v_dels v1) with
  | None => Err
  | Some sh =>
      stake <- tokens_from_shares_trunc (v_tokens v1) (v_shares v1) sh ;;
      Ok (set_start (kset a {| si_prev := prev; si_stake := stake; si_height := h |} (v_start v1)) v1)
  end.

(* withdrawDelegationRewards (amounts not modelled): needs a starting info; ends the period,
   releases the reference of the starting period, deletes the starting info *)
Definition withdraw_rewards (a : Z) (v : vstate) : res vstate :=
  match kget a (v_start v) with
  | None => Err                               (* ErrEmptyDelegationDistInfo *)
  | Some _ =>
      v1 <- incr_period v ;;
      let si := match kget a (v_start v1) with Some s => s | None => sinfo_zero end in
      v2 <- dec_ref (si_prev si) v1 ;;
      Ok (set_start (kdel a (v_start v2)) v2)
  end.

(* Keeper.WithdrawDelegationRewards = MsgWithdrawDelegatorReward *)
Definition withdraw_delegation_rewards (h : Z) (a : Z) (v : vstate) : res vstate :=
  match kget a (v_dels v) with
  | None => Err                               (* ErrNoDelegation *)
  | Some _ =>
      v1 <- withdraw_rewards a v ;;
      init_delegation h a v1
  end.

(* ---------- staking/keeper/delegation.go ---------- *)
(* Keeper.Delegate for a bonded validator; returns the new shares *)
Definition delegate_v (h : Z) (a amt : Z) (v : vstate) : res (vstate * Z) :=
  if (v_tokens v =? 0) && (0 <? v_shares v) then Err            (* InvalidExRate *)
  else
    v1 <- match kget a (v_dels v) with
          | Some _ => withdraw_rewards a v     (* BeforeDelegationSharesModified *)
          | None => incr_period v              (* BeforeDelegationCreated *)
          end ;;
    (* AddTokensFromDel *)
    issued <- (if v_shares v1 =? 0 then Ok (dec_of_int amt)
               else match shares_from_tokens (v_tokens v1) (v_shares v1) amt with
                    | Ok s => Ok s
                    | _ => Pan
                    end) ;;
    let old := match kget a (v_dels v1) with Some s => s | None => 0 end in
    let v2 := set_dels (kset a (old + issued) (v_dels v1))
                (set_shares (v_shares v1 + issued) (set_tokens (v_tokens v1 + amt) v1)) in
    v3 <- init_delegation h a v2 ;;           (* AfterDelegationModified *)
    Ok (v3, issued).

(* ValidateUnbondAmount: token amount -> shares, capped at the delegation *)
Definition validate_unbond (a amt : Z) (v : vstate) : res Z :=
  match kget a (v_dels v) with
  | None => Err
  | Some dsh =>
      sh <- shares_from_tokens (v_tokens v) (v_shares v) amt ;;
      sht <- shares_from_tokens_trunc (v_tokens v) (v_shares v) amt ;;
      if dsh <? sht then Err
      else Ok (if dsh <? sh then dsh else sh)
  end.

(* Keeper.Unbond; returns the tokens leaving the validator (RemoveDelShares) *)
Definition unbond_v (h : Z) (a sh : Z) (v : vstate) : res (vstate * Z) :=
  match kget a (v_dels v) with
  | None => Err                               (* ErrNoDelegatorForAddress *)
  | Some dsh =>
      v1 <- withdraw_rewards a v ;;           (* BeforeDelegationSharesModified *)
      if dsh <? sh then Err
      else
        let dsh' := dsh - sh in
        v2 <- (if dsh' =? 0 then Ok (set_dels (kdel a (v_dels v1)) v1)
               else init_delegation h a (set_dels (kset a dsh' (v_dels v1)) v1)) ;;
        let remaining := v_shares v2 - sh in
        if remaining =? 0 then
          Ok (set_shares remaining (set_tokens 0 v2), v_tokens v2)
        else
          t <- tokens_from_shares (v_tokens v2) (v_shares v2) sh ;;
          let issued := dec_trunc_int t in
          if v_tokens v2 - issued <? 0 then Pan
          else Ok (set_shares remaining (set_tokens (v_tokens v2 - issued) v2), issued)
  end.

(* ---------- x/staking/precompile/transfer_shares.go: handlerTransferShares ---------- *)
(* `recv` = HasReceivingRedelegation(from, validator).  Statement order is the code's:
   sender == recipient is refused; validator and fromDel are read; from's rewards are withdrawn; toDel is read (and to's rewards
   withdrawn, or the period ended) BEFORE fromDel is written back; then from is written, then to.
   The three blocks of the function body are named so that the proofs can speak about them. *)

(* "get to delegation": read toDel; withdraw to's rewards, or end the period if there is none *)
Definition ts_read_to (h to : Z) (v1 : vstate) : res (vstate * Z * bool) :=
  match kget to (v_dels v1) with
  | None => v2 <- incr_period v1 ;; Ok (v2, 0, false)
  | Some toDel => v2 <- withdraw_delegation_rewards h to v1 ;; Ok (v2, toDel, true)
  end.

(* "update from delegate, delete it if shares zero" (tok, vsh: the validator read at the top) *)
Definition ts_write_from (tok vsh from fromDel shares : Z) (v2 : vstate) : res vstate :=
  (* GetDelegatorStartingInfo: a missing record unmarshals to the zero value *)
  let fromSI := match kget from (v_start v2) with Some s => s | None => sinfo_zero end in
  let fromDel' := fromDel - shares in
  if fromDel' =? 0 then
    let v3a := set_dels (kdel from (v_dels v2)) v2 in
    v3b <- dec_ref (si_prev fromSI) v3a ;;
    Ok (set_start (kdel from (v_start v3b)) v3b)
  else
    let v3a := set_dels (kset from fromDel' (v_dels v2)) v2 in
    stake <- tokens_from_shares_trunc tok vsh fromDel' ;;
    Ok (set_start (kset from {| si_prev := si_prev fromSI; si_stake := stake;
                                si_height := si_height fromSI |} (v_start v3a)) v3a).

(* "update to delegate, set starting info if to not delegate before"; toDel is the value read earlier *)
Definition ts_write_to (h tok vsh to toDel shares : Z) (toFound : bool) (v3 : vstate) : res vstate :=
  let toDel' := toDel + shares in
  let v4 := set_dels (kset to toDel' (v_dels v3)) v3 in
  if negb toFound then
    let prev := v_period v4 - 1 in
    v4a <- inc_ref_precompile prev v4 ;;
    stake <- tokens_from_shares_trunc tok vsh shares ;;
    Ok (set_start (kset to {| si_prev := prev; si_stake := stake; si_height := h |} (v_start v4a)) v4a)
  else
    let toSI := match kget to (v_start v4) with Some s => s | None => sinfo_zero end in
    stake <- tokens_from_shares_trunc tok vsh toDel' ;;
    Ok (set_start (kset to {| si_prev := si_prev toSI; si_stake := stake;
                              si_height := si_height toSI |} (v_start v4)) v4).

(* the body of handlerTransferShares below its first statement — which is also the whole function as it
   was before commit 458669b ("pre-fix"): without the sender <> recipient guard the stale toDel made a
   transfer to oneself inflate the delegation (docs/findings/C11-1.md) *)
Definition transfer_shares_prefix (h : Z) (recv : bool) (from to x : Z) (v : vstate) : res vstate :=
  let tok := v_tokens v in
  let vsh := v_shares v in
  match kget from (v_dels v) with
  | None => Err
  | Some fromDel =>
      if recv then Err
      else
        let shares := dec_of_int x in
        if fromDel <? shares then Err
        else
          v1 <- withdraw_delegation_rewards h from v ;;
          r <- ts_read_to h to v1 ;;
          let '(v2, toDel, toFound) := r in
          v3 <- ts_write_from tok vsh from fromDel shares v2 ;;
          v5 <- ts_write_to h tok vsh to toDel shares toFound v3 ;;
          (* token := validator.TokensFromShares(shares).TruncateInt() *)
          _ <- tokens_from_shares tok vsh shares ;;
          Ok v5
  end.

(* handlerTransferShares as it is now: `if from == to { return error }` comes first *)
Definition transfer_shares (h : Z) (recv : bool) (from to x : Z) (v : vstate) : res vstate :=
  if from =? to then Err else transfer_shares_prefix h recv from to x v.

(* ---------- staking/keeper/slash.go (infraction height = current height) + distribution hook ---------- *)
Definition power_reduction : Z := 100 * prec.     (* fx-core: 100 FX per unit of consensus power *)

Definition slash_v (h : Z) (power frac : Z) (v : vstate) : res vstate :=
  if frac <? 0 then Err
  else
    let amount := dec_trunc_int (dec_mul (dec_of_int (power * power_reduction)) frac) in
    let burn := Z.max (Z.min amount (v_tokens v)) 0 in
    if burn =? 0 then Ok v
    else
      (* BeforeValidatorSlashed -> updateValidatorSlashFraction *)
      v1 <- incr_period v ;;
      let newp := v_period v in
      v2 <- inc_ref newp v1 ;;
      let v3 := set_slashes (v_slashes v2 ++ [(h, newp)]) v2 in
      Ok (set_tokens (v_tokens v3 - burn) v3).

(* ---------- operations ---------- *)
Inductive op :=
| Delegate (v a amt : Z)                      (* delegateV2 / MsgDelegate *)
| Undelegate (v a amt : Z)                    (* undelegateV2 / MsgUndelegate *)
| Redelegate (src dst a amt : Z)              (* redelegateV2 / MsgBeginRedelegate *)
| Withdraw (v a : Z)                          (* withdraw / MsgWithdrawDelegatorReward *)
| Approve (v owner spender x : Z)             (* approveShares *)
| Transfer (v from to x : Z)                  (* transferShares *)
| TransferFrom (v spender from to x : Z)      (* transferFromShares *)
| Block                                       (* a reward-producing block *)
| Mature                                      (* a block after the unbonding time: all entries complete *)
| SlashVal (v power frac : Z).                (* Keeper.Slash at the current height *)

Definition max_entries : Z := 7.

Definition count3 (f : Z * Z * Z -> bool) (l : list (Z * Z * Z)) : Z := Z.of_nat (length (filter f l)).
Definition has_receiving (a dst : Z) (s : state) : bool :=
  existsb (fun e => let '(d, _, t) := e in (d =? a) && (t =? dst)) (s_reds s).
Definition red_entries (a src dst : Z) (s : state) : Z :=
  count3 (fun e => let '(d, f, t) := e in (d =? a) && (f =? src) && (t =? dst)) (s_reds s).
Definition ubd_entries (a v : Z) (s : state) : Z :=
  count3 (fun e => let '(d, w, _) := e in (d =? a) && (w =? v)) (s_ubds s).
Definition ubd_has (a v h : Z) (s : state) : bool :=
  existsb (fun e => let '(d, w, g) := e in (d =? a) && (w =? v) && (g =? h)) (s_ubds s).

Definition do_transfer (v from to x : Z) (s : state) : res state :=
  match get_val v s with
  | None => Err
  | Some vs =>
      vs' <- transfer_shares (s_height s) (has_receiving from v s) from to x vs ;;
      Ok (put_val v vs' s)
  end.

Definition exec (s : state) (o : op) : res state :=
  match o with
  | Delegate v a amt =>
      if amt <=? 0 then Err
      else match get_val v s with
           | None => Err
           | Some vs => r <- delegate_v (s_height s) a amt vs ;; Ok (put_val v (fst r) s)
           end
  | Undelegate v a amt =>
      if amt <=? 0 then Err
      else match get_val v s with
           | None => Err
           | Some vs =>
               sh <- validate_unbond a amt vs ;;
               if max_entries <=? ubd_entries a v s then Err
               else
                 r <- unbond_v (s_height s) a sh vs ;;
                 let s1 := put_val v (fst r) s in
                 (* UnbondingDelegation.AddEntry merges entries created at the same height *)
                 Ok (if ubd_has a v (s_height s) s1 then s1
                     else set_ubds (s_ubds s1 ++ [(a, v, s_height s)]) s1)
           end
  | Redelegate src dst a amt =>
      if amt <=? 0 then Err
      else match get_val src s with
           | None => Err
           | Some vsrc =>
               sh <- validate_unbond a amt vsrc ;;
               if src =? dst then Err
               else match get_val dst s with
                    | None => Err
                    | Some vdst =>
                        if has_receiving a src s then Err           (* transitive redelegation *)
                        else if max_entries <=? red_entries a src dst s then Err
                        else
                          r <- unbond_v (s_height s) a sh vsrc ;;
                          if snd r =? 0 then Err                     (* ErrTinyRedelegationAmount *)
                          else
                            r2 <- delegate_v (s_height s) a (snd r) vdst ;;
                            let s1 := put_val dst (fst r2) (put_val src (fst r) s) in
                            Ok (set_reds (s_reds s1 ++ [(a, src, dst)]) s1)
                    end
           end
  | Withdraw v a =>
      match get_val v s with
      | None => Err
      | Some vs => vs' <- withdraw_delegation_rewards (s_height s) a vs ;; Ok (put_val v vs' s)
      end
  | Approve v owner spender x =>
      if x <? 0 then Err else Ok (set_allow (aset (v, owner, spender) x (s_allow s)) s)
  | Transfer v from to x =>
      if x <=? 0 then Err else do_transfer v from to x s
  | TransferFrom v spender from to x =>
      if x <=? 0 then Err
      else
        (* decrementAllowance first, then the same handler *)
        let al := aget (v, from, spender) (s_allow s) in
        if al <? x then Err
        else do_transfer v from to x (set_allow (aset (v, from, spender) (al - x) (s_allow s)) s)
  | Block => Ok (set_height (s_height s + 1) s)
  | Mature => Ok (set_height (s_height s + 1) (set_ubds [] (set_reds [] s)))
  | SlashVal v power frac =>
      match get_val v s with
      | None => Err
      | Some vs => vs' <- slash_v (s_height s) power frac vs ;; Ok (put_val v vs' s)
      end
  end.

(* a failing call leaves the state as it was *)
Definition step (s : state) (o : op) : state * bool :=
  match exec s o with
  | Ok s' => (s', true)
  | _ => (s, false)
  end.

Definition run (s : state) (ops : list op) : state := fold_left (fun st o => fst (step st o)) ops s.

(* ---------- genesis ---------- *)
(* What InitGenesis leaves for a genesis validator whose operator (account 100+i) self-delegated
   `power_reduction` tokens: staking sets tokens/shares/delegation directly; the distribution hooks
   (AfterValidatorCreated, BeforeDelegationCreated, AfterDelegationModified) run at height 0. *)
Definition op_base : Z := 100.
Definition gen_v (i : Z) : vstate :=
  {| v_tokens := power_reduction; v_shares := dec_of_int power_reduction;
     v_dels := [(op_base + i, dec_of_int power_reduction)];
     v_period := 2; v_hist := [(1, 2)];
     v_start := [(op_base + i, {| si_prev := 1; si_stake := dec_of_int power_reduction; si_height := 0 |})];
     v_slashes := [] |}.
Fixpoint gen_vals (n : nat) (i : Z) : list vstate :=
  match n with O => [] | S m => gen_v i :: gen_vals m (i + 1) end.
Definition gen_state (n : nat) : state :=
  {| s_vals := gen_vals n 0; s_allow := []; s_reds := []; s_ubds := []; s_height := 1 |}.
