(* M_Shares.v — executable model of the staking precompile's share operations
   (/repo/x/staking/precompile/{transfer_shares,approve_shares,delegate,undelegate,redelegate,withdraw}.go,
    /repo/x/staking/keeper/shares.go) together with the part of the SDK staking / distribution keepers
   they drive (cosmos-sdk v0.50.6 fork: x/staking/keeper/delegation.go, slash.go, types/validator.go;
   x/distribution/keeper/{delegation,validator,hooks}.go).  No proofs here.

   What is modelled, per validator:
     tokens, delegator shares, status / jailed / unbonding height, delegations (addr -> shares), and the F1
     fee-distribution state: ValidatorCurrentRewards {period; rewards}, ValidatorOutstandingRewards, every
     ValidatorHistoricalRewards {cumulative reward ratio; reference count}, every DelegatorStartingInfo
     {previous period; stake; height}, every ValidatorSlashEvent (height, period, fraction).
   Globally: share allowances (validator, owner, spender), redelegation entries, unbonding entries (with
   creation height and balances), the rewards paid out to every account, block height.
   Reward amounts are those of the staking denom (the only denom the fee collector ever holds here); the
   validators' commission rate is 0 (as in the harness genesis), the per-block allocation to a validator
   is an input of the Block operation (it comes from x/distribution's AllocateTokens, not from the
   precompile).

   NOT modelled: account balances (accounts are assumed to hold enough coins), the community pool,
   commission, delegators that are validator operators (after set-up).

   Conventions: accounts and validators are small integers; LegacyDec is its integer scaled by 10^18
   (lib/Dec.v); a missing store record reads as the Go zero value exactly where the keeper getters do that
   (GetDelegatorStartingInfo, GetValidatorHistoricalRewards), and as an error where they return one
   (GetDelegation, GetValidator).  Err = the call returns an error, Pan = Go panic; both leave the state
   untouched at the op level (ExecuteNativeAction / the tx cache branch discards the writes). *)
From Coq Require Import ZArith List Bool.
From FxV Require Import lib.Dec.
Import ListNotations.
Open Scope Z_scope.

(* ---------- LegacyDec operations missing from lib/Dec.v (math@v1.3.0/dec.go) ---------- *)
(* QuoTruncate: (a*10^36 quo b) quo 10^18 ; QuoInt: a quo n (big.Int.Quo truncates towards zero);
   MulTruncate: (a*b) quo 10^18 ; QuoRoundUp: chopPrecisionAndRoundUp(a*10^36 quo b) *)
Definition dec_quo_trunc (a b : Z) : Z := Z.quot (Z.quot (a * (prec * prec)) b) prec.
Definition dec_quo_int (a n : Z) : Z := Z.quot a n.
Definition dec_mul_trunc (a b : Z) : Z := Z.quot (a * b) prec.
Definition chop_roundup (x : Z) : Z :=
  if x <? 0 then - Z.quot (- x) prec
  else if x mod prec =? 0 then x / prec else x / prec + 1.
Definition dec_quo_roundup (a b : Z) : Z := chop_roundup (Z.quot (a * (prec * prec)) b).

(* ---------- results ---------- *)
Inductive res (A : Type) : Type := Ok (a : A) | Err | Pan.
Arguments Ok {A} a.
Arguments Err {A}.
Arguments Pan {A}.

Definition bind {A B} (r : res A) (f : A -> res B) : res B :=
  match r with Ok a => f a | Err => Err | Pan => Pan end.
Notation "x <- r ;; k" := (bind r (fun x => k)) (at level 61, r at next level, right associativity).

(* ---------- stores: association lists with ascending integer keys ---------- *)
Section KV.
  Context {A : Type}.
  Fixpoint kget (k : Z) (m : list (Z * A)) : option A :=
    match m with
    | [] => None
    | (k', a) :: r => if k =? k' then Some a else kget k r
    end.
  Fixpoint kset (k : Z) (a : A) (m : list (Z * A)) : list (Z * A) :=
    match m with
    | [] => [(k, a)]
    | (k', a') :: r =>
        if k <? k' then (k, a) :: m
        else if k =? k' then (k, a) :: r
        else (k', a') :: kset k a r
    end.
  Fixpoint kdel (k : Z) (m : list (Z * A)) : list (Z * A) :=
    match m with
    | [] => []
    | (k', a') :: r => if k =? k' then kdel k r else (k', a') :: kdel k r
    end.
  Definition khas (k : Z) (m : list (Z * A)) : bool :=
    match kget k m with Some _ => true | None => false end.
End KV.

(* ---------- state ---------- *)
Record sinfo := { si_prev : Z; si_stake : Z; si_height : Z }.
Definition sinfo_zero : sinfo := {| si_prev := 0; si_stake := 0; si_height := 0 |}.

Record vstate := {
  v_tokens : Z   (* Validator.Tokens *);
  v_shares : Z   (* Validator.DelegatorShares (Dec) *);
  v_status : Z   (* Validator.Status: 0 bonded, 1 unbonding, 2 unbonded *);
  v_jailed : bool   (* Validator.Jailed *);
  v_ubh : Z   (* Validator.UnbondingHeight *);
  v_dels : list (Z * Z)   (* Delegation.Shares by delegator (Dec) *);
  v_period : Z   (* ValidatorCurrentRewards.Period *);
  v_cur : Z   (* ValidatorCurrentRewards.Rewards (Dec, the staking denom) *);
  v_out : Z   (* ValidatorOutstandingRewards (Dec) *);
  v_hist : list (Z * Z)   (* ValidatorHistoricalRewards.ReferenceCount by period *);
  v_ratio : list (Z * Z)   (* ValidatorHistoricalRewards.CumulativeRewardRatio by period (Dec; absent = 0) *);
  v_start : list (Z * sinfo)   (* DelegatorStartingInfo by delegator *);
  v_slashes : list (Z * Z * Z)   (* ValidatorSlashEvent: (height, period, fraction) *)
}.

Definition set_tokens (x : Z) (v : vstate) : vstate :=
  {| v_tokens := x; v_shares := v_shares v; v_status := v_status v; v_jailed := v_jailed v; v_ubh := v_ubh v; v_dels := v_dels v; v_period := v_period v; v_cur := v_cur v; v_out := v_out v; v_hist := v_hist v; v_ratio := v_ratio v; v_start := v_start v; v_slashes := v_slashes v |}.
Definition set_shares (x : Z) (v : vstate) : vstate :=
  {| v_tokens := v_tokens v; v_shares := x; v_status := v_status v; v_jailed := v_jailed v; v_ubh := v_ubh v; v_dels := v_dels v; v_period := v_period v; v_cur := v_cur v; v_out := v_out v; v_hist := v_hist v; v_ratio := v_ratio v; v_start := v_start v; v_slashes := v_slashes v |}.
Definition set_status (x : Z) (v : vstate) : vstate :=
  {| v_tokens := v_tokens v; v_shares := v_shares v; v_status := x; v_jailed := v_jailed v; v_ubh := v_ubh v; v_dels := v_dels v; v_period := v_period v; v_cur := v_cur v; v_out := v_out v; v_hist := v_hist v; v_ratio := v_ratio v; v_start := v_start v; v_slashes := v_slashes v |}.
Definition set_jailed (x : bool) (v : vstate) : vstate :=
  {| v_tokens := v_tokens v; v_shares := v_shares v; v_status := v_status v; v_jailed := x; v_ubh := v_ubh v; v_dels := v_dels v; v_period := v_period v; v_cur := v_cur v; v_out := v_out v; v_hist := v_hist v; v_ratio := v_ratio v; v_start := v_start v; v_slashes := v_slashes v |}.
Definition set_ubh (x : Z) (v : vstate) : vstate :=
  {| v_tokens := v_tokens v; v_shares := v_shares v; v_status := v_status v; v_jailed := v_jailed v; v_ubh := x; v_dels := v_dels v; v_period := v_period v; v_cur := v_cur v; v_out := v_out v; v_hist := v_hist v; v_ratio := v_ratio v; v_start := v_start v; v_slashes := v_slashes v |}.
Definition set_dels (x : list (Z * Z)) (v : vstate) : vstate :=
  {| v_tokens := v_tokens v; v_shares := v_shares v; v_status := v_status v; v_jailed := v_jailed v; v_ubh := v_ubh v; v_dels := x; v_period := v_period v; v_cur := v_cur v; v_out := v_out v; v_hist := v_hist v; v_ratio := v_ratio v; v_start := v_start v; v_slashes := v_slashes v |}.
Definition set_period (x : Z) (v : vstate) : vstate :=
  {| v_tokens := v_tokens v; v_shares := v_shares v; v_status := v_status v; v_jailed := v_jailed v; v_ubh := v_ubh v; v_dels := v_dels v; v_period := x; v_cur := v_cur v; v_out := v_out v; v_hist := v_hist v; v_ratio := v_ratio v; v_start := v_start v; v_slashes := v_slashes v |}.
Definition set_cur (x : Z) (v : vstate) : vstate :=
  {| v_tokens := v_tokens v; v_shares := v_shares v; v_status := v_status v; v_jailed := v_jailed v; v_ubh := v_ubh v; v_dels := v_dels v; v_period := v_period v; v_cur := x; v_out := v_out v; v_hist := v_hist v; v_ratio := v_ratio v; v_start := v_start v; v_slashes := v_slashes v |}.
Definition set_out (x : Z) (v : vstate) : vstate :=
  {| v_tokens := v_tokens v; v_shares := v_shares v; v_status := v_status v; v_jailed := v_jailed v; v_ubh := v_ubh v; v_dels := v_dels v; v_period := v_period v; v_cur := v_cur v; v_out := x; v_hist := v_hist v; v_ratio := v_ratio v; v_start := v_start v; v_slashes := v_slashes v |}.
Definition set_hist (x : list (Z * Z)) (v : vstate) : vstate :=
  {| v_tokens := v_tokens v; v_shares := v_shares v; v_status := v_status v; v_jailed := v_jailed v; v_ubh := v_ubh v; v_dels := v_dels v; v_period := v_period v; v_cur := v_cur v; v_out := v_out v; v_hist := x; v_ratio := v_ratio v; v_start := v_start v; v_slashes := v_slashes v |}.
Definition set_ratio (x : list (Z * Z)) (v : vstate) : vstate :=
  {| v_tokens := v_tokens v; v_shares := v_shares v; v_status := v_status v; v_jailed := v_jailed v; v_ubh := v_ubh v; v_dels := v_dels v; v_period := v_period v; v_cur := v_cur v; v_out := v_out v; v_hist := v_hist v; v_ratio := x; v_start := v_start v; v_slashes := v_slashes v |}.
Definition set_start (x : list (Z * sinfo)) (v : vstate) : vstate :=
  {| v_tokens := v_tokens v; v_shares := v_shares v; v_status := v_status v; v_jailed := v_jailed v; v_ubh := v_ubh v; v_dels := v_dels v; v_period := v_period v; v_cur := v_cur v; v_out := v_out v; v_hist := v_hist v; v_ratio := v_ratio v; v_start := x; v_slashes := v_slashes v |}.
Definition set_slashes (x : list (Z * Z * Z)) (v : vstate) : vstate :=
  {| v_tokens := v_tokens v; v_shares := v_shares v; v_status := v_status v; v_jailed := v_jailed v; v_ubh := v_ubh v; v_dels := v_dels v; v_period := v_period v; v_cur := v_cur v; v_out := v_out v; v_hist := v_hist v; v_ratio := v_ratio v; v_start := v_start v; v_slashes := x |}.


Definition akey := (Z * Z * Z)%type.   (* validator, owner, spender *)
Definition akey_eqb (x y : akey) : bool :=
  let '(a, b, c) := x in let '(a', b', c') := y in (a =? a') && (b =? b') && (c =? c').

(* one RedelegationEntry / UnbondingDelegationEntry *)
Record red := { r_del : Z; r_src : Z; r_dst : Z; r_h : Z; r_bal : Z; r_sh : Z }.
Record ubd := { u_del : Z; u_val : Z; u_h : Z; u_init : Z; u_bal : Z }.


Record state := {
  s_vals : list vstate;
  s_allow : list (akey * Z)   (* x/staking AllowanceKey records *);
  s_reds : list red   (* redelegation entries, ordered like the store iterates them *);
  s_ubds : list ubd   (* unbonding entries *);
  s_paid : list (Z * Z)   (* rewards paid out so far, by account *);
  s_mig : list Z   (* accounts with a migrate record (old and new addresses) *);
  s_height : Z
}.

Definition set_vals (x : list vstate) (s : state) : state :=
  {| s_vals := x; s_allow := s_allow s; s_reds := s_reds s; s_ubds := s_ubds s; s_paid := s_paid s; s_mig := s_mig s; s_height := s_height s |}.
Definition set_allow (x : list (akey * Z)) (s : state) : state :=
  {| s_vals := s_vals s; s_allow := x; s_reds := s_reds s; s_ubds := s_ubds s; s_paid := s_paid s; s_mig := s_mig s; s_height := s_height s |}.
Definition set_reds (x : list red) (s : state) : state :=
  {| s_vals := s_vals s; s_allow := s_allow s; s_reds := x; s_ubds := s_ubds s; s_paid := s_paid s; s_mig := s_mig s; s_height := s_height s |}.
Definition set_ubds (x : list ubd) (s : state) : state :=
  {| s_vals := s_vals s; s_allow := s_allow s; s_reds := s_reds s; s_ubds := x; s_paid := s_paid s; s_mig := s_mig s; s_height := s_height s |}.
Definition set_paid (x : list (Z * Z)) (s : state) : state :=
  {| s_vals := s_vals s; s_allow := s_allow s; s_reds := s_reds s; s_ubds := s_ubds s; s_paid := x; s_mig := s_mig s; s_height := s_height s |}.
Definition set_mig (x : list Z) (s : state) : state :=
  {| s_vals := s_vals s; s_allow := s_allow s; s_reds := s_reds s; s_ubds := s_ubds s; s_paid := s_paid s; s_mig := x; s_height := s_height s |}.
Definition set_height (x : Z) (s : state) : state :=
  {| s_vals := s_vals s; s_allow := s_allow s; s_reds := s_reds s; s_ubds := s_ubds s; s_paid := s_paid s; s_mig := s_mig s; s_height := x |}.


(* validators are addressed by index *)
Fixpoint vnth (i : nat) (l : list vstate) : option vstate :=
  match l, i with
  | [], _ => None
  | v :: _, O => Some v
  | _ :: r, S j => vnth j r
  end.
Fixpoint vupd (i : nat) (v : vstate) (l : list vstate) : list vstate :=
  match l, i with
  | [], _ => []
  | _ :: r, O => v :: r
  | x :: r, S j => x :: vupd j v r
  end.
Definition get_val (i : Z) (s : state) : option vstate :=
  if i <? 0 then None else vnth (Z.to_nat i) (s_vals s).
Definition put_val (i : Z) (v : vstate) (s : state) : state :=
  set_vals (vupd (Z.to_nat i) v (s_vals s)) s.

(* allowances: GetAllowance returns 0 for a missing (or empty) record *)
Fixpoint aget (k : akey) (m : list (akey * Z)) : Z :=
  match m with
  | [] => 0
  | (k', a) :: r => if akey_eqb k k' then a else aget k r
  end.
Fixpoint adel (k : akey) (m : list (akey * Z)) : list (akey * Z) :=
  match m with
  | [] => []
  | (k', a) :: r => if akey_eqb k k' then adel k r else (k', a) :: adel k r
  end.
Definition aset (k : akey) (a : Z) (m : list (akey * Z)) : list (akey * Z) := (k, a) :: adel k m.

(* rewards paid to an account so far *)
Definition paid_of (a : Z) (s : state) : Z := match kget a (s_paid s) with Some x => x | None => 0 end.
Definition pay (a amt : Z) (s : state) : state := set_paid (kset a (paid_of a s + amt) (s_paid s)) s.

(* ---------- staking/types/validator.go ---------- *)
(* all of these divide by DelegatorShares resp. Tokens: big.Int division by zero panics *)
Definition tokens_from_shares (tok vsh sh : Z) : res Z :=
  if vsh =? 0 then Pan else Ok (dec_quo (dec_mul_int sh tok) vsh).
Definition tokens_from_shares_trunc (tok vsh sh : Z) : res Z :=
  if vsh =? 0 then Pan else Ok (dec_quo_trunc (dec_mul_int sh tok) vsh).
(* SharesFromTokens / SharesFromTokensTruncated: ErrInsufficientShares when Tokens is zero *)
Definition shares_from_tokens (tok vsh amt : Z) : res Z :=
  if tok =? 0 then Err else Ok (dec_quo_int (dec_mul_int vsh amt) tok).
Definition shares_from_tokens_trunc (tok vsh amt : Z) : res Z :=
  if tok =? 0 then Err else Ok (dec_quo_trunc (dec_mul_int vsh amt) (dec_of_int tok)).

(* ---------- distribution/keeper/validator.go ---------- *)
Definition href (p : Z) (v : vstate) : Z :=
  match kget p (v_hist v) with Some c => c | None => 0 end.
(* CumulativeRewardRatio of a period; a missing record reads as the zero value *)
Definition hratio (p : Z) (v : vstate) : Z :=
  match kget p (v_ratio v) with Some r => r | None => 0 end.

(* decrementReferenceCount: panic at zero, delete the record when it reaches zero *)
Definition dec_ref (p : Z) (v : vstate) : res vstate :=
  let c := href p v in
  if c =? 0 then Pan
  else if c - 1 =? 0 then Ok (set_ratio (kdel p (v_ratio v)) (set_hist (kdel p (v_hist v)) v))
  else Ok (set_hist (kset p (c - 1) (v_hist v)) v).

(* incrementReferenceCount, SDK version: panic above 2 (a missing record becomes {ratio 0, count 1}) *)
Definition inc_ref (p : Z) (v : vstate) : res vstate :=
  let c := href p v in
  if 2 <? c then Pan else Ok (set_hist (kset p (c + 1) (v_hist v)) v).

(* incrementReferenceCount, the copy in transfer_shares.go: error above 2 *)
Definition inc_ref_precompile (p : Z) (v : vstate) : res vstate :=
  let c := href p v in
  if 2 <? c then Err else Ok (set_hist (kset p (c + 1) (v_hist v)) v).

(* IncrementValidatorPeriod: current rewards / tokens (truncated) are added to the cumulative ratio
   (with zero tokens they go to the community pool instead), the reference of period-1 is released, a new
   record for `period` with count 1 is written, current rewards restart at zero in period+1 *)
Definition incr_period (v : vstate) : res vstate :=
  let p := v_period v in
  r <- (if v_tokens v =? 0 then
          (if v_out v - v_cur v <? 0 then Pan else Ok (0, v_out v - v_cur v))
        else Ok (dec_quo_trunc (v_cur v) (dec_of_int (v_tokens v)), v_out v)) ;;
  let '(current, out') := r in
  let cum := hratio (p - 1) v in
  v1 <- dec_ref (p - 1) v ;;
  Ok (set_period (p + 1) (set_cur 0 (set_out out'
        (set_ratio (kset p (cum + current) (v_ratio v1)) (set_hist (kset p 1 (v_hist v1)) v1))))).

(* AllocateTokensToValidator with commission rate 0 (AllocateTokens never hands out a negative amount) *)
Definition allocate (r : Z) (v : vstate) : vstate :=
  let r' := Z.max r 0 in set_out (v_out v + r') (set_cur (v_cur v + r') v).

(* ---------- distribution/keeper/delegation.go ---------- *)
(* initializeDelegation *)
Definition init_delegation (h : Z) (a : Z) (v : vstate) : res vstate :=
  let prev := v_period v - 1 in
  v1 <- inc_ref prev v ;;
  match kget a (v_dels v1) with
  | None => Err
  | Some sh =>
      stake <- tokens_from_shares_trunc (v_tokens v1) (v_shares v1) sh ;;
      Ok (set_start (kset a {| si_prev := prev; si_stake := stake; si_height := h |} (v_start v1)) v1)
  end.

(* calculateDelegationRewardsBetween: stake * (ratio[ending] - ratio[starting]), truncated *)
Definition rewards_between (sp ep stake : Z) (v : vstate) : res Z :=
  if ep <? sp then Pan
  else if stake <? 0 then Pan
  else let d := hratio ep v - hratio sp v in
       if d <? 0 then Pan else Ok (dec_mul_trunc d stake).

(* the slash events between the starting height and now: rewards up to each event with the stake before
   it, then the stake is scaled by (1 - fraction), truncated.  acc = (rewards, stake, starting period) *)
Fixpoint slash_walk (evs : list (Z * Z * Z)) (startH endH : Z) (v : vstate) (acc : Z * Z * Z) : res (Z * Z * Z) :=
  match evs with
  | [] => Ok acc
  | (hh, p, f) :: r =>
      let '(rw, stake, sp) := acc in
      if (startH <=? hh) && (hh <=? endH) && (sp <? p) then
        dr <- rewards_between sp p stake v ;;
        slash_walk r startH endH v (rw + dr, dec_mul_trunc stake (prec - f), p)
      else slash_walk r startH endH v acc
  end.

(* CalculateDelegationRewards for a delegation with starting info si and dsh shares, up to period `ending` *)
Definition calc_rewards (h ending : Z) (si : sinfo) (dsh : Z) (v : vstate) : res Z :=
  if si_height si =? h then Ok 0                       (* started this height, no rewards yet *)
  else
    w <- (if si_height si <? h then slash_walk (v_slashes v) (si_height si) h v (0, si_stake si, si_prev si)
          else Ok (0, si_stake si, si_prev si)) ;;
    let '(rw, stake, sp) := w in
    (* stake sanity check against the current worth of the shares, 3 units of tolerance *)
    cs <- tokens_from_shares (v_tokens v) (v_shares v) dsh ;;
    stake' <- (if cs <? stake then (if stake <=? cs + 3 then Ok cs else Pan) else Ok stake) ;;
    dr <- rewards_between sp ending stake' v ;;
    Ok (rw + dr).

(* withdrawDelegationRewards: needs a starting info; ends the period, computes the rewards, clips them to
   the outstanding rewards, pays the whole coins (the fraction goes to the community pool), releases the
   reference of the starting period, deletes the starting info.  Returns the coins paid. *)
Definition withdraw_rewards (h : Z) (a : Z) (v : vstate) : res (vstate * Z) :=
  match kget a (v_start v) with
  | None => Err                               (* ErrEmptyDelegationDistInfo *)
  | Some _ =>
      let dsh := match kget a (v_dels v) with Some d => d | None => 0 end in
      v1 <- incr_period v ;;
      let ending := v_period v in
      let si := match kget a (v_start v1) with Some s => s | None => sinfo_zero end in
      raw <- calc_rewards h ending si dsh v1 ;;
      let rewards := Z.min raw (v_out v1) in   (* rewardsRaw.Intersect(outstanding) *)
      let paid := dec_trunc_int rewards in     (* TruncateDecimal *)
      let v1' := set_out (v_out v1 - rewards) v1 in
      v2 <- dec_ref (si_prev si) v1' ;;
      Ok (set_start (kdel a (v_start v2)) v2, paid)
  end.

(* Keeper.WithdrawDelegationRewards = MsgWithdrawDelegatorReward *)
Definition withdraw_delegation_rewards (h : Z) (a : Z) (v : vstate) : res (vstate * Z) :=
  match kget a (v_dels v) with
  | None => Err                               (* ErrNoDelegation *)
  | Some _ =>
      r <- withdraw_rewards h a v ;;
      v2 <- init_delegation h a (fst r) ;;
      Ok (v2, snd r)
  end.

(* what a delegator would be paid if it withdrew now (the querier's DelegationRewards, truncated and
   clipped like a withdrawal) *)
Definition pending (h : Z) (a : Z) (v : vstate) : res Z :=
  r <- withdraw_delegation_rewards h a v ;; Ok (snd r).

(* ---------- staking/keeper/delegation.go ---------- *)
(* Keeper.Delegate; returns the new shares and the rewards paid by the hook *)
Definition delegate_v (h : Z) (a amt : Z) (v : vstate) : res (vstate * Z * Z) :=
  if (v_tokens v =? 0) && (0 <? v_shares v) then Err            (* InvalidExRate *)
  else
    r <- match kget a (v_dels v) with
         | Some _ => withdraw_rewards h a v                      (* BeforeDelegationSharesModified *)
         | None => v1 <- incr_period v ;; Ok (v1, 0)             (* BeforeDelegationCreated *)
         end ;;
    let '(v1, paid) := r in
    (* AddTokensFromDel *)
    issued <- (if v_shares v1 =? 0 then Ok (dec_of_int amt)
               else match shares_from_tokens (v_tokens v1) (v_shares v1) amt with
                    | Ok s => Ok s
                    | _ => Pan
                    end) ;;
    let old := match kget a (v_dels v1) with Some s => s | None => 0 end in
    let v2 := set_dels (kset a (old + issued) (v_dels v1))
                (set_shares (v_shares v1 + issued) (set_tokens (v_tokens v1 + amt) v1)) in
    v3 <- init_delegation h a v2 ;;           (* AfterDelegationModified *)
    Ok (v3, issued, paid).

(* ValidateUnbondAmount: token amount -> shares, capped at the delegation *)
Definition validate_unbond (a amt : Z) (v : vstate) : res Z :=
  match kget a (v_dels v) with
  | None => Err
  | Some dsh =>
      sh <- shares_from_tokens (v_tokens v) (v_shares v) amt ;;
      sht <- shares_from_tokens_trunc (v_tokens v) (v_shares v) amt ;;
      if dsh <? sht then Err
      else Ok (if dsh <? sh then dsh else sh)
  end.

(* Keeper.Unbond; returns the tokens leaving the validator (RemoveDelShares) and the rewards paid *)
Definition unbond_v (h : Z) (a sh : Z) (v : vstate) : res (vstate * Z * Z) :=
  match kget a (v_dels v) with
  | None => Err                               (* ErrNoDelegatorForAddress *)
  | Some dsh =>
      r <- withdraw_rewards h a v ;;          (* BeforeDelegationSharesModified *)
      let '(v1, paid) := r in
      if dsh <? sh then Err
      else
        let dsh' := dsh - sh in
        v2 <- (if dsh' =? 0 then Ok (set_dels (kdel a (v_dels v1)) v1)
               else init_delegation h a (set_dels (kset a dsh' (v_dels v1)) v1)) ;;
        let remaining := v_shares v2 - sh in
        if remaining =? 0 then
          Ok (set_shares remaining (set_tokens 0 v2), v_tokens v2, paid)
        else
          t <- tokens_from_shares (v_tokens v2) (v_shares v2) sh ;;
          let issued := dec_trunc_int t in
          if v_tokens v2 - issued <? 0 then Pan
          else Ok (set_shares remaining (set_tokens (v_tokens v2 - issued) v2), issued, paid)
  end.

(* ---------- x/staking/precompile/transfer_shares.go: handlerTransferShares ---------- *)
(* `recv` = HasReceivingRedelegation(from, validator).  Statement order is the code's:
   sender == recipient is refused; validator and fromDel are read; from's rewards are withdrawn;
   toDel is read (and to's rewards withdrawn, or the period ended) BEFORE fromDel is written back;
   then from is written, then to.
   The three blocks of the function body are named so that the proofs can speak about them. *)

(* "get to delegation": read toDel; withdraw to's rewards, or end the period if there is none.
   Returns (state, toDel, found, rewards paid to `to`) *)
Definition ts_read_to (h to : Z) (v1 : vstate) : res (vstate * Z * bool * Z) :=
  match kget to (v_dels v1) with
  | None => v2 <- incr_period v1 ;; Ok (v2, 0, false, 0)
  | Some toDel => r <- withdraw_delegation_rewards h to v1 ;; Ok (fst r, toDel, true, snd r)
  end.

(* "update from delegate, delete it if shares zero" (tok, vsh: the validator read at the top) *)
Definition ts_write_from (tok vsh from fromDel shares : Z) (v2 : vstate) : res vstate :=
  (* GetDelegatorStartingInfo: a missing record unmarshals to the zero value *)
  let fromSI := match kget from (v_start v2) with Some s => s | None => sinfo_zero end in
  let fromDel' := fromDel - shares in
  if fromDel' =? 0 then
    let v3a := set_dels (kdel from (v_dels v2)) v2 in
    v3b <- dec_ref (si_prev fromSI) v3a ;;
    Ok (set_start (kdel from (v_start v3b)) v3b)
  else
    let v3a := set_dels (kset from fromDel' (v_dels v2)) v2 in
    stake <- tokens_from_shares_trunc tok vsh fromDel' ;;
    Ok (set_start (kset from {| si_prev := si_prev fromSI; si_stake := stake;
                                si_height := si_height fromSI |} (v_start v3a)) v3a).

(* "update to delegate, set starting info if to not delegate before"; toDel is the value read earlier *)
Definition ts_write_to (h tok vsh to toDel shares : Z) (toFound : bool) (v3 : vstate) : res vstate :=
  let toDel' := toDel + shares in
  let v4 := set_dels (kset to toDel' (v_dels v3)) v3 in
  if negb toFound then
    let prev := v_period v4 - 1 in
    v4a <- inc_ref_precompile prev v4 ;;
    stake <- tokens_from_shares_trunc tok vsh shares ;;
    Ok (set_start (kset to {| si_prev := prev; si_stake := stake; si_height := h |} (v_start v4a)) v4a)
  else
    let toSI := match kget to (v_start v4) with Some s => s | None => sinfo_zero end in
    stake <- tokens_from_shares_trunc tok vsh toDel' ;;
    Ok (set_start (kset to {| si_prev := si_prev toSI; si_stake := stake;
                              si_height := si_height toSI |} (v_start v4)) v4).

(* the body of handlerTransferShares below its first statement — which is also the whole function as it
   was before commit 458669b ("pre-fix"): without the sender <> recipient guard the stale toDel made a
   transfer to oneself inflate the delegation (docs/findings/C11-1.md).
   Returns (state, rewards paid to from, rewards paid to to) *)
Definition transfer_shares_prefix (h : Z) (recv : bool) (from to x : Z) (v : vstate) : res (vstate * Z * Z) :=
  let tok := v_tokens v in
  let vsh := v_shares v in
  match kget from (v_dels v) with
  | None => Err
  | Some fromDel =>
      if recv then Err
      else
        let shares := dec_of_int x in
        if fromDel <? shares then Err
        else
          r1 <- withdraw_delegation_rewards h from v ;;
          r <- ts_read_to h to (fst r1) ;;
          let '(v2, toDel, toFound, paid_to) := r in
          v3 <- ts_write_from tok vsh from fromDel shares v2 ;;
          v5 <- ts_write_to h tok vsh to toDel shares toFound v3 ;;
          (* token := validator.TokensFromShares(shares).TruncateInt() *)
          _ <- tokens_from_shares tok vsh shares ;;
          Ok (v5, snd r1, paid_to)
  end.

(* handlerTransferShares as it is now: `if from == to { return error }` comes first *)
Definition transfer_shares (h : Z) (recv : bool) (from to x : Z) (v : vstate) : res (vstate * Z * Z) :=
  if from =? to then Err else transfer_shares_prefix h recv from to x v.

(* ---------- staking/keeper/slash.go (infraction height = current height) + distribution hook ---------- *)
Definition power_reduction : Z := 100 * prec.     (* fx-core: 100 FX per unit of consensus power *)

Definition slash_amount (power frac : Z) : Z :=
  dec_trunc_int (dec_mul (dec_of_int (power * power_reduction)) frac).

(* the tail of Keeper.Slash once the amount rest for the validator itself is known *)
Definition slash_burn (h : Z) (remaining : Z) (v : vstate) : res vstate :=
  let burn := Z.max (Z.min remaining (v_tokens v)) 0 in
  if burn =? 0 then Ok v
  else
    (* effective fraction, rounded up, at most 1; BeforeValidatorSlashed -> updateValidatorSlashFraction *)
    let f0 := dec_quo_roundup (dec_of_int burn) (dec_of_int (v_tokens v)) in
    let f := if prec <? f0 then prec else f0 in
    v1 <- incr_period v ;;
    let newp := v_period v in
    v2 <- inc_ref newp v1 ;;
    let v3 := set_slashes (v_slashes v2 ++ [(h, newp, f)]) v2 in
    Ok (set_tokens (v_tokens v3 - burn) v3).

Definition slash_v (h : Z) (power frac : Z) (v : vstate) : res vstate :=
  if frac <? 0 then Err
  else if v_status v =? 2 then Err                  (* should not be slashing unbonded validator *)
  else slash_burn h (slash_amount power frac) v.

(* ---------- staking end blocker: validator set changes ---------- *)
(* ApplyAndReturnValidatorSetUpdates (every validator fits into MaxValidators): a validator is in the
   bonded set iff it is not jailed and has at least one unit of power; leaving starts the unbonding
   period at this height.  UnbondAllMatureValidators: `mature` = the unbonding time has passed for
   everything that started unbonding before this block. *)
Definition active (v : vstate) : bool := negb (v_jailed v) && (power_reduction <=? v_tokens v).
Definition end_block_v (h : Z) (mature : bool) (v : vstate) : vstate :=
  if active v then set_status 0 v
  else if v_status v =? 0 then set_ubh h (set_status 1 v)
  else if (v_status v =? 1) && mature then set_status 2 v
  else v.

Fixpoint alloc_all (rs : list Z) (l : list vstate) : list vstate :=
  match l, rs with
  | v :: l', r :: rs' => allocate r v :: alloc_all rs' l'
  | _, _ => l
  end.

(* ---------- operations ---------- *)
Inductive op :=
| Delegate (v a amt : Z)                      (* delegateV2 / MsgDelegate *)
| Undelegate (v a amt : Z)                    (* undelegateV2 / MsgUndelegate *)
| Redelegate (src dst a amt : Z)              (* redelegateV2 / MsgBeginRedelegate *)
| Withdraw (v a : Z)                          (* withdraw / MsgWithdrawDelegatorReward *)
| Approve (v owner spender x : Z)             (* approveShares *)
| Transfer (v from to x : Z)                  (* transferShares *)
| TransferFrom (v spender from to x : Z)      (* transferFromShares *)
| Block (rs : list Z)                         (* a block; rs = rewards allocated to each validator in its BeginBlock *)
| Mature (rs : list Z)                        (* a block after the unbonding time: all entries complete *)
| SlashVal (v ih power frac : Z)              (* Keeper.Slash for an infraction at height ih <= now *)
| Jail (v : Z)                                (* Keeper.Jail *)
| Unjail (v : Z)                              (* Keeper.Unjail *)
| ExportImport (zero : bool) (ord : list Z)   (* app.ExportAppStateAndValidators(forZeroHeight = zero) + InitChain of a
                                                 fresh app; ord = the delegators in address order (the order of
                                                 GetAllDelegations) *)
| Reverted (o : op)                           (* o called from a contract frame that reverts afterwards *)
| Migrate (from to : Z).                      (* x/migrate MsgMigrateAccount: `to` takes over from's delegations,
                                                 starting infos, unbonding and redelegation entries *)

Definition max_entries : Z := 7.

Definition has_receiving (a dst : Z) (s : state) : bool :=
  existsb (fun e => (r_del e =? a) && (r_dst e =? dst)) (s_reds s).
Definition red_entries (a src dst : Z) (s : state) : Z :=
  Z.of_nat (length (filter (fun e => (r_del e =? a) && (r_src e =? src) && (r_dst e =? dst)) (s_reds s))).
Definition ubd_entries (a v : Z) (s : state) : Z :=
  Z.of_nat (length (filter (fun e => (u_del e =? a) && (u_val e =? v)) (s_ubds s))).

(* UnbondingDelegation.AddEntry: entries created at the same height (same completion time) merge *)
Fixpoint ubd_add (a v h bal : Z) (l : list ubd) : list ubd :=
  match l with
  | [] => [{| u_del := a; u_val := v; u_h := h; u_init := bal; u_bal := bal |}]
  | e :: r =>
      if (u_del e =? a) && (u_val e =? v) && (u_h e =? h) then
        {| u_del := a; u_val := v; u_h := h; u_init := u_init e + bal; u_bal := u_bal e + bal |} :: r
      else e :: ubd_add a v h bal r
  end.

(* redelegation entries are kept in the order the store iterates them: by (src, delegator, dst)
   (accounts and validators are numbered in address order), entries of one redelegation in creation order *)
Definition red_le (x y : red) : bool :=
  (r_src x <? r_src y) || ((r_src x =? r_src y) &&
    ((r_del x <? r_del y) || ((r_del x =? r_del y) && (r_dst x <=? r_dst y)))).
Fixpoint red_insert (x : red) (l : list red) : list red :=
  match l with
  | [] => [x]
  | e :: r => if red_le e x then e :: red_insert x r else x :: l
  end.

Definition do_transfer (v from to x : Z) (s : state) : res state :=
  match get_val v s with
  | None => Err
  | Some vs =>
      r <- transfer_shares (s_height s) (has_receiving from v s) from to x vs ;;
      let '(vs', pf, pt) := r in
      Ok (pay to pt (pay from pf (put_val v vs' s)))
  end.

(* ---------- Keeper.Slash for an infraction in the past: unbonding delegations and redelegations that
   started at or after the infraction height are slashed first (all entries in the model are immature) ---- *)
(* SlashUnbondingDelegation over every entry of validator v: returns (entries, total slash amount) *)
Fixpoint slash_ubds (v ih frac : Z) (l : list ubd) : list ubd * Z :=
  match l with
  | [] => ([], 0)
  | e :: r =>
      let '(r', tot) := slash_ubds v ih frac r in
      if (u_val e =? v) && (ih <=? u_h e) then
        let amt := dec_trunc_int (dec_mul_int frac (u_init e)) in
        let cut := Z.min amt (u_bal e) in
        ({| u_del := u_del e; u_val := u_val e; u_h := u_h e; u_init := u_init e; u_bal := u_bal e - cut |} :: r',
         tot + amt)
      else (e :: r', tot)
  end.

(* the fork's "handle undelegation after redelegation": unbonding entries of (delegator, dst) absorb the
   slash amount first; returns (entries, amount still to slash) *)
Fixpoint slash_ubds_of (a dst ih amt : Z) (l : list ubd) : list ubd * Z :=
  match l with
  | [] => ([], amt)
  | e :: r =>
      if (u_del e =? a) && (u_val e =? dst) then
        let cut := Z.min amt (u_bal e) in
        if (cut =? 0) || (u_h e <? ih) then
          let '(r', rest) := slash_ubds_of a dst ih amt r in (e :: r', rest)
        else
          let '(r', rest) := slash_ubds_of a dst ih (amt - cut) r in
          ({| u_del := u_del e; u_val := u_val e; u_h := u_h e; u_init := u_init e; u_bal := u_bal e - cut |} :: r', rest)
      else
        let '(r', rest) := slash_ubds_of a dst ih amt r in (e :: r', rest)
  end.

(* SlashRedelegation over the entries whose source is v, in store order; acc = (state, total) *)
Fixpoint slash_reds (v ih frac : Z) (l : list red) (s : state) (tot : Z) : res (state * Z) :=
  match l with
  | [] => Ok (s, tot)
  | e :: r =>
      if (r_src e =? v) && (ih <=? r_h e) then
        let amt := dec_trunc_int (dec_mul_int frac (r_bal e)) in
        let '(ubds', rest) := slash_ubds_of (r_del e) (r_dst e) ih amt (s_ubds s) in
        let s1 := set_ubds ubds' s in
        let shares := dec_mul frac (r_sh e) in
        if (shares =? 0) || (rest =? 0) then slash_reds v ih frac r s1 (tot + amt)
        else match get_val (r_dst e) s1 with
             | None => Err
             | Some vd =>
                 match kget (r_del e) (v_dels vd) with
                 | None => slash_reds v ih frac r s1 (tot + amt)
                 | Some dsh =>
                     let sh := if dsh <? shares then dsh else shares in
                     u <- unbond_v (s_height s) (r_del e) sh vd ;;
                     let '(vd', _, paid) := u in
                     slash_reds v ih frac r (pay (r_del e) paid (put_val (r_dst e) vd' s1)) (tot + amt)
                 end
             end
      else slash_reds v ih frac r s tot
  end.

(* validator operators are the accounts 100 + i *)
Definition op_base : Z := 100.

(* ---------- x/migrate/keeper/distr_staking.go: DistrStakingMigrate ---------- *)
(* move the record of `from` (if any) under the key `to` *)
Definition krename {A} (from to : Z) (m : list (Z * A)) : list (Z * A) :=
  match kget from m with Some x => kset to x (kdel from m) | None => m end.
(* Execute: delegation + starting info of every validator *)
Definition migrate_v (from to : Z) (v : vstate) : vstate :=
  set_start (krename from to (v_start v)) (set_dels (krename from to (v_dels v)) v).
(* redelegation records are re-keyed (record, by-source index, by-destination index, queue): the entries move
   to where the store keeps the new delegator's; entries of one redelegation stay in creation order *)
Definition reds_rename (from to : Z) (l : list red) : list red :=
  fold_left (fun acc e => red_insert {| r_del := to; r_src := r_src e; r_dst := r_dst e; r_h := r_h e;
                                        r_bal := r_bal e; r_sh := r_sh e |} acc)
            (filter (fun e => r_del e =? from) l) (filter (fun e => negb (r_del e =? from)) l).
Definition ubds_rename (from to : Z) (l : list ubd) : list ubd :=
  map (fun e => if u_del e =? from then {| u_del := to; u_val := u_val e; u_h := u_h e; u_init := u_init e;
                                           u_bal := u_bal e |} else e) l.
(* Validate: neither address is a validator operator; `to` has no delegation, unbonding delegation or
   redelegation; MigrateAccount: neither address has a migrate record.  (That `from` is an account with a
   cosmos secp256k1 public key is the caller's business: the harness only migrates such accounts.) *)
Definition migrate_ok (from to : Z) (s : state) : bool :=
  negb (from =? to) && negb (op_base <=? from) && negb (op_base <=? to) &&
  negb (existsb (Z.eqb from) (s_mig s)) && negb (existsb (Z.eqb to) (s_mig s)) &&
  negb (existsb (fun v => khas to (v_dels v)) (s_vals s)) &&
  negb (existsb (fun e => u_del e =? to) (s_ubds s)) &&
  negb (existsb (fun e => r_del e =? to) (s_reds s)).

(* ---------- app/export.go: prepForZeroHeightGenesis, the part that touches one validator ---------- *)
(* "withdraw all delegator rewards" (at the export height), collecting what was paid *)
Fixpoint withdraw_all (h : Z) (ord : list Z) (v : vstate) (acc : list (Z * Z)) : res (vstate * list (Z * Z)) :=
  match ord with
  | [] => Ok (v, acc)
  | a :: r =>
      match kget a (v_dels v) with
      | None => withdraw_all h r v acc
      | Some _ => x <- withdraw_delegation_rewards h a v ;; withdraw_all h r (fst x) ((a, snd x) :: acc)
      end
  end.

(* "clear validator slash events / historical rewards", "reinitialize all validators" (outstanding scraps go
   to the community pool, AfterValidatorCreated: record of period 0 with one reference, current period 1),
   validator.UnbondingHeight = 0.  Starting infos of existing delegations are about to be overwritten; one
   without a delegation would stay as it is. *)
Definition reset_v (v : vstate) : vstate :=
  set_ubh 0 (set_start (filter (fun e => negb (khas (fst e) (v_dels v))) (v_start v))
    (set_ratio [] (set_hist [(0, 1)] (set_out 0 (set_cur 0 (set_period 1 (set_slashes [] v))))))).

(* "reinitialize all delegations" with the context height set to 0: BeforeDelegationCreated
   (IncrementValidatorPeriod) + AfterDelegationModified (initializeDelegation), once per delegation *)
Fixpoint reinit_all (l : list Z) (v : vstate) : res vstate :=
  match l with
  | [] => Ok v
  | a :: r =>
      if khas a (v_dels v) && negb (khas a (v_start v)) then
        v1 <- incr_period v ;; v2 <- init_delegation 0 a v1 ;; reinit_all r v2
      else reinit_all r v
  end.

Definition export_zero_v (h : Z) (ord : list Z) (v : vstate) : res (vstate * list (Z * Z)) :=
  x <- withdraw_all h ord v [] ;;
  v2 <- reinit_all (ord ++ map fst (v_dels (fst x))) (reset_v (fst x)) ;;
  Ok (v2, snd x).

Fixpoint export_vals (h : Z) (ord : list Z) (l : list vstate) : res (list vstate * list (Z * Z)) :=
  match l with
  | [] => Ok ([], [])
  | v :: r =>
      x <- export_zero_v h ord v ;;
      y <- export_vals h ord r ;;
      Ok (fst x :: fst y, snd x ++ snd y)
  end.

Definition pay_all (l : list (Z * Z)) (s : state) : state := fold_left (fun st p => pay (fst p) (snd p) st) l s.

Definition exec (s : state) (o : op) : res state :=
  match o with
  | Delegate v a amt =>
      if amt <=? 0 then Err
      else match get_val v s with
           | None => Err
           | Some vs =>
               r <- delegate_v (s_height s) a amt vs ;;
               let '(vs', _, paid) := r in
               Ok (pay a paid (put_val v vs' s))
           end
  | Undelegate v a amt =>
      if amt <=? 0 then Err
      else match get_val v s with
           | None => Err
           | Some vs =>
               sh <- validate_unbond a amt vs ;;
               if max_entries <=? ubd_entries a v s then Err
               else
                 r <- unbond_v (s_height s) a sh vs ;;
                 let '(vs', tokens, paid) := r in
                 let s1 := pay a paid (put_val v vs' s) in
                 Ok (set_ubds (ubd_add a v (s_height s) tokens (s_ubds s1)) s1)
           end
  | Redelegate src dst a amt =>
      if amt <=? 0 then Err
      else match get_val src s with
           | None => Err
           | Some vsrc =>
               sh <- validate_unbond a amt vsrc ;;
               if src =? dst then Err
               else match get_val dst s with
                    | None => Err
                    | Some vdst =>
                        if has_receiving a src s then Err           (* transitive redelegation *)
                        else if max_entries <=? red_entries a src dst s then Err
                        else
                          r <- unbond_v (s_height s) a sh vsrc ;;
                          let '(vsrc', tokens, paid1) := r in
                          if tokens =? 0 then Err                    (* ErrTinyRedelegationAmount *)
                          else
                            r2 <- delegate_v (s_height s) a tokens vdst ;;
                            let '(vdst', created, paid2) := r2 in
                            let s1 := pay a paid2 (pay a paid1 (put_val dst vdst' (put_val src vsrc' s))) in
                            (* getBeginInfo: no entry when the source validator is unbonded; an unbonding
                               source validator gives its own unbonding height *)
                            if v_status vsrc' =? 2 then Ok s1
                            else
                              let eh := if v_status vsrc' =? 1 then v_ubh vsrc' else s_height s in
                              Ok (set_reds (red_insert {| r_del := a; r_src := src; r_dst := dst; r_h := eh;
                                                          r_bal := tokens; r_sh := created |} (s_reds s1)) s1)
                    end
           end
  | Withdraw v a =>
      match get_val v s with
      | None => Err
      | Some vs =>
          r <- withdraw_delegation_rewards (s_height s) a vs ;;
          Ok (pay a (snd r) (put_val v (fst r) s))
      end
  | Approve v owner spender x =>
      if x <? 0 then Err else Ok (set_allow (aset (v, owner, spender) x (s_allow s)) s)
  | Transfer v from to x =>
      if x <=? 0 then Err else do_transfer v from to x s
  | TransferFrom v spender from to x =>
      if x <=? 0 then Err
      else
        (* decrementAllowance first, then the same handler *)
        let al := aget (v, from, spender) (s_allow s) in
        if al <? x then Err
        else do_transfer v from to x (set_allow (aset (v, from, spender) (al - x) (s_allow s)) s)
  | Block rs =>
      (* BeginBlock: reward allocation; EndBlock: validator set changes *)
      Ok (set_height (s_height s + 1)
            (set_vals (map (end_block_v (s_height s) false) (alloc_all rs (s_vals s))) s))
  | Mature rs =>
      Ok (set_height (s_height s + 1)
            (set_ubds [] (set_reds []
               (set_vals (map (end_block_v (s_height s) true) (alloc_all rs (s_vals s))) s))))
  | SlashVal v ih power frac =>
      match get_val v s with
      | None => Err
      | Some vs =>
          if frac <? 0 then Err
          else if v_status vs =? 2 then Err
          else if s_height s <? ih then Err          (* can't slash infractions in the future *)
          else if ih =? s_height s then
            vs' <- slash_burn (s_height s) (slash_amount power frac) vs ;; Ok (put_val v vs' s)
          else
            let '(ubds', t1) := slash_ubds v ih frac (s_ubds s) in
            r <- slash_reds v ih frac (s_reds s) (set_ubds ubds' s) 0 ;;
            let '(s1, t2) := r in
            vs' <- slash_burn (s_height s) (slash_amount power frac - t1 - t2) vs ;;
            Ok (put_val v vs' s1)
      end
  | Jail v =>
      match get_val v s with
      | None => Pan                                  (* mustGetValidatorByConsAddr *)
      | Some vs => if v_jailed vs then Err else Ok (put_val v (set_jailed true vs) s)
      end
  | Unjail v =>
      match get_val v s with
      | None => Pan
      | Some vs => if v_jailed vs then Ok (put_val v (set_jailed false vs) s) else Err
      end
  | ExportImport zero ord =>
      (* the export reads the committed state (height of the last block = s_height - 1); share allowances
         are not part of any module's exported genesis and are gone afterwards *)
      if zero then
        x <- export_vals (s_height s - 1) ord (s_vals s) ;;
        Ok (set_height 1 (set_allow []
              (set_reds (map (fun e => {| r_del := r_del e; r_src := r_src e; r_dst := r_dst e; r_h := 0;
                                         r_bal := r_bal e; r_sh := r_sh e |}) (s_reds s))
              (set_ubds (map (fun e => {| u_del := u_del e; u_val := u_val e; u_h := 0;
                                         u_init := u_init e; u_bal := u_bal e |}) (s_ubds s))
              (pay_all (snd x) (set_vals (fst x) s))))))
      else Ok (set_allow [] s)
  | Reverted _ => Err                                (* the frame's writes are discarded *)
  | Migrate from to =>
      if migrate_ok from to s then
        Ok (set_mig (from :: to :: s_mig s)
              (set_reds (reds_rename from to (s_reds s))
              (set_ubds (ubds_rename from to (s_ubds s))
              (set_vals (map (migrate_v from to) (s_vals s)) s))))
      else Err
  end.

(* a failing call leaves the state as it was *)
Definition step (s : state) (o : op) : state * bool :=
  match exec s o with
  | Ok s' => (s', true)
  | _ => (s, false)
  end.

Definition run (s : state) (ops : list op) : state := fold_left (fun st o => fst (step st o)) ops s.

(* ---------- genesis ---------- *)
(* What InitGenesis leaves for a genesis validator whose operator (account 100+i) self-delegated
   `power_reduction` tokens: staking sets tokens/shares/delegation directly; the distribution hooks
   (AfterValidatorCreated, BeforeDelegationCreated, AfterDelegationModified) run at height 0. *)
Definition gen_v (i : Z) : vstate :=
  {| v_tokens := power_reduction; v_shares := dec_of_int power_reduction;
     v_status := 0; v_jailed := false; v_ubh := 0;
     v_dels := [(op_base + i, dec_of_int power_reduction)];
     v_period := 2; v_cur := 0; v_out := 0; v_hist := [(1, 2)]; v_ratio := [];
     v_start := [(op_base + i, {| si_prev := 1; si_stake := dec_of_int power_reduction; si_height := 0 |})];
     v_slashes := [] |}.
Fixpoint gen_vals (n : nat) (i : Z) : list vstate :=
  match n with O => [] | S m => gen_v i :: gen_vals m (i + 1) end.
Definition gen_state (n : nat) : state :=
  {| s_vals := gen_vals n 0; s_allow := []; s_reds := []; s_ubds := []; s_paid := []; s_mig := []; s_height := 1 |}.

(* ---------- the two entry points, parametrised by their call-path facts ---------- *)
(* Which caller-side value an entry point hands on: contract.Caller(), args.From or args.To.  The facts of
   TransferShares.Run and TransferFromShares.Run are generated from the source by harness/gen_c11
   (coq/gen/Gen_C11.v); exec_entry is the entry point they describe. *)
Inductive subj := SCaller | SArgsFrom | SArgsTo.
Record entry_facts := {
  ef_sender : subj;                       (* passed to handlerTransferShares as `from` *)
  ef_recipient : subj;                    (* passed as `to` *)
  ef_guards : list subj;                  (* checked with HasReceivingRedelegation *)
  ef_allow : option (subj * subj)         (* (owner, spender) of decrementAllowance, if called *)
}.
Definition subj_eval (g : subj) (caller afrom ato : Z) : Z :=
  match g with SCaller => caller | SArgsFrom => afrom | SArgsTo => ato end.

Definition exec_entry (ef : entry_facts) (v caller afrom ato x : Z) (s : state) : res state :=
  let ev g := subj_eval g caller afrom ato in
  if x <=? 0 then Err
  else
    s1 <- match ef_allow ef with
          | None => Ok s
          | Some (o, sp) =>
              let k := (v, ev o, ev sp) in
              let al := aget k (s_allow s) in
              if al <? x then Err else Ok (set_allow (aset k (al - x) (s_allow s)) s)
          end ;;
    match get_val v s1 with
    | None => Err
    | Some vs =>
        r <- transfer_shares (s_height s1) (existsb (fun g => has_receiving (ev g) v s1) (ef_guards ef))
                             (ev (ef_sender ef)) (ev (ef_recipient ef)) x vs ;;
        let '(vs', pf, pt) := r in
        Ok (pay (ev (ef_recipient ef)) pt (pay (ev (ef_sender ef)) pf (put_val v vs' s1)))
    end.
