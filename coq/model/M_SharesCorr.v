(* glue for the correspondence files Cases_C11*.v written by harness/c11:
   one case = one history on the real app from genesis: the number of validators, the fingerprint of
   the real stores' projection at genesis, and for every
   operation what the real app did (accepted?, the touched validators' records, allowances,
   redelegation / unbonding entry counts, height); plus all validators at the end.
   shares_mismatch = true  iff  the model, run on the same operations, disagrees anywhere. *)
From Coq Require Import ZArith List Bool.
From FxV Require Import lib.Dec model.M_Shares.
Import ListNotations.
Open Scope Z_scope.

Definition mk_si (p st h : Z) : sinfo := {| si_prev := p; si_stake := st; si_height := h |}.
Definition mk_v (tok sh : Z) (dels : list (Z * Z)) (period : Z) (hist : list (Z * Z))
           (start : list (Z * sinfo)) (slashes : list (Z * Z)) : vstate :=
  {| v_tokens := tok; v_shares := sh; v_dels := dels; v_period := period; v_hist := hist;
     v_start := start; v_slashes := slashes |}.
Definition mk_state (vals : list vstate) (h : Z) : state :=
  {| s_vals := vals; s_allow := []; s_reds := []; s_ubds := []; s_height := h |}.

Record sobs := {
  o_ok : bool;
  o_digest : Z;                        (* fingerprint of the whole projection (all validators, allowances, entries, height) *)
  o_full : bool;                       (* are the explicit records below filled in? *)
  o_vals : list (Z * vstate);          (* validators the operation names, as read from the real stores *)
  o_allow : list (akey * Z);           (* every non-zero allowance *)
  o_reds : list (Z * Z * Z * Z);       (* delegator, src, dst, number of entries *)
  o_ubds : list (Z * Z * Z);           (* delegator, validator, number of entries *)
  o_height : Z
}.
Definition mk_obs ok dg vals allow reds ubds h : sobs :=
  {| o_ok := ok; o_digest := dg; o_full := true; o_vals := vals; o_allow := allow; o_reds := reds; o_ubds := ubds; o_height := h |}.
Definition mk_obs_d ok dg h : sobs :=
  {| o_ok := ok; o_digest := dg; o_full := false; o_vals := []; o_allow := []; o_reds := []; o_ubds := []; o_height := h |}.

(* fingerprint: polynomial hash modulo 2^64 (odd base) over a canonical serialisation, every number fed
   as its 64-bit limbs (at most five (all modelled quantities are below 2^320); the harness computes the same function
   (harness/c11: digest) over the records read from the real stores.  Allowances and entries are hashed
   order-independently (sum of per-record hashes). *)
Definition hM : Z := 18446744073709551615.
Definition hB : Z := 1000003.
Definition hstep (acc x : Z) : Z := Z.land (acc * hB + x + 1) hM.
Fixpoint hlimbs (fuel : nat) (acc x : Z) : Z :=
  match fuel with
  | O => acc
  | S f => if x =? 0 then acc else hlimbs f (hstep acc (Z.land x hM)) (Z.shiftr x 64)
  end.
(* the limbs of x (least significant first, at most five), then a terminator *)
Definition hnum (acc x : Z) : Z := hstep (hlimbs 5 acc x) 0.
Definition hmix (l : list Z) : Z := fold_left hnum l 7.
Definition ser_v (v : vstate) : list Z :=
  [v_tokens v; v_shares v; Z.of_nat (length (v_dels v))] ++
  flat_map (fun e => [fst e; snd e]) (v_dels v) ++
  [v_period v; Z.of_nat (length (v_hist v))] ++
  flat_map (fun e => [fst e; snd e]) (v_hist v) ++
  [Z.of_nat (length (v_start v))] ++
  flat_map (fun e => [fst e; si_prev (snd e); si_stake (snd e); si_height (snd e)]) (v_start v) ++
  [Z.of_nat (length (v_slashes v))] ++
  flat_map (fun e => [fst e; snd e]) (v_slashes v).
Definition digest (s : state) : Z :=
  let hv := hmix (s_height s :: Z.of_nat (length (s_vals s)) :: flat_map ser_v (s_vals s)) in
  let ha := fold_right (fun kv acc => if snd kv =? 0 then acc
                                      else let '(a, b, c) := fst kv in Z.land (acc + hmix [a; b; c; snd kv]) hM)
                       0 (s_allow s) in
  let hr := fold_right (fun e acc => let '(d, f, t) := e in Z.land (acc + hmix [d; f; t]) hM) 0 (s_reds s) in
  let hu := fold_right (fun e acc => let '(d, w, _) := e in Z.land (acc + hmix [d; w]) hM) 0 (s_ubds s) in
  hmix [hv; ha; hr; hu].

(* every history starts at genesis: the model starts from M_Shares.gen_state (for which the invariant of
   the theorems is proved) and the fingerprint of the real genesis projection must agree with it *)
Record shares_case := { c_nvals : nat; c_init_digest : Z; c_steps : list (op * sobs); c_final : list vstate }.
Definition mk_shares_case n d s f : shares_case := {| c_nvals := n; c_init_digest := d; c_steps := s; c_final := f |}.
Definition c_init (c : shares_case) : state := gen_state (c_nvals c).

Definition pair_eqb (x y : Z * Z) : bool := (fst x =? fst y) && (snd x =? snd y).
Definition si_eqb (x y : sinfo) : bool :=
  (si_prev x =? si_prev y) && (si_stake x =? si_stake y) && (si_height x =? si_height y).
Fixpoint list_eqb {A} (f : A -> A -> bool) (l1 l2 : list A) : bool :=
  match l1, l2 with
  | [], [] => true
  | x :: r1, y :: r2 => f x y && list_eqb f r1 r2
  | _, _ => false
  end.
Definition v_eqb (x y : vstate) : bool :=
  (v_tokens x =? v_tokens y) && (v_shares x =? v_shares y) &&
  list_eqb pair_eqb (v_dels x) (v_dels y) && (v_period x =? v_period y) &&
  list_eqb pair_eqb (v_hist x) (v_hist y) &&
  list_eqb (fun a b => (fst a =? fst b) && si_eqb (snd a) (snd b)) (v_start x) (v_start y) &&
  list_eqb pair_eqb (v_slashes x) (v_slashes y).

Definition sumZ (l : list Z) : Z := fold_right Z.add 0 l.

Definition obs_ok (s : state) (ok : bool) (o : sobs) : bool :=
  Bool.eqb ok (o_ok o) && (digest s =? o_digest o) && (s_height s =? o_height o) &&
  (negb (o_full o) ||
  forallb (fun iv => match get_val (fst iv) s with Some v => v_eqb v (snd iv) | None => false end) (o_vals o) &&
  forallb (fun kv => aget (fst kv) (s_allow s) =? snd kv) (o_allow o) &&
  (Z.of_nat (length (filter (fun kv => negb (snd kv =? 0)) (s_allow s))) =? Z.of_nat (length (o_allow o))) &&
  forallb (fun e => let '(d, f, t, n) := e in red_entries d f t s =? n) (o_reds o) &&
  (Z.of_nat (length (s_reds s)) =? sumZ (map (fun e => snd e) (o_reds o))) &&
  forallb (fun e => let '(d, w, n) := e in ubd_entries d w s =? n) (o_ubds o) &&
  (Z.of_nat (length (s_ubds s)) =? sumZ (map (fun e => snd e) (o_ubds o))) &&
  (s_height s =? o_height o)).

(* run the model along the observed history; None at the first disagreement *)
Fixpoint check_steps (s : state) (l : list (op * sobs)) : option state :=
  match l with
  | [] => Some s
  | (o, ob) :: r =>
      let '(s', ok) := step s o in
      if obs_ok s' ok ob then check_steps s' r else None
  end.

Definition shares_mismatch (c : shares_case) : bool :=
  negb (digest (c_init c) =? c_init_digest c) ||
  match check_steps (c_init c) (c_steps c) with
  | None => true
  | Some s => negb (list_eqb v_eqb (s_vals s) (c_final c))
  end.

(* diagnostics (not used by the driver): index of the first disagreeing step, -1 if none,
   length if only the final comparison fails *)
Fixpoint first_bad_from (i : Z) (s : state) (l : list (op * sobs)) : Z * state :=
  match l with
  | [] => (-1, s)
  | (o, ob) :: r =>
      let '(s', ok) := step s o in
      if obs_ok s' ok ob then first_bad_from (i + 1) s' r else (i, s')
  end.
Definition first_bad (c : shares_case) : Z * state := first_bad_from 0 (c_init c) (c_steps c).
