(* glue for the correspondence files Cases_C11*.v written by harness/c11:
   one case = one history on the real app from genesis: the number of validators, the fingerprint of
   the real stores' projection at genesis, and for every operation what the real app did (accepted?,
   fingerprint of the whole projection afterwards, height; for the first histories also the explicit
   records of the validators the operation names); plus all validators at the end.
   shares_mismatch = true  iff  the model, run on the same operations, disagrees anywhere. *)
From Coq Require Import ZArith List Bool.
From FxV Require Import lib.Dec model.M_Shares.
Import ListNotations.
Open Scope Z_scope.

Definition mk_si (p st h : Z) : sinfo := {| si_prev := p; si_stake := st; si_height := h |}.
(* hist entries are given as (period, refcount, cumulative ratio) *)
Definition mk_v (tok sh status : Z) (jailed : bool) (ubh : Z) (dels : list (Z * Z)) (period cur out : Z)
           (hist : list (Z * Z * Z)) (start : list (Z * sinfo)) (slashes : list (Z * Z * Z)) : vstate :=
  {| v_tokens := tok; v_shares := sh; v_status := status; v_jailed := jailed; v_ubh := ubh; v_dels := dels;
     v_period := period; v_cur := cur; v_out := out;
     v_hist := map (fun e => (fst (fst e), snd (fst e))) hist;
     v_ratio := map (fun e => (fst (fst e), snd e)) hist;
     v_start := start; v_slashes := slashes |}.

Record sobs := {
  o_ok : bool;
  o_digest : Z;                        (* fingerprint of the whole projection *)
  o_vals : list (Z * vstate);          (* optionally: validators the operation names, as read from the real stores *)
  o_height : Z
}.
Definition mk_obs ok dg vals h : sobs := {| o_ok := ok; o_digest := dg; o_vals := vals; o_height := h |}.
Definition mk_obs_d ok dg h : sobs := {| o_ok := ok; o_digest := dg; o_vals := []; o_height := h |}.

(* fingerprint: polynomial hash modulo 2^64 (odd base) over a canonical serialisation, every number fed
   as its 64-bit limbs (at most five: all modelled quantities are below 2^320); the harness computes the same function
   (harness/c11: digest) over the records read from the real stores.  Allowances, entries and payouts are
   hashed order-independently (sum of per-record hashes). *)
Definition hM : Z := 18446744073709551615.
Definition hB : Z := 1000003.
Definition hstep (acc x : Z) : Z := Z.land (acc * hB + x + 1) hM.
Fixpoint hlimbs (fuel : nat) (acc x : Z) : Z :=
  match fuel with
  | O => acc
  | S f => if x =? 0 then acc else hlimbs f (hstep acc (Z.land x hM)) (Z.shiftr x 64)
  end.
(* the limbs of x (least significant first, at most five), then a terminator *)
Definition hnum (acc x : Z) : Z := hstep (hlimbs 5 acc x) 0.
Definition hmix (l : list Z) : Z := fold_left hnum l 7.
Definition b2n (b : bool) : Z := if b then 1 else 0.
Definition ser_v (v : vstate) : list Z :=
  [v_tokens v; v_shares v; v_status v; b2n (v_jailed v); v_ubh v; Z.of_nat (length (v_dels v))] ++
  flat_map (fun e => [fst e; snd e]) (v_dels v) ++
  [v_period v; v_cur v; v_out v; Z.of_nat (length (v_hist v))] ++
  flat_map (fun e => [fst e; snd e; hratio (fst e) v]) (v_hist v) ++
  [Z.of_nat (length (v_start v))] ++
  flat_map (fun e => [fst e; si_prev (snd e); si_stake (snd e); si_height (snd e)]) (v_start v) ++
  [Z.of_nat (length (v_slashes v))] ++
  flat_map (fun e => let '(h, p, f) := e in [h; p; f]) (v_slashes v).
Definition hsum {A} (f : A -> option Z) (l : list A) : Z :=
  fold_right (fun e acc => match f e with Some x => Z.land (acc + x) hM | None => acc end) 0 l.
Definition digest (s : state) : Z :=
  let hv := hmix (s_height s :: Z.of_nat (length (s_vals s)) :: flat_map ser_v (s_vals s)) in
  let ha := hsum (fun kv : akey * Z => if snd kv =? 0 then None
                                       else let '(a, b, c) := fst kv in Some (hmix [a; b; c; snd kv])) (s_allow s) in
  let hr := hsum (fun e => Some (hmix [r_del e; r_src e; r_dst e; r_h e; r_bal e; r_sh e])) (s_reds s) in
  let hu := hsum (fun e => Some (hmix [u_del e; u_val e; u_h e; u_init e; u_bal e])) (s_ubds s) in
  let hp := hsum (fun kv : Z * Z => if snd kv =? 0 then None else Some (hmix [fst kv; snd kv])) (s_paid s) in
  let hm := hsum (fun a : Z => Some (hmix [a])) (s_mig s) in
  hmix [hv; ha; hr; hu; hp; hm].

(* every history starts at genesis: the model starts from M_Shares.gen_state (for which the invariant of
   the theorems is proved) and the fingerprint of the real genesis projection must agree with it *)
Record shares_case := { c_nvals : nat; c_init_digest : Z; c_steps : list (op * sobs); c_final : list vstate }.
Definition mk_shares_case n d s f : shares_case := {| c_nvals := n; c_init_digest := d; c_steps := s; c_final := f |}.
Definition c_init (c : shares_case) : state := gen_state (c_nvals c).

Definition pair_eqb (x y : Z * Z) : bool := (fst x =? fst y) && (snd x =? snd y).
Definition trip_eqb (x y : Z * Z * Z) : bool :=
  let '(a, b, c) := x in let '(a', b', c') := y in (a =? a') && (b =? b') && (c =? c').
Definition si_eqb (x y : sinfo) : bool :=
  (si_prev x =? si_prev y) && (si_stake x =? si_stake y) && (si_height x =? si_height y).
Fixpoint list_eqb {A} (f : A -> A -> bool) (l1 l2 : list A) : bool :=
  match l1, l2 with
  | [], [] => true
  | x :: r1, y :: r2 => f x y && list_eqb f r1 r2
  | _, _ => false
  end.
(* explicit comparison; the ratio of every historical record is compared through hratio *)
Definition v_eqb (x y : vstate) : bool :=
  (v_tokens x =? v_tokens y) && (v_shares x =? v_shares y) && (v_status x =? v_status y) &&
  Bool.eqb (v_jailed x) (v_jailed y) && (v_ubh x =? v_ubh y) &&
  list_eqb pair_eqb (v_dels x) (v_dels y) && (v_period x =? v_period y) &&
  (v_cur x =? v_cur y) && (v_out x =? v_out y) &&
  list_eqb pair_eqb (v_hist x) (v_hist y) &&
  forallb (fun e => hratio (fst e) x =? hratio (fst e) y) (v_hist y) &&
  list_eqb (fun a b => (fst a =? fst b) && si_eqb (snd a) (snd b)) (v_start x) (v_start y) &&
  list_eqb trip_eqb (v_slashes x) (v_slashes y).

Definition obs_ok (s : state) (ok : bool) (o : sobs) : bool :=
  Bool.eqb ok (o_ok o) && (digest s =? o_digest o) && (s_height s =? o_height o) &&
  forallb (fun iv => match get_val (fst iv) s with Some v => v_eqb v (snd iv) | None => false end) (o_vals o).

(* run the model along the observed history; None at the first disagreement *)
Fixpoint check_steps (s : state) (l : list (op * sobs)) : option state :=
  match l with
  | [] => Some s
  | (o, ob) :: r =>
      let '(s', ok) := step s o in
      if obs_ok s' ok ob then check_steps s' r else None
  end.

Definition shares_mismatch (c : shares_case) : bool :=
  negb (digest (c_init c) =? c_init_digest c) ||
  match check_steps (c_init c) (c_steps c) with
  | None => true
  | Some s => negb (list_eqb v_eqb (s_vals s) (c_final c))
  end.

(* diagnostics (not used by the driver): index of the first disagreeing step, -1 if none *)
Fixpoint first_bad_from (i : Z) (s : state) (l : list (op * sobs)) : Z * state :=
  match l with
  | [] => (-1, s)
  | (o, ob) :: r =>
      let '(s', ok) := step s o in
      if obs_ok s' ok ob then first_bad_from (i + 1) s' r else (i, s')
  end.
Definition first_bad (c : shares_case) : Z * state := first_bad_from 0 (c_init c) (c_steps c).
