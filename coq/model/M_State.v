(* C17 / K_state: process-level mutable state under x/ (package variables and keeper-struct fields of map,
   slice, chan or pointer type).  Such state is not rolled back with a context branch and is empty again after a
   restart, so it may only be written while the app is WIRED (before the first block).  The translator lists,
   for every K_state member, every function that writes it and every function that calls such a writer
   (gen/Gen_NondetSites.v: gen_state_writers, gen_writer_guards, gen_writer_callers, gen_seals_first).  Here: the
   finite check "assigned during wiring, never after", and an executable model of the crosschain router whose
   route map is additionally frozen by a seal. *)
From Coq Require Import String ZArith List Bool.
From FxV Require Import model.M_NondetTypes gen.Gen_NondetSites.
Import ListNotations.
Open Scope string_scope.

Fixpoint has_suffix (suf s : string) : bool :=
  if String.eqb suf s then true
  else match s with EmptyString => false | String _ r => has_suffix suf r end.

(* functions that run exactly once per process, before any block: the app constructor, package init
   functions, and the module's service registration (called from the app constructor) *)
Definition wiring_fn (s : string) : bool :=
  String.eqb s "app/keepers/keepers.go:NewAppKeeper" || has_suffix ":init" s ||
  String.eqb s "x/gov/module.go:AppModule.RegisterServices".

(* every call of a writer of process-level state sits in a wiring function, and every writer that is not
   itself an init function has at least one such (statically resolved) call site *)
Definition writers_wiring_only : bool :=
  forallb (fun p => wiring_fn (snd p)) gen_writer_callers &&
  forallb (fun g => has_suffix ".init" (fst g) ||
                    existsb (fun p => String.eqb (fst p) (fst g)) gen_writer_callers) gen_writer_guards.

(* --- the crosschain router (x/crosschain/keeper/keeper_router.go) --- *)
Definition routes_member : string := "x/crosschain/keeper/keeper_router.go|type router|routes".

Definition router_facts : bool :=
  (* the route map is written by the constructor and by AddRoute only *)
  forallb (fun w => match w with (m, _, f) =>
             negb (String.eqb m routes_member) || String.eqb f "NewRouter" || String.eqb f "router.AddRoute" end)
          gen_state_writers &&
  existsb (fun w => match w with (m, _, f) => String.eqb m routes_member && String.eqb f "router.AddRoute" end) gen_state_writers &&
  (* AddRoute starts with `if rtr.sealed { panic(..) }` *)
  existsb (fun g => String.eqb (fst g) "x/crosschain/keeper.AddRoute" && String.eqb (snd g) "sealed") gen_writer_guards &&
  (* the keeper that hands the router to block execution seals it first *)
  existsb (String.eqb "x/crosschain/keeper.NewRouterKeeper") gen_seals_first.

Open Scope Z_scope.

Record rtr := mk_rtr { r_routes : list (Z * Z); r_sealed : bool }.

Inductive rop :=
| RAddRoute (path handler : Z)
| RSeal
| RHasRoute (path : Z)
| RGetRoute (path : Z).

Definition r_has (r : rtr) (p : Z) : bool := existsb (fun e => fst e =? p) (r_routes r).

(* None = the Go code panics (the process dies; nothing is executed afterwards on this router) *)
Definition rstep (r : rtr) (o : rop) : option rtr :=
  match o with
  | RAddRoute p h =>
      if r_sealed r then None                               (* "router sealed; cannot add route handler" *)
      else if r_has r p then None                           (* "route has already been initialized"       *)
      else Some (mk_rtr ((p, h) :: r_routes r) false)
  | RSeal => if r_sealed r then None else Some (mk_rtr (r_routes r) true)
  | RHasRoute _ => Some r
  | RGetRoute p => if r_has r p then Some r else None       (* "route does not exist"                     *)
  end.

Fixpoint rrun (r : rtr) (ops : list rop) : option rtr :=
  match ops with
  | [] => Some r
  | o :: rest => match rstep r o with Some r' => rrun r' rest | None => None end
  end.
