(* M_Tally.v — the tail of /repo/x/gov/keeper/tally.go:Tally (after the votes are summed) as a list of
   steps in source order: divisions (LegacyDec.Quo panics on a zero divisor) and early-return guards.
   The step list itself is NOT written here: harness/gen_c07 reads it from the source (Gen_EndBlock.v,
   gen_tally_steps).  [run] executes a step list on concrete tally inputs; [safe] is a static check that
   every division is dominated by a guard that excludes a zero divisor. *)
From Coq Require Import ZArith List Bool.
Import ListNotations.
Open Scope Z_scope.

Inductive divisor := DBonded | DTotal | DNonAbstain | DOther.
Inductive guard := GBondedZero | GQuorum | GAllAbstain | GOther.
Inductive step := SDiv (d : divisor) | SGuard (g : guard).

(* scaled LegacyDec values *)
Record tally_in := {
  t_bonded : Z;        (* TotalBondedTokens *)
  t_total : Z;         (* totalVotingPower *)
  t_abstain : Z;       (* results[Abstain] *)
  t_quorum : Z;        (* quorum for the proposal, scaled 1e18 *)
  t_other : list bool  (* outcomes of conditions the translator does not interpret, in order *)
}.

Inductive tres := TDone | TPanic.

Definition div_ok (d : divisor) (i : tally_in) : bool :=
  match d with
  | DBonded => negb (t_bonded i =? 0)
  | DTotal => negb (t_total i =? 0)
  | DNonAbstain => negb (t_total i - t_abstain i =? 0)
  | DOther => false
  end.

Definition dec_one : Z := 10 ^ 18.

(* does the guard take its early return?  (GQuorum is evaluated after percentVoting was computed) *)
Definition guard_returns (g : guard) (i : tally_in) (others : list bool) : bool * list bool :=
  match g with
  | GBondedZero => (t_bonded i =? 0, others)
  | GQuorum => ((t_total i * dec_one) / t_bonded i <? t_quorum i, others)
  | GAllAbstain => (t_total i - t_abstain i =? 0, others)
  | GOther => match others with [] => (false, []) | b :: r => (b, r) end
  end.

Fixpoint run (ss : list step) (i : tally_in) (others : list bool) : tres :=
  match ss with
  | [] => TDone
  | SDiv d :: r => if div_ok d i then run r i others else TPanic
  | SGuard g :: r => let '(b, o') := guard_returns g i others in if b then TDone else run r i o'
  end.

(* static facts established by the guards passed so far *)
Record facts := { f_bonded_nz : bool; f_total_nz : bool; f_nonabstain_nz : bool }.
Definition no_facts := {| f_bonded_nz := false; f_total_nz := false; f_nonabstain_nz := false |}.

Definition div_known (d : divisor) (f : facts) : bool :=
  match d with
  | DBonded => f_bonded_nz f
  | DTotal => f_total_nz f
  | DNonAbstain => f_nonabstain_nz f
  | DOther => false
  end.

Definition learn (g : guard) (f : facts) : facts :=
  match g with
  | GBondedZero => {| f_bonded_nz := true; f_total_nz := f_total_nz f; f_nonabstain_nz := f_nonabstain_nz f |}
  | GAllAbstain => {| f_bonded_nz := f_bonded_nz f; f_total_nz := true; f_nonabstain_nz := true |}
  | _ => f
  end.

Fixpoint safe (ss : list step) (f : facts) : bool :=
  match ss with
  | [] => true
  | SDiv d :: r => div_known d f && safe r f
  | SGuard g :: r => safe r (learn g f)
  end.
