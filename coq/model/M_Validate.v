(* M_Validate.v — executable model of fx-core's STATELESS validators (ValidateBasic / Validate) and of the
   Must*-style helpers the handlers apply to validated messages, over FIELD ABSTRACTIONS of their inputs.

   Sources transcribed (statement order kept; a nil-method call before the guarding check is the bug class):
     /repo/x/crosschain/types/{msgs.go,params.go,contract.go,external_address.go}
     /repo/x/erc20/types/msg.go   /repo/x/migrate/types/msg.go   /repo/x/gov/types/{msgs.go,params.go}
     /repo/x/evm/types/msg.go     /repo/x/staking/types/contract.go   /repo/types/{target.go,address.go}
     /repo/x/crosschain/keeper/{msg_server.go (Confirm, BridgeCall), bridge_call_in.go, many_to_one.go}
   Dependencies whose nil behaviour matters (cosmossdk.io/math v1.3.0, cosmos-sdk types/coin.go):
     Int.IsNil  = (i.i == nil);  Int.Sign/IsNegative/IsPositive/IsZero call big.Int.Sign on i.i : nil => PANIC
     LegacyDec.IsNegative/GT call big.Int.Sign/Cmp on d.i : nil => PANIC
     Coin.Validate: ValidateDenom; Amount.IsNil => err; Amount.IsNegative => err.  Coin.IsPositive = Amount.Sign()==1
     Coins.Validate: calls coin.IsPositive WITHOUT a nil check : nil amount => PANIC
     sdk.NewCoin(denom, amt) panics when Validate fails (nil or negative amount)
     gogoproto: an absent (or empty) customtype field is left as the zero value: Int{} / LegacyDec{} with a nil pointer.

   Transcribed from /repo at the commits that repaired findings C20-1..C20-6 (51457a3 Params nil Dec, cac8fd3 MsgBridgeCall
   nil value/amount, edafc05 MsgBridgeCallClaim amounts, 02a5a38 MsgServer.Confirm nil Any).  The validators as they were
   BEFORE those commits are kept, clearly separated, in model/M_ValidateHist.v.

   A validator is a function into  VOk | VErr tag | VPanic.  The tag is the leading text of the Go error
   (used only by the strict correspondence mode).  No proofs here. *)
From Coq Require Import ZArith List Bool String.
Import ListNotations.
Open Scope string_scope.
Open Scope Z_scope.

Inductive vres := VOk | VErr (tag : string) | VPanic.
Inductive R (A : Type) := Val (a : A) | Pan.
Arguments Val {A} a.
Arguments Pan {A}.

(* if <cond> { return error(tag) } ; k      — cond may itself panic *)
Notation "'CHECK' c 'FAIL' t ';;' k" :=
  (match c with Pan => VPanic | Val true => VErr t | Val false => k end)
  (at level 200, c at level 0, t at level 0, right associativity).
(* if err := sub; err != nil { return wrap(tag) }   — the wrapped text starts with tag *)
Notation "'SUBW' r 'AS' t ';;' k" :=
  (match r with VPanic => VPanic | VErr _ => VErr t | VOk => k end)
  (at level 200, r at level 0, t at level 0, right associativity).
(* if err := sub; err != nil { return err } *)
Notation "'SUB' r ';;' k" :=
  (match r with VPanic => VPanic | VErr e => VErr e | VOk => k end)
  (at level 200, r at level 0, right associativity).

Definition orR (a : R bool) (b : R bool) : R bool :=   (* Go's a || b : b evaluated only when a is false *)
  match a with Pan => Pan | Val true => Val true | Val false => b end.
Definition andR (a : R bool) (b : R bool) : R bool :=
  match a with Pan => Pan | Val false => Val false | Val true => b end.
Definition notR (a : R bool) : R bool := match a with Pan => Pan | Val x => Val (negb x) end.
Definition pure (b : bool) : R bool := Val b.

(* ---------------- field abstractions ---------------- *)

Inductive chainv := ChUnknown | ChEth | ChTron.          (* externalAddressRouter[name]: absent | EthereumAddress{} | tronAddress{} *)
Inductive bechv := BEmpty | BBad | BGood (id : Z).       (* text offered as an account bech32 address *)
Inductive valv := VaBad | VaGood.                        (* text offered as a validator-operator bech32 address *)
Inductive extv := XEmpty | XBad | XEth | XTron.          (* text offered as an external address: EIP-55 0x-address / tron base58check *)
Inductive hexv := HEmpty | HBad | HGood.                 (* text offered to hex.DecodeString *)
Inductive intv := INil | INeg | IZero | IPos.            (* sdkmath.Int: nil inner pointer | <0 | 0 | >0 (incl. 2^256-1) *)
Inductive decv := DNil | DNeg | DUnit | DBig.            (* sdkmath.LegacyDec: nil | <0 | 0..1 | >1 *)
Record coinv := { cd_ok : bool; cd_id : Z; c_amt : intv }. (* sdk.Coin: denom passes ValidateDenom?, denom identity (0 = "FX"), amount *)

Definition chain_known (c : chainv) : bool := match c with ChUnknown => false | _ => true end.
Definition acc_ok (b : bechv) : bool := match b with BGood _ => true | _ => false end.
Definition val_ok (v : valv) : bool := match v with VaGood => true | _ => false end.
Definition eth_ok (x : extv) : bool := match x with XEth => true | _ => false end.          (* contract.ValidateEthereumAddress *)
Definition ext_ok (c : chainv) (x : extv) : bool :=                                           (* ValidateExternalAddr(chain, x) == nil *)
  match c, x with ChEth, XEth => true | ChTron, XTron => true | _, _ => false end.
Definition hex_ok (h : hexv) : bool := match h with HBad => false | _ => true end.
Definition hex_empty (h : hexv) : bool := match h with HEmpty => true | _ => false end.
Definition bech_eq (a b : bechv) : bool :=
  match a, b with BGood x, BGood y => x =? y | BEmpty, BEmpty => true | _, _ => false end.

Definition int_isnil (i : intv) : bool := match i with INil => true | _ => false end.
Definition int_sign (i : intv) : R Z := match i with INil => Pan | INeg => Val (-1) | IZero => Val 0 | IPos => Val 1 end.
Definition int_isneg (i : intv) : R bool := match int_sign i with Pan => Pan | Val s => Val (s =? -1) end.
Definition int_ispos (i : intv) : R bool := match int_sign i with Pan => Pan | Val s => Val (s =? 1) end.
Definition int_nonzero (i : intv) : R bool := match int_sign i with Pan => Pan | Val s => Val (negb (s =? 0)) end.
Definition dec_isneg (d : decv) : R bool := match d with DNil => Pan | DNeg => Val true | _ => Val false end.
Definition dec_isnil (d : decv) : bool := match d with DNil => true | _ => false end.
Definition dec_gt_one (d : decv) : R bool := match d with DNil => Pan | DBig => Val true | _ => Val false end.

(* sdk.Coin.IsValid / IsPositive ; the Go expression  !c.IsValid() || !c.IsPositive()  and friends *)
Definition coin_isvalid (c : coinv) : bool :=
  cd_ok c && negb (int_isnil (c_amt c)) && match c_amt c with INeg => false | _ => true end.
Definition coin_ispos (c : coinv) : R bool := int_ispos (c_amt c).
Definition coin_invalid_or_notpos (c : coinv) : R bool := orR (pure (negb (coin_isvalid c))) (notR (coin_ispos c)).
Definition coin_invalid_or_neg (c : coinv) : R bool := orR (pure (negb (coin_isvalid c))) (int_isneg (c_amt c)).
Definition int_nil_or_notpos (i : intv) : R bool := orR (pure (int_isnil i)) (notR (int_ispos i)).
Definition int_nil_or_neg (i : intv) : R bool := orR (pure (int_isnil i)) (int_isneg i).

(* sdk.Coins.Validate (types/coin.go): first coin: ValidateDenom, then IsPositive (no nil check);
   following coins: ValidateDenom, sorted, no duplicate, IsPositive.  Denom order = order of ids. *)
Fixpoint coins_validate_rest (low : Z) (cs : list coinv) : vres :=
  match cs with
  | [] => VOk
  | c :: r =>
      CHECK (pure (negb (cd_ok c))) FAIL "invalid denom" ;;
      CHECK (pure (cd_id c <? low)) FAIL "denomination" ;;
      CHECK (pure (cd_id c =? low)) FAIL "duplicate denomination" ;;
      CHECK (notR (coin_ispos c)) FAIL "coin" ;;
      coins_validate_rest (cd_id c) r
  end.
Definition coins_validate (cs : list coinv) : vres :=
  match cs with
  | [] => VOk
  | c :: r =>
      CHECK (pure (negb (cd_ok c))) FAIL "invalid denom" ;;
      CHECK (notR (coin_ispos c)) FAIL "coin" ;;
      coins_validate_rest (cd_id c) r
  end.

Definition coins_nil_amount (cs : list coinv) : bool := existsb (fun c => int_isnil (c_amt c)) cs.

(* ---------------- x/crosschain/types/params.go : Params.ValidateBasic ---------------- *)

Inductive gidv := GEmpty | GLong | GOk.   (* GravityId: "" | more than 32 bytes | fits bytes32 *)
Record xparams := {
  p_gravity : gidv; p_avg_block : Z; p_batch_timeout : Z; p_avg_ext_block : Z; p_signed_window : Z;
  p_slash : decv; p_ibc_timeout_height : Z; p_power_change : decv; p_threshold : coinv;
  p_multiple : Z; p_oracles : Z (* len(Oracles) *); p_bridge_call_timeout : Z }.

Definition v_Params (m : xparams) : vres :=
  CHECK (pure match p_gravity m with GEmpty => true | _ => false end) FAIL "gravityId cannpt be empty" ;;
  CHECK (pure match p_gravity m with GLong => true | _ => false end) FAIL "string too long" ;;
  CHECK (pure (p_avg_block m <? 100)) FAIL "invalid average block time" ;;
  CHECK (pure (p_batch_timeout m <? 60000)) FAIL "invalid target batch timeout" ;;
  CHECK (pure (p_avg_ext_block m <? 100)) FAIL "invalid average external block time" ;;
  CHECK (pure (p_signed_window m <=? 1)) FAIL "invalid signed window too short" ;;
  CHECK (pure (dec_isnil (p_slash m))) FAIL "slash fraction cannot be empty" ;;                                  (* 51457a3 *)
  CHECK (pure (dec_isnil (p_power_change m))) FAIL "oracle set update power change percent cannot be empty" ;;   (* 51457a3 *)
  CHECK (dec_isneg (p_slash m)) FAIL "attempted to slash with a negative slash factor" ;;
  CHECK (dec_gt_one (p_slash m)) FAIL "slash factor too large" ;;
  CHECK (pure (p_ibc_timeout_height m <=? 1)) FAIL "invalid ibc transfer timeout too short" ;;
  CHECK (dec_isneg (p_power_change m)) FAIL "attempted to powet change percent with a negative" ;;
  CHECK (dec_gt_one (p_power_change m)) FAIL "powet change percent too large" ;;
  CHECK (coin_invalid_or_notpos (p_threshold m)) FAIL "invalid delegate threshold" ;;
  CHECK (pure (negb (cd_id (p_threshold m) =? 0))) FAIL "oracle delegate denom must FX" ;;
  CHECK (pure (p_multiple m <=? 0)) FAIL "invalid delegate multiple" ;;
  CHECK (pure (0 <? p_oracles m)) FAIL "deprecated oracles" ;;
  CHECK (pure (p_bridge_call_timeout m <=? 3600000)) FAIL "invalid bridge call timeout" ;;
  VOk.

(* ---------------- x/crosschain/types/msgs.go ---------------- *)

Definition unknown_chain (c : chainv) : R bool := pure (negb (chain_known c)).
Definition UC := "unrecognized cross chain name".

Record m_update_params := { up_authority : bechv; up_chain : chainv; up_params : xparams }.
Definition v_MsgUpdateParams (m : m_update_params) : vres :=
  CHECK (pure (negb (acc_ok (up_authority m)))) FAIL "authority" ;;
  CHECK (unknown_chain (up_chain m)) FAIL UC ;;
  match v_Params (up_params m) with
  | VPanic => VPanic
  | VErr e => VErr ("params err: " ++ e)%string
  | VOk => CHECK (pure (0 <? p_oracles (up_params m))) FAIL "deprecated oracles" ;; VOk
  end.

Record m_bonded_oracle := { bo_chain : chainv; bo_oracle : bechv; bo_bridger : bechv; bo_external : extv; bo_amount : coinv }.
Definition v_MsgBondedOracle (m : m_bonded_oracle) : vres :=
  CHECK (unknown_chain (bo_chain m)) FAIL UC ;;
  CHECK (pure (negb (acc_ok (bo_oracle m)))) FAIL "invalid oracle address" ;;
  CHECK (pure (negb (acc_ok (bo_bridger m)))) FAIL "invalid bridger address" ;;
  CHECK (pure (negb (ext_ok (bo_chain m) (bo_external m)))) FAIL "invalid external address" ;;
  CHECK (coin_invalid_or_neg (bo_amount m)) FAIL "invalid delegation amount" ;;
  CHECK (pure (bech_eq (bo_oracle m) (bo_bridger m))) FAIL "same address" ;;
  VOk.

Record m_add_delegate := { ad_chain : chainv; ad_oracle : bechv; ad_amount : coinv }.
Definition v_MsgAddDelegate (m : m_add_delegate) : vres :=
  CHECK (unknown_chain (ad_chain m)) FAIL UC ;;
  CHECK (pure (negb (acc_ok (ad_oracle m)))) FAIL "invalid oracle address" ;;
  CHECK (coin_invalid_or_notpos (ad_amount m)) FAIL "invalid amount" ;;
  VOk.

Record m_redelegate := { rd_chain : chainv; rd_oracle : bechv; rd_validator : valv }.
Definition v_MsgReDelegate (m : m_redelegate) : vres :=
  CHECK (unknown_chain (rd_chain m)) FAIL UC ;;
  CHECK (pure (negb (acc_ok (rd_oracle m)))) FAIL "invalid oracle address" ;;
  CHECK (pure (negb (val_ok (rd_validator m)))) FAIL "invalid validator address" ;;
  VOk.

(* MsgEditBridger checks BridgerAddress with ValAddressFromBech32 (as the code does); the final
   OracleAddress == BridgerAddress comparison is between an account-prefixed and a validator-prefixed
   string and can therefore never be true once both checks passed *)
Record m_edit_bridger := { eb_chain : chainv; eb_oracle : bechv; eb_bridger : valv }.
Definition v_MsgEditBridger (m : m_edit_bridger) : vres :=
  CHECK (unknown_chain (eb_chain m)) FAIL UC ;;
  CHECK (pure (negb (acc_ok (eb_oracle m)))) FAIL "invalid oracle address" ;;
  CHECK (pure (negb (val_ok (eb_bridger m)))) FAIL "invalid bridger address" ;;
  CHECK (pure false) FAIL "same address" ;;
  VOk.

Record m_oracle_only := { oo_chain : chainv; oo_oracle : bechv }.     (* MsgWithdrawReward, MsgUnbondedOracle *)
Definition v_MsgOracleOnly (m : m_oracle_only) : vres :=
  CHECK (unknown_chain (oo_chain m)) FAIL UC ;;
  CHECK (pure (negb (acc_ok (oo_oracle m)))) FAIL "invalid oracle address" ;;
  VOk.

(* the three confirms; cf_token is Some only for MsgConfirmBatch *)
Record m_confirm := { cf_chain : chainv; cf_bridger : bechv; cf_external : extv; cf_token : option extv; cf_sig : hexv }.
Definition v_Confirm (m : m_confirm) : vres :=
  CHECK (unknown_chain (cf_chain m)) FAIL UC ;;
  CHECK (pure (negb (acc_ok (cf_bridger m)))) FAIL "invalid bridger address" ;;
  CHECK (pure (negb (ext_ok (cf_chain m) (cf_external m)))) FAIL "invalid external address" ;;
  CHECK (pure match cf_token m with Some t => negb (ext_ok (cf_chain m) t) | None => false end) FAIL "invalid token contract" ;;
  CHECK (pure (hex_empty (cf_sig m))) FAIL "empty signature" ;;
  CHECK (pure (negb (hex_ok (cf_sig m)))) FAIL "could not hex decode signature" ;;
  VOk.

Record m_send_to_external := { se_chain : chainv; se_sender : bechv; se_dest : extv; se_amount : coinv; se_fee : coinv }.
Definition v_MsgSendToExternal (m : m_send_to_external) : vres :=
  CHECK (unknown_chain (se_chain m)) FAIL UC ;;
  CHECK (pure (negb (acc_ok (se_sender m)))) FAIL "invalid sender address" ;;
  CHECK (pure (negb (ext_ok (se_chain m) (se_dest m)))) FAIL "invalid dest address" ;;
  CHECK (coin_invalid_or_notpos (se_amount m)) FAIL "invalid amount" ;;
  CHECK (pure (negb (cd_id (se_amount m) =? cd_id (se_fee m)))) FAIL "bridge fee denom not equal amount denom" ;;
  CHECK (coin_invalid_or_notpos (se_fee m)) FAIL "invalid bridge fee" ;;
  VOk.

Record m_request_batch := { rb_chain : chainv; rb_sender : bechv; rb_denom_empty : bool; rb_min_fee : intv; rb_fee_receive : extv; rb_base_fee : intv }.
Definition v_MsgRequestBatch (m : m_request_batch) : vres :=
  CHECK (unknown_chain (rb_chain m)) FAIL UC ;;
  CHECK (pure (negb (acc_ok (rb_sender m)))) FAIL "invalid sender address" ;;
  CHECK (pure (rb_denom_empty m)) FAIL "empty denom" ;;
  CHECK (int_nil_or_notpos (rb_min_fee m)) FAIL "invalid minimum fee" ;;
  CHECK (pure (negb (ext_ok (rb_chain m) (rb_fee_receive m)))) FAIL "invalid fee receive address" ;;
  CHECK (int_nil_or_neg (rb_base_fee m)) FAIL "invalid base fee" ;;
  VOk.

Record m_cancel := { cs_chain : chainv; cs_sender : bechv; cs_txid : Z }.
Definition v_MsgCancelSendToExternal (m : m_cancel) : vres :=
  CHECK (unknown_chain (cs_chain m)) FAIL UC ;;
  CHECK (pure (negb (acc_ok (cs_sender m)))) FAIL "invalid sender address" ;;
  CHECK (pure (cs_txid m =? 0)) FAIL "zero transaction id" ;;
  VOk.

Record m_increase_fee := { if_chain : chainv; if_sender : bechv; if_txid : Z; if_fee : coinv }.
Definition v_MsgIncreaseBridgeFee (m : m_increase_fee) : vres :=
  CHECK (unknown_chain (if_chain m)) FAIL UC ;;
  CHECK (pure (negb (acc_ok (if_sender m)))) FAIL "invalid sender address" ;;
  CHECK (pure (if_txid m =? 0)) FAIL "zero transaction id" ;;
  CHECK (coin_invalid_or_notpos (if_fee m)) FAIL "invalid bridge fee" ;;
  VOk.

Record m_update_oracles := { uo_authority : bechv; uo_chain : chainv; uo_oracles : list bechv }.
Fixpoint oracles_loop (seen : list Z) (l : list bechv) : vres :=
  match l with
  | [] => VOk
  | b :: r =>
      match b with
      | BGood id =>
          CHECK (pure (existsb (Z.eqb id) seen)) FAIL "duplicate oracle address" ;;
          oracles_loop (id :: seen) r
      | _ => VErr "oracle address"
      end
  end.
Definition v_MsgUpdateChainOracles (m : m_update_oracles) : vres :=
  CHECK (pure (negb (acc_ok (uo_authority m)))) FAIL "authority" ;;
  CHECK (unknown_chain (uo_chain m)) FAIL UC ;;
  CHECK (pure match uo_oracles m with [] => true | _ => false end) FAIL "empty oracles" ;;
  oracles_loop [] (uo_oracles m).

(* --- claims --- *)
Record c_send_to_fx := { sf_chain : chainv; sf_bridger : bechv; sf_sender : extv; sf_token : extv; sf_receiver : bechv;
                         sf_amount : intv; sf_target_ibc : hexv; sf_event_nonce : Z; sf_block_height : Z }.
Definition v_MsgSendToFxClaim (m : c_send_to_fx) : vres :=
  CHECK (unknown_chain (sf_chain m)) FAIL UC ;;
  CHECK (pure (negb (acc_ok (sf_bridger m)))) FAIL "invalid bridger address" ;;
  CHECK (pure (negb (ext_ok (sf_chain m) (sf_sender m)))) FAIL "invalid sender address" ;;
  CHECK (pure (negb (ext_ok (sf_chain m) (sf_token m)))) FAIL "invalid token contract" ;;
  CHECK (pure (negb (acc_ok (sf_receiver m)))) FAIL "invalid receiver address" ;;
  CHECK (int_nil_or_neg (sf_amount m)) FAIL "invalid amount" ;;
  CHECK (pure (negb (hex_empty (sf_target_ibc m)) && negb (hex_ok (sf_target_ibc m)))) FAIL "could not decode hex targetIbc" ;;
  CHECK (pure (sf_event_nonce m =? 0)) FAIL "zero event nonce" ;;
  CHECK (pure (sf_block_height m =? 0)) FAIL "zero block height" ;;
  VOk.

Record c_bridge_call := { bc_chain : chainv; bc_bridger : bechv; bc_sender : extv; bc_refund : extv; bc_tokens : list extv;
                          bc_amounts : list intv; bc_to : extv; bc_data : hexv; bc_value : intv; bc_memo : hexv;
                          bc_tx_origin : extv; bc_event_nonce : Z; bc_block_height : Z }.
Fixpoint tokens_loop (c : chainv) (l : list extv) : vres :=
  match l with
  | [] => VOk
  | t :: r => CHECK (pure (negb (ext_ok c t))) FAIL "invalid token contract" ;; tokens_loop c r
  end.
Fixpoint amounts_loop (l : list intv) : vres :=                                                    (* edafc05 *)
  match l with
  | [] => VOk
  | a :: r => CHECK (int_nil_or_neg a) FAIL "invalid amount" ;; amounts_loop r
  end.
Definition v_MsgBridgeCallClaim (m : c_bridge_call) : vres :=
  CHECK (unknown_chain (bc_chain m)) FAIL UC ;;
  CHECK (pure (negb (Nat.eqb (List.length (bc_tokens m)) (List.length (bc_amounts m))))) FAIL "mismatched token contracts and amounts" ;;
  SUB (tokens_loop (bc_chain m) (bc_tokens m)) ;;
  SUB (amounts_loop (bc_amounts m)) ;;
  (* m.validateBasic() *)
  CHECK (pure (negb (acc_ok (bc_bridger m)))) FAIL "invalid bridger address" ;;
  CHECK (pure (negb (ext_ok (bc_chain m) (bc_sender m)))) FAIL "invalid sender address" ;;
  CHECK (pure (negb (ext_ok (bc_chain m) (bc_to m)))) FAIL "invalid to contract" ;;
  CHECK (pure (negb (ext_ok (bc_chain m) (bc_refund m)))) FAIL "invalid refund address" ;;
  CHECK (int_nil_or_neg (bc_value m)) FAIL "invalid value" ;;
  CHECK (pure (negb (hex_ok (bc_data m)))) FAIL "invalid data" ;;
  CHECK (pure (bc_event_nonce m =? 0)) FAIL "zero event nonce" ;;
  CHECK (pure (bc_block_height m =? 0)) FAIL "zero block height" ;;
  CHECK (pure (negb (ext_ok (bc_chain m) (bc_tx_origin m)))) FAIL "invalid tx origin" ;;
  CHECK (pure (negb (hex_ok (bc_memo m)))) FAIL "invalid memo" ;;
  VOk.

Record c_bridge_call_result := { br_chain : chainv; br_bridger : bechv; br_nonce : Z; br_event_nonce : Z; br_block_height : Z;
                                 br_tx_origin : extv; br_cause : hexv }.
Definition v_MsgBridgeCallResultClaim (m : c_bridge_call_result) : vres :=
  CHECK (unknown_chain (br_chain m)) FAIL UC ;;
  CHECK (pure (negb (acc_ok (br_bridger m)))) FAIL "invalid bridger address" ;;
  CHECK (pure (br_nonce m =? 0)) FAIL "zero nonce" ;;
  CHECK (pure (br_event_nonce m =? 0)) FAIL "zero event nonce" ;;
  CHECK (pure (br_block_height m =? 0)) FAIL "zero block height" ;;
  CHECK (pure (negb (ext_ok (br_chain m) (br_tx_origin m)))) FAIL "invalid tx origin" ;;
  CHECK (pure (negb (hex_ok (br_cause m)))) FAIL "invalid cause" ;;
  VOk.

Record c_send_to_external := { sx_chain : chainv; sx_bridger : bechv; sx_token : extv; sx_event_nonce : Z; sx_block_height : Z; sx_batch_nonce : Z }.
Definition v_MsgSendToExternalClaim (m : c_send_to_external) : vres :=
  CHECK (unknown_chain (sx_chain m)) FAIL UC ;;
  CHECK (pure (negb (acc_ok (sx_bridger m)))) FAIL "invalid bridger address" ;;
  CHECK (pure (negb (ext_ok (sx_chain m) (sx_token m)))) FAIL "invalid token contract" ;;
  CHECK (pure (sx_event_nonce m =? 0)) FAIL "zero event nonce" ;;
  CHECK (pure (sx_block_height m =? 0)) FAIL "zero block height" ;;
  CHECK (pure (sx_batch_nonce m =? 0)) FAIL "zero batch nonce" ;;
  VOk.

Record c_bridge_token := { bt_chain : chainv; bt_bridger : bechv; bt_token : extv; bt_channel_ibc : hexv; bt_name_empty : bool;
                           bt_symbol_empty : bool; bt_event_nonce : Z; bt_block_height : Z }.
Definition v_MsgBridgeTokenClaim (m : c_bridge_token) : vres :=
  CHECK (unknown_chain (bt_chain m)) FAIL UC ;;
  CHECK (pure (negb (acc_ok (bt_bridger m)))) FAIL "invalid bridger address" ;;
  CHECK (pure (negb (ext_ok (bt_chain m) (bt_token m)))) FAIL "invalid token contract" ;;
  CHECK (pure (negb (hex_empty (bt_channel_ibc m)) && negb (hex_ok (bt_channel_ibc m)))) FAIL "could not decode hex channelIbc string" ;;
  CHECK (pure (bt_name_empty m)) FAIL "empty token name" ;;
  CHECK (pure (bt_symbol_empty m)) FAIL "empty token symbol" ;;
  CHECK (pure (bt_event_nonce m =? 0)) FAIL "zero event nonce" ;;
  CHECK (pure (bt_block_height m =? 0)) FAIL "zero block height" ;;
  VOk.

Record c_oracle_set := { os_chain : chainv; os_bridger : bechv; os_members : list (extv * Z); os_event_nonce : Z; os_block_height : Z }.
Fixpoint members_loop (c : chainv) (l : list (extv * Z)) : vres :=
  match l with
  | [] => VOk
  | (x, p) :: r =>
      CHECK (pure (negb (ext_ok c x))) FAIL "invalid external address" ;;
      CHECK (pure (p =? 0)) FAIL "zero power" ;;
      members_loop c r
  end.
Definition v_MsgOracleSetUpdatedClaim (m : c_oracle_set) : vres :=
  CHECK (unknown_chain (os_chain m)) FAIL UC ;;
  CHECK (pure (negb (acc_ok (os_bridger m)))) FAIL "invalid bridger address" ;;
  CHECK (pure match os_members m with [] => true | _ => false end) FAIL "empty members" ;;
  SUB (members_loop (os_chain m) (os_members m)) ;;
  CHECK (pure (os_event_nonce m =? 0)) FAIL "zero event nonce" ;;
  CHECK (pure (os_block_height m =? 0)) FAIL "zero block height" ;;
  VOk.

Inductive claimv :=
| ClSendToFx (c : c_send_to_fx) | ClBridgeCall (c : c_bridge_call) | ClBridgeCallResult (c : c_bridge_call_result)
| ClSendToExternal (c : c_send_to_external) | ClBridgeToken (c : c_bridge_token) | ClOracleSet (c : c_oracle_set).
Definition v_claim (c : claimv) : vres :=
  match c with
  | ClSendToFx c => v_MsgSendToFxClaim c | ClBridgeCall c => v_MsgBridgeCallClaim c
  | ClBridgeCallResult c => v_MsgBridgeCallResultClaim c | ClSendToExternal c => v_MsgSendToExternalClaim c
  | ClBridgeToken c => v_MsgBridgeTokenClaim c | ClOracleSet c => v_MsgOracleSetUpdatedClaim c
  end.

(* the Any field of the wrappers: absent | present, cached value of another interface (or not unpacked) | the expected one *)
Inductive anyv (A : Type) := AnyNil | AnyOther | AnyIs (a : A).
Arguments AnyNil {A}. Arguments AnyOther {A}. Arguments AnyIs {A} a.

Record m_claim := { mc_chain : chainv; mc_claim : anyv claimv }.
Definition v_MsgClaim (m : m_claim) : vres :=
  CHECK (unknown_chain (mc_chain m)) FAIL UC ;;
  match mc_claim m with
  | AnyNil => VErr "empty claim"
  | AnyOther => VErr "expected claim type"
  | AnyIs c => v_claim c
  end.

(* MsgConfirm has NO ValidateBasic: the first code that looks at it is the handler, keeper/msg_server.go:Confirm :
     if msg.Confirm == nil { return ErrInvalid "empty confirm" }              (02a5a38)
     confirm, ok := msg.Confirm.GetCachedValue().(types.Confirm); if !ok { return ErrInvalid "invalid claim" } *)
Record m_confirm_wrapper := { mw_confirm : anyv m_confirm }.
Definition h_MsgConfirm_entry (m : m_confirm_wrapper) : vres :=
  match mw_confirm m with
  | AnyNil => VErr "empty confirm"
  | AnyOther => VErr "invalid claim"
  | AnyIs _ => VOk   (* goes on to the stateful ConfirmHandler (property C12) *)
  end.

Record m_bridge_call := { mb_chain : chainv; mb_sender : bechv; mb_refund : bechv; mb_coins : list coinv; mb_to : extv;
                          mb_data : hexv; mb_value : intv; mb_memo : hexv }.
Definition v_MsgBridgeCall (m : m_bridge_call) : vres :=
  CHECK (unknown_chain (mb_chain m)) FAIL UC ;;
  CHECK (pure (negb (acc_ok (mb_sender m)))) FAIL "invalid sender address" ;;
  CHECK (pure (negb (ext_ok (mb_chain m) (mb_to m)))) FAIL "invalid to address" ;;
  CHECK (orR (pure (int_isnil (mb_value m))) (int_nonzero (mb_value m))) FAIL "value must be zero" ;;   (* m.Value.IsNil() || m.Value.Sign() != 0  (cac8fd3) *)
  CHECK (pure (coins_nil_amount (mb_coins m))) FAIL "nil coin amount" ;;             (* for coin: if coin.Amount.IsNil() (cac8fd3) *)
  SUBW (coins_validate (mb_coins m)) AS "" ;;                                        (* ErrInvalidCoins.Wrap(err.Error()) *)
  CHECK (pure ((match mb_coins m with [] => false | _ => true end || negb match mb_refund m with BEmpty => true | _ => false end)
               && negb (acc_ok (mb_refund m)))) FAIL "invalid refund address" ;;
  CHECK (pure (negb (hex_ok (mb_data m)))) FAIL "invalid data" ;;
  CHECK (pure (negb (hex_ok (mb_memo m)))) FAIL "invalid memo" ;;
  CHECK (pure (match mb_coins m with [] => true | _ => false end && hex_empty (mb_data m))) FAIL "coins and data cannot be empty at the same time" ;;
  VOk.

(* ---------------- Must* helpers applied by the handlers to a validated message ---------------- *)

Definition must_acc (b : bechv) : R unit := if acc_ok b then Val tt else Pan.          (* sdk.MustAccAddressFromBech32 *)
Definition must_hex (h : hexv) : R unit := if hex_ok h then Val tt else Pan.           (* MustData / MustMemo / KeyToBytes *)
(* ExternalAddrToHexAddr / ExternalAddrToAccAddr: unknown chain panics; tron panics unless base58check decodes *)
Definition ext_to_addr (c : chainv) (x : extv) : R unit :=
  match c, x with
  | ChUnknown, _ => Pan
  | ChEth, _ => Val tt                      (* common.HexToAddress never fails *)
  | ChTron, XTron => Val tt
  | ChTron, _ => Pan
  end.
Definition new_coin (i : intv) : R unit := match i with INil | INeg => Pan | _ => Val tt end.   (* sdk.NewCoin(validDenom, amt) *)
Definition all_def (l : list (R unit)) : bool := forallb (fun r => match r with Val _ => true | Pan => false end) l.

(* msg_server.go:BridgeCall: GetSenderAddr, GetRefundAddr, GetToAddr, MustData, MustMemo *)
Definition must_MsgBridgeCall (m : m_bridge_call) : list (R unit) :=
  [ must_acc (mb_sender m);
    match mb_refund m with BEmpty => Val tt | b => must_acc b end;
    match mb_to m with XEmpty => Val tt | x => ext_to_addr (mb_chain m) x end;
    must_hex (mb_data m); must_hex (mb_memo m) ].
(* msg_server.go:Claim + bridge_call_in.go:BridgeCallHandler: GetClaimer, GetSenderAddr, GetToAddr, GetRefundAddr,
   IsMemoSendCallTo(MustMemo), MustData — WITHOUT the amounts *)
Definition must_BridgeCallClaim_addr (m : c_bridge_call) : list (R unit) :=
  [ must_acc (bc_bridger m); ext_to_addr (bc_chain m) (bc_sender m); ext_to_addr (bc_chain m) (bc_to m);
    ext_to_addr (bc_chain m) (bc_refund m); must_hex (bc_memo m); must_hex (bc_data m) ].
(* many_to_one.go:BridgeTokenToBaseCoin: sdk.NewCoin(bridgeDenom, msg.Amounts[i]) for every token *)
Definition must_BridgeCallClaim_amounts (m : c_bridge_call) : list (R unit) := map new_coin (bc_amounts m).
Definition claimer_of (c : claimv) : bechv :=
  match c with
  | ClSendToFx c => sf_bridger c | ClBridgeCall c => bc_bridger c | ClBridgeCallResult c => br_bridger c
  | ClSendToExternal c => sx_bridger c | ClBridgeToken c => bt_bridger c | ClOracleSet c => os_bridger c
  end.

(* ---------------- x/erc20/types/msg.go ---------------- *)

Record e_convert_coin := { cc_sender : bechv; cc_receiver : extv; cc_denom_ibc_ok : bool; cc_amount : intv }.
Definition v_MsgConvertCoin (m : e_convert_coin) : vres :=
  CHECK (pure (negb (acc_ok (cc_sender m)))) FAIL "invalid sender address" ;;
  CHECK (pure (negb (eth_ok (cc_receiver m)))) FAIL "invalid receiver address" ;;
  CHECK (pure (negb (cc_denom_ibc_ok m))) FAIL "invalid coin denom" ;;
  CHECK (int_nil_or_notpos (cc_amount m)) FAIL "invalid amount" ;;
  VOk.

Record e_convert_erc20 := { ce_sender : extv; ce_receiver : bechv; ce_contract : extv; ce_amount : intv }.
Definition v_MsgConvertERC20 (m : e_convert_erc20) : vres :=
  CHECK (pure (negb (eth_ok (ce_sender m)))) FAIL "invalid sender address" ;;
  CHECK (pure (negb (acc_ok (ce_receiver m)))) FAIL "invalid receiver address" ;;
  CHECK (pure (negb (eth_ok (ce_contract m)))) FAIL "invalid contract address" ;;
  CHECK (int_nil_or_notpos (ce_amount m)) FAIL "invalid amount" ;;
  VOk.

Record e_convert_denom := { cd_sender : bechv; cd_receiver : bechv; cd_coin : coinv }.
Definition v_MsgConvertDenom (m : e_convert_denom) : vres :=
  CHECK (pure (negb (acc_ok (cd_sender m)))) FAIL "invalid sender address" ;;
  CHECK (pure (negb (acc_ok (cd_receiver m)))) FAIL "invalid receiver address" ;;
  CHECK (coin_invalid_or_notpos (cd_coin m)) FAIL "invalid amount" ;;
  VOk.

Record e_update_params := { eu_authority : bechv; eu_ibc_timeout : Z }.
Definition v_Erc20MsgUpdateParams (m : e_update_params) : vres :=
  CHECK (pure (negb (acc_ok (eu_authority m)))) FAIL "authority" ;;
  CHECK (pure (eu_ibc_timeout m <=? 0)) FAIL "params" ;;
  VOk.

(* MsgRegisterCoin: bank Metadata.Validate, fxtypes.ValidateMetadata, ValidateIBCDenom(base) — by outcome class *)
Inductive fxmdv := FmNameEmpty | FmSymbolEmpty | FmNoDecimals | FmOk.
Record e_register_coin := { rc_authority : bechv; rc_bank_ok : bool; rc_fx : fxmdv; rc_base_ibc_ok : bool }.
Definition v_MsgRegisterCoin (m : e_register_coin) : vres :=
  CHECK (pure (negb (acc_ok (rc_authority m)))) FAIL "authority" ;;
  CHECK (pure (negb (rc_bank_ok m))) FAIL "metadata" ;;
  CHECK (pure match rc_fx m with FmOk => false | _ => true end) FAIL "metadata" ;;
  CHECK (pure (negb (rc_base_ibc_ok m))) FAIL "metadata base" ;;
  VOk.

Inductive aliasv := AlBlank | AlBadDenom | AlGood (id : Z).   (* strings.TrimSpace(a)=="" | fails sdk.ValidateDenom | valid denom #id *)
Fixpoint aliases_loop (seen : list Z) (l : list aliasv) : vres :=
  match l with
  | [] => VOk
  | a :: r =>
      match a with
      | AlBlank => VErr "alias for denom unit"
      | AlBadDenom => VErr "alias"
      | AlGood id => CHECK (pure (existsb (Z.eqb id) seen)) FAIL "duplicate denomination unit alias" ;; aliases_loop (id :: seen) r
      end
  end.
Record e_register_erc20 := { re_authority : bechv; re_address : extv; re_aliases : list aliasv }.
Definition v_MsgRegisterERC20 (m : e_register_erc20) : vres :=
  CHECK (pure (negb (acc_ok (re_authority m)))) FAIL "authority" ;;
  CHECK (pure (negb (eth_ok (re_address m)))) FAIL "ERC20 address" ;;
  aliases_loop [] (re_aliases m).

Inductive tokenv := TkEth | TkDenom | TkNeither.
Record e_toggle := { tg_authority : bechv; tg_token : tokenv }.
Definition v_MsgToggleTokenConversion (m : e_toggle) : vres :=
  CHECK (pure (negb (acc_ok (tg_authority m)))) FAIL "authority" ;;
  CHECK (pure match tg_token m with TkNeither => true | _ => false end) FAIL "token" ;;
  VOk.

Record e_denom_alias := { da_authority : bechv; da_denom_ok : bool; da_alias_ok : bool }.
Definition v_MsgUpdateDenomAlias (m : e_denom_alias) : vres :=
  CHECK (pure (negb (acc_ok (da_authority m)))) FAIL "authority" ;;
  CHECK (pure (negb (da_denom_ok m))) FAIL "denom" ;;
  CHECK (pure (negb (da_alias_ok m))) FAIL "alias" ;;
  VOk.

(* ---------------- legacy gov v1beta1 Content validators: x/crosschain/types/proposal.go, x/erc20/types/proposal.go ----------------
   Reachable from the network: the SDK's v1beta1 MsgSubmitProposal handler calls content.ValidateBasic() before it looks
   for a route (fx-core registers no route for them, so the proposal is then refused with "no handler exists"). *)
Inductive absv := AbOk | AbBad.     (* govv1beta1.ValidateAbstract: title / description blank or too long *)
Fixpoint lp_oracles_loop (seen : list Z) (l : list bechv) : vres :=
  match l with
  | [] => VOk
  | b :: r =>
      match b with
      | BGood id => CHECK (pure (existsb (Z.eqb id) seen)) FAIL "duplicate oracle address" ;; lp_oracles_loop (id :: seen) r
      | _ => VErr "invalid oracle address"
      end
  end.
Record l_update_oracles := { lo_chain : chainv; lo_abs : absv; lo_oracles : list bechv }.
Definition v_UpdateChainOraclesProposal (m : l_update_oracles) : vres :=
  CHECK (unknown_chain (lo_chain m)) FAIL UC ;;
  CHECK (pure match lo_abs m with AbBad => true | AbOk => false end) FAIL "proposal " ;;
  CHECK (pure match lo_oracles m with [] => true | _ => false end) FAIL "empty oracles" ;;
  lp_oracles_loop [] (lo_oracles m).

Record l_register_coin := { lc_bank_ok : bool; lc_fx : fxmdv; lc_base_ibc_ok : bool; lc_abs : absv }.
Definition v_RegisterCoinProposal (m : l_register_coin) : vres :=
  CHECK (pure (negb (lc_bank_ok m))) FAIL "invalid metadata" ;;
  CHECK (pure match lc_fx m with FmOk => false | _ => true end) FAIL "invalid metadata" ;;
  CHECK (pure (negb (lc_base_ibc_ok m))) FAIL "invalid metadata base" ;;
  CHECK (pure match lc_abs m with AbBad => true | AbOk => false end) FAIL "proposal " ;;
  VOk.

Fixpoint lp_aliases_loop (seen : list Z) (l : list aliasv) : vres :=
  match l with
  | [] => VOk
  | a :: r =>
      match a with
      | AlBlank => VErr "alias for denom unit"
      | AlBadDenom => VErr "invalid alias"
      | AlGood id => CHECK (pure (existsb (Z.eqb id) seen)) FAIL "duplicate denomination unit alias" ;; lp_aliases_loop (id :: seen) r
      end
  end.
Record l_register_erc20 := { le_address : extv; le_aliases : list aliasv; le_abs : absv }.
Definition v_RegisterERC20Proposal (m : l_register_erc20) : vres :=
  CHECK (pure (negb (eth_ok (le_address m)))) FAIL "invalid ERC20 address" ;;
  SUB (lp_aliases_loop [] (le_aliases m)) ;;
  CHECK (pure match le_abs m with AbBad => true | AbOk => false end) FAIL "proposal " ;;
  VOk.

Record l_toggle := { lt_token : tokenv; lt_abs : absv }.
Definition v_ToggleTokenConversionProposal (m : l_toggle) : vres :=
  CHECK (pure match lt_token m with TkNeither => true | _ => false end) FAIL "invalid token" ;;
  CHECK (pure match lt_abs m with AbBad => true | AbOk => false end) FAIL "proposal " ;;
  VOk.

Record l_denom_alias := { ld_denom_ok : bool; ld_alias_ok : bool; ld_abs : absv }.
Definition v_UpdateDenomAliasProposal (m : l_denom_alias) : vres :=
  CHECK (pure (negb (ld_denom_ok m))) FAIL "invalid denom" ;;
  CHECK (pure (negb (ld_alias_ok m))) FAIL "invalid alias" ;;
  CHECK (pure match ld_abs m with AbBad => true | AbOk => false end) FAIL "proposal " ;;
  VOk.

(* ---------------- x/migrate/types/msg.go ---------------- *)
Inductive sigv := SgEmpty | SgBadHex | SgUnrecoverable | SgOtherKey | SgOk.
Record g_migrate := { mg_from : bechv; mg_to : extv; mg_same : bool; mg_sig : sigv }.
Definition v_MsgMigrateAccount (m : g_migrate) : vres :=
  CHECK (pure (negb (acc_ok (mg_from m)))) FAIL "invalid from address" ;;
  CHECK (pure (negb (eth_ok (mg_to m)))) FAIL "invalid to address" ;;
  CHECK (pure (mg_same m)) FAIL "same account" ;;
  CHECK (pure match mg_sig m with SgEmpty => true | _ => false end) FAIL "empty signature" ;;
  CHECK (pure match mg_sig m with SgBadHex => true | _ => false end) FAIL "could not hex decode signature" ;;
  CHECK (pure match mg_sig m with SgUnrecoverable => true | _ => false end) FAIL "sig to pub key error" ;;
  CHECK (pure match mg_sig m with SgOtherKey => true | _ => false end) FAIL "signature key not equal to address" ;;
  VOk.

(* ---------------- x/gov/types/{msgs.go,params.go} ---------------- *)
Record storev := { st_space_empty : bool; st_key : hexv; st_old : hexv; st_value : hexv }.
Fixpoint stores_loop (l : list storev) : vres :=
  match l with
  | [] => VOk
  | s :: r =>
      CHECK (pure (st_space_empty s)) FAIL "store space is empty" ;;
      CHECK (pure (hex_empty (st_key s))) FAIL "store key is empty" ;;
      CHECK (pure (negb (hex_ok (st_key s)))) FAIL "invalid store key" ;;
      CHECK (pure (negb (hex_ok (st_old s)))) FAIL "invalid old store value" ;;
      CHECK (pure (negb (hex_ok (st_value s)))) FAIL "invalid store value" ;;
      stores_loop r
  end.
Record v_update_store := { us_authority : bechv; us_stores : list storev }.
Definition v_MsgUpdateStore (m : v_update_store) : vres :=
  CHECK (pure (negb (acc_ok (us_authority m)))) FAIL "authority" ;;
  CHECK (pure match us_stores m with [] => true | _ => false end) FAIL "stores are empty" ;;
  stores_loop (us_stores m).
Definition must_UpdateStore (s : storev) : list (R unit) := [ must_hex (st_key s); must_hex (st_old s); must_hex (st_value s) ].

Fixpoint has_dup (seen : list Z) (l : list Z) : bool :=
  match l with [] => false | x :: r => existsb (Z.eqb x) seen || has_dup (x :: seen) r end.
Record v_switch := { sw_authority : bechv; sw_precompiles : list Z; sw_msgtypes : list Z }.
Definition v_MsgUpdateSwitchParams (m : v_switch) : vres :=
  CHECK (pure (negb (acc_ok (sw_authority m)))) FAIL "authority" ;;
  CHECK (pure (has_dup [] (sw_precompiles m))) FAIL "params err: duplicate precompile" ;;
  CHECK (pure (has_dup [] (sw_msgtypes m))) FAIL "params err: duplicate msg type" ;;
  VOk.

Inductive durv := PNil | PNonPos | PPos.                 (* *time.Duration *)
Inductive decstrv := SBad | SNeg | SUnit | SBig.         (* text offered to LegacyNewDecFromStr *)
Record v_custom := { cp_period : durv; cp_quorum : decstrv; cp_ratio : decstrv }.
Definition v_CustomParams (p : v_custom) : vres :=
  CHECK (pure match cp_period p with PNil => true | _ => false end) FAIL "voting period must not be nil" ;;
  CHECK (match cp_period p with PNil => Pan | PNonPos => Val true | PPos => Val false end) FAIL "voting period must be positive" ;;
  CHECK (pure match cp_quorum p with SBad => true | _ => false end) FAIL "invalid quorum string" ;;
  CHECK (pure match cp_quorum p with SNeg => true | _ => false end) FAIL "quorum cannot be negative" ;;
  CHECK (pure match cp_quorum p with SBig => true | _ => false end) FAIL "quorum too large" ;;
  CHECK (pure match cp_ratio p with SBad => true | _ => false end) FAIL "invalid depositRatio string" ;;
  CHECK (pure match cp_ratio p with SNeg => true | _ => false end) FAIL "depositRatio cannot be negative" ;;
  CHECK (pure match cp_ratio p with SBig => true | _ => false end) FAIL "depositRatio too large" ;;
  VOk.

(* ---------------- x/evm/types/msg.go ---------------- *)
Record x_call_contract := { ct_authority : bechv; ct_contract : extv; ct_data_empty : bool }.
Definition v_MsgCallContract (m : x_call_contract) : vres :=
  CHECK (pure (negb (acc_ok (ct_authority m)))) FAIL "authority" ;;
  CHECK (pure (negb (eth_ok (ct_contract m)))) FAIL "contract address" ;;
  CHECK (pure (ct_data_empty m)) FAIL "data is empty" ;;
  VOk.

(* ---------------- x/ibc/middleware/types/packet.go : the IBC memo packet (JSON, from the counterparty chain) ---------------- *)
Record i_call_evm := { ic_to : extv; ic_value : intv; ic_data : hexv }.
Definition v_IbcCallEvmPacket (m : i_call_evm) : vres :=
  CHECK (pure (negb (eth_ok (ic_to m)))) FAIL "to address" ;;
  CHECK (int_isneg (ic_value m)) FAIL "value" ;;                          (* icep.Value.IsNegative(): no nil check *)
  CHECK (pure (negb (hex_ok (ic_data m)))) FAIL "data" ;;
  VOk.
Definition must_IbcCallEvmPacket (m : i_call_evm) : list (R unit) := [ must_hex (ic_data m) ].   (* MustGetData *)

(* ---------------- precompile argument structs: x/{staking,crosschain}/types/contract.go ---------------- *)
Inductive bigv := BgNil | BgNeg | BgZero | BgPos.        (* *big.Int as produced by the caller; abi.Unpack never yields BgNil/BgNeg for uint256 *)
Definition big_nil (b : bigv) : bool := match b with BgNil => true | _ => false end.
Definition big_sign (b : bigv) : R Z := match b with BgNil => Pan | BgNeg => Val (-1) | BgZero => Val 0 | BgPos => Val 1 end.
Definition big_nil_or (b : bigv) (f : Z -> bool) : R bool :=
  orR (pure (big_nil b)) (match big_sign b with Pan => Pan | Val s => Val (f s) end).

Inductive sargs :=
| SA_ValOnly (v : valv)                          (* AllowanceShares, Delegate, Delegation, DelegationRewards, Withdraw, SlashingInfo *)
| SA_ValSharesNonNeg (v : valv) (s : bigv)       (* ApproveShares:  Shares == nil || Sign < 0 *)
| SA_ValAmountPos (v : valv) (a : bigv)          (* DelegateV2, UndelegateV2, TransferShares, TransferFromShares, Undelegate: nil || Sign <= 0 *)
| SA_Redelegate (src dst : valv) (a : bigv)      (* Redelegate, RedelegateV2 *)
| SA_ValidatorList (sortby : Z).
Definition v_staking_args (a : sargs) : vres :=
  match a with
  | SA_ValOnly v => CHECK (pure (negb (val_ok v))) FAIL "invalid validator address" ;; VOk
  | SA_ValSharesNonNeg v s =>
      CHECK (pure (negb (val_ok v))) FAIL "invalid validator address" ;;
      CHECK (big_nil_or s (fun x => x <? 0)) FAIL "invalid shares" ;; VOk
  | SA_ValAmountPos v s =>
      CHECK (pure (negb (val_ok v))) FAIL "invalid validator address" ;;
      CHECK (big_nil_or s (fun x => x <=? 0)) FAIL "invalid" ;; VOk
  | SA_Redelegate s d a =>
      CHECK (pure (negb (val_ok s))) FAIL "invalid validator src address" ;;
      CHECK (pure (negb (val_ok d))) FAIL "invalid validator dst address" ;;
      CHECK (big_nil_or a (fun x => x <=? 0)) FAIL "invalid" ;; VOk
  | SA_ValidatorList k => CHECK (pure (1 <? k)) FAIL "over the sort by limit" ;; VOk
  end.

Inductive cargs :=
| CA_BridgeCoinAmount (target_zero : bool)
| CA_CancelSendToExternal (modname_ok : bool) (txid : bigv)
| CA_CrossChain (receipt_empty : bool) (amount fee : bigv) (sum_overflows : bool) (target_zero : bool)   (* sum_overflows: amount + fee needs more than 256 bits *)
| CA_IncreaseBridgeFee (modname_ok : bool) (txid fee : bigv)
| CA_BridgeCall (modname_ok : bool) (value : bigv) (ntokens namounts : Z) (refund_zero : bool)
| CA_ExecuteClaim (modname_ok : bool) (event_nonce : bigv)
| CA_OracleQuery (modname_ok : bool) (ext_zero : bool).   (* HasOracle, IsOracleOnline *)
Definition v_crosschain_args (a : cargs) : vres :=
  match a with
  | CA_BridgeCoinAmount z => CHECK (pure z) FAIL "empty target" ;; VOk
  | CA_CancelSendToExternal mn t =>
      CHECK (pure (negb mn)) FAIL "invalid module name" ;;
      CHECK (big_nil_or t (fun x => x <=? 0)) FAIL "invalid tx id" ;; VOk
  | CA_CrossChain re am fe ovf tz =>
      CHECK (pure re) FAIL "empty receipt" ;;
      CHECK (big_nil_or am (fun x => x <=? 0)) FAIL "invalid amount" ;;
      CHECK (big_nil_or fe (fun x => x <? 0)) FAIL "invalid fee" ;;
      CHECK (pure ovf) FAIL "amount plus fee overflows uint256" ;;            (* fb9127f (finding C20-9) *)
      CHECK (pure tz) FAIL "empty target" ;; VOk
  | CA_IncreaseBridgeFee mn t f =>
      CHECK (pure (negb mn)) FAIL "invalid module name" ;;
      CHECK (big_nil_or t (fun x => x <=? 0)) FAIL "invalid tx id" ;;
      CHECK (big_nil_or f (fun x => x <=? 0)) FAIL "invalid add bridge fee" ;; VOk
  | CA_BridgeCall mn v nt na rz =>
      CHECK (pure (negb mn)) FAIL "invalid module name" ;;
      CHECK (match big_sign v with Pan => Pan | Val s => Val (negb (s =? 0)) end) FAIL "value must be zero" ;;   (* args.Value.Sign(): no nil check *)
      CHECK (pure (negb (nt =? na))) FAIL "tokens and amounts do not match" ;;
      CHECK (pure ((0 <? na) && rz)) FAIL "refund cannot be empty" ;; VOk
  | CA_ExecuteClaim mn n =>
      CHECK (pure (negb mn)) FAIL "invalid module name" ;;
      CHECK (big_nil_or n (fun x => x <=? 0)) FAIL "invalid event nonce" ;; VOk
  | CA_OracleQuery mn z =>
      CHECK (pure (negb mn)) FAIL "invalid module name" ;;
      CHECK (pure z) FAIL "invalid external address" ;; VOk
  end.
(* what abi.Arguments.Unpack + Copy can put into a *big.Int field bound to a uint256 *)
Definition abi_big (b : bigv) : bool := match b with BgZero | BgPos => true | _ => false end.
Definition cargs_from_abi (a : cargs) : bool :=
  match a with
  | CA_BridgeCoinAmount _ | CA_OracleQuery _ _ => true
  | CA_CancelSendToExternal _ t => abi_big t
  | CA_CrossChain _ am fe _ _ => abi_big am && abi_big fe
  | CA_IncreaseBridgeFee _ t f => abi_big t && abi_big f
  | CA_BridgeCall _ v nt na _ => abi_big v && (0 <=? nt) && (0 <=? na)
  | CA_ExecuteClaim _ n => abi_big n
  end.

(* ---------------- types/target.go:ParseFxTarget, types/address.go:ParseAddress, ValidateExternalAddr ---------------- *)
(* input classes follow the branches of ParseFxTarget after the optional hex decoding (decode errors are ignored by the code) *)
Inductive targetin :=
| TgLegacyErc20                       (* "module/evm" *)
| TgGravity                           (* "gravity" or "chain/gravity" *)
| TgIbc3 (valid : bool)               (* ibc/{id}/{prefix} ; valid = FxTarget.IBCValidate *)
| TgIbc4 (valid : bool)               (* ibc/{prefix}/transfer/channel-{id}  -> strip "ibc/" then the 3-part rule *)
| TgIbcOther                          (* "ibc/" with another number of parts *)
| TgPlain3 (valid : bool)             (* {prefix}/{port}/{channel} *)
| TgOther.                            (* anything else, incl. "" and "chain/<name>" *)
Inductive targetout := ToErc20 | ToEth | ToIBC | ToPlain.
Definition parse_fx_target (t : targetin) : targetout :=
  match t with
  | TgLegacyErc20 => ToErc20
  | TgGravity => ToEth
  | TgIbc3 true => ToIBC | TgIbc3 false => ToPlain
  | TgIbc4 true => ToIBC | TgIbc4 false => ToPlain
  | TgIbcOther => ToPlain
  | TgPlain3 true => ToIBC | TgPlain3 false => ToPlain
  | TgOther => ToPlain
  end.

Inductive addrin := AdBech32 | AdEth | AdNeither.         (* any-prefix bech32 | EIP-55 hex | neither *)
Inductive addrout := AoAcc | AoEvm | AoErr.
Definition parse_address (a : addrin) : addrout := match a with AdBech32 => AoAcc | AdEth => AoEvm | AdNeither => AoErr end.

Definition validate_external_addr (c : chainv) (x : extv) : vres :=
  match c with
  | ChUnknown => VErr "unrecognized cross chain name"
  | _ => if ext_ok c x then VOk else VErr ""
  end.

(* ---------------- ante/pubkey.go:PubKeyDecorator.AnteHandle and ante/ante.go:ConsumeMultisignatureVerificationGas ---------------- *)
(* PubKeyDecorator: npub = len(AuthInfo.SignerInfos) (attacker chosen), nsig = number of required signers of the messages;
   every signer account exists and is not disabled (the harness arranges that):
     if len(pubkeys) > len(signers) { return ErrUnauthorized "invalid number of signer infos…" }   (d9036ed)
     for i := range pubkeys { checkPubKeyDisabled(ctx, ak, signers[i]) } *)
Definition v_PubKeyDecorator (npub nsig : Z) : vres :=
  CHECK (pure (nsig <? npub)) FAIL "invalid number of signer infos" ;;
  CHECK (if npub <=? nsig then Val false else Pan) FAIL "" ;;        (* signers[i], i < npub: in range exactly when npub <= nsig *)
  VOk.
(* ConsumeMultisignatureVerificationGas: size = bits in the bit array, nkeys = sub-keys of the multisig key,
   ntrue = set bits, nsigs = sub-signatures; sub-keys are secp256k1/eth_secp256k1 (gas consumption succeeds):
     if size != len(keys) || NumTrueBitsBefore(size) != len(sigs) { return error }                    (5723147)
     for i < size: if bit i { keys[i], sigs[sigIndex] … } *)
Definition v_MultisigGas (size nkeys ntrue nsigs : Z) : vres :=
  CHECK (pure (negb (size =? nkeys) || negb (ntrue =? nsigs))) FAIL "multisig bit array does not match" ;;
  CHECK (if (size <=? nkeys) && (ntrue <=? nsigs) then Val false else Pan) FAIL "" ;;
  VOk.

(* ---------------- one sum type of everything modelled (used by the correspondence file and the coverage obligations) ---------------- *)
Inductive vinput :=
| I_Params (m : xparams) | I_MsgUpdateParams (m : m_update_params) | I_MsgBondedOracle (m : m_bonded_oracle)
| I_MsgAddDelegate (m : m_add_delegate) | I_MsgReDelegate (m : m_redelegate) | I_MsgEditBridger (m : m_edit_bridger)
| I_MsgWithdrawReward (m : m_oracle_only) | I_MsgUnbondedOracle (m : m_oracle_only)
| I_MsgOracleSetConfirm (m : m_confirm) | I_MsgConfirmBatch (m : m_confirm) | I_MsgBridgeCallConfirm (m : m_confirm)
| I_MsgSendToExternal (m : m_send_to_external) | I_MsgRequestBatch (m : m_request_batch)
| I_MsgCancelSendToExternal (m : m_cancel) | I_MsgIncreaseBridgeFee (m : m_increase_fee)
| I_MsgUpdateChainOracles (m : m_update_oracles) | I_MsgClaim (m : m_claim) | I_Claim (c : claimv)
| I_MsgConfirm (m : m_confirm_wrapper) | I_MsgBridgeCall (m : m_bridge_call)
| I_MsgConvertCoin (m : e_convert_coin) | I_MsgConvertERC20 (m : e_convert_erc20) | I_MsgConvertDenom (m : e_convert_denom)
| I_Erc20MsgUpdateParams (m : e_update_params) | I_MsgRegisterCoin (m : e_register_coin) | I_MsgRegisterERC20 (m : e_register_erc20)
| I_MsgToggleTokenConversion (m : e_toggle) | I_MsgUpdateDenomAlias (m : e_denom_alias)
| I_MsgMigrateAccount (m : g_migrate) | I_MsgUpdateStore (m : v_update_store) | I_MsgUpdateSwitchParams (m : v_switch)
| I_CustomParams (p : v_custom) | I_MsgCallContract (m : x_call_contract)
| I_StakingArgs (a : sargs) | I_CrosschainArgs (a : cargs)
| I_ValidateExternalAddr (c : chainv) (x : extv)
| I_IbcCallEvmPacket (m : i_call_evm)
| I_PubKeyDecorator (npub nsig : Z) | I_MultisigGas (size nkeys ntrue nsigs : Z)
| I_LUpdateChainOracles (m : l_update_oracles) | I_LRegisterCoin (m : l_register_coin) | I_LRegisterERC20 (m : l_register_erc20)
| I_LToggle (m : l_toggle) | I_LDenomAlias (m : l_denom_alias).

Definition validate (i : vinput) : vres :=
  match i with
  | I_Params m => v_Params m | I_MsgUpdateParams m => v_MsgUpdateParams m | I_MsgBondedOracle m => v_MsgBondedOracle m
  | I_MsgAddDelegate m => v_MsgAddDelegate m | I_MsgReDelegate m => v_MsgReDelegate m | I_MsgEditBridger m => v_MsgEditBridger m
  | I_MsgWithdrawReward m => v_MsgOracleOnly m | I_MsgUnbondedOracle m => v_MsgOracleOnly m
  | I_MsgOracleSetConfirm m => v_Confirm m | I_MsgConfirmBatch m => v_Confirm m | I_MsgBridgeCallConfirm m => v_Confirm m
  | I_MsgSendToExternal m => v_MsgSendToExternal m | I_MsgRequestBatch m => v_MsgRequestBatch m
  | I_MsgCancelSendToExternal m => v_MsgCancelSendToExternal m | I_MsgIncreaseBridgeFee m => v_MsgIncreaseBridgeFee m
  | I_MsgUpdateChainOracles m => v_MsgUpdateChainOracles m | I_MsgClaim m => v_MsgClaim m | I_Claim c => v_claim c
  | I_MsgConfirm m => h_MsgConfirm_entry m | I_MsgBridgeCall m => v_MsgBridgeCall m
  | I_MsgConvertCoin m => v_MsgConvertCoin m | I_MsgConvertERC20 m => v_MsgConvertERC20 m | I_MsgConvertDenom m => v_MsgConvertDenom m
  | I_Erc20MsgUpdateParams m => v_Erc20MsgUpdateParams m | I_MsgRegisterCoin m => v_MsgRegisterCoin m | I_MsgRegisterERC20 m => v_MsgRegisterERC20 m
  | I_MsgToggleTokenConversion m => v_MsgToggleTokenConversion m | I_MsgUpdateDenomAlias m => v_MsgUpdateDenomAlias m
  | I_MsgMigrateAccount m => v_MsgMigrateAccount m | I_MsgUpdateStore m => v_MsgUpdateStore m | I_MsgUpdateSwitchParams m => v_MsgUpdateSwitchParams m
  | I_CustomParams p => v_CustomParams p | I_MsgCallContract m => v_MsgCallContract m
  | I_StakingArgs a => v_staking_args a | I_CrosschainArgs a => v_crosschain_args a
  | I_ValidateExternalAddr c x => validate_external_addr c x
  | I_IbcCallEvmPacket m => v_IbcCallEvmPacket m
  | I_PubKeyDecorator np ns => v_PubKeyDecorator np ns
  | I_MultisigGas sz nk nt ns => v_MultisigGas sz nk nt ns
  | I_LUpdateChainOracles m => v_UpdateChainOraclesProposal m | I_LRegisterCoin m => v_RegisterCoinProposal m
  | I_LRegisterERC20 m => v_RegisterERC20Proposal m | I_LToggle m => v_ToggleTokenConversionProposal m
  | I_LDenomAlias m => v_UpdateDenomAliasProposal m
  end.

(* Inputs that no decoder in front of the validators can produce, although a Go caller could build them:
     - a nil *big.Int in precompile arguments: go-ethereum's abi.Unpack always allocates the value of a uint256;
     - a nil Int in the IBC memo packet: the memo is JSON and an absent "value" is decoded to a fresh zero Int.
   The harness checks both facts on the real decoders every run. They are the only inputs excluded from C20_validate_total. *)
Definition decodable (i : vinput) : bool :=
  match i with
  | I_CrosschainArgs a => cargs_from_abi a
  | I_IbcCallEvmPacket m => negb (int_isnil (ic_value m))
  | _ => true
  end.

(* the Go type names the model covers (checked against the generated universe in proofs/P_ValidateGen.v) *)
Definition modelled_types : list string :=
  [ "crosschain.Params"; "crosschain.MsgUpdateParams"; "crosschain.MsgBondedOracle"; "crosschain.MsgAddDelegate";
    "crosschain.MsgReDelegate"; "crosschain.MsgEditBridger"; "crosschain.MsgWithdrawReward"; "crosschain.MsgUnbondedOracle";
    "crosschain.MsgOracleSetConfirm"; "crosschain.MsgConfirmBatch"; "crosschain.MsgBridgeCallConfirm";
    "crosschain.MsgSendToExternal"; "crosschain.MsgRequestBatch"; "crosschain.MsgCancelSendToExternal";
    "crosschain.MsgIncreaseBridgeFee"; "crosschain.MsgUpdateChainOracles"; "crosschain.MsgClaim";
    "crosschain.MsgSendToFxClaim"; "crosschain.MsgBridgeCallClaim"; "crosschain.MsgBridgeCallResultClaim";
    "crosschain.MsgSendToExternalClaim"; "crosschain.MsgBridgeTokenClaim"; "crosschain.MsgOracleSetUpdatedClaim";
    "crosschain.MsgConfirm"; "crosschain.MsgBridgeCall";
    "crosschain.MsgSetOrchestratorAddress"; "crosschain.MsgAddOracleDeposit";   (* ValidateBasic is `return nil` *)
    "erc20.MsgConvertCoin"; "erc20.MsgConvertERC20"; "erc20.MsgConvertDenom"; "erc20.MsgUpdateParams"; "erc20.Params";
    "erc20.MsgRegisterCoin"; "erc20.MsgRegisterERC20"; "erc20.MsgToggleTokenConversion"; "erc20.MsgUpdateDenomAlias";
    "migrate.MsgMigrateAccount"; "gov.MsgUpdateStore"; "gov.MsgUpdateSwitchParams"; "gov.SwitchParams"; "gov.CustomParams";
    "evm.MsgCallContract"; "middleware.IbcCallEvmPacket";
    "crosschain.UpdateChainOraclesProposal"; "crosschain.InitCrossChainParamsProposal" (* return nil *);
    "erc20.RegisterCoinProposal"; "erc20.RegisterERC20Proposal"; "erc20.ToggleTokenConversionProposal"; "erc20.UpdateDenomAliasProposal";
    "legacy.InitEvmParamsProposal" (* return nil *);
    "staking.AllowanceSharesArgs"; "staking.ApproveSharesArgs"; "staking.DelegateArgs"; "staking.DelegateV2Args";
    "staking.DelegationArgs"; "staking.DelegationRewardsArgs"; "staking.RedelegateArgs"; "staking.RedelegateV2Args";
    "staking.TransferSharesArgs"; "staking.TransferFromSharesArgs"; "staking.UndelegateArgs"; "staking.UndelegateV2Args";
    "staking.WithdrawArgs"; "staking.SlashingInfoArgs"; "staking.ValidatorListArgs";
    "crosschain.BridgeCoinAmountArgs"; "crosschain.CancelSendToExternalArgs"; "crosschain.CrossChainArgs";
    "crosschain.IncreaseBridgeFeeArgs"; "crosschain.BridgeCallArgs"; "crosschain.ExecuteClaimArgs";
    "crosschain.HasOracleArgs"; "crosschain.IsOracleOnlineArgs" ].
