(* glue for the correspondence file Cases_C20v.v written by harness/c20v (stage "model"):
   every case is an abstract input of M_Validate together with what the REAL fx-core code did on a concrete
   (wire-level) instance of that abstract input. *)
From Coq Require Import ZArith List Bool.
From Coq Require Export String.
From FxV Require Import model.M_Validate.
Import ListNotations.
Open Scope string_scope.
Open Scope Z_scope.

Inductive obs := OOk | OErr (msg : string) | OPanic.

Inductive ccase :=
| CV (i : vinput) (o : obs)                                       (* a validator: ok / error text / panic *)
| CMust_BridgeCall (m : m_bridge_call) (defined : bool)           (* validated MsgBridgeCall: did every getter the handler calls return? *)
| CMust_ClaimAddr (m : c_bridge_call) (defined : bool)            (* validated MsgBridgeCallClaim: address/data/memo getters *)
| CMust_ClaimAmounts (m : c_bridge_call) (defined : bool)         (* validated MsgBridgeCallClaim: sdk.NewCoin on every amount *)
| CMust_Claimer (c : claimv) (defined : bool)                     (* validated claim: GetClaimer *)
| CMust_Store (s : storev) (defined : bool)                       (* validated MsgUpdateStore entry: KeyToBytes/OldValueToBytes/ValueToBytes *)
| CTarget (t : targetin) (o : targetout)
| CAddress (a : addrin) (o : addrout).

Definition targetout_eqb (a b : targetout) : bool :=
  match a, b with ToErc20, ToErc20 | ToEth, ToEth | ToIBC, ToIBC | ToPlain, ToPlain => true | _, _ => false end.
Definition addrout_eqb (a b : addrout) : bool :=
  match a, b with AoAcc, AoAcc | AoEvm, AoEvm | AoErr, AoErr => true | _, _ => false end.

(* The projection the property needs.  A case is a mismatch when the implementation is WORSE than the model says:
     - the code panics where the model does not;
     - the code accepts what the model rejects (then "validate = VOk => Must* defined" would not transfer);
     - a helper the model proves defined panics.
   For the validators whose guards were added by the repairs of C20-1/2/3/6 (Params, MsgUpdateParams, MsgBridgeCall,
   MsgBridgeCallClaim, the MsgConfirm handler entry, the two ante functions repaired for C20-4/5, and CrossChainArgs repaired for C20-9) the comparison is EXACT: same class and the model's tag is a
   prefix of the Go error text — so the removal, weakening or reordering of any of those guards is a mismatch even
   when it does not (yet) lead to a panic.  Elsewhere the code being stricter than the model is not flagged. *)
Definition v_mismatch (m : vres) (o : obs) : bool :=
  match m, o with
  | VPanic, _ => false
  | _, OPanic => true
  | VErr _, OOk => true
  | _, _ => false
  end.
Definition v_mismatch_strict (m : vres) (o : obs) : bool :=
  match m, o with
  | VOk, OOk => false
  | VPanic, OPanic => false
  | VErr t, OErr msg => negb (String.prefix t msg)
  | _, _ => true
  end.
Definition exact_input (i : vinput) : bool :=
  match i with
  | I_Params _ | I_MsgUpdateParams _ | I_MsgBridgeCall _ | I_MsgConfirm _ | I_Claim (ClBridgeCall _) => true
  | I_PubKeyDecorator _ _ | I_MultisigGas _ _ _ _ => true
  | I_CrosschainArgs (CA_CrossChain _ _ _ _ _) => true
  | I_MsgClaim m => match mc_claim m with AnyIs (ClBridgeCall _) => true | _ => false end
  | _ => false
  end.
Definition must_mismatch (model_defined real_defined : bool) : bool := model_defined && negb real_defined.

Definition c_mismatch (c : ccase) : bool :=
  match c with
  | CV i o => if exact_input i then v_mismatch_strict (validate i) o else v_mismatch (validate i) o
  | CMust_BridgeCall m d => must_mismatch (all_def (must_MsgBridgeCall m)) d
  | CMust_ClaimAddr m d => must_mismatch (all_def (must_BridgeCallClaim_addr m)) d
  | CMust_ClaimAmounts m d => must_mismatch (all_def (must_BridgeCallClaim_amounts m)) d
  | CMust_Claimer c d => must_mismatch (all_def [must_acc (claimer_of c)]) d
  | CMust_Store s d => must_mismatch (all_def (must_UpdateStore s)) d
  | CTarget t o => negb (targetout_eqb (parse_fx_target t) o)
  | CAddress a o => negb (addrout_eqb (parse_address a) o)
  end.

(* strict mode (VERIF_STRICT=1, used while transcribing): exact class and the model's tag must be a prefix of the error text *)
Definition c_mismatch_strict (c : ccase) : bool :=
  match c with
  | CV i o => v_mismatch_strict (validate i) o
  | CMust_BridgeCall m d => negb (Bool.eqb (all_def (must_MsgBridgeCall m)) d)
  | CMust_ClaimAddr m d => negb (Bool.eqb (all_def (must_BridgeCallClaim_addr m)) d)
  | CMust_ClaimAmounts m d => negb (Bool.eqb (all_def (must_BridgeCallClaim_amounts m)) d)
  | CMust_Claimer c d => negb (Bool.eqb (all_def [must_acc (claimer_of c)]) d)
  | CMust_Store s d => negb (Bool.eqb (all_def (must_UpdateStore s)) d)
  | _ => c_mismatch c
  end.
