(* M_ValidateFields.v — what the hand-written model M_Validate.v was written AGAINST: the field list of every
   modelled Go type (name:GoType:nil-kind, as printed by harness/gen_c20), the panic/Must* sites that exist in the
   accessor-style methods of x/*/types and types/, the types deliberately left out, and the binding of precompile
   ABI methods to argument structs.  proofs/P_ValidateGen.v compares these lists with coq/gen/Gen_MsgFields.v, which
   is regenerated from the current tree on every run: a new message type, a new or retyped field, a new panic site
   or a new precompile method breaks an obligation until the model is extended. *)
From Coq Require Import List String.
Import ListNotations.
Open Scope string_scope.

Definition model_fields : list (string * list string) :=
 [
  ("legacy.InitEvmParamsProposal", ["Title:string:no"; "Description:string:no"; "EvmParams:*EVMParams:ptr"; "FeemarketParams:*FeemarketParams:ptr"]);
  ("crosschain.InitCrossChainParamsProposal", ["Title:string:no"; "Description:string:no"; "Params:*Params:ptr"; "ChainName:string:no"]);
  ("crosschain.UpdateChainOraclesProposal", ["Title:string:no"; "Description:string:no"; "Oracles:[]string:slice"; "ChainName:string:no"]);
  ("erc20.RegisterCoinProposal", ["Title:string:no"; "Description:string:no"; "Metadata:types.Metadata:no"]);
  ("erc20.RegisterERC20Proposal", ["Title:string:no"; "Description:string:no"; "Erc20Address:string:no"; "Aliases:[]string:slice"]);
  ("erc20.ToggleTokenConversionProposal", ["Title:string:no"; "Description:string:no"; "Token:string:no"]);
  ("erc20.UpdateDenomAliasProposal", ["Title:string:no"; "Description:string:no"; "Denom:string:no"; "Alias:string:no"]);
  ("crosschain.BridgeCallArgs", ["DstChain:string:no"; "Refund:common.Address:no"; "Tokens:[]common.Address:slice"; "Amounts:[]*big.Int:slice"; "To:common.Address:no"; "Data:[]byte:slice"; "Value:*big.Int:ptr"; "Memo:[]byte:slice"]);
  ("crosschain.BridgeCoinAmountArgs", ["Token:common.Address:no"; "Target:[32]byte:no"]);
  ("crosschain.CancelSendToExternalArgs", ["Chain:string:no"; "TxID:*big.Int:ptr"]);
  ("crosschain.CrossChainArgs", ["Token:common.Address:no"; "Receipt:string:no"; "Amount:*big.Int:ptr"; "Fee:*big.Int:ptr"; "Target:[32]byte:no"; "Memo:string:no"]);
  ("crosschain.ExecuteClaimArgs", ["Chain:string:no"; "EventNonce:*big.Int:ptr"]);
  ("crosschain.HasOracleArgs", ["Chain:string:no"; "ExternalAddress:common.Address:no"]);
  ("crosschain.IncreaseBridgeFeeArgs", ["Chain:string:no"; "TxID:*big.Int:ptr"; "Token:common.Address:no"; "Fee:*big.Int:ptr"]);
  ("crosschain.IsOracleOnlineArgs", ["Chain:string:no"; "ExternalAddress:common.Address:no"]);
  ("crosschain.MsgAddDelegate", ["ChainName:string:no"; "OracleAddress:string:no"; "Amount:types.Coin:coin"]);
  ("crosschain.MsgAddOracleDeposit", ["OracleAddress:string:no"; "Amount:types.Coin:coin"; "ChainName:string:no"]);
  ("crosschain.MsgBondedOracle", ["ChainName:string:no"; "OracleAddress:string:no"; "BridgerAddress:string:no"; "ExternalAddress:string:no"; "ValidatorAddress:string:no"; "DelegateAmount:types.Coin:coin"]);
  ("crosschain.MsgBridgeCall", ["ChainName:string:no"; "Sender:string:no"; "Refund:string:no"; "Coins:github_com_cosmos_cosmos_sdk_types.Coins:coins"; "To:string:no"; "Data:string:no"; "Value:cosmossdk_io_math.Int:int"; "Memo:string:no"]);
  ("crosschain.MsgBridgeCallClaim", ["ChainName:string:no"; "BridgerAddress:string:no"; "EventNonce:uint64:no"; "BlockHeight:uint64:no"; "Sender:string:no"; "Refund:string:no"; "TokenContracts:[]string:slice"; "Amounts:[]cosmossdk_io_math.Int:ints"; "To:string:no"; "Data:string:no"; "Value:cosmossdk_io_math.Int:int"; "Memo:string:no"; "TxOrigin:string:no"]);
  ("crosschain.MsgBridgeCallConfirm", ["ChainName:string:no"; "BridgerAddress:string:no"; "ExternalAddress:string:no"; "Nonce:uint64:no"; "Signature:string:no"]);
  ("crosschain.MsgBridgeCallResultClaim", ["ChainName:string:no"; "BridgerAddress:string:no"; "EventNonce:uint64:no"; "BlockHeight:uint64:no"; "Nonce:uint64:no"; "TxOrigin:string:no"; "Success:bool:no"; "Cause:string:no"]);
  ("crosschain.MsgBridgeTokenClaim", ["EventNonce:uint64:no"; "BlockHeight:uint64:no"; "TokenContract:string:no"; "Name:string:no"; "Symbol:string:no"; "Decimals:uint64:no"; "BridgerAddress:string:no"; "ChannelIbc:string:no"; "ChainName:string:no"]);
  ("crosschain.MsgCancelSendToExternal", ["TransactionId:uint64:no"; "Sender:string:no"; "ChainName:string:no"]);
  ("crosschain.MsgClaim", ["ChainName:string:no"; "BridgerAddress:string:no"; "Claim:*types1.Any:ptr"]);
  ("crosschain.MsgConfirm", ["ChainName:string:no"; "BridgerAddress:string:no"; "Confirm:*types1.Any:ptr"]);
  ("crosschain.MsgConfirmBatch", ["Nonce:uint64:no"; "TokenContract:string:no"; "BridgerAddress:string:no"; "ExternalAddress:string:no"; "Signature:string:no"; "ChainName:string:no"]);
  ("crosschain.MsgEditBridger", ["ChainName:string:no"; "OracleAddress:string:no"; "BridgerAddress:string:no"]);
  ("crosschain.MsgIncreaseBridgeFee", ["ChainName:string:no"; "TransactionId:uint64:no"; "Sender:string:no"; "AddBridgeFee:types.Coin:coin"]);
  ("crosschain.MsgOracleSetConfirm", ["Nonce:uint64:no"; "BridgerAddress:string:no"; "ExternalAddress:string:no"; "Signature:string:no"; "ChainName:string:no"]);
  ("crosschain.MsgOracleSetUpdatedClaim", ["EventNonce:uint64:no"; "BlockHeight:uint64:no"; "OracleSetNonce:uint64:no"; "Members:[]BridgeValidator:slice"; "BridgerAddress:string:no"; "ChainName:string:no"]);
  ("crosschain.MsgReDelegate", ["ChainName:string:no"; "OracleAddress:string:no"; "ValidatorAddress:string:no"]);
  ("crosschain.MsgRequestBatch", ["Sender:string:no"; "Denom:string:no"; "MinimumFee:cosmossdk_io_math.Int:int"; "FeeReceive:string:no"; "ChainName:string:no"; "BaseFee:cosmossdk_io_math.Int:int"]);
  ("crosschain.MsgSendToExternal", ["Sender:string:no"; "Dest:string:no"; "Amount:types.Coin:coin"; "BridgeFee:types.Coin:coin"; "ChainName:string:no"]);
  ("crosschain.MsgSendToExternalClaim", ["EventNonce:uint64:no"; "BlockHeight:uint64:no"; "BatchNonce:uint64:no"; "TokenContract:string:no"; "BridgerAddress:string:no"; "ChainName:string:no"]);
  ("crosschain.MsgSendToFxClaim", ["EventNonce:uint64:no"; "BlockHeight:uint64:no"; "TokenContract:string:no"; "Amount:cosmossdk_io_math.Int:int"; "Sender:string:no"; "Receiver:string:no"; "TargetIbc:string:no"; "BridgerAddress:string:no"; "ChainName:string:no"]);
  ("crosschain.MsgSetOrchestratorAddress", ["OracleAddress:string:no"; "BridgerAddress:string:no"; "ExternalAddress:string:no"; "Deposit:types.Coin:coin"; "ChainName:string:no"]);
  ("crosschain.MsgUnbondedOracle", ["ChainName:string:no"; "OracleAddress:string:no"]);
  ("crosschain.MsgUpdateChainOracles", ["ChainName:string:no"; "Authority:string:no"; "Oracles:[]string:slice"]);
  ("crosschain.MsgUpdateParams", ["ChainName:string:no"; "Authority:string:no"; "Params:Params:no"]);
  ("crosschain.MsgWithdrawReward", ["ChainName:string:no"; "OracleAddress:string:no"]);
  ("crosschain.Params", ["GravityId:string:no"; "AverageBlockTime:uint64:no"; "ExternalBatchTimeout:uint64:no"; "AverageExternalBlockTime:uint64:no"; "SignedWindow:uint64:no"; "SlashFraction:cosmossdk_io_math.LegacyDec:dec"; "OracleSetUpdatePowerChangePercent:cosmossdk_io_math.LegacyDec:dec"; "IbcTransferTimeoutHeight:uint64:no"; "Oracles:[]string:slice"; "DelegateThreshold:types1.Coin:no"; "DelegateMultiple:int64:no"; "BridgeCallTimeout:uint64:no"; "BridgeCallMaxGasLimit:uint64:no"; "EnableSendToExternalPending:bool:no"; "EnableBridgeCallPending:bool:no"]);
  ("erc20.MsgConvertCoin", ["Coin:types.Coin:coin"; "Receiver:string:no"; "Sender:string:no"]);
  ("erc20.MsgConvertDenom", ["Sender:string:no"; "Receiver:string:no"; "Coin:types.Coin:coin"; "Target:string:no"]);
  ("erc20.MsgConvertERC20", ["ContractAddress:string:no"; "Amount:cosmossdk_io_math.Int:int"; "Receiver:string:no"; "Sender:string:no"]);
  ("erc20.MsgRegisterCoin", ["Authority:string:no"; "Metadata:types1.Metadata:no"]);
  ("erc20.MsgRegisterERC20", ["Authority:string:no"; "Erc20Address:string:no"; "Aliases:[]string:slice"]);
  ("erc20.MsgToggleTokenConversion", ["Authority:string:no"; "Token:string:no"]);
  ("erc20.MsgUpdateDenomAlias", ["Authority:string:no"; "Denom:string:no"; "Alias:string:no"]);
  ("erc20.MsgUpdateParams", ["Authority:string:no"; "Params:Params:no"]);
  ("erc20.Params", ["EnableErc20:bool:no"; "EnableEVMHook:bool:no"; "IbcTimeout:time.Duration:no"]);
  ("evm.MsgCallContract", ["Authority:string:no"; "ContractAddress:string:no"; "Data:string:no"]);
  ("gov.CustomParams", ["DepositRatio:string:no"; "VotingPeriod:*time.Duration:ptr"; "Quorum:string:no"]);
  ("gov.MsgUpdateStore", ["Authority:string:no"; "UpdateStores:[]UpdateStore:slice"]);
  ("gov.MsgUpdateSwitchParams", ["Authority:string:no"; "Params:SwitchParams:no"]);
  ("gov.SwitchParams", ["DisablePrecompiles:[]string:slice"; "DisableMsgTypes:[]string:slice"]);
  ("middleware.IbcCallEvmPacket", ["To:string:no"; "Data:string:no"; "Value:cosmossdk_io_math.Int:int"]);
  ("migrate.MsgMigrateAccount", ["From:string:no"; "To:string:no"; "Signature:string:no"]);
  ("staking.AllowanceSharesArgs", ["Validator:string:no"; "Owner:common.Address:no"; "Spender:common.Address:no"]);
  ("staking.ApproveSharesArgs", ["Validator:string:no"; "Spender:common.Address:no"; "Shares:*big.Int:ptr"]);
  ("staking.DelegateArgs", ["Validator:string:no"]);
  ("staking.DelegateV2Args", ["Validator:string:no"; "Amount:*big.Int:ptr"]);
  ("staking.DelegationArgs", ["Validator:string:no"; "Delegator:common.Address:no"]);
  ("staking.DelegationRewardsArgs", ["Validator:string:no"; "Delegator:common.Address:no"]);
  ("staking.RedelegateArgs", ["ValidatorSrc:string:no"; "ValidatorDst:string:no"; "Shares:*big.Int:ptr"]);
  ("staking.RedelegateV2Args", ["ValidatorSrc:string:no"; "ValidatorDst:string:no"; "Amount:*big.Int:ptr"]);
  ("staking.SlashingInfoArgs", ["Validator:string:no"]);
  ("staking.TransferFromSharesArgs", ["Validator:string:no"; "From:common.Address:no"; "To:common.Address:no"; "Shares:*big.Int:ptr"]);
  ("staking.TransferSharesArgs", ["Validator:string:no"; "To:common.Address:no"; "Shares:*big.Int:ptr"]);
  ("staking.UndelegateArgs", ["Validator:string:no"; "Shares:*big.Int:ptr"]);
  ("staking.UndelegateV2Args", ["Validator:string:no"; "Amount:*big.Int:ptr"]);
  ("staking.ValidatorListArgs", ["SortBy:uint8:no"]);
  ("staking.WithdrawArgs", ["Validator:string:no"])
 ].

(* validated types that are NOT modelled, with the reason *)
Definition out_of_scope_types : list string :=
  [ (* genesis state: operator-supplied at chain start, not network input *)
    "crosschain.GenesisState"; "erc20.GenesisState"; "erc20.TokenPair";
    (* stored records / helper types validated only from genesis or keeper code *)
    "crosschain.BridgeValidator";
    (* (the legacy gov v1beta1 Content validators are modelled since they are reached by the SDK's v1beta1 MsgSubmitProposal handler) *)
    "crosschain.ERC20Token" ].

(* message structs WITHOUT a ValidateBasic that are not modelled: the legacy (v1..v7) message shells kept for decoding old
   blocks have no registered handler (baseapp refuses them: "no message handler found"); MsgUpdateCustomParams is
   authority-gated and its CustomParams are validated in the handler (CustomParams is modelled) *)
Definition unvalidated_msgs : list string :=
  [ "gov.MsgUpdateCustomParams";
    "legacy.MsgCancelSendToEth"; "legacy.MsgConfirmBatch"; "legacy.MsgDepositClaim"; "legacy.MsgEditConsensusPubKey";
    "legacy.MsgFxOriginatedTokenClaim"; "legacy.MsgGrantPrivilege"; "legacy.MsgRequestBatch"; "legacy.MsgSendToEth";
    "legacy.MsgSetOrchestratorAddress"; "legacy.MsgTransfer"; "legacy.MsgUpdateEGFParams"; "legacy.MsgUpdateFXParams";
    "legacy.MsgUpdateParams"; "legacy.MsgValsetConfirm"; "legacy.MsgValsetUpdatedClaim"; "legacy.MsgWithdrawClaim" ].

(* every panic( / Must*( site in accessor-style methods, with its disposition:
     fxtypes.MustStrToByte32 panic : constant arguments only
     crosschain.ExternalAddrToAccAddr panic : chain name / address validated by the caller's ValidateBasic (ext_to_addr in the model); harness stage strings checks them after validation
     crosschain.ExternalAddrToHexAddr panic : chain name / address validated by the caller's ValidateBasic (ext_to_addr in the model); harness stage strings checks them after validation
     crosschain.ExternalAddrToStr panic : chain name / address validated by the caller's ValidateBasic (ext_to_addr in the model); harness stage strings checks them after validation
     crosschain.MsgAddOracleDeposit.GetSigners sdk.MustAccAddressFromBech32 : legacy GetSigners: SDK 0.50 derives signers from the cosmos.msg.v1.signer annotation (GetMsgV1Signers); nothing calls this method
     crosschain.MsgBridgeCall.GetRefundAddr sdk.MustAccAddressFromBech32 : after ValidateBasic (must_safe_bridge_call)
     crosschain.MsgBridgeCall.GetSenderAddr sdk.MustAccAddressFromBech32 : after ValidateBasic (must_safe_bridge_call)
     crosschain.MsgBridgeCall.GetSigners sdk.MustAccAddressFromBech32 : legacy GetSigners: SDK 0.50 derives signers from the cosmos.msg.v1.signer annotation (GetMsgV1Signers); nothing calls this method
     crosschain.MsgBridgeCall.MustData panic : after ValidateBasic (must_safe_bridge_call)
     crosschain.MsgBridgeCall.MustMemo panic : after ValidateBasic (must_safe_bridge_call)
     crosschain.MsgBridgeCallClaim.GetClaimer sdk.MustAccAddressFromBech32 : after ValidateBasic (must_safe_claimer)
     crosschain.MsgBridgeCallClaim.IsMemoSendCallTo m.MustMemo : after ValidateBasic (must_safe_claim_addr)
     crosschain.MsgBridgeCallClaim.MustData panic : after ValidateBasic (must_safe_claim_addr)
     crosschain.MsgBridgeCallClaim.MustMemo panic : after ValidateBasic (must_safe_claim_addr)
     crosschain.MsgBridgeCallResultClaim.GetClaimer sdk.MustAccAddressFromBech32 : after ValidateBasic (must_safe_claimer)
     crosschain.MsgBridgeCallResultClaim.GetSigners sdk.MustAccAddressFromBech32 : legacy GetSigners: SDK 0.50 derives signers from the cosmos.msg.v1.signer annotation (GetMsgV1Signers); nothing calls this method
     crosschain.MsgBridgeTokenClaim.GetClaimer sdk.MustAccAddressFromBech32 : after ValidateBasic (must_safe_claimer)
     crosschain.MsgClaim.GetSigners panic : legacy GetSigners: SDK 0.50 derives signers from the cosmos.msg.v1.signer annotation (GetMsgV1Signers); nothing calls this method
     crosschain.MsgOracleSetUpdatedClaim.GetClaimer sdk.MustAccAddressFromBech32 : after ValidateBasic (must_safe_claimer)
     crosschain.MsgSendToExternalClaim.GetClaimer sdk.MustAccAddressFromBech32 : after ValidateBasic (must_safe_claimer)
     crosschain.MsgSendToFxClaim.GetClaimer sdk.MustAccAddressFromBech32 : after ValidateBasic (must_safe_claimer)
     crosschain.MsgSetOrchestratorAddress.GetSigners sdk.MustAccAddressFromBech32 : legacy GetSigners: SDK 0.50 derives signers from the cosmos.msg.v1.signer annotation (GetMsgV1Signers); nothing calls this method
     crosschain.Oracle.GetBridger sdk.MustAccAddressFromBech32 : stored oracle record, written only from validated messages (property C13)
     crosschain.Oracle.GetOracle sdk.MustAccAddressFromBech32 : stored oracle record, written only from validated messages (property C13)
     crosschain.Oracle.GetValidator panic : stored oracle record, written only from validated messages (property C13)
     gov.UpdateStore.KeyToBytes panic : after ValidateBasic (must_safe_update_store)
     gov.UpdateStore.OldValueToBytes panic : after ValidateBasic (must_safe_update_store)
     gov.UpdateStore.ValueToBytes panic : after ValidateBasic (must_safe_update_store)
     middleware.IbcCallEvmPacket.MustGetData panic : after ValidateBasic (must_safe_ibc_call)
     tron.tronAddress.ExternalAddrToAccAddr panic : chain name / address validated by the caller's ValidateBasic (ext_to_addr in the model); harness stage strings checks them after validation
     tron.tronAddress.ExternalAddrToHexAddr panic : chain name / address validated by the caller's ValidateBasic (ext_to_addr in the model); harness stage strings checks them after validation
*)
Definition known_panic_sites : list (string * string * string) :=
 [
  ("types/byte32.go", "fxtypes.MustStrToByte32", "panic");
  ("x/crosschain/types/external_address.go", "crosschain.ExternalAddrToAccAddr", "panic");
  ("x/crosschain/types/external_address.go", "crosschain.ExternalAddrToHexAddr", "panic");
  ("x/crosschain/types/external_address.go", "crosschain.ExternalAddrToStr", "panic");
  ("x/crosschain/types/msgs.go", "crosschain.MsgAddOracleDeposit.GetSigners", "sdk.MustAccAddressFromBech32");
  ("x/crosschain/types/msgs.go", "crosschain.MsgBridgeCall.GetRefundAddr", "sdk.MustAccAddressFromBech32");
  ("x/crosschain/types/msgs.go", "crosschain.MsgBridgeCall.GetSenderAddr", "sdk.MustAccAddressFromBech32");
  ("x/crosschain/types/msgs.go", "crosschain.MsgBridgeCall.GetSigners", "sdk.MustAccAddressFromBech32");
  ("x/crosschain/types/msgs.go", "crosschain.MsgBridgeCall.MustData", "panic");
  ("x/crosschain/types/msgs.go", "crosschain.MsgBridgeCall.MustMemo", "panic");
  ("x/crosschain/types/msgs.go", "crosschain.MsgBridgeCallClaim.GetClaimer", "sdk.MustAccAddressFromBech32");
  ("x/crosschain/types/msgs.go", "crosschain.MsgBridgeCallClaim.IsMemoSendCallTo", "m.MustMemo");
  ("x/crosschain/types/msgs.go", "crosschain.MsgBridgeCallClaim.MustData", "panic");
  ("x/crosschain/types/msgs.go", "crosschain.MsgBridgeCallClaim.MustMemo", "panic");
  ("x/crosschain/types/msgs.go", "crosschain.MsgBridgeCallResultClaim.GetClaimer", "sdk.MustAccAddressFromBech32");
  ("x/crosschain/types/msgs.go", "crosschain.MsgBridgeCallResultClaim.GetSigners", "sdk.MustAccAddressFromBech32");
  ("x/crosschain/types/msgs.go", "crosschain.MsgBridgeTokenClaim.GetClaimer", "sdk.MustAccAddressFromBech32");
  ("x/crosschain/types/msgs.go", "crosschain.MsgClaim.GetSigners", "panic");
  ("x/crosschain/types/msgs.go", "crosschain.MsgOracleSetUpdatedClaim.GetClaimer", "sdk.MustAccAddressFromBech32");
  ("x/crosschain/types/msgs.go", "crosschain.MsgSendToExternalClaim.GetClaimer", "sdk.MustAccAddressFromBech32");
  ("x/crosschain/types/msgs.go", "crosschain.MsgSendToFxClaim.GetClaimer", "sdk.MustAccAddressFromBech32");
  ("x/crosschain/types/msgs.go", "crosschain.MsgSetOrchestratorAddress.GetSigners", "sdk.MustAccAddressFromBech32");
  ("x/crosschain/types/types.go", "crosschain.Oracle.GetBridger", "sdk.MustAccAddressFromBech32");
  ("x/crosschain/types/types.go", "crosschain.Oracle.GetOracle", "sdk.MustAccAddressFromBech32");
  ("x/crosschain/types/types.go", "crosschain.Oracle.GetValidator", "panic");
  ("x/gov/types/msgs.go", "gov.UpdateStore.KeyToBytes", "panic");
  ("x/gov/types/msgs.go", "gov.UpdateStore.OldValueToBytes", "panic");
  ("x/gov/types/msgs.go", "gov.UpdateStore.ValueToBytes", "panic");
  ("x/ibc/middleware/types/packet.go", "middleware.IbcCallEvmPacket.MustGetData", "panic");
  ("x/tron/types/address.go", "tron.tronAddress.ExternalAddrToAccAddr", "panic");
  ("x/tron/types/address.go", "tron.tronAddress.ExternalAddrToHexAddr", "panic")
 ].

(* precompile ABI method -> argument struct it is decoded into (x/*/precompile/*.go:UnpackInput) *)
Definition precompile_arg_struct : list ((string * string) * string) :=
  [ (("crosschain", "bridgeCall"), "crosschain.BridgeCallArgs"); (("crosschain", "bridgeCoinAmount"), "crosschain.BridgeCoinAmountArgs");
    (("crosschain", "cancelSendToExternal"), "crosschain.CancelSendToExternalArgs"); (("crosschain", "crossChain"), "crosschain.CrossChainArgs");
    (("crosschain", "executeClaim"), "crosschain.ExecuteClaimArgs"); (("crosschain", "hasOracle"), "crosschain.HasOracleArgs");
    (("crosschain", "increaseBridgeFee"), "crosschain.IncreaseBridgeFeeArgs"); (("crosschain", "isOracleOnline"), "crosschain.IsOracleOnlineArgs");
    (("staking", "allowanceShares"), "staking.AllowanceSharesArgs"); (("staking", "approveShares"), "staking.ApproveSharesArgs");
    (("staking", "delegateV2"), "staking.DelegateV2Args"); (("staking", "delegation"), "staking.DelegationArgs");
    (("staking", "delegationRewards"), "staking.DelegationRewardsArgs"); (("staking", "redelegateV2"), "staking.RedelegateV2Args");
    (("staking", "slashingInfo"), "staking.SlashingInfoArgs"); (("staking", "transferFromShares"), "staking.TransferFromSharesArgs");
    (("staking", "transferShares"), "staking.TransferSharesArgs"); (("staking", "undelegateV2"), "staking.UndelegateV2Args");
    (("staking", "validatorList"), "staking.ValidatorListArgs"); (("staking", "withdraw"), "staking.WithdrawArgs") ].

(* handler code: every arithmetic / conversion sink that the translator sees applied to a message-derived value
   (gen_arith_sites), with the reason why it cannot panic on a ValidateBasic-accepted message — or the finding it is. *)
Definition known_arith_sites : list ((string * string * string * string) * string) :=
 [
  (("x/crosschain/keeper/batch_fee.go", "Keeper.AddUnbatchedTxBridgeFee", "Add", "tx.Fee.Amount.Add(addBridgeFee.Amount)"),
     "the added fee has been transferred from the sender before (bank refuses amounts it does not hold)");
  (("x/crosschain/keeper/batch_fee.go", "addFeeToMap", "Add", "batchFees.TotalAmount.Add(amt.Amount)"),
     "sums of stored pool transactions (each backed by transferred coins)");
  (("x/crosschain/keeper/batch_fee.go", "addFeeToMap", "Add", "batchFees.TotalFees.Add(fee.Amount)"),
     "sums of stored pool transactions (each backed by transferred coins)");
  (("x/crosschain/keeper/bridge_call_in.go", "Keeper.BridgeCallHandler", "Add", "baseCoins.Add(baseCoin)"),
     "coins of a quorum-attested claim, amounts validated non-negative (edafc05); sums of at most 256-bit values backed by minted/unlocked coins");
  (("x/crosschain/keeper/bridge_call_in.go", "Keeper.bridgeCallTransferCoins", "Add", "mintCoins.Add(coin)"),
     "coins of a quorum-attested claim, amounts validated non-negative (edafc05); sums of at most 256-bit values backed by minted/unlocked coins");
  (("x/crosschain/keeper/bridge_call_in.go", "Keeper.bridgeCallTransferCoins", "Add", "targetCoins.Add(targetCoin)"),
     "coins of a quorum-attested claim, amounts validated non-negative (edafc05); sums of at most 256-bit values backed by minted/unlocked coins");
  (("x/crosschain/keeper/bridge_call_in.go", "Keeper.bridgeCallTransferCoins", "Add", "unlockCoins.Add(coin)"),
     "coins of a quorum-attested claim, amounts validated non-negative (edafc05); sums of at most 256-bit values backed by minted/unlocked coins");
  (("x/crosschain/keeper/bridge_call_out.go", "Keeper.BridgeCallResultHandler", "cast:int64", "int64(claim.Nonce)"),
     "only used to build a big.Int for an event/ABI value (property C12 covers the >= 2^63 reading)");
  (("x/crosschain/keeper/many_to_one.go", "Keeper.EvmToBaseCoin", "NewIntFromBigInt", "sdkmath.NewIntFromBigInt(amount)"),
     "single uint256 from the ABI decoder (or the guarded crossChain sum): at most 256 bits");
  (("x/crosschain/keeper/msg_server.go", "MsgServer.AddDelegate", "Add", "oracle.DelegateAmount.Add(delegateCoin.Amount)"),
     "OPEN FINDING C20-11: added before the maximum check");
  (("x/crosschain/keeper/outgoing_pool.go", "Keeper.addToOutgoingPool", "Add", "amount.Add(fee)"),
     "OPEN FINDING C20-10: amount + fee of MsgSendToExternal is not bounded by ValidateBasic (precompile callers are bounded since fb9127f)");
  (("x/crosschain/precompile/cancel_send_to_external.go", "CancelSendToExternalMethod.Run", "Uint64", "args.TxID.Uint64()"),
     "(*big.Int).Uint64 truncates, it does not panic; the truncated id is then simply not found");
  (("x/crosschain/precompile/crosschain.go", "CrossChainMethod.Run", "Add", "big.NewInt(0).Add(args.Amount, args.Fee)"),
     "guarded: CrossChainArgs.Validate rejects amount + fee above 256 bits (fb9127f, finding C20-9)");
  (("x/crosschain/precompile/crosschain.go", "CrossChainMethod.Run", "NewIntFromBigInt", "sdkmath.NewIntFromBigInt(args.Amount)"),
     "single uint256 from the ABI decoder (or the guarded crossChain sum): at most 256 bits");
  (("x/crosschain/precompile/crosschain.go", "CrossChainMethod.Run", "NewIntFromBigInt", "sdkmath.NewIntFromBigInt(args.Fee)"),
     "single uint256 from the ABI decoder (or the guarded crossChain sum): at most 256 bits");
  (("x/crosschain/precompile/execute_claim.go", "ExecuteClaimMethod.Run", "Uint64", "args.EventNonce.Uint64()"),
     "(*big.Int).Uint64 truncates, it does not panic; the truncated id is then simply not found");
  (("x/crosschain/precompile/increase_bridge_fee.go", "IncreaseBridgeFeeMethod.Run", "NewIntFromBigInt", "sdkmath.NewIntFromBigInt(args.Fee)"),
     "single uint256 from the ABI decoder (or the guarded crossChain sum): at most 256 bits");
  (("x/crosschain/precompile/increase_bridge_fee.go", "IncreaseBridgeFeeMethod.Run", "Uint64", "args.TxID.Uint64()"),
     "(*big.Int).Uint64 truncates, it does not panic; the truncated id is then simply not found");
  (("x/crosschain/precompile/keeper.go", "Keeper.handlerERC20Token", "NewIntFromBigInt", "sdkmath.NewIntFromBigInt(amount)"),
     "single uint256 from the ABI decoder (or the guarded crossChain sum): at most 256 bits");
  (("x/crosschain/precompile/keeper.go", "Keeper.handlerOriginToken", "NewIntFromBigInt", "sdkmath.NewIntFromBigInt(amount)"),
     "single uint256 from the ABI decoder (or the guarded crossChain sum): at most 256 bits");
  (("x/erc20/keeper/keeper.go", "Keeper.TransferAfter", "Add", "coin.Add(fee)"),
     "no caller in non-test code");
  (("x/staking/precompile/delegation.go", "DelegationMethod.Run", "Quo", "delegation.GetShares().MulInt(validator.GetTokens()).Quo(validator.GetDelegatorShares())"),
     "divisor = validator.DelegatorShares, positive whenever the delegation that was just found exists");
  (("x/staking/precompile/keeper.go", "Keeper.NewStakingCoin", "NewIntFromBigInt", "sdkmath.NewIntFromBigInt(amount)"),
     "single uint256 from the ABI decoder (or the guarded crossChain sum): at most 256 bits");
  (("x/staking/precompile/transfer_shares.go", "TransferShare.handlerTransferShares", "Add", "toDel.Shares.Add(shares)"),
     "shares checked against the source delegation before")
 ].

(* `for i := range A { … B[i] … }` in handler code: the validator of the message / argument struct checks len(A) = len(B)
   (v_MsgBridgeCallClaim: "mismatched token contracts and amounts"; v_crosschain_args CA_BridgeCall: "tokens and amounts do not match") *)
Definition length_checked_pairs : list (string * string * string) :=
  [ ("BridgeCallMethod.Run", "args.Tokens", "args.Amounts");
    ("Keeper.BridgeCallHandler", "msg.TokenContracts", "msg.Amounts") ].
