(* M_ValidateHist.v — HISTORICAL: the four fx-core validators as they were BEFORE the repairs of findings
   C20-1 … C20-6 (/repo commits 51457a3, cac8fd3, 02a5a38, d9036ed, 5723147, edafc05).  Nothing here describes the current
   tree; the definitions are kept so that the refutations that established the findings stay machine-checked, and so
   that a regression (one of the guards removed again) can be recognised as exactly one of these variants.
   The current validators are in model/M_Validate.v. *)
From Coq Require Import ZArith List Bool String.
From FxV Require Import model.M_Validate.
Import ListNotations.
Open Scope string_scope.
Open Scope Z_scope.

(* params.go before 51457a3: no IsNil test in front of SlashFraction.IsNegative() / OracleSetUpdatePowerChangePercent.IsNegative() *)
Definition v_Params_pre (m : xparams) : vres :=
  CHECK (pure match p_gravity m with GEmpty => true | _ => false end) FAIL "gravityId cannpt be empty" ;;
  CHECK (pure match p_gravity m with GLong => true | _ => false end) FAIL "string too long" ;;
  CHECK (pure (p_avg_block m <? 100)) FAIL "invalid average block time" ;;
  CHECK (pure (p_batch_timeout m <? 60000)) FAIL "invalid target batch timeout" ;;
  CHECK (pure (p_avg_ext_block m <? 100)) FAIL "invalid average external block time" ;;
  CHECK (pure (p_signed_window m <=? 1)) FAIL "invalid signed window too short" ;;
  CHECK (dec_isneg (p_slash m)) FAIL "attempted to slash with a negative slash factor" ;;
  CHECK (dec_gt_one (p_slash m)) FAIL "slash factor too large" ;;
  CHECK (pure (p_ibc_timeout_height m <=? 1)) FAIL "invalid ibc transfer timeout too short" ;;
  CHECK (dec_isneg (p_power_change m)) FAIL "attempted to powet change percent with a negative" ;;
  CHECK (dec_gt_one (p_power_change m)) FAIL "powet change percent too large" ;;
  CHECK (coin_invalid_or_notpos (p_threshold m)) FAIL "invalid delegate threshold" ;;
  CHECK (pure (negb (cd_id (p_threshold m) =? 0))) FAIL "oracle delegate denom must FX" ;;
  CHECK (pure (p_multiple m <=? 0)) FAIL "invalid delegate multiple" ;;
  CHECK (pure (0 <? p_oracles m)) FAIL "deprecated oracles" ;;
  CHECK (pure (p_bridge_call_timeout m <=? 3600000)) FAIL "invalid bridge call timeout" ;;
  VOk.

(* msgs.go before cac8fd3: m.Value.Sign() != 0 without IsNil; Coins.Validate on possibly-nil amounts *)
Definition v_MsgBridgeCall_pre (m : m_bridge_call) : vres :=
  CHECK (unknown_chain (mb_chain m)) FAIL UC ;;
  CHECK (pure (negb (acc_ok (mb_sender m)))) FAIL "invalid sender address" ;;
  CHECK (pure (negb (ext_ok (mb_chain m) (mb_to m)))) FAIL "invalid to address" ;;
  CHECK (int_nonzero (mb_value m)) FAIL "value must be zero" ;;
  SUBW (coins_validate (mb_coins m)) AS "" ;;
  VOk.   (* the remaining checks cannot panic and are irrelevant to the refutation *)

(* msgs.go before edafc05: the entries of amounts are not looked at *)
Definition v_MsgBridgeCallClaim_pre (m : c_bridge_call) : vres :=
  CHECK (unknown_chain (bc_chain m)) FAIL UC ;;
  CHECK (pure (negb (Nat.eqb (List.length (bc_tokens m)) (List.length (bc_amounts m))))) FAIL "mismatched token contracts and amounts" ;;
  SUB (tokens_loop (bc_chain m) (bc_tokens m)) ;;
  CHECK (pure (negb (acc_ok (bc_bridger m)))) FAIL "invalid bridger address" ;;
  CHECK (pure (negb (ext_ok (bc_chain m) (bc_sender m)))) FAIL "invalid sender address" ;;
  CHECK (pure (negb (ext_ok (bc_chain m) (bc_to m)))) FAIL "invalid to contract" ;;
  CHECK (pure (negb (ext_ok (bc_chain m) (bc_refund m)))) FAIL "invalid refund address" ;;
  CHECK (int_nil_or_neg (bc_value m)) FAIL "invalid value" ;;
  CHECK (pure (negb (hex_ok (bc_data m)))) FAIL "invalid data" ;;
  CHECK (pure (bc_event_nonce m =? 0)) FAIL "zero event nonce" ;;
  CHECK (pure (bc_block_height m =? 0)) FAIL "zero block height" ;;
  CHECK (pure (negb (ext_ok (bc_chain m) (bc_tx_origin m)))) FAIL "invalid tx origin" ;;
  CHECK (pure (negb (hex_ok (bc_memo m)))) FAIL "invalid memo" ;;
  VOk.

(* msg_server.go:Confirm before 02a5a38: msg.Confirm.GetCachedValue() on a nil *Any *)
Definition h_MsgConfirm_entry_pre (m : m_confirm_wrapper) : vres :=
  match mw_confirm m with
  | AnyNil => VPanic
  | AnyOther => VErr "invalid claim"
  | AnyIs _ => VOk
  end.

(* ante/pubkey.go before d9036ed and ante/ante.go before 5723147: no count check in front of the indexing *)
Definition v_PubKeyDecorator_pre (npub nsig : Z) : vres :=
  CHECK (if npub <=? nsig then Val false else Pan) FAIL "" ;; VOk.
Definition v_MultisigGas_pre (size nkeys ntrue nsigs : Z) : vres :=
  CHECK (if (size <=? nkeys) && (ntrue <=? nsigs) then Val false else Pan) FAIL "" ;; VOk.
