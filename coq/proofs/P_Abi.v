(* Proofs about the ABI encoder M_Abi: word/length lemmas and injectivity of `encode`
   for a fixed type signature on well-typed values. *)
From Coq Require Import ZArith List Bool Lia.
From FxV Require Import model.M_Abi.
Import ListNotations.
Open Scope Z_scope.

(* ---------- generic list facts ---------- *)

Lemma app_eq_len {A} : forall (a b c d : list A),
  length a = length b -> a ++ c = b ++ d -> a = b /\ c = d.
Proof.
  induction a as [|x a IH]; intros [|y b] c d HL H; simpl in *; try discriminate.
  - split; auto.
  - injection H as -> H. injection HL as HL. destruct (IH _ _ _ HL H) as [-> ->]. split; auto.
Qed.

(* ---------- big-endian bytes ---------- *)

Lemma be_bytes_S : forall k z, be_bytes (S k) z = be_bytes k (z / 256) ++ [z mod 256].
Proof.
  intros. cbn [be_bytes]. rewrite Z.shiftr_div_pow2 by lia.
  change 255 with (Z.ones 8). rewrite Z.land_ones by lia. reflexivity.
Qed.

Lemma be_bytes_length : forall n z, length (be_bytes n z) = n.
Proof.
  induction n; intros; [reflexivity|]. rewrite be_bytes_S, app_length, IHn. simpl. lia.
Qed.

Lemma word_length : forall z, length (word z) = 32%nat.
Proof. intros. apply be_bytes_length. Qed.

Lemma zlen_word : forall z, zlen (word z) = 32.
Proof. intros. unfold zlen. rewrite word_length. reflexivity. Qed.

Lemma be_val_snoc : forall l b, be_val (l ++ [b]) = be_val l * 256 + b.
Proof. intros. unfold be_val. rewrite fold_left_app. reflexivity. Qed.

Lemma be_val_be_bytes : forall n z, be_val (be_bytes n z) = z mod 256 ^ Z.of_nat n.
Proof.
  induction n; intros.
  - simpl. rewrite Z.mod_1_r. reflexivity.
  - rewrite be_bytes_S. rewrite be_val_snoc, IHn.
    rewrite Nat2Z.inj_succ, Z.pow_succ_r by lia.
    assert (P : 0 < 256 ^ Z.of_nat n) by (apply Z.pow_pos_nonneg; lia).
    rewrite (Z.rem_mul_r z 256 (256 ^ Z.of_nat n)) by lia. lia.
Qed.

Lemma be_bytes_range : forall n z, Forall (in_range 256) (be_bytes n z).
Proof.
  induction n; intros; [constructor|]. rewrite be_bytes_S.
  apply Forall_app. split. apply IHn. constructor; [|constructor].
  unfold in_range. apply Z.mod_pos_bound. lia.
Qed.

Lemma pow256_32 : 256 ^ Z.of_nat 32 = two256.
Proof. reflexivity. Qed.

Lemma be_val_word : forall z, be_val (word z) = z mod two256.
Proof. intros. unfold word. rewrite be_val_be_bytes, pow256_32. reflexivity. Qed.

Lemma word_inj : forall a b, in_range two256 a -> in_range two256 b -> word a = word b -> a = b.
Proof.
  unfold in_range. intros a b Ha Hb H. apply (f_equal be_val) in H.
  rewrite !be_val_word in H. rewrite !Z.mod_small in H by lia. exact H.
Qed.

Lemma word_mod : forall z, word (z mod two256) = word z.
Proof.
  (* be_bytes only looks at z mod 256^n *)
  assert (G : forall n z m, 0 < m -> be_bytes n (z mod (256 ^ Z.of_nat n * m)) = be_bytes n z).
  { induction n; intros z m Hm. reflexivity.
    rewrite !be_bytes_S. rewrite Nat2Z.inj_succ, Z.pow_succ_r by lia.
    assert (P : 0 < 256 ^ Z.of_nat n) by (apply Z.pow_pos_nonneg; lia).
    replace (256 * 256 ^ Z.of_nat n * m) with (256 * (256 ^ Z.of_nat n * m)) by ring.
    rewrite (Z.rem_mul_r z 256 (256 ^ Z.of_nat n * m)) by nia.
    f_equal.
    - replace (z mod 256 + 256 * ((z / 256) mod (256 ^ Z.of_nat n * m)))
        with ((z / 256) mod (256 ^ Z.of_nat n * m) * 256 + z mod 256) by ring.
      rewrite Z.div_add_l by lia. rewrite (Z.div_small (z mod 256)) by (apply Z.mod_pos_bound; lia).
      rewrite Z.add_0_r. apply IHn. exact Hm.
    - f_equal. set (q := (z / 256) mod (256 ^ Z.of_nat n * m)).
      replace (z mod 256 + 256 * q) with (z mod 256 + q * 256) by ring.
      rewrite Z_mod_plus_full. apply Z.mod_mod. lia. }
  intros z. unfold word. pose proof (G 32%nat z 1 ltac:(lia)) as G1. rewrite Z.mul_1_r in G1. exact G1.
Qed.

Lemma sbound_le : forall s, sbound s <= two256.
Proof. destruct s; unfold sbound, two160, two256; lia. Qed.

Lemma range_weaken : forall s z, in_range (sbound s) z -> in_range two256 z.
Proof. unfold in_range. intros s z H. pose proof (sbound_le s). lia. Qed.

(* ---------- self-delimiting tails ---------- *)

Lemma flat_words_length : forall ws, length (flat_map word ws) = (32 * length ws)%nat.
Proof. induction ws; cbn [flat_map length]; auto. rewrite app_length, word_length, IHws. lia. Qed.

Lemma words_prefix : forall ws ws' r r',
  length ws = length ws' ->
  Forall (in_range two256) ws -> Forall (in_range two256) ws' ->
  flat_map word ws ++ r = flat_map word ws' ++ r' -> ws = ws' /\ r = r'.
Proof.
  induction ws as [|w ws IH]; intros [|w' ws'] r r' HL F F' H; cbn [flat_map length app] in *; try discriminate.
  - auto.
  - injection HL as HL. inversion F; inversion F'; subst.
    rewrite <- !app_assoc in H.
    destruct (app_eq_len _ _ _ _ (eq_trans (word_length w) (eq_sym (word_length w'))) H) as [Hw Hr].
    apply word_inj in Hw; auto. subst w'.
    destruct (IH _ _ _ HL H3 H7 Hr) as [-> ->]. auto.
Qed.

Lemma pad32_length_eq : forall bs bs', length bs = length bs' -> length (pad32 bs) = length (pad32 bs').
Proof. intros. unfold pad32, zlen. rewrite !app_length, !repeat_length, H. reflexivity. Qed.

Lemma pad32_prefix : forall bs bs' r r',
  length bs = length bs' -> pad32 bs ++ r = pad32 bs' ++ r' -> bs = bs' /\ r = r'.
Proof.
  intros bs bs' r r' HL H.
  destruct (app_eq_len _ _ _ _ (pad32_length_eq _ _ HL) H) as [Hp Hr].
  unfold pad32 in Hp. destruct (app_eq_len _ _ _ _ HL Hp) as [Hb _]. auto.
Qed.

Lemma zlen_inj {A} : forall (a b : list A), zlen a = zlen b -> length a = length b.
Proof. unfold zlen. intros. lia. Qed.

Lemma zlen_range {A} : forall (a : list A), zlen a < two256 -> in_range two256 (zlen a).
Proof. unfold in_range, zlen. intros. lia. Qed.

Lemma enc_dyn_prefix : forall t v v' r r',
  is_dyn t = true -> wt t v -> wt t v' ->
  enc_dyn v ++ r = enc_dyn v' ++ r' -> v = v' /\ r = r'.
Proof.
  intros t v v' r r' D W W' H.
  destruct t as [s|s|]; try discriminate; destruct v; try contradiction; destruct v'; try contradiction;
    cbn [wt enc_dyn] in *; destruct W as [F L]; destruct W' as [F' L']; rewrite <- !app_assoc in H.
  - destruct (app_eq_len _ _ _ _ (eq_trans (word_length _) (eq_sym (word_length _))) H) as [Hn Hr].
    apply word_inj in Hn; try (apply zlen_range; assumption). apply zlen_inj in Hn.
    assert (G : Forall (in_range two256) ws /\ Forall (in_range two256) ws0).
    { split; eapply Forall_impl; try eassumption; intros; eapply range_weaken; eauto. }
    destruct G as [G G'].
    destruct (words_prefix _ _ _ _ Hn G G' Hr) as [-> ->]. auto.
  - destruct (app_eq_len _ _ _ _ (eq_trans (word_length _) (eq_sym (word_length _))) H) as [Hn Hr].
    apply word_inj in Hn; try (apply zlen_range; assumption). apply zlen_inj in Hn.
    destruct (pad32_prefix _ _ _ _ Hn Hr) as [-> ->]. auto.
Qed.

(* ---------- heads ---------- *)

Lemma enc_static_length : forall v, length (enc_static v) = 32%nat.
Proof. destruct v; apply word_length. Qed.

Lemma enc_heads_length : forall a off, length (enc_heads a off) = (32 * length a)%nat.
Proof.
  induction a as [|[t v] a IH]; intros; cbn [enc_heads length]; [reflexivity|].
  destruct (is_dyn t); rewrite app_length, ?word_length, ?enc_static_length, IH; lia.
Qed.

Lemma encode_length : forall a,
  length (encode a) = (32 * length a + length (enc_tails a))%nat.
Proof. intros. unfold encode. rewrite app_length, enc_heads_length. reflexivity. Qed.

(* the encoding of a tuple whose first k components are static starts with those k words *)
Lemma encode_static_head : forall t z r,
  is_dyn t = false -> exists rest, encode ((t, VW z) :: r) = word z ++ rest.
Proof.
  intros. unfold encode. cbn [enc_heads]. rewrite H. cbn [enc_static].
  rewrite <- app_assoc. eexists. reflexivity.
Qed.

Lemma encode_static_head2 : forall t1 z1 t2 z2 r,
  is_dyn t1 = false -> is_dyn t2 = false ->
  exists rest, encode ((t1, VW z1) :: (t2, VW z2) :: r) = word z1 ++ word z2 ++ rest.
Proof.
  intros. unfold encode. cbn [enc_heads]. rewrite H, H0. cbn [enc_static].
  rewrite <- !app_assoc. eexists. reflexivity.
Qed.

(* ---------- injectivity ---------- *)

Lemma encode_inj_aux : forall a b offa offb,
  sig_of a = sig_of b -> wt_args a -> wt_args b ->
  enc_heads a offa = enc_heads b offb -> enc_tails a = enc_tails b -> a = b.
Proof.
  induction a as [|[t v] a IH]; intros [|[t' v'] b] offa offb S W W' HH HT; simpl in S; try discriminate; auto.
  injection S as <- S. inversion W as [|? ? Wv Wa]; inversion W' as [|? ? Wv' Wb]; subst. cbn [fst snd] in *.
  cbn [enc_heads enc_tails] in HH, HT. destruct (is_dyn t) eqn:D.
  - destruct (app_eq_len _ _ _ _ (eq_trans (word_length _) (eq_sym (word_length _))) HH) as [_ HH'].
    destruct (enc_dyn_prefix _ _ _ _ _ D Wv Wv' HT) as [-> HT'].
    f_equal. eapply IH; eauto.
  - destruct t; try discriminate. destruct v; try contradiction. destruct v'; try contradiction.
    cbn [enc_static wt] in *.
    destruct (app_eq_len _ _ _ _ (eq_trans (word_length _) (eq_sym (word_length _))) HH) as [Hw HH'].
    apply word_inj in Hw; try (eapply range_weaken; eassumption). subst.
    f_equal. eapply IH; eauto.
Qed.

Theorem encode_injective : forall a b,
  sig_of a = sig_of b -> wt_args a -> wt_args b -> encode a = encode b -> a = b.
Proof.
  intros a b S W W' H. unfold encode in H.
  assert (L : length a = length b).
  { unfold sig_of in S. apply (f_equal (@length ty)) in S. rewrite !map_length in S. exact S. }
  assert (LH : length (enc_heads a (32 * zlen a)) = length (enc_heads b (32 * zlen b))).
  { rewrite !enc_heads_length, L. reflexivity. }
  destruct (app_eq_len _ _ _ _ LH H) as [HH HT].
  eapply encode_inj_aux; eauto.
Qed.

(* contrapositive, the form the property uses: a different well-typed argument tuple of the
   same signature has a different pre-image *)
Corollary encode_separates : forall a b,
  sig_of a = sig_of b -> wt_args a -> wt_args b -> a <> b -> encode a <> encode b.
Proof. intros a b S W W' N E. apply N. apply encode_injective; auto. Qed.

Lemma wtb_wt : forall t v, wtb t v = true -> wt t v.
Proof.
  assert (R : forall b z, in_rangeb b z = true -> in_range b z).
  { unfold in_rangeb, in_range. intros. apply andb_prop in H. destruct H. lia. }
  assert (F : forall b l, forallb (in_rangeb b) l = true -> Forall (in_range b) l).
  { intros. apply Forall_forall. intros x Hx. rewrite forallb_forall in H. auto. }
  destruct t, v; simpl; intros H; try discriminate; auto;
    apply andb_prop in H; destruct H as [H1 H2]; split; auto; lia.
Qed.

Lemma wt_argsb_wt : forall a, wt_argsb a = true -> wt_args a.
Proof.
  unfold wt_argsb, wt_args. intros. apply Forall_forall. intros x Hx.
  rewrite forallb_forall in H. apply wtb_wt. auto.
Qed.
