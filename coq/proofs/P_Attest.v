(* P_Attest: lemmas and proofs about model.M_Attest (properties C01, C02). *)
From Coq Require Import ZArith List Bool Lia FinFun.
From FxV Require Import model.M_Attest.
Import ListNotations.
Open Scope Z_scope.

(* ------------------------------------------------------------------ *)
(* association lists                                                    *)
(* ------------------------------------------------------------------ *)
Section AssocLemmas.
  Context {K V : Type} (eqb : K -> K -> bool).
  Hypothesis eqb_spec : forall a b, eqb a b = true <-> a = b.

  Lemma eqb_refl' : forall a, eqb a a = true.
  Proof. intro a. apply eqb_spec. reflexivity. Qed.

  Lemma eqb_neq : forall a b, a <> b -> eqb a b = false.
  Proof. intros a b H. destruct (eqb a b) eqn:E; auto. apply eqb_spec in E. contradiction. Qed.

  Lemma eqb_false_neq : forall a b, eqb a b = false -> a <> b.
  Proof. intros a b H E. subst. rewrite eqb_refl' in H. discriminate. Qed.

  Lemma aget_adel_same : forall k (l : list (K * V)), aget eqb k (adel eqb k l) = None.
  Proof.
    intros k l. unfold adel. induction l as [|[k' v] r IH]; cbn; auto.
    destruct (eqb k k') eqn:E; cbn; auto. rewrite E. exact IH.
  Qed.

  Lemma aget_adel_other : forall k k' (l : list (K * V)), k <> k' -> aget eqb k' (adel eqb k l) = aget eqb k' l.
  Proof.
    intros k k' l N. unfold adel. induction l as [|[k2 v] r IH]; cbn; auto.
    destruct (eqb k k2) eqn:E; cbn.
    - apply eqb_spec in E. subst k2. rewrite (eqb_neq k' k) by congruence. exact IH.
    - destruct (eqb k' k2); auto.
  Qed.

  Lemma aget_aset_same : forall k v (l : list (K * V)), aget eqb k (aset eqb k v l) = Some v.
  Proof. intros. unfold aset. cbn. rewrite eqb_refl'. reflexivity. Qed.

  Lemma aget_aset_other : forall k k' v (l : list (K * V)), k <> k' -> aget eqb k' (aset eqb k v l) = aget eqb k' l.
  Proof.
    intros. unfold aset. cbn. rewrite (eqb_neq k' k) by congruence. apply aget_adel_other; auto.
  Qed.

  Lemma aget_In : forall k v (l : list (K * V)), aget eqb k l = Some v -> In (k, v) l.
  Proof.
    intros k v l. induction l as [|[k' v'] r IH]; cbn; intro H; try discriminate.
    destruct (eqb k k') eqn:E.
    - apply eqb_spec in E. inversion H. subst. left. reflexivity.
    - right. auto.
  Qed.

  Lemma aget_None_notin : forall k (l : list (K * V)), aget eqb k l = None -> ~ In k (map fst l).
  Proof.
    intros k l. induction l as [|[k' v'] r IH]; cbn; intros H; auto.
    destruct (eqb k k') eqn:E; try discriminate.
    intros [A | A]; [apply (eqb_false_neq _ _ E); auto | apply IH; auto].
  Qed.

  Lemma notin_aget_None : forall k (l : list (K * V)), ~ In k (map fst l) -> aget eqb k l = None.
  Proof.
    intros k l. induction l as [|[k' v'] r IH]; cbn; intros H; auto.
    destruct (eqb k k') eqn:E.
    - apply eqb_spec in E. subst. exfalso. apply H. left. reflexivity.
    - apply IH. intro A. apply H. right. exact A.
  Qed.

  (* filtering by a predicate on the key *)
  Lemma aget_filter_key : forall (g : K -> bool) k (l : list (K * V)),
    aget eqb k (filter (fun p => g (fst p)) l) = if g k then aget eqb k l else None.
  Proof.
    intros g k l. induction l as [|[k' v] r IH]; cbn.
    - destruct (g k); reflexivity.
    - destruct (g k') eqn:G; cbn.
      + destruct (eqb k k') eqn:E.
        * apply eqb_spec in E. subst. rewrite G. reflexivity.
        * exact IH.
      + destruct (eqb k k') eqn:E.
        * apply eqb_spec in E. subst. rewrite G in *. exact IH.
        * exact IH.
  Qed.

  Lemma keys_adel_incl : forall k (l : list (K * V)) x, In x (map fst (adel eqb k l)) -> In x (map fst l).
  Proof.
    intros k l x. unfold adel. rewrite in_map_iff. intros [p [E H]]. apply filter_In in H.
    rewrite in_map_iff. exists p. tauto.
  Qed.

  Lemma NoDup_keys_adel : forall k (l : list (K * V)), NoDup (map fst l) -> NoDup (map fst (adel eqb k l)).
  Proof.
    intros k l. unfold adel. induction l as [|[k' v] r IH]; cbn; intro H; auto.
    inversion H; subst. destruct (negb (eqb k k')); cbn; auto.
    constructor; auto. intro A. apply H2. apply (keys_adel_incl k). exact A.
  Qed.

  Lemma NoDup_keys_aset : forall k v (l : list (K * V)), NoDup (map fst l) -> NoDup (map fst (aset eqb k v l)).
  Proof.
    intros. unfold aset. cbn. constructor.
    - apply aget_None_notin. apply aget_adel_same.
    - apply NoDup_keys_adel. assumption.
  Qed.

  Lemma In_adel : forall k p (l : list (K * V)), In p (adel eqb k l) -> In p l /\ fst p <> k.
  Proof.
    intros k p l H. unfold adel in H. apply filter_In in H. destruct H as [H1 H2]. split; auto.
    intro E. subst. rewrite eqb_refl' in H2. discriminate.
  Qed.

  Lemma aget_map_val : forall (f : K * V -> V) k (l : list (K * V)),
    aget eqb k (map (fun p => (fst p, f p)) l) =
    match aget eqb k l with Some v => Some (f (k, v)) | None => None end.
  Proof.
    intros f k l. induction l as [|[k' v] r IH]; cbn; auto.
    destruct (eqb k k') eqn:E; auto. apply eqb_spec in E. subst. reflexivity.
  Qed.
End AssocLemmas.

Lemma zeqb_spec : forall a b : Z, Z.eqb a b = true <-> a = b.
Proof. intros. apply Z.eqb_eq. Qed.

Lemma keq_spec : forall a b : Z * Z, keq a b = true <-> a = b.
Proof.
  intros [a1 a2] [b1 b2]. unfold keq. cbn. rewrite andb_true_iff, !Z.eqb_eq.
  split; [intros [? ?]; subst; reflexivity | intro H; inversion H; auto].
Qed.

Lemma zmem_In : forall x l, zmem x l = true <-> In x l.
Proof.
  intros x l. unfold zmem. rewrite existsb_exists. split.
  - intros [y [H E]]. apply Z.eqb_eq in E. subst. exact H.
  - intro H. exists x. split; auto. apply Z.eqb_refl.
Qed.

(* ------------------------------------------------------------------ *)
(* runs                                                                 *)
(* ------------------------------------------------------------------ *)
Lemma run_app : forall c h1 h2 s, run c s (h1 ++ h2) = run c (run c s h1) h2.
Proof. intros. unfold run. apply fold_left_app. Qed.

Lemma run_snoc : forall c h x s, run c s (h ++ [x]) = fst (step c (run c s h) x).
Proof. intros. rewrite run_app. reflexivity. Qed.

Lemma run_inv : forall (P : st -> Prop) c s0,
  P s0 -> (forall s x, P s -> P (fst (step c s x))) -> forall h, P (run c s0 h).
Proof.
  intros P c s0 H0 Hs h. revert s0 H0. induction h as [|x r IH]; intros s0 H0; cbn; auto.
  apply IH. apply Hs. exact H0.
Qed.

(* guard on histories: a predicate that every operation must satisfy in the state it is applied to *)
Fixpoint guarded (c : cfg) (safe : st -> op -> Prop) (s : st) (h : list op) : Prop :=
  match h with
  | [] => True
  | x :: r => safe s x /\ guarded c safe (fst (step c s x)) r
  end.

Lemma run_inv_guarded : forall (P : st -> Prop) (safe : st -> op -> Prop) c,
  (forall s x, P s -> safe s x -> P (fst (step c s x))) ->
  forall h s0, P s0 -> guarded c safe s0 h -> P (run c s0 h).
Proof.
  intros P safe c Hs h. induction h as [|x r IH]; intros s0 H0 G; cbn in *; auto.
  destruct G as [G1 G2]. apply IH; auto.
Qed.

(* destruct every match in the goal *)
Ltac dm := repeat match goal with
  | |- context [match ?x with _ => _ end] => destruct x eqn:?
  end.
Ltac prj := cbn [fst snd proposal oracles by_bridger by_ext last_total last_obs last_by atts pending
                 applied effects vlog refresh with_oracles] in *.

(* ------------------------------------------------------------------ *)
(* frame facts: what each operation leaves alone                        *)
(* ------------------------------------------------------------------ *)
Definition tally_core (s s' : st) : Prop :=
  last_obs s' = last_obs s /\ atts s' = atts s /\ applied s' = applied s /\ vlog s' = vlog s.

Lemma exec_core : forall s n ok, tally_core s (fst (exec s n ok)) /\ last_by (fst (exec s n ok)) = last_by s.
Proof. intros. unfold exec, tally_core. dm; prj; auto. Qed.
Lemma bond_core : forall c s o b e k, tally_core s (fst (bond c s o b e k)) /\ last_by (fst (bond c s o b e k)) = last_by s
  /\ pending (fst (bond c s o b e k)) = pending s /\ effects (fst (bond c s o b e k)) = effects s.
Proof. intros. unfold bond, tally_core. dm; prj; auto 10. Qed.
Lemma add_core : forall c s o a, tally_core s (fst (add_delegate c s o a)) /\ last_by (fst (add_delegate c s o a)) = last_by s
  /\ pending (fst (add_delegate c s o a)) = pending s /\ effects (fst (add_delegate c s o a)) = effects s.
Proof. intros. unfold add_delegate, tally_core. dm; prj; auto 10. Qed.
Lemma slash_core : forall s l, tally_core s (fst (slash_pass s l)) /\ last_by (fst (slash_pass s l)) = last_by s
  /\ pending (fst (slash_pass s l)) = pending s /\ effects (fst (slash_pass s l)) = effects s.
Proof. intros. unfold slash_pass, tally_core. dm; prj; auto 10. Qed.
Lemma gov_core : forall s l, tally_core s (fst (gov_set s l)) /\ last_by (fst (gov_set s l)) = last_by s
  /\ pending (fst (gov_set s l)) = pending s /\ effects (fst (gov_set s l)) = effects s.
Proof. intros. unfold gov_set, tally_core. dm; prj; auto 10. Qed.
Lemma unbond_core : forall c s o, tally_core s (fst (unbond c s o))
  /\ pending (fst (unbond c s o)) = pending s /\ effects (fst (unbond c s o)) = effects s.
Proof. intros. unfold unbond, tally_core. dm; prj; auto 10. Qed.
Lemma edit_core : forall s o b, tally_core s (fst (edit_bridger s o b)) /\ last_by (fst (edit_bridger s o b)) = last_by s
  /\ pending (fst (edit_bridger s o b)) = pending s /\ effects (fst (edit_bridger s o b)) = effects s.
Proof. intros. unfold edit_bridger, tally_core. dm; prj; auto 10. Qed.

(* the shape of an accepted / rejected vote *)
Definition cast (s : st) (nonce cls o : Z) : att :=
  {| a_obs := match aget keq (nonce, cls) (atts s) with Some a => a_obs a | None => false end;
     a_votes := (match aget keq (nonce, cls) (atts s) with Some a => a_votes a | None => [] end) ++ [o] |}.

Inductive vote_shape (s : st) (b n cl : Z) (park : bool) (s' : st) : res -> Prop :=
| VRej : forall e, s' = s -> vote_shape s b n cl park s' (Err e)
| VKeep : forall o rec,
    aget Z.eqb b (by_bridger s) = Some o -> aget Z.eqb o (oracles s) = Some rec -> o_online rec = true ->
    n = cursor s o + 1 ->
    (a_obs (cast s n cl o) = true \/ n <> last_obs s + 1 \/
     tally (oracles s) (required s) 0 (a_votes (cast s n cl o)) = None) ->
    last_obs s' = last_obs s -> applied s' = applied s ->
    atts s' = aset keq (n, cl) (cast s n cl o) (atts s) ->
    last_by s' = aset Z.eqb o n (last_by s) -> pending s' = pending s -> effects s' = effects s ->
    vlog s' = vlog s ++ [(o, n)] ->
    oracles s' = oracles s -> last_total s' = last_total s -> by_bridger s' = by_bridger s ->
    by_ext s' = by_ext s -> proposal s' = proposal s ->
    vote_shape s b n cl park s' Ok
| VFlip : forall o rec p,
    aget Z.eqb b (by_bridger s) = Some o -> aget Z.eqb o (oracles s) = Some rec -> o_online rec = true ->
    n = cursor s o + 1 ->
    a_obs (cast s n cl o) = false -> n = last_obs s + 1 ->
    tally (oracles s) (required s) 0 (a_votes (cast s n cl o)) = Some p ->
    last_obs s' = n -> applied s' = applied s ++ [(n, cl)] ->
    atts s' = prune n (aset keq (n, cl) {| a_obs := true; a_votes := a_votes (cast s n cl o) |}
                         (aset keq (n, cl) (cast s n cl o) (atts s))) ->
    last_by s' = aset Z.eqb o n (last_by s) ->
    pending s' = (if park then aset Z.eqb n cl (pending s) else pending s) -> effects s' = effects s ->
    vlog s' = vlog s ++ [(o, n)] ->
    oracles s' = oracles s -> last_total s' = last_total s -> by_bridger s' = by_bridger s ->
    by_ext s' = by_ext s -> proposal s' = proposal s ->
    vote_shape s b n cl park s' Ok.

Lemma vote_cases : forall s b n cl park ms,
  vote_shape s b n cl park (fst (vote s b n cl park ms)) (snd (vote s b n cl park ms)).
Proof.
  intros. unfold vote.
  destruct (aget Z.eqb b (by_bridger s)) as [o|] eqn:Hb; [|constructor; reflexivity].
  destruct (aget Z.eqb o (oracles s)) as [rec|] eqn:Ho; [|constructor; reflexivity].
  destruct (o_online rec) eqn:Hon; cbn [negb]; [|constructor; reflexivity].
  destruct (forallb _ ms); cbn [negb]; [|constructor; reflexivity].
  destruct (n =? cursor s o + 1) eqn:Hn; cbn [negb]; [|constructor; reflexivity].
  apply Z.eqb_eq in Hn.
  fold (cast s n cl o).
  assert (Hc : {| a_obs := a_obs match aget keq (n, cl) (atts s) with Some a => a | None => {| a_obs := false; a_votes := [] |} end;
                  a_votes := a_votes match aget keq (n, cl) (atts s) with Some a => a | None => {| a_obs := false; a_votes := [] |} end ++ [o] |}
               = cast s n cl o).
  { unfold cast. destruct (aget keq (n, cl) (atts s)); reflexivity. }
  rewrite Hc. cbn [a_obs a_votes].
  destruct (a_obs (cast s n cl o)) eqn:Hobs; cbn [negb andb].
  - cbn [fst snd]. eapply VKeep; eauto.
  - destruct (n =? last_obs s + 1) eqn:Hl.
    + apply Z.eqb_eq in Hl.
      destruct (tally (oracles s) (required s) 0 (a_votes (cast s n cl o))) as [p|] eqn:Ht; cbn [fst snd].
      * eapply VFlip; eauto.
      * eapply VKeep; eauto.
    + apply Z.eqb_neq in Hl. cbn [fst snd]. eapply VKeep; eauto.
Qed.

Ltac vote_inv V :=
  inversion V as [e Hs Hres
                 | o rec Hb Ho Hon Hn Hk Hlo Hap Hat Hlb Hpe Hef Hvl Hor Hto Hbb Hbe Hpr Hres
                 | o rec p Hb Ho Hon Hn Hobs Hnext Ht Hlo Hap Hat Hlb Hpe Hef Hvl Hor Hto Hbb Hbe Hpr Hres].

Lemma step_nonvote_core : forall c s x,
  match x with Vote _ _ _ _ _ => False | _ => True end -> tally_core s (fst (step c s x)).
Proof.
  intros c s x H. destruct x; cbn [step]; try contradiction.
  - apply exec_core.
  - apply bond_core.
  - apply add_core.
  - apply slash_core.
  - unfold tally_core; prj; auto.
  - apply gov_core.
  - apply unbond_core.
  - apply edit_core.
Qed.

(* in a goal about (step c s x) with x not a vote: bring the frame facts into the context *)
Ltac nonvote_core c s :=
  match goal with
  | |- context [step c s ?x] =>
      let A := fresh "Flo" in let B := fresh "Fat" in let C := fresh "Fap" in let D := fresh "Fvl" in
      destruct (step_nonvote_core c s x I) as [A [B [C D]]]
  | H : context [step c s ?x] |- _ =>
      let A := fresh "Flo" in let B := fresh "Fat" in let C := fresh "Fap" in let D := fresh "Fvl" in
      destruct (step_nonvote_core c s x I) as [A [B [C D]]]
  end.

Lemma keq_neq : forall a b, keq a b = false -> a <> b.
Proof. intros a b E F. rewrite F in E. rewrite (eqb_refl' keq keq_spec) in E. discriminate. Qed.

(* ------------------------------------------------------------------ *)
(* C01 (1): last observed nonce advances by 0 or 1; applied log = 1..n   *)
(* ------------------------------------------------------------------ *)
Theorem lastobs_step : forall c s x,
  last_obs (fst (step c s x)) = last_obs s \/ last_obs (fst (step c s x)) = last_obs s + 1.
Proof.
  intros c s x. destruct x; try (left; nonvote_core c s; assumption).
  cbn [step]. pose proof (vote_cases s bridger nonce cls park members) as V.
  vote_inv V.
  - left. congruence.
  - left. assumption.
  - right. congruence.
Qed.

(* an event takes effect (lastObs moves) only through an accepted vote on exactly lastObs+1,
   and that very claim is appended to the applied log *)
Theorem advance_only_by_next_vote : forall c s x,
  last_obs (fst (step c s x)) <> last_obs s ->
  exists b cl park ms, x = Vote b (last_obs s + 1) cl park ms /\ snd (step c s x) = Ok /\
    applied (fst (step c s x)) = applied s ++ [(last_obs s + 1, cl)].
Proof.
  intros c s x H. destruct x; try (exfalso; apply H; nonvote_core c s; assumption).
  cbn [step] in *. pose proof (vote_cases s bridger nonce cls park members) as V.
  vote_inv V.
  - exfalso. apply H. congruence.
  - exfalso. apply H. assumption.
  - exists bridger, cls, park, members. repeat split; auto; congruence.
Qed.

Definition seqZ (n : nat) : list Z := map Z.of_nat (seq 1 n).

Lemma seqZ_S : forall n, seqZ (S n) = seqZ n ++ [Z.of_nat (S n)].
Proof. intro n. unfold seqZ. rewrite seq_S, map_app. reflexivity. Qed.

Definition inv_log (s : st) : Prop :=
  map fst (applied s) = seqZ (length (applied s)) /\ last_obs s = Z.of_nat (length (applied s)).

Lemma inv_log_step : forall c s x, inv_log s -> inv_log (fst (step c s x)).
Proof.
  intros c s x [I1 I2].
  destruct x; try (nonvote_core c s; unfold inv_log; rewrite Flo, Fap; auto).
  cbn [step]. pose proof (vote_cases s bridger nonce cls park members) as V.
  vote_inv V; unfold inv_log.
  - rewrite Hs. auto.
  - rewrite Hlo, Hap. auto.
  - rewrite Hlo, Hap. rewrite app_length, map_app. cbn [length map fst].
    replace (length (applied s) + 1)%nat with (S (length (applied s))) by lia.
    rewrite seqZ_S, I1. split; [f_equal; f_equal; lia | lia].
Qed.

Theorem applied_log : forall c h,
  let s := run c init h in
  map fst (applied s) = seqZ (Z.to_nat (last_obs s)) /\ 0 <= last_obs s /\
  length (applied s) = Z.to_nat (last_obs s).
Proof.
  intros c h s.
  assert (I : inv_log s).
  { apply run_inv; [split; reflexivity | intros; apply inv_log_step; assumption]. }
  destruct I as [I1 I2]. rewrite I2, Nat2Z.id. repeat split; auto. lia.
Qed.

Lemma seqZ_NoDup : forall n, NoDup (seqZ n).
Proof.
  intro n. unfold seqZ. apply Injective_map_NoDup.
  - intros a b. apply Nat2Z.inj.
  - apply seq_NoDup.
Qed.

Lemma NoDup_fst_inj : forall (l : list (Z * Z)) k a b,
  NoDup (map fst l) -> In (k, a) l -> In (k, b) l -> a = b.
Proof.
  induction l as [|[k' v] r IH]; cbn; intros k a b N Ha Hb; [contradiction|].
  inversion N; subst.
  destruct Ha as [Ha|Ha], Hb as [Hb|Hb].
  - congruence.
  - inversion Ha; subst. exfalso. apply H1. apply in_map_iff. exists (k, b). auto.
  - inversion Hb; subst. exfalso. apply H1. apply in_map_iff. exists (k, a). auto.
  - eapply IH; eauto.
Qed.

(* ------------------------------------------------------------------ *)
(* C01 (2): at most one observed attestation per nonce                   *)
(* ------------------------------------------------------------------ *)
Definition inv_obs (s : st) : Prop :=
  forall n cl a, aget keq (n, cl) (atts s) = Some a -> a_obs a = true -> In (n, cl) (applied s).

Lemma aget_prune : forall lobs k l,
  aget keq k (prune lobs l) = if (lobs <=? max_keep) || (lobs - max_keep <? fst k) then aget keq k l else None.
Proof.
  intros lobs k l. unfold prune. destruct (lobs <=? max_keep); cbn [orb]; auto.
  rewrite (aget_filter_key keq keq_spec (fun k => lobs - max_keep <? fst k)). reflexivity.
Qed.

Lemma aget_prune_Some : forall lobs k l a, aget keq k (prune lobs l) = Some a -> aget keq k l = Some a.
Proof. intros lobs k l a. rewrite aget_prune. destruct (_ || _); [auto | discriminate]. Qed.

(* what is stored under a key after a vote on (n, cl): either the attestation voted on, or what was there *)
Lemma cast_obs : forall s n cl o, a_obs (cast s n cl o) = true ->
  exists a, aget keq (n, cl) (atts s) = Some a /\ a_obs a = true.
Proof.
  intros s n cl o H. unfold cast in H. cbn [a_obs] in H.
  destruct (aget keq (n, cl) (atts s)) eqn:G; [eauto | discriminate].
Qed.

Lemma inv_obs_step : forall c s x, inv_obs s -> inv_obs (fst (step c s x)).
Proof.
  intros c s x IH.
  destruct x; try (nonvote_core c s; unfold inv_obs; rewrite Fat, Fap; exact IH).
  cbn [step]. pose proof (vote_cases s bridger nonce cls park members) as V.
  vote_inv V; unfold inv_obs; intros n cl a Hg Hoa.
  - rewrite Hs in *. eauto.
  - rewrite Hap. rewrite Hat in Hg.
    destruct (keq (nonce, cls) (n, cl)) eqn:E.
    + apply keq_spec in E. inversion E; subst n cl.
      rewrite (aget_aset_same keq keq_spec) in Hg. inversion Hg; subst a.
      apply cast_obs in Hoa. destruct Hoa as [a0 [G O]]. eapply IH; eauto.
    + apply keq_neq in E. rewrite (aget_aset_other keq keq_spec) in Hg by exact E. eapply IH; eauto.
  - rewrite Hap. apply in_or_app. rewrite Hat in Hg. apply aget_prune_Some in Hg.
    destruct (keq (nonce, cls) (n, cl)) eqn:E.
    + apply keq_spec in E. inversion E; subst. right. left. reflexivity.
    + left. apply keq_neq in E.
      rewrite !(aget_aset_other keq keq_spec) in Hg by exact E. eapply IH; eauto.
Qed.

Theorem one_observed_per_nonce : forall c h n c1 c2 a1 a2,
  let s := run c init h in
  aget keq (n, c1) (atts s) = Some a1 -> a_obs a1 = true ->
  aget keq (n, c2) (atts s) = Some a2 -> a_obs a2 = true -> c1 = c2.
Proof.
  intros c h n c1 c2 a1 a2 s H1 O1 H2 O2.
  assert (I : inv_obs s).
  { apply run_inv; [intros ? ? ? G; discriminate G | intros; apply inv_obs_step; assumption]. }
  pose proof (applied_log c h) as [L _]. fold s in L.
  eapply NoDup_fst_inj; [rewrite L; apply seqZ_NoDup | eapply I; eauto | eapply I; eauto].
Qed.

(* an attestation becomes observed only by the step that moves lastObs onto its nonce *)
Theorem observed_only_next : forall c s x n cl a',
  aget keq (n, cl) (atts (fst (step c s x))) = Some a' -> a_obs a' = true ->
  (exists a, aget keq (n, cl) (atts s) = Some a /\ a_obs a = true) \/
  (n = last_obs s + 1 /\ last_obs (fst (step c s x)) = n).
Proof.
  intros c s x n cl a' Hg Hoa.
  destruct x; try (nonvote_core c s; rewrite Fat in Hg; left; eauto).
  cbn [step] in *. pose proof (vote_cases s bridger nonce cls park members) as V.
  vote_inv V.
  - rewrite Hs in Hg. left; eauto.
  - rewrite Hat in Hg. destruct (keq (nonce, cls) (n, cl)) eqn:E.
    + apply keq_spec in E. inversion E; subst n cl.
      rewrite (aget_aset_same keq keq_spec) in Hg. inversion Hg; subst a'.
      left. eapply cast_obs; eauto.
    + apply keq_neq in E. rewrite (aget_aset_other keq keq_spec) in Hg by exact E. left; eauto.
  - rewrite Hat in Hg. apply aget_prune_Some in Hg.
    destruct (keq (nonce, cls) (n, cl)) eqn:E.
    + apply keq_spec in E. inversion E; subst n cl. right. split; auto.
    + apply keq_neq in E.
      rewrite !(aget_aset_other keq keq_spec) in Hg by exact E. left; eauto.
Qed.
